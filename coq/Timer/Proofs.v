(* Lemmas about Timer/Model.v (C17). *)
From Coq Require Import List NArith ZArith Bool Lia.
From SSV Require Import Gen.TimerConsts Timer.Model.
Import ListNotations.
Local Open Scope Z_scope.

(* ---- deadlines --------------------------------------------------------------------------------- *)

Definition slot_based (ro : role) : Prop :=
  match ro with RProposer | ROther => False | _ => True end.

Lemma deadline_slot_based : forall o b ro now h r, slot_based ro ->
  exists bd, base_duration b ro = Some bd /\
    deadline o b ro now h r = slot_start b h + bd + additional o r.
Proof.
  intros o b ro now h r H. unfold deadline.
  destruct ro; simpl in H; try contradiction; eexists; split; reflexivity.
Qed.

Lemma deadline_relative : forall o b ro now h r, ~ slot_based ro ->
  deadline o b ro now h r = now + (if (r <=? o_threshold o)%N then o_quick o else o_slow o).
Proof.
  intros o b ro now h r H. destruct ro; simpl in H; try (exfalso; apply H; exact I); reflexivity.
Qed.

Lemma round_timeout_deadline : forall o b ro now h r,
  now + round_timeout o b ro now h r = deadline o b ro now h r.
Proof. intros. unfold round_timeout. lia. Qed.

Lemma additional_quick : forall o r, (r <= o_threshold o)%N -> additional o r = Z.of_N r * o_quick o.
Proof. intros o r H. unfold additional. apply N.leb_le in H. rewrite H. reflexivity. Qed.

Lemma additional_slow : forall o r, (o_threshold o < r)%N ->
  additional o r = Z.of_N (o_threshold o) * o_quick o + Z.of_N (r - o_threshold o) * o_slow o.
Proof. intros o r H. unfold additional. apply N.leb_gt in H. rewrite H. reflexivity. Qed.

(* the allowance of the next round is the allowance of this one plus one more quick or slow step *)
Lemma additional_succ : forall o r,
  additional o (r + 1) = additional o r + (if (r + 1 <=? o_threshold o)%N then o_quick o else o_slow o).
Proof.
  intros o r. unfold additional.
  destruct (N.leb_spec (r + 1) (o_threshold o)) as [H1|H1];
    destruct (N.leb_spec r (o_threshold o)) as [H2|H2].
  - lia.
  - lia.
  - assert (E : o_threshold o = r) by lia. rewrite E.
    replace (r + 1 - r)%N with 1%N by lia. lia.
  - replace (r + 1 - o_threshold o)%N with (r - o_threshold o + 1)%N by lia. lia.
Qed.

Lemma additional_step_pos : forall o r, 0 < o_quick o -> 0 < o_slow o ->
  additional o r < additional o (r + 1).
Proof. intros o r Hq Hs. rewrite additional_succ. destruct (r + 1 <=? o_threshold o)%N; lia. Qed.

Lemma additional_mono : forall o r r', 0 < o_quick o -> 0 < o_slow o -> (r < r')%N ->
  additional o r < additional o r'.
Proof.
  intros o r r' Hq Hs Hlt.
  assert (G : forall k : nat, additional o r < additional o (r + 1 + N.of_nat k)).
  { induction k as [|k IH].
    - replace (r + 1 + N.of_nat 0)%N with (r + 1)%N by lia. apply additional_step_pos; assumption.
    - replace (r + 1 + N.of_nat (S k))%N with ((r + 1 + N.of_nat k) + 1)%N by lia.
      pose proof (additional_step_pos o (r + 1 + N.of_nat k) Hq Hs). lia. }
  specialize (G (N.to_nat (r' - r - 1))).
  replace (r + 1 + N.of_nat (N.to_nat (r' - r - 1)))%N with r' in G by lia. exact G.
Qed.

Lemma default_opts_positive : 0 < o_quick default_opts /\ 0 < o_slow default_opts /\
  (0 < o_threshold default_opts)%N.
Proof. vm_compute. repeat split; reflexivity. Qed.

(* ---- small facts about the lists of goroutines -------------------------------------------------- *)

Fixpoint count_id (id : nat) (l : list pending) : nat :=
  match l with
  | [] => O
  | p :: tl => (if Nat.eqb (p_id p) id then 1 else 0) + count_id id tl
  end.

Lemma count_app : forall id l l', count_id id (l ++ l') = (count_id id l + count_id id l')%nat.
Proof. induction l as [|p l IH]; intro l'; simpl; [reflexivity|]. rewrite IH. lia. Qed.

Lemma find_some : forall id l p, find_pending id l = Some p -> In p l /\ p_id p = id.
Proof.
  induction l as [|q l IH]; intros p H; simpl in H; [discriminate|].
  destruct (Nat.eqb_spec (p_id q) id) as [E|E].
  - injection H as <-. split; [left; reflexivity|exact E].
  - destruct (IH p H). split; [right; assumption|assumption].
Qed.

Lemma find_none_count : forall id l, find_pending id l = None -> count_id id l = O.
Proof.
  induction l as [|q l IH]; intro H; simpl in *; [reflexivity|].
  destruct (Nat.eqb (p_id q) id); [discriminate|]. rewrite IH by assumption. reflexivity.
Qed.

Lemma count_remove_found : forall id l p, find_pending id l = Some p ->
  (count_id id (remove_pending id l) + 1 = count_id id l)%nat.
Proof.
  induction l as [|q l IH]; intros p H; simpl in *; [discriminate|].
  destruct (Nat.eqb_spec (p_id q) id) as [E|E].
  - lia.
  - simpl. destruct (Nat.eqb_spec (p_id q) id); [contradiction|]. rewrite <- (IH p H). lia.
Qed.

Lemma count_remove_other : forall id id' l, id' <> id ->
  count_id id' (remove_pending id l) = count_id id' l.
Proof.
  induction l as [|q l IH]; intro H; simpl; [reflexivity|].
  destruct (Nat.eqb_spec (p_id q) id) as [E|E].
  - destruct (Nat.eqb_spec (p_id q) id'); [congruence|]. reflexivity.
  - simpl. rewrite IH by assumption. reflexivity.
Qed.

Lemma in_remove : forall id l q, In q (remove_pending id l) -> In q l.
Proof.
  induction l as [|p l IH]; intros q H; simpl in *; [contradiction|].
  destruct (Nat.eqb (p_id p) id); [right; assumption|].
  destruct H as [H|H]; [left; assumption|right; apply IH; assumption].
Qed.

Lemma count_in_pos : forall l p, In p l -> (1 <= count_id (p_id p) l)%nat.
Proof.
  induction l as [|q l IH]; intros p H; simpl in *; [contradiction|].
  destruct H as [->|H].
  - rewrite Nat.eqb_refl. lia.
  - specialize (IH p H). lia.
Qed.

(* ---- unfolding the steps ------------------------------------------------------------------------ *)

Definition quiet (r : obs) : Prop := match r with RCalled _ _ _ _ => False | _ => True end.

(* every step is of one of seven shapes *)
Definition shape_arm o b ro (s : tstate) (x : op) (s1 : tstate) (r : obs) : Prop :=
  exists now h rd, x = OArm now h rd /\
    let p := {| p_id := next_id s; p_round := rd; p_armed_at := now;
                p_deadline := deadline o b ro now h rd; p_fire := Z.max now (deadline o b ro now h rd) |} in
    s1 = {| armed := rd; last_id := Some (next_id s); next_id := S (next_id s);
            pend := pend s ++ [p]; woken := woken s; cancelled_at := cancelled_at s |} /\ r = RArmed p.

Definition shape_same (s : tstate) (x : op) (s1 : tstate) (r : obs) : Prop :=
  (forall now h rd, x <> OArm now h rd) /\ s1 = s /\ quiet r.

Definition shape_drop (s : tstate) (x : op) (s1 : tstate) (r : obs) : Prop :=
  exists now id, (x = OWake now id \/ x = OExpire now id) /\
    s1 = with_lists s (remove_pending id (pend s)) (woken s) /\ quiet r.

Definition shape_wake (s : tstate) (x : op) (s1 : tstate) (r : obs) : Prop :=
  exists now id p, x = OWake now id /\ find_pending id (pend s) = Some p /\ p_fire p <= now /\
    armed s = p_round p /\
    s1 = with_lists s (remove_pending id (pend s)) (woken s ++ [p]) /\ r = RGuard p true.

Definition shape_call (s : tstate) (x : op) (s1 : tstate) (r : obs) : Prop :=
  exists now id p, x = OCall now id /\ find_pending id (woken s) = Some p /\
    s1 = with_lists s (pend s) (remove_pending id (woken s)) /\
    r = RCalled p now (armed s) (last_id s).

Definition shape_expire (s : tstate) (x : op) (s1 : tstate) (r : obs) : Prop :=
  exists now id p q, x = OExpire now id /\ find_pending id (pend s) = Some p /\ p_fire p <= now /\
    armed s = p_round p /\
    find_pending id (woken s ++ [p]) = Some q /\
    s1 = with_lists s (remove_pending id (pend s)) (remove_pending id (woken s ++ [p])) /\
    r = RCalled q now (armed s) (last_id s).

Definition shape_cancel (s : tstate) (x : op) (s1 : tstate) (r : obs) : Prop :=
  exists now, x = OCancel now /\ cancelled_at s = None /\
    s1 = {| armed := armed s; last_id := last_id s; next_id := next_id s; pend := pend s;
            woken := woken s; cancelled_at := Some now |} /\ r = RCancel.

Lemma find_app_last : forall id l p, p_id p = id -> find_pending id (l ++ [p]) <> None.
Proof.
  induction l as [|q l IH]; intros p E; simpl.
  - rewrite E, Nat.eqb_refl. discriminate.
  - destruct (Nat.eqb (p_id q) id); [discriminate|apply IH; exact E].
Qed.


Lemma step_shape : forall o b ro s x s1 r, step o b ro s x = (s1, r) ->
  shape_arm o b ro s x s1 r \/ shape_same s x s1 r \/ shape_drop s x s1 r \/ shape_wake s x s1 r \/
  shape_call s x s1 r \/ shape_expire s x s1 r \/ shape_cancel s x s1 r.
Proof.
  intros o b ro s x s1 r HS.
  destruct x as [now h rd|now id|now id|now id|now]; simpl in HS.
  - left. unfold arm in HS. injection HS as <- <-. exists now, h, rd. repeat split.
  - unfold wake in HS. destruct (find_pending id (pend s)) as [p|] eqn:F.
    + destruct (Z.ltb_spec now (p_fire p)) as [D|D].
      * injection HS as <- <-. right; left. repeat split; try discriminate.
      * destruct (N.eqb_spec (armed s) (p_round p)) as [G|G]; injection HS as <- <-.
        -- right; right; right; left. exists now, id, p. repeat split; assumption.
        -- right; right; left. exists now, id. repeat split. left. reflexivity.
    + injection HS as <- <-. right; left. repeat split; try discriminate.
  - unfold call in HS. destruct (find_pending id (woken s)) as [p|] eqn:F; injection HS as <- <-.
    + right; right; right; right; left. exists now, id, p. repeat split. assumption.
    + right; left. repeat split; try discriminate.
  - unfold expire, wake in HS. destruct (find_pending id (pend s)) as [p|] eqn:F.
    + destruct (Z.ltb_spec now (p_fire p)) as [D|D].
      * injection HS as <- <-. right; left. repeat split; try discriminate.
      * destruct (N.eqb_spec (armed s) (p_round p)) as [G|G].
        -- unfold call in HS. simpl woken in HS.
           destruct (find_pending id (woken s ++ [p])) as [q|] eqn:F2.
           ++ injection HS as <- <-. right; right; right; right; right; left.
              exists now, id, p, q. repeat split; assumption.
           ++ exfalso. destruct (find_some _ _ _ F) as [_ E].
              exact (find_app_last id (woken s) p E F2).
        -- injection HS as <- <-. right; right; left. exists now, id. repeat split. right. reflexivity.
    + injection HS as <- <-. right; left. repeat split; try discriminate.
  - unfold cancel in HS. destruct (cancelled_at s) eqn:C; injection HS as <- <-.
    + right; left. repeat split; try discriminate.
    + right; right; right; right; right; right. exists now. repeat split. exact C.
Qed.

Lemma run_cons : forall o b ro s x tl,
  run o b ro s (x :: tl) =
  let '(s1, r) := step o b ro s x in let '(s2, rs) := run o b ro s1 tl in (s2, r :: rs).
Proof. reflexivity. Qed.

(* ---- at most one callback per arming, over every schedule ---------------------------------------- *)

Definition cnt (id : nat) (s : tstate) : nat := (count_id id (pend s) + count_id id (woken s))%nat.

Definition inv1 (s : tstate) : Prop :=
  forall id, (cnt id s <= 1)%nat /\ (next_id s <= id -> cnt id s = O)%nat.

(* how many callbacks an arming may still produce *)
Definition budget (id : nat) (s : tstate) : nat := if Nat.ltb id (next_id s) then cnt id s else 1%nat.

Definition called1 (id : nat) (r : obs) : nat :=
  match r with RCalled p _ _ _ => if Nat.eqb (p_id p) id then 1%nat else O | _ => O end.

Fixpoint called (id : nat) (rs : list obs) : nat :=
  match rs with [] => O | r :: tl => (called1 id r + called id tl)%nat end.

Lemma quiet_called1 : forall i r, quiet r -> called1 i r = O.
Proof. intros i r Q. destruct r; simpl in *; try reflexivity. contradiction. Qed.

Lemma inv1_init : inv1 init.
Proof. intro id. unfold cnt. simpl. split; lia. Qed.

Lemma remove_none : forall id l, find_pending id l = None -> remove_pending id l = l.
Proof.
  induction l as [|q l IH]; intro F; simpl in *; [reflexivity|].
  destruct (Nat.eqb (p_id q) id); [discriminate|]. rewrite IH by assumption. reflexivity.
Qed.

Lemma count_remove_le : forall i id l, (count_id i (remove_pending id l) <= count_id i l)%nat.
Proof.
  intros i id l. destruct (Nat.eq_dec i id) as [->|N].
  - destruct (find_pending id l) as [p|] eqn:F.
    + pose proof (count_remove_found _ _ _ F). lia.
    + rewrite remove_none by assumption. lia.
  - rewrite count_remove_other by assumption. lia.
Qed.

(* a step that keeps next_id and does not increase any count keeps inv1 *)
Lemma inv1_shrink : forall s s1, inv1 s -> next_id s1 = next_id s ->
  (forall i, (cnt i s1 <= cnt i s)%nat) -> inv1 s1.
Proof.
  intros s s1 I N K i. destruct (I i) as [I1 I2]. specialize (K i). split; [lia|].
  rewrite N. intro H. specialize (I2 H). lia.
Qed.

Lemma step_budget : forall o b ro s x s1 r, inv1 s -> step o b ro s x = (s1, r) ->
  inv1 s1 /\ (forall i, (called1 i r + budget i s1 <= budget i s)%nat).
Proof.
  intros o b ro s x s1 r I HS.
  assert (Shrink : next_id s1 = next_id s -> (forall i, (called1 i r + cnt i s1 <= cnt i s)%nat) ->
                   inv1 s1 /\ (forall i, (called1 i r + budget i s1 <= budget i s)%nat)).
  { intros N K. split.
    - apply (inv1_shrink s s1 I N). intro i. specialize (K i). lia.
    - intro i. unfold budget. rewrite N. specialize (K i).
      destruct (Nat.ltb_spec i (next_id s)); [lia|].
      destruct (I i) as [_ I2]. rewrite I2 in K by lia.
      assert (called1 i r <= 1)%nat by (destruct r; simpl; try lia; destruct (Nat.eqb _ _); lia). lia. }
  destruct (step_shape _ _ _ _ _ _ _ HS) as [A|[A|[A|[A|[A|[A|A]]]]]].
  - (* arm *)
    destruct A as (now & h & rd & -> & -> & ->).
    set (p := {| p_id := next_id s; p_round := rd; p_armed_at := now;
                 p_deadline := deadline o b ro now h rd; p_fire := Z.max now (deadline o b ro now h rd) |}).
    assert (C : forall i, cnt i {| armed := rd; last_id := Some (next_id s); next_id := S (next_id s);
                                    pend := pend s ++ [p]; woken := woken s; cancelled_at := cancelled_at s |} =
                          (cnt i s + (if Nat.eqb (next_id s) i then 1 else 0))%nat).
    { intro i. unfold cnt. simpl. rewrite count_app. simpl. lia. }
    split.
    + intro i. rewrite C. destruct (I i) as [I1 I2]. simpl.
      destruct (Nat.eqb_spec (next_id s) i) as [E|E].
      * subst i. rewrite (I2 (Nat.le_refl _)). split; lia.
      * split; [lia|]. intro Hn. rewrite I2 by lia. lia.
    + intro i. unfold budget. rewrite C. simpl called1. simpl next_id.
      destruct (I i) as [I1 I2].
      destruct (Nat.ltb_spec i (next_id s)); destruct (Nat.ltb_spec i (S (next_id s))); try lia.
      * destruct (Nat.eqb_spec (next_id s) i); lia.
      * assert (i = next_id s) by lia. subst i. rewrite Nat.eqb_refl. rewrite I2 by lia. lia.
  - destruct A as (_ & -> & Q). apply Shrink; [reflexivity|].
    intro i. rewrite (quiet_called1 i r Q). lia.
  - destruct A as (now & id & _ & -> & Q). apply Shrink; [reflexivity|].
    intro i. rewrite (quiet_called1 i r Q). unfold cnt. simpl.
    pose proof (count_remove_le i id (pend s)). lia.
  - destruct A as (now & id & p & -> & F & D & G & -> & ->). apply Shrink; [reflexivity|].
    intro i. unfold cnt. simpl. rewrite count_app. simpl.
    destruct (find_some _ _ _ F) as [_ E].
    destruct (Nat.eq_dec i id) as [->|N].
    + pose proof (count_remove_found _ _ _ F). rewrite E, Nat.eqb_refl. lia.
    + rewrite count_remove_other by assumption. destruct (Nat.eqb_spec (p_id p) i); [congruence|]. lia.
  - destruct A as (now & id & p & -> & F & -> & ->). apply Shrink; [reflexivity|].
    destruct (find_some _ _ _ F) as [_ E].
    intro i. unfold cnt. simpl. rewrite E. destruct (Nat.eqb_spec id i) as [->|N].
    + pose proof (count_remove_found _ _ _ F). lia.
    + rewrite count_remove_other by congruence. lia.
  - destruct A as (now & id & p & q & -> & F & D & G & F2 & -> & ->). apply Shrink; [reflexivity|].
    destruct (find_some _ _ _ F) as [_ E]. destruct (find_some _ _ _ F2) as [_ E2].
    intro i. unfold cnt. simpl. rewrite E2. destruct (Nat.eqb_spec id i) as [->|N].
    + pose proof (count_remove_found _ _ _ F). pose proof (count_remove_found _ _ _ F2).
      rewrite count_app in H0. simpl in H0. rewrite E, Nat.eqb_refl in H0. lia.
    + rewrite !count_remove_other by congruence. rewrite count_app. simpl.
      destruct (Nat.eqb_spec (p_id p) i); [congruence|]. lia.
  - destruct A as (now & -> & C & -> & ->). apply Shrink; [reflexivity|]. intro i. simpl. unfold cnt. simpl. lia.
Qed.

Lemma run_budget : forall o b ro ops s s' rs, inv1 s -> run o b ro s ops = (s', rs) ->
  inv1 s' /\ (forall i, (called i rs + budget i s' <= budget i s)%nat).
Proof.
  induction ops as [|x tl IH]; intros s s' rs I R.
  - simpl in R. injection R as <- <-. split; [assumption|]. intro i. simpl. lia.
  - rewrite run_cons in R. destruct (step o b ro s x) as [s1 r] eqn:HS.
    destruct (run o b ro s1 tl) as [s2 rs2] eqn:R2. injection R as <- <-.
    destruct (step_budget _ _ _ _ _ _ _ I HS) as [I1 K1].
    destruct (IH _ _ _ I1 R2) as [I2 K2]. split; [assumption|].
    intro i. specialize (K1 i). specialize (K2 i). simpl. lia.
Qed.

(* every arming calls back at most once, whatever the schedule *)
Lemma at_most_once : forall o b ro ops s' rs, run o b ro init ops = (s', rs) ->
  forall id, (called id rs <= 1)%nat.
Proof.
  intros o b ro ops s' rs R id.
  destruct (run_budget _ _ _ _ _ _ _ inv1_init R) as [_ K]. specialize (K id).
  unfold budget in K at 2. simpl in K. lia.
Qed.

(* ---- never before the deadline, and the callback belongs to a real arming ------------------------ *)

Definition op_time (x : op) : Z :=
  match x with OArm t _ _ | OWake t _ | OCall t _ | OExpire t _ | OCancel t => t end.

(* the clock read by successive steps does not go back *)
Fixpoint mono (t : Z) (ops : list op) : Prop :=
  match ops with [] => True | x :: tl => t <= op_time x /\ mono (op_time x) tl end.

(* the TimeoutForRound calls of a schedule, in order: (time, height, round) *)
Fixpoint arm_hist (ops : list op) : list (Z * N * N) :=
  match ops with
  | [] => []
  | OArm t h r :: tl => (t, h, r) :: arm_hist tl
  | _ :: tl => arm_hist tl
  end.

Definition good (o : opts) (b : beacon) (ro : role) (hist : list (Z * N * N)) (p : pending) : Prop :=
  exists h, nth_error hist (p_id p) = Some (p_armed_at p, h, p_round p) /\
            p_deadline p = deadline o b ro (p_armed_at p) h (p_round p) /\
            p_deadline p <= p_fire p.

Definition inv2 o b ro (hist : list (Z * N * N)) (t0 : Z) (s : tstate) : Prop :=
  next_id s = length hist /\
  (forall p, In p (pend s) -> good o b ro hist p) /\
  (forall p, In p (woken s) -> good o b ro hist p /\ p_fire p <= t0).

Lemma good_app : forall o b ro hist x p, good o b ro hist p -> good o b ro (hist ++ x) p.
Proof.
  intros o b ro hist x p [h [H1 H2]]. exists h. split; [|assumption].
  rewrite nth_error_app1; [assumption|]. apply nth_error_Some. congruence.
Qed.

Definition cb_ok o b ro (hist : list (Z * N * N)) (r : obs) : Prop :=
  match r with RCalled p t _ _ => good o b ro hist p /\ p_deadline p <= t | _ => True end.

Lemma quiet_cb_ok : forall o b ro hist r, quiet r -> cb_ok o b ro hist r.
Proof. intros o b ro hist r Q. destruct r; simpl in *; auto. contradiction. Qed.

Lemma arm_hist_not_arm : forall x, (forall now h rd, x <> OArm now h rd) -> arm_hist [x] = [].
Proof. intros x H. destruct x; try reflexivity. exfalso. eapply H. reflexivity. Qed.

Lemma step_inv2 : forall o b ro hist t0 s x s1 r,
  inv2 o b ro hist t0 s -> t0 <= op_time x -> step o b ro s x = (s1, r) ->
  inv2 o b ro (hist ++ arm_hist [x]) (op_time x) s1 /\ cb_ok o b ro (hist ++ arm_hist [x]) r.
Proof.
  intros o b ro hist t0 s x s1 r [N [P W]] T HS.
  assert (Keep : forall sw, next_id sw = next_id s ->
            (forall p, In p (pend sw) -> In p (pend s)) ->
            (forall p, In p (woken sw) -> In p (woken s) \/ (In p (pend s) /\ p_fire p <= op_time x)) ->
            inv2 o b ro (hist ++ []) (op_time x) sw).
  { intros sw Nw Pw Ww. rewrite app_nil_r. split; [congruence|]. split.
    - intros p Hp. apply P, Pw, Hp.
    - intros p Hp. destruct (Ww p Hp) as [H|[H1 H2]].
      + destruct (W p H). split; [assumption|lia].
      + split; [apply P; assumption|assumption]. }
  destruct (step_shape _ _ _ _ _ _ _ HS) as [A|[A|[A|[A|[A|[A|A]]]]]].
  - destruct A as (now & h & rd & -> & -> & ->). simpl arm_hist. split; [|exact I].
    split; [simpl; rewrite app_length; simpl; lia|]. split.
    + intros p Hp. simpl in Hp. apply in_app_or in Hp. destruct Hp as [Hp|[<-|[]]].
      * apply good_app, P, Hp.
      * exists h. simpl. split; [|split; [reflexivity|lia]].
        rewrite N, nth_error_app2, Nat.sub_diag by lia. reflexivity.
    + intros p Hp. simpl in Hp. destruct (W p Hp). simpl in T. simpl op_time.
      split; [apply good_app; assumption|lia].
  - destruct A as (NA & -> & Q). rewrite (arm_hist_not_arm x NA).
    split; [apply Keep; auto|apply quiet_cb_ok; exact Q].
  - destruct A as (now & id & Hx & -> & Q).
    assert (E : arm_hist [x] = []) by (destruct Hx as [-> | ->]; reflexivity). rewrite E.
    split; [|apply quiet_cb_ok; exact Q].
    apply Keep; simpl; auto. intros q Hq. eapply in_remove; eassumption.
  - destruct A as (now & id & p & -> & F & D & G & -> & ->). simpl arm_hist. split; [|exact I].
    apply Keep; simpl; auto.
    + intros q Hq. eapply in_remove; eassumption.
    + intros q Hq. apply in_app_or in Hq. destruct Hq as [Hq|[<-|[]]]; [left; assumption|].
      right. split; [apply (find_some _ _ _ F)|assumption].
  - destruct A as (now & id & p & -> & F & -> & ->). simpl arm_hist. split.
    + apply Keep; simpl; auto. intros q Hq. left. eapply in_remove; eassumption.
    + simpl. rewrite app_nil_r. destruct (find_some _ _ _ F) as [Hin _].
      destruct (W p Hin) as [Gd Fi]. split; [assumption|].
      destruct Gd as [h [_ [_ G3]]]. simpl in T. lia.
  - destruct A as (now & id & p & q & -> & F & D & G & F2 & -> & ->). simpl arm_hist.
    assert (Hq : In q (woken s) /\ p_fire q <= now \/ (In q (pend s) /\ p_fire q <= now)).
    { destruct (find_some _ _ _ F2) as [Hin _]. apply in_app_or in Hin.
      destruct Hin as [Hin|[<-|[]]].
      - left. split; [assumption|]. destruct (W q Hin). simpl in T. lia.
      - right. split; [apply (find_some _ _ _ F)|assumption]. }
    split.
    + apply Keep; simpl; auto.
      * intros z Hz. eapply in_remove; eassumption.
      * intros z Hz. apply in_remove in Hz. apply in_app_or in Hz.
        destruct Hz as [Hz|[<-|[]]]; [left; assumption|].
        right. split; [apply (find_some _ _ _ F)|assumption].
    + simpl. rewrite app_nil_r. destruct Hq as [[Hin Hf]|[Hin Hf]].
      * destruct (W q Hin) as [Gd _]. split; [assumption|]. destruct Gd as [h [_ [_ G3]]]. lia.
      * pose proof (P q Hin) as Gd. split; [assumption|]. destruct Gd as [h [_ [_ G3]]]. lia.
  - destruct A as (now & -> & C & -> & ->). simpl arm_hist. split; [apply Keep; auto|exact I].
Qed.

Lemma arm_hist_cons : forall x tl, arm_hist (x :: tl) = arm_hist [x] ++ arm_hist tl.
Proof. intros x tl. destruct x; reflexivity. Qed.

Lemma cb_ok_app : forall o b ro hist y r, cb_ok o b ro hist r -> cb_ok o b ro (hist ++ y) r.
Proof.
  intros o b ro hist y r H. destruct r; simpl in *; auto. destruct H. split; [apply good_app|]; assumption.
Qed.

Lemma run_inv2 : forall o b ro ops hist t0 s s' rs,
  inv2 o b ro hist t0 s -> mono t0 ops -> run o b ro s ops = (s', rs) ->
  Forall (cb_ok o b ro (hist ++ arm_hist ops)) rs.
Proof.
  induction ops as [|x tl IH]; intros hist t0 s s' rs I M R.
  - simpl in R. injection R as <- <-. constructor.
  - rewrite run_cons in R. destruct (step o b ro s x) as [s1 r] eqn:HS.
    destruct (run o b ro s1 tl) as [s2 rs2] eqn:R2. injection R as <- <-.
    destruct M as [M1 M2].
    destruct (step_inv2 _ _ _ _ _ _ _ _ _ I M1 HS) as [I1 C1].
    rewrite arm_hist_cons, app_assoc. constructor.
    + apply cb_ok_app. exact C1.
    + eapply IH; eassumption.
Qed.

Lemma inv2_init : forall o b ro t0, inv2 o b ro [] t0 init.
Proof. intros. split; [reflexivity|]. split; intros p []. Qed.

(* a callback at time t for arming number i, armed at [now] for (h, r): t is not before the deadline
   of (h, r) computed at [now] *)
Lemma never_early : forall o b ro ops t0 s' rs,
  mono t0 ops -> run o b ro init ops = (s', rs) ->
  forall p t a l, In (RCalled p t a l) rs ->
  exists h, nth_error (arm_hist ops) (p_id p) = Some (p_armed_at p, h, p_round p) /\
            deadline o b ro (p_armed_at p) h (p_round p) <= t.
Proof.
  intros o b ro ops t0 s' rs M R p t a l Hin.
  pose proof (run_inv2 o b ro ops [] t0 init s' rs (inv2_init o b ro t0) M R) as F.
  rewrite Forall_forall in F. specialize (F _ Hin). simpl in F.
  destruct F as [[h [G1 [G2 G3]]] G4]. exists h. split; [assumption|]. lia.
Qed.

(* ---- only the most recent arming, when guard and callback are one step ---------------------------- *)

Definition atomic_op (x : op) : Prop :=
  match x with OWake _ _ | OCall _ _ => False | _ => True end.

(* rounds of successive TimeoutForRound calls strictly increase, starting above cur *)
Fixpoint increasing (cur : N) (ops : list op) : Prop :=
  match ops with
  | [] => True
  | OArm _ _ r :: tl => (cur < r)%N /\ increasing r tl
  | _ :: tl => increasing cur tl
  end.

Definition inv3 (s : tstate) : Prop :=
  woken s = [] /\
  forall p, In p (pend s) ->
    (p_round p <= armed s)%N /\ (p_round p = armed s -> last_id s = Some (p_id p)).

Definition latest_ok (s : tstate) (r : obs) : Prop :=
  match r with
  | RCalled p t a l => a = armed s /\ l = last_id s /\ p_round p = a /\ l = Some (p_id p)
  | _ => True
  end.

Lemma quiet_latest_ok : forall s r, quiet r -> latest_ok s r.
Proof. intros s r Q. destruct r; simpl in *; auto. contradiction. Qed.

Lemma step_inv3 : forall o b ro s x s1 r,
  inv3 s -> atomic_op x -> increasing (armed s) [x] -> step o b ro s x = (s1, r) ->
  inv3 s1 /\ latest_ok s r /\ (forall tl, increasing (armed s) (x :: tl) -> increasing (armed s1) tl).
Proof.
  intros o b ro s x s1 r [W P] A Inc HS.
  destruct (step_shape _ _ _ _ _ _ _ HS) as [B|[B|[B|[B|[B|[B|B]]]]]].
  - destruct B as (now & h & rd & -> & -> & ->). simpl in Inc. destruct Inc as [Inc _].
    split; [|split; [exact I|intros tl [_ H]; exact H]].
    split; [exact W|]. intros p Hp. simpl in Hp. apply in_app_or in Hp. simpl.
    destruct Hp as [Hp|[<-|[]]].
    + destruct (P p Hp) as [P1 _]. split; lia.
    + simpl. split; [lia|reflexivity].
  - destruct B as (NA & -> & Q). split; [split; assumption|]. split; [apply quiet_latest_ok; exact Q|].
    intros tl H. destruct x; simpl in H; auto. exfalso. eapply NA. reflexivity.
  - destruct B as (now & id & Hx & -> & Q). split; [|split; [apply quiet_latest_ok; exact Q|]].
    + split; [exact W|]. intros q Hq. simpl in *. apply P. eapply in_remove; eassumption.
    + intros tl H. destruct Hx as [-> | ->]; exact H.
  - destruct B as (now & id & p & -> & _). simpl in A. contradiction.
  - destruct B as (now & id & p & -> & _). simpl in A. contradiction.
  - destruct B as (now & id & p & q & -> & F & D & G & F2 & -> & ->).
    rewrite W in F2. simpl in F2. destruct (find_some _ _ _ F) as [Hin E].
    rewrite E, Nat.eqb_refl in F2. injection F2 as <-.
    split; [|split; [|intros tl H; exact H]].
    + split.
      * simpl. rewrite W. simpl. rewrite E, Nat.eqb_refl. reflexivity.
      * intros z Hz. simpl in *. apply P. eapply in_remove; eassumption.
    + simpl. destruct (P p Hin) as [_ P2]. repeat split; auto.
  - destruct B as (now & -> & C & -> & ->). split; [split; assumption|]. split; [exact I|intros tl H; exact H].
Qed.

Lemma inv3_init : inv3 init.
Proof. split; [reflexivity|intros p []]. Qed.

(* the states a schedule passes through, paired with the observation made from each *)
Fixpoint trace (o : opts) (b : beacon) (ro : role) (s : tstate) (ops : list op) : list (tstate * obs) :=
  match ops with
  | [] => []
  | x :: tl => let '(s1, r) := step o b ro s x in (s, r) :: trace o b ro s1 tl
  end.

Lemma trace_obs : forall o b ro ops s, map snd (trace o b ro s ops) = snd (run o b ro s ops).
Proof.
  induction ops as [|x tl IH]; intro s; [reflexivity|].
  simpl trace. rewrite run_cons. destruct (step o b ro s x) as [s1 r]. simpl. rewrite IH.
  destruct (run o b ro s1 tl). reflexivity.
Qed.

Lemma increasing_head : forall cur x tl, increasing cur (x :: tl) -> increasing cur [x].
Proof. intros cur x tl H. destruct x; simpl in *; auto. destruct H. split; [assumption|exact I]. Qed.

Lemma run_inv3 : forall o b ro ops s, inv3 s -> Forall atomic_op ops -> increasing (armed s) ops ->
  Forall (fun sr => latest_ok (fst sr) (snd sr)) (trace o b ro s ops).
Proof.
  induction ops as [|x tl IH]; intros s I A Inc; [constructor|].
  simpl trace. destruct (step o b ro s x) as [s1 r] eqn:HS.
  inversion A as [|? ? A1 A2]; subst.
  destruct (step_inv3 _ _ _ _ _ _ _ I A1 (increasing_head _ _ _ Inc) HS) as [I1 [L K]].
  constructor; [exact L|]. apply IH; [assumption|assumption|apply K; assumption].
Qed.

(* with strictly increasing rounds and the guard and the callback taken as one step: whenever a
   callback runs, it is for the round the timer is armed for at that moment, and the arming it
   belongs to is the most recent one *)
Lemma only_latest : forall o b ro ops,
  Forall atomic_op ops -> increasing 0%N ops ->
  forall s p t a l, In (s, RCalled p t a l) (trace o b ro init ops) ->
  a = armed s /\ l = last_id s /\ p_round p = armed s /\ last_id s = Some (p_id p).
Proof.
  intros o b ro ops A Inc s p t a l Hin.
  pose proof (run_inv3 o b ro ops init inv3_init A Inc) as F.
  rewrite Forall_forall in F. specialize (F _ Hin). simpl in F.
  destruct F as [F1 [F2 [F3 F4]]]. subst. repeat split; auto.
Qed.

(* [last_id]/[armed] really are the last TimeoutForRound call: they are written by [arm] only *)
Lemma last_id_is_last_arm : forall o b ro s x s1 r, step o b ro s x = (s1, r) ->
  match x with
  | OArm _ _ rd => armed s1 = rd /\ last_id s1 = Some (next_id s) /\ next_id s1 = S (next_id s)
  | _ => armed s1 = armed s /\ last_id s1 = last_id s /\ next_id s1 = next_id s
  end.
Proof.
  intros o b ro s x s1 r HS.
  destruct (step_shape _ _ _ _ _ _ _ HS) as [B|[B|[B|[B|[B|[B|B]]]]]].
  - destruct B as (now & h & rd & -> & -> & ->). simpl. auto.
  - destruct B as (NA & -> & Q). destruct x; auto. exfalso. eapply NA. reflexivity.
  - destruct B as (now & id & [-> | ->] & -> & Q); simpl; auto.
  - destruct B as (now & id & p & -> & F & D & G & -> & ->). simpl. auto.
  - destruct B as (now & id & p & -> & F & -> & ->). simpl. auto.
  - destruct B as (now & id & p & q & -> & F & D & G & F2 & -> & ->). simpl. auto.
  - destruct B as (now & -> & C & -> & ->). simpl. auto.
Qed.

(* re-arming supersedes: once TimeoutForRound has been called again, no earlier arming calls back *)
Definition newer (n : nat) (s : tstate) : Prop :=
  match last_id s with Some k => (n <= k)%nat | None => False end.

Definition inv4 (s : tstate) : Prop :=
  match last_id s with Some k => (k < next_id s)%nat | None => True end.

Lemma step_inv4 : forall o b ro s x s1 r, inv4 s -> step o b ro s x = (s1, r) -> inv4 s1.
Proof.
  intros o b ro s x s1 r I HS. pose proof (last_id_is_last_arm _ _ _ _ _ _ _ HS) as L.
  unfold inv4 in *. destruct x; destruct L as [_ [L2 L3]]; rewrite L2, L3; auto.
Qed.

Lemma trace_newer : forall o b ro ops s n, inv4 s -> newer n s ->
  Forall (fun sr => newer n (fst sr)) (trace o b ro s ops).
Proof.
  induction ops as [|x tl IH]; intros s n I4 H; [constructor|].
  simpl trace. destruct (step o b ro s x) as [s1 r] eqn:HS. constructor; [exact H|].
  apply IH; [eapply step_inv4; eassumption|].
  pose proof (last_id_is_last_arm _ _ _ _ _ _ _ HS) as L. unfold newer, inv4 in *.
  destruct x; destruct L as [_ [L2 _]]; rewrite L2; auto.
  destruct (last_id s) as [k|]; [lia|contradiction].
Qed.

Lemma trace_app : forall o b ro l1 l2 s,
  trace o b ro s (l1 ++ l2) = trace o b ro s l1 ++ trace o b ro (fst (run o b ro s l1)) l2.
Proof.
  induction l1 as [|x l1 IH]; intros l2 s; [reflexivity|].
  rewrite <- app_comm_cons. cbn [trace]. rewrite run_cons. destruct (step o b ro s x) as [s1 r].
  rewrite IH. destruct (run o b ro s1 l1). reflexivity.
Qed.

Lemma run_inv4 : forall o b ro ops s, inv4 s -> inv4 (fst (run o b ro s ops)).
Proof.
  induction ops as [|x tl IH]; intros s I; [exact I|].
  rewrite run_cons. destruct (step o b ro s x) as [s1 r] eqn:HS.
  specialize (IH s1 (step_inv4 _ _ _ _ _ _ _ I HS)). destruct (run o b ro s1 tl). exact IH.
Qed.

Lemma supersede : forall o b ro pre now h r post,
  Forall atomic_op (pre ++ OArm now h r :: post) -> increasing 0%N (pre ++ OArm now h r :: post) ->
  let s1 := fst (run o b ro init pre) in
  (forall q, In q (pend s1 ++ woken s1) -> (p_id q < next_id s1)%nat) /\
  forall s p t a l, In (s, RCalled p t a l) (trace o b ro (fst (arm o b ro s1 now h r)) post) ->
    (next_id s1 <= p_id p)%nat.
Proof.
  intros o b ro pre now h r post A Inc s1. split.
  - (* the armings made so far all have smaller ordinals *)
    intros q Hq. subst s1. destruct (run o b ro init pre) as [sx rsx] eqn:R.
    destruct (run_budget _ _ _ _ _ _ _ inv1_init R) as [I1 _]. simpl in *.
    destruct (Nat.lt_ge_cases (p_id q) (next_id sx)) as [|Hge]; [assumption|].
    destruct (I1 (p_id q)) as [_ Z0]. specialize (Z0 Hge). unfold cnt in Z0.
    apply in_app_or in Hq. destruct Hq as [Hq|Hq]; apply count_in_pos in Hq; lia.
  - intros s p t a l Hin.
    pose proof (only_latest o b ro _ A Inc) as OL.
    assert (Hin' : In (s, RCalled p t a l) (trace o b ro init (pre ++ OArm now h r :: post))).
    { rewrite trace_app. apply in_or_app. right. fold s1. cbn [trace step]. unfold arm in *.
      right. exact Hin. }
    destruct (OL _ _ _ _ _ Hin') as [_ [_ [_ L]]].
    assert (I4 : inv4 s1) by (apply run_inv4; exact I).
    pose proof (trace_newer o b ro post (fst (arm o b ro s1 now h r)) (next_id s1)) as TN.
    assert (N0 : newer (next_id s1) (fst (arm o b ro s1 now h r))) by (unfold newer; simpl; lia).
    assert (I4' : inv4 (fst (arm o b ro s1 now h r))) by (unfold inv4; simpl; lia).
    specialize (TN I4' N0). rewrite Forall_forall in TN. specialize (TN _ Hin). simpl in TN.
    unfold newer in TN. rewrite L in TN. exact TN.
Qed.

(* liveness inside the model: the most recent arming does call back when its expiry is delivered *)
Lemma fires_if_latest : forall o b ro s now id p,
  woken s = [] -> find_pending id (pend s) = Some p -> p_fire p <= now ->
  armed s = p_round p ->
  exists s1, step o b ro s (OExpire now id) = (s1, RCalled p now (armed s) (last_id s)).
Proof.
  intros o b ro s now id p W F D G. simpl. unfold expire, wake. rewrite F.
  destruct (Z.ltb_spec now (p_fire p)); [lia|].
  destruct (N.eqb_spec (armed s) (p_round p)) as [_|NG]; [|contradiction].
  unfold call. simpl. rewrite W. simpl.
  destruct (find_some _ _ _ F) as [_ E]. rewrite E, Nat.eqb_refl. eexists. reflexivity.
Qed.

Lemma atomic_woken : forall o b ro ops s, Forall atomic_op ops -> woken s = [] ->
  woken (fst (run o b ro s ops)) = [].
Proof.
  induction ops as [|x tl IH]; intros s A W; [exact W|].
  inversion A as [|? ? A1 A2]; subst.
  rewrite run_cons. destruct (step o b ro s x) as [s1 r] eqn:HS.
  assert (W1 : woken s1 = []).
  { destruct (step_shape _ _ _ _ _ _ _ HS) as [B|[B|[B|[B|[B|[B|B]]]]]].
    - destruct B as (now & h & rd & -> & -> & ->). exact W.
    - destruct B as (_ & -> & _). exact W.
    - destruct B as (now & id & _ & -> & _). exact W.
    - destruct B as (now & id & p & -> & _). simpl in A1. contradiction.
    - destruct B as (now & id & p & -> & _). simpl in A1. contradiction.
    - destruct B as (now & id & p & q & -> & F & D & G & F2 & -> & ->). simpl.
      rewrite W. simpl. destruct (find_some _ _ _ F) as [_ E]. rewrite E, Nat.eqb_refl. reflexivity.
    - destruct B as (now & -> & C & -> & ->). exact W. }
  specialize (IH s1 A2 W1). destruct (run o b ro s1 tl). exact IH.
Qed.

(* ---- the split of guard and callback is observable: a witness ------------------------------------- *)

Definition ex_beacon : beacon :=
  {| slot_duration := 12000000000; slot_start := fun h => Z.of_N h * 12000000000 |}.

(* attester, height 0: round 1 is due at 4 s + 2 s.  The goroutine of round 1 receives its expiry and
   reads Round() = 1; TimeoutForRound(0, 2) runs; the goroutine invokes the callback for round 1. *)
Definition race_ops : list op :=
  [OArm 0 0%N 1%N; OWake 6000000000 0; OArm 6000000000 0%N 2%N; OCall 6000000000 0].

Definition only_latest_statement : Prop :=
  forall o b ro ops, increasing 0%N ops -> mono 0 ops ->
  forall s p t a l, In (s, RCalled p t a l) (trace o b ro init ops) ->
  p_round p = armed s /\ last_id s = Some (p_id p).

Lemma race_witness :
  increasing 0%N race_ops /\ mono 0 race_ops /\
  exists s p t a l, In (s, RCalled p t a l) (trace default_opts ex_beacon RAttester init race_ops) /\
                    p_round p = 1%N /\ armed s = 2%N /\ p_id p = O /\ last_id s = Some 1%nat.
Proof.
  split; [vm_compute; repeat split; reflexivity|]. split; [vm_compute; repeat split; discriminate|].
  vm_compute. eexists _, _, _, _, _. split; [right; right; right; left; reflexivity|].
  repeat split.
Qed.

Lemma only_latest_refuted : ~ only_latest_statement.
Proof.
  intro H. destruct race_witness as [I [M (s & p & t & a & l & Hin & R1 & R2 & _)]].
  destruct (H _ _ _ _ I M _ _ _ _ _ Hin) as [E _]. rewrite R1, R2 in E. discriminate.
Qed.

(* ---- the controller ------------------------------------------------------------------------------ *)

Local Open Scope N_scope.

Definition stale (c : cstate) (h r : N) : Prop :=
  match find_inst h (c_insts c) with
  | None => True                                   (* no instance for that height *)
  | Some i => r < i_round i \/ i_decided i = true \/ can_process i = false
  end.

Definition noop (c : cstate) (h r : N) : Prop :=
  exists res, on_timeout c h r = (c, res, []) /\ forall n, res <> TBumped n.

Lemma stale_noop : forall c h r, stale c h r -> noop c h r.
Proof.
  intros c h r HS. unfold stale in HS. unfold noop, on_timeout.
  destruct (find_inst h (c_insts c)) as [i|].
  - destruct (N.ltb_spec r (i_round i)); [eexists; split; [reflexivity|discriminate]|].
    destruct (i_decided i) eqn:D; [eexists; split; [reflexivity|discriminate]|].
    destruct (can_process i) eqn:P; simpl.
    + destruct HS as [H1|[H1|H1]]; [lia|discriminate|discriminate].
    + eexists; split; [reflexivity|discriminate].
  - eexists; split; [reflexivity|discriminate].
Qed.

Lemma not_stale_bumps : forall c h r i, find_inst h (c_insts c) = Some i -> ~ stale c h r ->
  on_timeout c h r =
  ({| c_height := c_height c; c_insts := update_inst h bump (c_insts c) |}, TBumped (i_round i + 1),
   [EBroadcastRoundChange h (i_round i + 1); EArmTimer h (i_round i + 1)]).
Proof.
  intros c h r i F NS. unfold stale in NS. rewrite F in NS. unfold on_timeout. rewrite F.
  destruct (N.ltb_spec r (i_round i)); [exfalso; apply NS; left; assumption|].
  destruct (i_decided i) eqn:D; [exfalso; apply NS; right; left; reflexivity|].
  destruct (can_process i) eqn:P; [reflexivity|exfalso; apply NS; right; right; reflexivity].
Qed.

Lemma find_update : forall h f l i, (forall j, i_height (f j) = i_height j) ->
  find_inst h l = Some i -> find_inst h (update_inst h f l) = Some (f i).
Proof.
  induction l as [|j l IH]; intros i Hf F; simpl in *; [discriminate|].
  destruct (N.eqb_spec (i_height j) h) as [E|E].
  - injection F as <-. simpl. rewrite Hf. apply N.eqb_eq in E. rewrite E. reflexivity.
  - simpl. apply N.eqb_neq in E. rewrite E. apply IH; assumption.
Qed.

(* a duplicate of an event the timer produced (its round is not ahead of the instance) is a no-op *)
Lemma duplicate_noop : forall c h r i, find_inst h (c_insts c) = Some i -> r <= i_round i ->
  noop (fst (fst (on_timeout c h r))) h r.
Proof.
  intros c h r i F Hr. pose proof (stale_noop c h r) as SN.
  assert (D : stale c h r \/ ~ stale c h r).
  { unfold stale. rewrite F. destruct (N.ltb_spec r (i_round i)); [left; left; assumption|].
    destruct (i_decided i); [left; right; left; reflexivity|].
    destruct (can_process i); [|left; right; right; reflexivity].
    right. intros [H1|[H1|H1]]; [lia|discriminate|discriminate]. }
  destruct D as [D|D].
  - destruct (SN D) as [res [E _]]. rewrite E. simpl. apply SN. exact D.
  - rewrite (not_stale_bumps c h r i F D). simpl. apply stale_noop. unfold stale. simpl.
    rewrite (find_update h bump (c_insts c) i (fun j => eq_refl) F). left. simpl. lia.
Qed.

Lemma find_map_stop : forall h l,
  find_inst h (map stop l) = match find_inst h l with Some i => Some (stop i) | None => None end.
Proof.
  induction l as [|j l IH]; simpl; [reflexivity|].
  destruct (i_height j =? h); [reflexivity|exact IH].
Qed.

(* after StartNewInstance(h) a timeout event for any other height changes nothing *)
Lemma other_height_noop : forall c h c', start_instance c h = (c', true) ->
  forall h' r, h' <> h -> noop c' h' r.
Proof.
  intros c h c' HS h' r Hne. unfold start_instance in HS.
  destruct (h <? c_height c); [discriminate|].
  destruct (find_inst h (c_insts c)); [discriminate|]. injection HS as <-.
  apply stale_noop. unfold stale. simpl.
  destruct (N.eqb_spec h h'); [congruence|]. rewrite find_map_stop.
  destruct (find_inst h' (c_insts c)) as [i|]; [|exact I].
  right. right. reflexivity.
Qed.
