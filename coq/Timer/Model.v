(* Executable model of the round timer and of the controller's reaction to timeout events:
     protocol/v2/qbft/roundtimer/timer.go      RoundTimeout, TimeoutForRound, waitForRound
     protocol/v2/qbft/controller/timer.go      Controller.OnTimeout
     protocol/v2/qbft/instance/timeout.go      Instance.UponRoundTimeout (as far as OnTimeout's effect goes)
     protocol/v2/qbft/controller/controller.go StartNewInstance / forceStopAllInstanceExceptCurrent,
     protocol/v2/qbft/controller/decided.go    UponDecided (what they do to the stored instances)
   Time is an integer (the correspondence uses nanoseconds, like time.Duration); rounds and heights
   are N.  Definitions only; proofs are in Timer/Proofs.v.  The default options come from
   Gen/TimerConsts.v, regenerated from the repository on every run. *)
From Coq Require Import List NArith ZArith Bool.
From SSV Require Import Gen.TimerConsts.
Import ListNotations.
Local Open Scope Z_scope.

(* ---- RoundTimeout ------------------------------------------------------------------------------ *)

(* TimeoutOptions *)
Record opts := { o_threshold : N; o_quick : Z; o_slow : Z }.

Definition default_opts : opts :=
  {| o_threshold := quick_timeout_threshold; o_quick := quick_timeout; o_slow := slow_timeout |}.

Inductive role :=
| RAttester | RAggregator | RProposer | RSyncCommittee | RSyncContribution
| ROther.   (* validator registration, voluntary exit, any other value: the default arm of the switch *)

(* BeaconNetwork as far as the timer uses it: SlotDurationSec() and GetSlotStartTime(slot);
   the slot is the height *)
Record beacon := { slot_duration : Z; slot_start : N -> Z }.

(* the role's base: a third / two thirds of the slot (Go integer division truncates), or none for
   the roles whose timeout is relative to the moment of arming *)
Definition base_duration (b : beacon) (ro : role) : option Z :=
  match ro with
  | RAttester | RSyncCommittee => Some (Z.quot (slot_duration b) 3)
  | RAggregator | RSyncContribution => Some (Z.quot (slot_duration b) 3 * 2)
  | RProposer | ROther => None
  end.

(* the cumulative per-round allowance *)
Definition additional (o : opts) (r : N) : Z :=
  if (r <=? o_threshold o)%N then Z.of_N r * o_quick o
  else Z.of_N (o_threshold o) * o_quick o + Z.of_N (r - o_threshold o) * o_slow o.

(* the instant before which round r of height h must not time out, for a timer armed at [now] *)
Definition deadline (o : opts) (b : beacon) (ro : role) (now : Z) (h r : N) : Z :=
  match base_duration b ro with
  | Some bd => slot_start b h + bd + additional o r
  | None => now + (if (r <=? o_threshold o)%N then o_quick o else o_slow o)
  end.

(* RoundTimeout(height, round) evaluated at time [now] *)
Definition round_timeout (o : opts) (b : beacon) (ro : role) (now : Z) (h r : N) : Z :=
  deadline o b ro now h r - now.

(* ---- the timer --------------------------------------------------------------------------------- *)

(* one arming = one time.Timer + one goroutine in waitForRound (TimeoutForRound never stores the
   timer it creates, so nothing is ever reused or stopped) *)
Record pending := {
  p_id : nat;          (* ordinal of the arming *)
  p_round : N;
  p_armed_at : Z;
  p_deadline : Z;
  p_fire : Z           (* a time.Timer set at [now] for d fires no earlier than now + max d 0 *)
}.

Record tstate := {
  armed : N;                     (* RoundTimer.round, the atomic *)
  last_id : option nat;          (* ghost: the arming that wrote [armed] *)
  next_id : nat;
  pend : list pending;           (* goroutines blocked in the select of waitForRound *)
  woken : list pending;          (* goroutines that received their expiry and found Round() == round,
                                    not yet inside the callback *)
  cancelled_at : option Z        (* the parent context was cancelled at this time *)
}.

Definition init : tstate :=
  {| armed := 0%N; last_id := None; next_id := O; pend := []; woken := []; cancelled_at := None |}.

Fixpoint find_pending (id : nat) (l : list pending) : option pending :=
  match l with
  | [] => None
  | p :: tl => if Nat.eqb (p_id p) id then Some p else find_pending id tl
  end.

Fixpoint remove_pending (id : nat) (l : list pending) : list pending :=
  match l with
  | [] => []
  | p :: tl => if Nat.eqb (p_id p) id then tl else p :: remove_pending id tl
  end.

Inductive op :=
| OArm (now : Z) (h r : N)       (* TimeoutForRound(h, r) *)
| OWake (now : Z) (id : nat)     (* the goroutine of arming id receives its expiry and reads Round() *)
| OCall (now : Z) (id : nat)     (* ... takes the read lock and invokes the callback *)
| OExpire (now : Z) (id : nat)   (* both without anything in between *)
| OCancel (now : Z).             (* the parent context is cancelled: every goroutine still blocked
                                    leaves through ctx.Done -- unless its expiry is, or becomes
                                    before it is scheduled, ready as well, in which case select may
                                    take the timer branch.  So after OCancel the schedule may stop
                                    delivering expiries at any point; nothing else changes. *)

Inductive obs :=
| RArmed (p : pending)
| RGuard (p : pending) (passed : bool)
| RCalled (p : pending) (t : Z) (armed_now : N) (last_now : option nat)
                                 (* the callback ran at t for arming p, while the timer was armed
                                    for armed_now by arming last_now *)
| RSuppressed (p : pending)      (* expiry received, Round() differs: no callback *)
| RNotDue                        (* a time.Timer does not fire early: nothing happens *)
| RNoSuch                        (* no goroutine of that arming is in that position *)
| RCancel.

Definition with_lists (s : tstate) (pe wo : list pending) : tstate :=
  {| armed := armed s; last_id := last_id s; next_id := next_id s; pend := pe; woken := wo;
     cancelled_at := cancelled_at s |}.

Definition arm (o : opts) (b : beacon) (ro : role) (s : tstate) (now : Z) (h r : N) : tstate * obs :=
  let dl := deadline o b ro now h r in
  let p := {| p_id := next_id s; p_round := r; p_armed_at := now; p_deadline := dl;
              p_fire := Z.max now dl |} in
  ({| armed := r; last_id := Some (next_id s); next_id := S (next_id s);
      pend := pend s ++ [p]; woken := woken s; cancelled_at := cancelled_at s |}, RArmed p).

Definition wake (s : tstate) (now : Z) (id : nat) : tstate * obs :=
  match find_pending id (pend s) with
  | None => (s, RNoSuch)
  | Some p =>
      if now <? p_fire p then (s, RNotDue)
      else if (armed s =? p_round p)%N
      then (with_lists s (remove_pending id (pend s)) (woken s ++ [p]), RGuard p true)
      else (with_lists s (remove_pending id (pend s)) (woken s), RGuard p false)
  end.

Definition call (s : tstate) (now : Z) (id : nat) : tstate * obs :=
  match find_pending id (woken s) with
  | None => (s, RNoSuch)
  | Some p => (with_lists s (pend s) (remove_pending id (woken s)), RCalled p now (armed s) (last_id s))
  end.

Definition expire (s : tstate) (now : Z) (id : nat) : tstate * obs :=
  match wake s now id with
  | (s1, RGuard p true) => call s1 now id
  | (s1, RGuard p false) => (s1, RSuppressed p)
  | r => r
  end.

Definition cancel (s : tstate) (now : Z) : tstate * obs :=
  match cancelled_at s with
  | Some _ => (s, RCancel)
  | None => ({| armed := armed s; last_id := last_id s; next_id := next_id s; pend := pend s;
               woken := woken s; cancelled_at := Some now |}, RCancel)
  end.

Definition step (o : opts) (b : beacon) (ro : role) (s : tstate) (x : op) : tstate * obs :=
  match x with
  | OArm now h r => arm o b ro s now h r
  | OWake now id => wake s now id
  | OCall now id => call s now id
  | OExpire now id => expire s now id
  | OCancel now => cancel s now
  end.

Fixpoint run (o : opts) (b : beacon) (ro : role) (s : tstate) (ops : list op) : tstate * list obs :=
  match ops with
  | [] => (s, [])
  | x :: tl =>
      let '(s1, r) := step o b ro s x in
      let '(s2, rs) := run o b ro s1 tl in (s2, r :: rs)
  end.

(* the arming whose round is r, most recent first (glue for logs that name callbacks by round) *)
Fixpoint id_of_round (r : N) (l : list pending) : option nat :=
  match l with
  | [] => None
  | p :: tl => match id_of_round r tl with
               | Some i => Some i
               | None => if (p_round p =? r)%N then Some (p_id p) else None
               end
  end.

(* ---- the controller side ----------------------------------------------------------------------- *)

Local Open Scope N_scope.

(* an instance held in Controller.StoredInstances, as far as OnTimeout looks at it *)
Record inst := {
  i_height : N;
  i_round : N;
  i_decided : bool;
  i_stopped : bool;               (* forceStop *)
  i_proposal_accepted : bool      (* ProposalAcceptedForCurrentRound != nil *)
}.

Record cstate := { c_height : N; c_insts : list inst }.

Fixpoint find_inst (h : N) (l : list inst) : option inst :=
  match l with
  | [] => None
  | i :: tl => if i_height i =? h then Some i else find_inst h tl
  end.

Fixpoint update_inst (h : N) (f : inst -> inst) (l : list inst) : list inst :=
  match l with
  | [] => []
  | i :: tl => if i_height i =? h then f i :: tl else i :: update_inst h f tl
  end.

(* CanProcessMessages *)
Definition can_process (i : inst) : bool := negb (i_stopped i) && (i_round i <? cutoff_round).

Inductive tresult :=
| TNoInstance          (* error "instance is nil" *)
| TOldRound            (* nil, "timeout for old round" *)
| TDecided             (* nil *)
| TStopped             (* error "instance stopped processing timeouts" *)
| TBumped (new_round : N).

(* what a processed timeout does besides changing the state *)
Inductive effect :=
| EBroadcastRoundChange (h r : N)
| EArmTimer (h r : N).

Definition bump (i : inst) : inst :=
  {| i_height := i_height i; i_round := i_round i + 1; i_decided := i_decided i;
     i_stopped := i_stopped i; i_proposal_accepted := false |}.

(* Controller.OnTimeout for a well-formed event carrying (h, r) *)
Definition on_timeout (c : cstate) (h r : N) : cstate * tresult * list effect :=
  match find_inst h (c_insts c) with
  | None => (c, TNoInstance, [])
  | Some i =>
      if r <? i_round i then (c, TOldRound, [])
      else if i_decided i then (c, TDecided, [])
      else if negb (can_process i) then (c, TStopped, [])
      else ({| c_height := c_height c; c_insts := update_inst h bump (c_insts c) |},
            TBumped (i_round i + 1),
            [EBroadcastRoundChange h (i_round i + 1); EArmTimer h (i_round i + 1)])
  end.

Definition stop (i : inst) : inst :=
  {| i_height := i_height i; i_round := i_round i; i_decided := i_decided i; i_stopped := true;
     i_proposal_accepted := i_proposal_accepted i |}.

(* StartNewInstance(height) with a valid value: false = one of its two error returns *)
Definition start_instance (c : cstate) (h : N) : cstate * bool :=
  if h <? c_height c then (c, false)
  else match find_inst h (c_insts c) with
       | Some _ => (c, false)
       | None =>
           let fresh := {| i_height := h; i_round := 1; i_decided := false; i_stopped := false;
                           i_proposal_accepted := false |} in
           ({| c_height := h; c_insts := fresh :: map stop (c_insts c) |}, true)
       end.

(* UponDecided with a valid decided message for (h, r) *)
Definition decided_msg (c : cstate) (h r : N) : cstate :=
  let insts :=
    match find_inst h (c_insts c) with
    | None => {| i_height := h; i_round := r; i_decided := true; i_stopped := false;
                 i_proposal_accepted := false |} :: c_insts c
    | Some i =>
        if i_decided i then c_insts c
        else update_inst h (fun i => {| i_height := i_height i; i_round := r; i_decided := true;
                                        i_stopped := i_stopped i;
                                        i_proposal_accepted := i_proposal_accepted i |}) (c_insts c)
    end in
  {| c_height := if c_height c <? h then h else c_height c; c_insts := insts |}.

Definition cinit : cstate := {| c_height := 0; c_insts := [] |}.

Inductive cop :=
| CStart (h : N)
| CDecided (h r : N)
| CTimeout (h r : N).

Inductive cobs :=
| CRStart (ok : bool)
| CRDecided
| CRTimeout (res : tresult) (changed : bool) (eff : list effect).

Definition inst_eqb (a b : inst) : bool :=
  (i_height a =? i_height b) && (i_round a =? i_round b) && Bool.eqb (i_decided a) (i_decided b) &&
  Bool.eqb (i_stopped a) (i_stopped b) && Bool.eqb (i_proposal_accepted a) (i_proposal_accepted b).

Fixpoint insts_eqb (a b : list inst) : bool :=
  match a, b with
  | [], [] => true
  | x :: a', y :: b' => inst_eqb x y && insts_eqb a' b'
  | _, _ => false
  end.

Definition cstate_eqb (a b : cstate) : bool :=
  (c_height a =? c_height b) && insts_eqb (c_insts a) (c_insts b).

Definition cstep (c : cstate) (x : cop) : cstate * cobs :=
  match x with
  | CStart h => let '(c', ok) := start_instance c h in (c', CRStart ok)
  | CDecided h r => (decided_msg c h r, CRDecided)
  | CTimeout h r =>
      let '(c', res, eff) := on_timeout c h r in (c', CRTimeout res (negb (cstate_eqb c c')) eff)
  end.
