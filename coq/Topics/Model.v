(* Executable model of the topic / envelope / subnet-bitmap functions of
     network/commons/common.go      ValidatorSubnet, SubnetTopicID, ValidatorTopicID, GetTopicFullName,
                                    GetTopicBaseName, Topics, EncodeSignedSSVMessage, DecodeSignedSSVMessage
     network/p2p/p2p_pubsub.go      the topic choice of Broadcast / Subscribe / Unsubscribe / Peers
     network/p2p/p2p.go             the bit UpdateSubnets advertises for an active validator
     network/topics/controller.go   base name -> name on the wire
     message/validation/validation.go   the topic check of validateP2PMessage
     network/records/subnets.go     Subnets.String / Subnets.FromString
   Bytes and characters are N (< 256); strings are lists of character codes.
   Definitions only; proofs are in Topics/Proofs.v.  Constants come from Gen/TopicsConsts.v, which is
   regenerated from the repository on every run. *)
From Coq Require Import List NArith ZArith Bool.
From SSV Require Import Gen.TopicsConsts.
Import ListNotations.
Local Open Scope N_scope.

(* ---- strings ---------------------------------------------------------------------------------- *)

Fixpoint list_eqb (a b : list N) : bool :=
  match a, b with
  | [], [] => true
  | x :: a', y :: b' => (x =? y) && list_eqb a' b'
  | _, _ => false
  end.

Fixpoint is_prefix (p s : list N) : bool :=
  match p, s with
  | [], _ => true
  | a :: p', b :: s' => (a =? b) && is_prefix p' s'
  | _ :: _, [] => false
  end.

(* strings.Replace(s, p, "", 1) for a non-empty p: the leftmost occurrence is removed. *)
Fixpoint replace_first (p s : list N) {struct s} : list N :=
  if is_prefix p s then skipn (length p) s
  else match s with
       | [] => []
       | c :: tl => c :: replace_first p tl
       end.

(* fmt.Sprintf("%d", n) for n >= 0.  Digits least significant first, then reversed; the fuel is the
   bit length of n, which bounds its number of decimal digits. *)
Fixpoint dec_rev (fuel : nat) (n : N) : list N :=
  match fuel with
  | O => []
  | S f => if n <? 10 then [48 + n] else (48 + n mod 10) :: dec_rev f (n / 10)
  end.

Definition decimal (n : N) : list N := rev (dec_rev (S (N.to_nat (N.log2 n))) n).

(* hex.EncodeToString *)
Definition hex_digit (d : N) : N := if d <? 10 then 48 + d else 87 + d.

Definition hex_encode (bs : list N) : list N :=
  flat_map (fun b => [hex_digit (b / 16); hex_digit (b mod 16)]) bs.

(* strconv.ParseUint(s, 16, bits): digits 0-9 a-f A-F, no sign, no underscore, "" is an error,
   a value that does not fit is an error *)
Definition hex_val (c : N) : option N :=
  if (48 <=? c) && (c <=? 57) then Some (c - 48)
  else if (97 <=? c) && (c <=? 102) then Some (c - 87)
  else if (65 <=? c) && (c <=? 70) then Some (c - 55)
  else None.

Fixpoint parse_hex_acc (acc : N) (s : list N) : option N :=
  match s with
  | [] => Some acc
  | c :: tl => match hex_val c with
               | None => None
               | Some d => parse_hex_acc (acc * 16 + d) tl
               end
  end.

Definition parse_uint_hex (bits : N) (s : list N) : option N :=
  match s with
  | [] => None
  | _ => match parse_hex_acc 0 s with
         | Some v => if v <? 2 ^ bits then Some v else None
         | None => None
         end
  end.

(* ---- key -> subnet -> topic (network/commons) -------------------------------------------------- *)

(* hexToUint64: a parse error yields 0 *)
Definition hex_to_uint64 (s : list N) : N :=
  match parse_uint_hex 64 s with Some v => v | None => 0 end.

(* ValidatorSubnet(validatorPKHex string) int *)
Definition validator_subnet (pkhex : list N) : Z :=
  if Nat.ltb (length pkhex) 10 then (-1)%Z
  else Z.of_N (hex_to_uint64 (firstn 10 pkhex) mod subnets_count).

(* SubnetTopicID(subnet int) string *)
Definition subnet_topic_id (subnet : Z) : list N :=
  if (subnet <? 0)%Z then unknown_subnet else decimal (Z.to_N subnet).

(* ValidatorTopicID(pk []byte) []string *)
Definition validator_topic_id (pk : list N) : list (list N) :=
  [subnet_topic_id (validator_subnet (hex_encode pk))].

Definition topic_prefix_dot : list N := topic_prefix ++ [46].

(* GetTopicFullName / GetTopicBaseName *)
Definition full_name (base : list N) : list N := topic_prefix_dot ++ base.
Definition base_name (topic : list N) : list N := replace_first topic_prefix_dot topic.

(* Topics(): the names of all subnets of the fork, in order *)
Fixpoint n_range (k : nat) (from : N) : list N :=
  match k with O => [] | S k' => from :: n_range k' (from + 1) end.

Definition all_topics : list (list N) :=
  map (fun i => full_name (subnet_topic_id (Z.of_N i))) (n_range (N.to_nat subnets_count) 0).

(* ---- the call sites ---------------------------------------------------------------------------- *)

(* p2pNetwork.Broadcast: topics handed to topicsCtrl.Broadcast for a message of validator pk *)
Definition publish_topics (pk : list N) : list (list N) := validator_topic_id pk.
(* p2pNetwork.Subscribe -> subscribe: topics handed to topicsCtrl.Subscribe *)
Definition subscribe_topics (pk : list N) : list (list N) := validator_topic_id pk.
(* p2pNetwork.Unsubscribe / Peers *)
Definition unsubscribe_topics (pk : list N) : list (list N) := validator_topic_id pk.
Definition peers_topics (pk : list N) : list (list N) := validator_topic_id pk.
(* topicsCtrl.Subscribe / Broadcast: the name that goes on the wire *)
Definition wire_topic (base : list N) : list N := full_name base.
(* p2pNetwork.UpdateSubnets: index set to 1 in the advertised subnet vector *)
Definition advertised_subnet (pk : list N) : Z := validator_subnet (hex_encode pk).

(* validateP2PMessage: the message of validator pk received on pubsub topic [topic] passes the
   topic check *)
Definition validator_accepts (topic pk : list N) : bool :=
  existsb (fun tp => list_eqb tp (base_name topic)) (validator_topic_id pk).

(* ---- envelope ---------------------------------------------------------------------------------- *)

Definition signature_size : nat := N.to_nat signature_size_N.
Definition signature_offset : nat := N.to_nat signature_offset_N.
Definition operator_id_size : nat := N.to_nat operator_id_size_N.
Definition operator_id_offset : nat := N.to_nat operator_id_offset_N.
Definition message_offset : nat := N.to_nat message_offset_N.

(* copy(dst[off:], src): overwrites min(len dst - off, len src) bytes *)
Fixpoint copy_at (off : nat) (src dst : list N) : list N :=
  match dst with
  | [] => []
  | d :: dt =>
      match off with
      | S o => d :: copy_at o src dt
      | O => match src with
             | [] => dst
             | s :: st => s :: copy_at O st dt
             end
      end
  end.

(* binary.LittleEndian *)
Fixpoint le_bytes (k : nat) (v : N) : list N :=
  match k with O => [] | S k' => (v mod 256) :: le_bytes k' (v / 256) end.

Fixpoint le_value (bs : list N) : N :=
  match bs with [] => 0 | b :: tl => b + 256 * le_value tl end.

(* EncodeSignedSSVMessage; PutUint64 always writes 8 bytes *)
Definition encode (msg : list N) (op : N) (sig : list N) : list N :=
  let b0 := repeat 0 (signature_size + operator_id_size + length msg) in
  let b1 := copy_at signature_offset sig b0 in
  let b2 := copy_at operator_id_offset (le_bytes 8 op) b1 in
  copy_at message_offset msg b2.

Inductive dec_result :=
| DErr                                     (* the error return *)
| DPanic                                   (* Uint64 on a slice shorter than 8 bytes *)
| DOk (msg : list N) (op : N) (sig : list N).

(* DecodeSignedSSVMessage *)
Definition decode (enc : list N) : dec_result :=
  if Nat.ltb (length enc) message_offset then DErr
  else
    let ops := firstn operator_id_size (skipn operator_id_offset enc) in
    if Nat.ltb (length ops) 8 then DPanic
    else DOk (skipn message_offset enc) (le_value (firstn 8 ops))
             (firstn signature_size (skipn signature_offset enc)).

(* ---- subnet bitmap (network/records) ----------------------------------------------------------- *)

Definition bitvector_bytes : nat := N.to_nat bitvector_byte_size_N.
Definition bitvector_bits : nat := 8 * bitvector_bytes.

Fixpoint bits_value (bs : list bool) : N :=
  match bs with [] => 0 | b :: tl => (if b then 1 else 0) + 2 * bits_value tl end.

Fixpoint pack (nbytes : nat) (bits : list bool) : list N :=
  match nbytes with
  | O => []
  | S k => bits_value (firstn 8 bits) :: pack k (skipn 8 bits)
  end.

(* the Bitvector128 after SetBitAt(i, s[i] > 0) for every i: indices beyond the vector are ignored,
   missing ones stay 0 *)
Definition subnet_bits (s : list N) : list bool :=
  let b := firstn bitvector_bits (map (fun v => 0 <? v) s) in
  b ++ repeat false (bitvector_bits - length b).

(* Subnets.String *)
Definition subnets_to_string (s : list N) : list N := hex_encode (pack bitvector_bytes (subnet_bits s)).

(* getCharMask: one hex character -> its 4 bits, least significant first *)
Definition char_mask (c : N) : option (list N) :=
  match parse_uint_hex 8 [c] with
  | None => None
  | Some v => Some [v mod 2; (v / 2) mod 2; (v / 4) mod 2; (v / 8) mod 2]
  end.

(* the loop of FromString: pairs of characters; an unpaired last character is not looked at *)
Fixpoint from_pairs (s : list N) : option (list N) :=
  match s with
  | c1 :: c2 :: tl =>
      match char_mask c1, char_mask c2 with
      | Some m1, Some m2 =>
          match from_pairs tl with
          | Some r => Some (m2 ++ m1 ++ r)
          | None => None
          end
      | _, _ => None
      end
  | _ => Some []
  end.

(* Subnets.FromString; "0x" = [48; 120] *)
Definition subnets_from_string (s : list N) : option (list N) :=
  from_pairs (replace_first [48; 120] s).

(* newSubnets[i] = v in UpdateSubnets *)
Fixpoint set_nth (i : nat) (v : N) (l : list N) : list N :=
  match l, i with
  | [], _ => []
  | _ :: tl, O => v :: tl
  | x :: tl, S j => x :: set_nth j v tl
  end.

Definition normalize_subnets (s : list N) : list N := map (fun v => if 0 <? v then 1 else 0) s.

(* ---- operations of the correspondence check ---------------------------------------------------- *)

Inductive op :=
| OKey (pk : list N)                        (* every topic function and call site for one key *)
| OKeyAny (pk : list N)                     (* the same without Broadcast and validation, whose
                                               message id only holds 48-byte keys *)
| OSubnetHex (s : list N)                   (* ValidatorSubnet on an arbitrary string *)
| OAccept (pk topic : list N)               (* the validator's topic check on an arbitrary topic *)
| OBase (topic : list N)                    (* GetTopicBaseName on an arbitrary string *)
| OEncode (opid : N) (sig msg : list N)     (* encode, then decode of the result *)
| ODecode (enc : list N)
| OToString (s : list N)                    (* Subnets.String, then FromString of the result *)
| OFromString (s : list N).

Inductive obs :=
| RKey (subnet : Z) (ids : list (list N)) (full base : list (list N))
       (pub sub unsub peers : list (list N)) (accepts : list bool) (advertised : Z)
| RKeyAny (subnet : Z) (ids : list (list N)) (full base : list (list N))
          (sub unsub peers : list (list N)) (advertised : Z)
| RSubnet (subnet : Z)
| RAccept (ok : bool)
| RBase (b : list N)
| REncode (enc : list N) (back : dec_result)
| RDecode (r : dec_result)
| RToString (str : list N) (back : option (list N))
| RFromString (r : option (list N)).

Definition step (o : op) : obs :=
  match o with
  | OKey pk =>
      let ids := validator_topic_id pk in
      let full := map full_name ids in
      RKey (validator_subnet (hex_encode pk)) ids full (map base_name full)
           (publish_topics pk) (subscribe_topics pk) (unsubscribe_topics pk) (peers_topics pk)
           (map (fun t => validator_accepts (wire_topic t) pk) (publish_topics pk))
           (advertised_subnet pk)
  | OKeyAny pk =>
      let ids := validator_topic_id pk in
      let full := map full_name ids in
      RKeyAny (validator_subnet (hex_encode pk)) ids full (map base_name full)
              (subscribe_topics pk) (unsubscribe_topics pk) (peers_topics pk) (advertised_subnet pk)
  | OSubnetHex s => RSubnet (validator_subnet s)
  | OAccept pk topic => RAccept (validator_accepts topic pk)
  | OBase topic => RBase (base_name topic)
  | OEncode opid sig msg => let e := encode msg opid sig in REncode e (decode e)
  | ODecode enc => RDecode (decode enc)
  | OToString s => let str := subnets_to_string s in RToString str (subnets_from_string str)
  | OFromString s => RFromString (subnets_from_string s)
  end.
