(* Compiled from ocaml/topics/ so that model.ml lands there.  ExtrOcamlBasic only. *)
From Coq Require Import Extraction ExtrOcamlBasic.
From SSV Require Import Topics.Model.
Extraction "model.ml" step.
