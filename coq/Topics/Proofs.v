(* Lemmas about Topics/Model.v (C18). *)
From Coq Require Import List NArith ZArith Bool Lia.
From SSV Require Import Gen.TopicsConsts Topics.Model.
Import ListNotations.
Local Open Scope N_scope.

Definition bytes (l : list N) : Prop := Forall (fun b => b < 256) l.

(* quotient and remainder as fresh variables, so that lia sees only linear facts *)
Lemma divmod_ex : forall n d, d <> 0 -> exists q r, n / d = q /\ n mod d = r /\ n = d * q + r /\ r < d.
Proof.
  intros n d H. exists (n / d), (n mod d). repeat split.
  - apply N.div_mod. exact H.
  - apply N.mod_lt. exact H.
Qed.

(* ---- strings ---------------------------------------------------------------------------------- *)

Lemma list_eqb_eq : forall a b, list_eqb a b = true <-> a = b.
Proof.
  induction a as [|x a IH]; destruct b as [|y b]; simpl; split; intro H;
    try reflexivity; try discriminate.
  - apply andb_true_iff in H. destruct H as [H1 H2]. apply N.eqb_eq in H1. apply IH in H2. congruence.
  - injection H as -> ->. rewrite N.eqb_refl. simpl. apply IH. reflexivity.
Qed.

Lemma list_eqb_refl : forall a, list_eqb a a = true.
Proof. intro a. apply list_eqb_eq. reflexivity. Qed.

Lemma replace_first_unfold : forall p s,
  replace_first p s =
  if is_prefix p s then skipn (length p) s
  else match s with [] => [] | c :: tl => c :: replace_first p tl end.
Proof. intros p s. destruct s; reflexivity. Qed.

Lemma is_prefix_app : forall p x, is_prefix p (p ++ x) = true.
Proof. induction p as [|a p IH]; intro x; simpl; [reflexivity|]. rewrite N.eqb_refl. simpl. apply IH. Qed.

Lemma skipn_length_app : forall (p x : list N), skipn (length p) (p ++ x) = x.
Proof. induction p as [|a p IH]; intro x; simpl; [reflexivity|apply IH]. Qed.

Lemma replace_first_prefix : forall p x, replace_first p (p ++ x) = x.
Proof.
  intros p x. rewrite replace_first_unfold, is_prefix_app. apply skipn_length_app.
Qed.

(* the leftmost occurrence of the prefix in a full name is the one GetTopicFullName put there *)
Lemma base_of_full : forall x, base_name (full_name x) = x.
Proof. intro x. unfold base_name, full_name. apply replace_first_prefix. Qed.

(* ---- decimal rendering ------------------------------------------------------------------------- *)

Fixpoint dec_value (ds : list N) : N :=
  match ds with [] => 0 | d :: tl => (d - 48) + 10 * dec_value tl end.

Definition is_digit (c : N) : Prop := 48 <= c /\ c <= 57.

Lemma dec_rev_value : forall f n, n < 2 ^ N.of_nat f -> dec_value (dec_rev f n) = n.
Proof.
  induction f as [|f IH]; intros n Hn.
  - simpl in *. change (2 ^ 0) with 1 in Hn. lia.
  - cbn [dec_rev]. destruct (n <? 10) eqn:E.
    + apply N.ltb_lt in E. cbn [dec_value]. lia.
    + apply N.ltb_ge in E. cbn [dec_value]. rewrite IH.
      * destruct (divmod_ex n 10 ltac:(lia)) as (q & r & -> & -> & ? & ?). lia.
      * rewrite Nat2N.inj_succ, N.pow_succ_r' in Hn.
        apply N.div_lt_upper_bound; lia.
Qed.

Lemma dec_rev_digits : forall f n, Forall is_digit (dec_rev f n).
Proof.
  induction f as [|f IH]; intro n; cbn [dec_rev]; [constructor|].
  destruct (n <? 10) eqn:E.
  - apply N.ltb_lt in E. repeat constructor; lia.
  - constructor; [|apply IH]. destruct (divmod_ex n 10 ltac:(lia)) as (q & r & _ & -> & ? & ?). split; lia.
Qed.

Lemma dec_rev_nonempty : forall f n, dec_rev (S f) n <> [].
Proof. intros f n. cbn [dec_rev]. destruct (n <? 10); discriminate. Qed.

Lemma decimal_fuel : forall n, n < 2 ^ N.of_nat (S (N.to_nat (N.log2 n))).
Proof.
  intro n. rewrite Nat2N.inj_succ, N2Nat.id.
  destruct (N.eq_dec n 0) as [->|Hz]; [reflexivity|].
  apply N.log2_spec. lia.
Qed.

Lemma decimal_value : forall n, dec_value (rev (decimal n)) = n.
Proof. intro n. unfold decimal. rewrite rev_involutive. apply dec_rev_value, decimal_fuel. Qed.

Lemma decimal_inj : forall a b, decimal a = decimal b -> a = b.
Proof. intros a b H. rewrite <- (decimal_value a), <- (decimal_value b), H. reflexivity. Qed.

Lemma decimal_digits : forall n, Forall is_digit (decimal n).
Proof.
  intro n. unfold decimal. apply Forall_forall. intros c Hc. apply in_rev in Hc.
  revert c Hc. apply Forall_forall. apply dec_rev_digits.
Qed.

Lemma decimal_nonempty : forall n, decimal n <> [].
Proof.
  intros n H. unfold decimal in H. apply (f_equal (@rev N)) in H. rewrite rev_involutive in H.
  simpl rev in H. exact (dec_rev_nonempty _ _ H).
Qed.

Definition all_digits (s : list N) : bool := forallb (fun c => (48 <=? c) && (c <=? 57)) s.

Lemma all_digits_decimal : forall n, all_digits (decimal n) = true.
Proof.
  intro n. unfold all_digits. apply forallb_forall. intros c Hc.
  pose proof (decimal_digits n) as H. rewrite Forall_forall in H. destruct (H c Hc).
  apply andb_true_iff. split; apply N.leb_le; assumption.
Qed.

(* "unknown" is not the rendering of a number (checked on the generated constant) *)
Lemma unknown_not_digits : all_digits unknown_subnet = false.
Proof. vm_compute. reflexivity. Qed.

Lemma decimal_not_unknown : forall n, decimal n <> unknown_subnet.
Proof.
  intros n H. pose proof (all_digits_decimal n) as D. rewrite H, unknown_not_digits in D. discriminate.
Qed.

Lemma subnet_topic_id_of_N : forall i, subnet_topic_id (Z.of_N i) = decimal i.
Proof.
  intro i. unfold subnet_topic_id. destruct (Z.ltb_spec (Z.of_N i) 0); [lia|].
  rewrite N2Z.id. reflexivity.
Qed.

(* ---- hex --------------------------------------------------------------------------------------- *)

Fixpoint be_acc (acc : N) (bs : list N) : N :=
  match bs with [] => acc | b :: tl => be_acc (acc * 256 + b) tl end.

(* the big-endian number spelled by a byte string *)
Definition be_value (bs : list N) : N := be_acc 0 bs.

Lemma lt16_cases : forall d, d < 16 ->
  d = 0 \/ d = 1 \/ d = 2 \/ d = 3 \/ d = 4 \/ d = 5 \/ d = 6 \/ d = 7 \/
  d = 8 \/ d = 9 \/ d = 10 \/ d = 11 \/ d = 12 \/ d = 13 \/ d = 14 \/ d = 15.
Proof. intros d H. lia. Qed.

Ltac nibble_cases d H :=
  let C := fresh "C" in
  pose proof (lt16_cases d H) as C;
  repeat (destruct C as [C|C]; [subst d|]); try subst d.

Lemma hex_val_digit : forall d, d < 16 -> hex_val (hex_digit d) = Some d.
Proof. intros d H. nibble_cases d H; reflexivity. Qed.

Lemma hex_digit_not_x : forall d, d < 16 -> hex_digit d <> 120.
Proof. intros d H. nibble_cases d H; discriminate. Qed.

Lemma byte_nibbles : forall b, b < 256 -> b / 16 < 16 /\ b mod 16 < 16.
Proof.
  intros b H. split.
  - apply N.div_lt_upper_bound; lia.
  - apply N.mod_lt. lia.
Qed.

Lemma hex_encode_cons : forall b bs,
  hex_encode (b :: bs) = hex_digit (b / 16) :: hex_digit (b mod 16) :: hex_encode bs.
Proof. reflexivity. Qed.

Lemma hex_encode_length : forall bs, length (hex_encode bs) = (2 * length bs)%nat.
Proof. induction bs as [|b bs IH]; [reflexivity|]. rewrite hex_encode_cons. simpl length. lia. Qed.

Lemma firstn_hex_encode : forall k bs, firstn (2 * k) (hex_encode bs) = hex_encode (firstn k bs).
Proof.
  induction k as [|k IH]; intro bs; [reflexivity|].
  replace (2 * S k)%nat with (S (S (2 * k))) by lia.
  destruct bs as [|b bs]; [reflexivity|].
  rewrite hex_encode_cons. cbn [firstn]. rewrite hex_encode_cons, IH. reflexivity.
Qed.

Lemma parse_hex_encode : forall bs acc, bytes bs ->
  parse_hex_acc acc (hex_encode bs) = Some (be_acc acc bs).
Proof.
  induction bs as [|b bs IH]; intros acc Hb; [reflexivity|].
  inversion Hb as [|? ? Hlt Hrest]; subst.
  destruct (byte_nibbles b Hlt) as [Hh Hl].
  rewrite hex_encode_cons. cbn [parse_hex_acc be_acc].
  rewrite (hex_val_digit _ Hh), (hex_val_digit _ Hl), IH by assumption.
  f_equal. f_equal. destruct (divmod_ex b 16 ltac:(lia)) as (q & r & -> & -> & ? & ?). lia.
Qed.

Lemma hex_encode_no_x : forall bs, bytes bs -> Forall (fun c => c <> 120) (hex_encode bs).
Proof.
  induction bs as [|b bs IH]; intro Hb; [constructor|].
  inversion Hb as [|? ? Hlt Hrest]; subst.
  destruct (byte_nibbles b Hlt) as [Hh Hl].
  rewrite hex_encode_cons. repeat constructor; auto using hex_digit_not_x.
Qed.

(* ---- key -> subnet ----------------------------------------------------------------------------- *)

Lemma subnets_count_pos : subnets_count <> 0.
Proof. discriminate. Qed.

(* the hex route through strconv is "first five bytes, big endian" *)
Lemma validator_subnet_hex : forall pk, bytes pk -> (5 <= length pk)%nat ->
  validator_subnet (hex_encode pk) = Z.of_N (be_value (firstn 5 pk) mod subnets_count).
Proof.
  intros pk Hb Hl. unfold validator_subnet.
  rewrite hex_encode_length.
  destruct (Nat.ltb_spec (2 * length pk) 10); [lia|].
  change 10%nat with (2 * 5)%nat. rewrite firstn_hex_encode.
  destruct pk as [|a [|b [|c [|d [|e tl]]]]]; simpl in Hl; try lia.
  cbn [firstn].
  assert (Hb5 : bytes [a; b; c; d; e]).
  { unfold bytes in *. repeat (inversion Hb as [|? ? ? Hb']; subst; clear Hb; rename Hb' into Hb;
                              constructor; [assumption|]). constructor. }
  unfold hex_to_uint64, parse_uint_hex.
  rewrite (hex_encode_cons a). rewrite <- (hex_encode_cons a).
  pose proof (parse_hex_encode [a; b; c; d; e] 0 Hb5) as P.
  rewrite hex_encode_cons in P |- *. rewrite P.
  assert (Hlt : be_acc 0 [a; b; c; d; e] < 2 ^ 64).
  { change (2 ^ 64) with 18446744073709551616. cbn [be_acc].
    unfold bytes in Hb5.
    repeat match goal with H : Forall _ (_ :: _) |- _ => inversion H; subst; clear H end. lia. }
  apply N.ltb_lt in Hlt. rewrite Hlt. reflexivity.
Qed.

Lemma validator_subnet_short : forall pk, (length pk < 5)%nat -> validator_subnet (hex_encode pk) = (-1)%Z.
Proof.
  intros pk Hl. unfold validator_subnet. rewrite hex_encode_length.
  destruct (Nat.ltb_spec (2 * length pk) 10); [reflexivity|lia].
Qed.

Lemma topic_id_long : forall pk, bytes pk -> (5 <= length pk)%nat ->
  validator_topic_id pk = [decimal (be_value (firstn 5 pk) mod subnets_count)].
Proof.
  intros pk Hb Hl. unfold validator_topic_id. rewrite validator_subnet_hex by assumption.
  rewrite subnet_topic_id_of_N. reflexivity.
Qed.

Lemma topic_id_short : forall pk, (length pk < 5)%nat -> validator_topic_id pk = [unknown_subnet].
Proof. intros pk Hl. unfold validator_topic_id. rewrite validator_subnet_short by assumption. reflexivity. Qed.

Lemma in_n_range : forall k from i, from <= i -> i < from + N.of_nat k -> In i (n_range k from).
Proof.
  induction k as [|k IH]; intros from i H1 H2; [lia|].
  cbn [n_range]. destruct (N.eq_dec from i) as [->|Hne]; [left; reflexivity|].
  right. apply IH; lia.
Qed.

Lemma in_all_topics : forall s, s < subnets_count -> In (wire_topic (decimal s)) all_topics.
Proof.
  intros s Hs. unfold all_topics, wire_topic. apply in_map_iff. exists s. split.
  - rewrite subnet_topic_id_of_N. reflexivity.
  - apply in_n_range; [lia|]. rewrite N2Nat.id. lia.
Qed.

(* the validator's check accepts a wire topic exactly when its base name is the key's topic *)
Lemma validator_accepts_full : forall pk x,
  validator_accepts (full_name x) pk = true <-> In x (validator_topic_id pk).
Proof.
  intros pk x. unfold validator_accepts. rewrite base_of_full. split.
  - intro H. apply existsb_exists in H. destruct H as [tp [Hin He]].
    apply list_eqb_eq in He. subst. assumption.
  - intro H. apply existsb_exists. exists x. split; [assumption|apply list_eqb_refl].
Qed.

Lemma topic_agreement : forall pk, bytes pk -> (5 <= length pk)%nat ->
  let s := be_value (firstn 5 pk) mod subnets_count in
  publish_topics pk = [decimal s] /\ subscribe_topics pk = [decimal s] /\
  unsubscribe_topics pk = [decimal s] /\ peers_topics pk = [decimal s] /\
  (forall x, validator_accepts (wire_topic x) pk = true <-> x = decimal s) /\
  s < subnets_count /\ In (wire_topic (decimal s)) all_topics /\
  advertised_subnet pk = Z.of_N s.
Proof.
  intros pk Hb Hl s.
  assert (Hs : s < subnets_count) by (apply N.mod_lt, subnets_count_pos).
  unfold publish_topics, subscribe_topics, unsubscribe_topics, peers_topics.
  rewrite (topic_id_long pk Hb Hl). fold s.
  repeat split; try reflexivity; try assumption.
  - intro H. apply validator_accepts_full in H. rewrite (topic_id_long pk Hb Hl) in H.
    destruct H as [H|[]]. symmetry. exact H.
  - intros ->. apply validator_accepts_full. rewrite (topic_id_long pk Hb Hl). left. reflexivity.
  - apply in_all_topics. assumption.
  - unfold advertised_subnet. apply validator_subnet_hex; assumption.
Qed.

Lemma short_key : forall pk, (length pk < 5)%nat ->
  publish_topics pk = [unknown_subnet] /\ subscribe_topics pk = [unknown_subnet] /\
  (forall x, validator_accepts (wire_topic x) pk = true <-> x = unknown_subnet) /\
  ~ In (wire_topic unknown_subnet) all_topics /\ advertised_subnet pk = (-1)%Z.
Proof.
  intros pk Hl. unfold publish_topics, subscribe_topics.
  rewrite (topic_id_short pk Hl). repeat split; try reflexivity.
  - intro H. apply validator_accepts_full in H. rewrite (topic_id_short pk Hl) in H.
    destruct H as [H|[]]. symmetry. exact H.
  - intros ->. apply validator_accepts_full. rewrite (topic_id_short pk Hl). left. reflexivity.
  - unfold all_topics, wire_topic. intro H. apply in_map_iff in H. destruct H as [i [He _]].
    rewrite subnet_topic_id_of_N in He. unfold full_name in He. apply app_inv_head in He.
    exact (decimal_not_unknown _ He).
  - unfold advertised_subnet. apply validator_subnet_short. assumption.
Qed.

Lemma distinct_subnets_distinct_topics : forall a b,
  wire_topic (decimal a) = wire_topic (decimal b) -> a = b.
Proof.
  intros a b H. unfold wire_topic, full_name in H. apply app_inv_head in H. apply decimal_inj. exact H.
Qed.

(* ---- envelope ---------------------------------------------------------------------------------- *)

Lemma copy_at_length : forall dst off src, length (copy_at off src dst) = length dst.
Proof.
  induction dst as [|d dt IH]; intros off src; [reflexivity|].
  destruct off as [|o]; cbn [copy_at].
  - destruct src as [|s st]; [reflexivity|]. simpl length. rewrite IH. reflexivity.
  - simpl length. rewrite IH. reflexivity.
Qed.

Lemma firstn_copy_at : forall dst off src k, (k <= off)%nat ->
  firstn k (copy_at off src dst) = firstn k dst.
Proof.
  induction dst as [|d dt IH]; intros off src k Hk; [reflexivity|].
  destruct off as [|o].
  - assert (k = 0)%nat by lia. subst. reflexivity.
  - cbn [copy_at]. destruct k as [|k]; [reflexivity|]. cbn [firstn]. rewrite IH by lia. reflexivity.
Qed.

Lemma skipn_copy_at : forall dst off src o, (off + length src <= o)%nat ->
  skipn o (copy_at off src dst) = skipn o dst.
Proof.
  induction dst as [|d dt IH]; intros off src o Ho; [reflexivity|].
  destruct off as [|f].
  - destruct src as [|s st]; [reflexivity|]. cbn [copy_at]. simpl length in Ho.
    destruct o as [|o]; [lia|]. cbn [skipn]. apply IH. simpl. lia.
  - cbn [copy_at]. destruct o as [|o]; [lia|]. cbn [skipn]. apply IH. lia.
Qed.

Lemma read_copy_at : forall dst off src, (off + length src <= length dst)%nat ->
  firstn (length src) (skipn off (copy_at off src dst)) = src.
Proof.
  induction dst as [|d dt IH]; intros off src H.
  - simpl in H. assert (length src = 0)%nat by lia. destruct src; [|discriminate].
    destruct off; reflexivity.
  - destruct off as [|o].
    + destruct src as [|s st]; [reflexivity|]. cbn [copy_at skipn]. simpl length. cbn [firstn].
      f_equal. simpl in H. apply (IH 0%nat st). simpl. lia.
    + cbn [copy_at skipn]. apply IH. simpl in H. lia.
Qed.

(* reading a window that lies before the written region *)
Lemma window_before : forall dst off src o n, (o + n <= off)%nat ->
  firstn n (skipn o (copy_at off src dst)) = firstn n (skipn o dst).
Proof.
  intros dst off src o n H. rewrite !firstn_skipn_comm. rewrite firstn_copy_at by lia. reflexivity.
Qed.

Lemma le_roundtrip : forall k v, v < 256 ^ N.of_nat k -> le_value (le_bytes k v) = v.
Proof.
  induction k as [|k IH]; intros v Hv.
  - change (256 ^ N.of_nat 0) with 1 in Hv. simpl. lia.
  - cbn [le_bytes le_value]. rewrite IH.
    + destruct (divmod_ex v 256 ltac:(lia)) as (q & r & -> & -> & ? & ?). lia.
    + rewrite Nat2N.inj_succ, N.pow_succ_r' in Hv. apply N.div_lt_upper_bound; lia.
Qed.

Lemma le_bytes_length : forall k v, length (le_bytes k v) = k.
Proof. induction k as [|k IH]; intro v; [reflexivity|]. simpl. rewrite IH. reflexivity. Qed.

Lemma le_bytes_bytes : forall k v, bytes (le_bytes k v).
Proof.
  induction k as [|k IH]; intro v; [constructor|]. cbn [le_bytes]. constructor; [|apply IH].
  apply N.mod_lt. lia.
Qed.

(* what the proofs need of the layout, checked on the generated constants: the three regions are
   disjoint, in this order, the buffer ends where the message ends, the id field holds a uint64 *)
Definition layout_okb : bool :=
  (Nat.leb (signature_offset + signature_size) operator_id_offset &&
   Nat.leb (operator_id_offset + 8) message_offset &&
   Nat.eqb message_offset (signature_size + operator_id_size) &&
   Nat.leb 8 operator_id_size)%bool.

Lemma layout_ok : layout_okb = true.
Proof. vm_compute. reflexivity. Qed.

Lemma layout :
  (signature_offset + signature_size <= operator_id_offset /\
   operator_id_offset + 8 <= message_offset /\
   message_offset = signature_size + operator_id_size /\
   8 <= operator_id_size)%nat.
Proof.
  pose proof layout_ok as H. unfold layout_okb in H.
  repeat (apply andb_true_iff in H; destruct H as [H ?]).
  split; [apply Nat.leb_le; assumption|]. split; [apply Nat.leb_le; assumption|].
  split; [apply Nat.eqb_eq; assumption|apply Nat.leb_le; assumption].
Qed.

Global Opaque signature_size signature_offset operator_id_size operator_id_offset message_offset.

Lemma envelope_roundtrip : forall msg op sig,
  length sig = signature_size -> op < 2 ^ 64 ->
  decode (encode msg op sig) = DOk msg op sig.
Proof.
  intros msg op sig Hsig Hop.
  destruct layout as [L1 [L2 [L3 L4]]].
  unfold encode.
  set (b0 := repeat 0 (signature_size + operator_id_size + length msg)).
  set (opb := le_bytes 8 op).
  set (b1 := copy_at signature_offset sig b0).
  set (b2 := copy_at operator_id_offset opb b1).
  set (b3 := copy_at message_offset msg b2).
  assert (Hopb : length opb = 8%nat) by apply le_bytes_length.
  assert (H0 : length b0 = (signature_size + operator_id_size + length msg)%nat) by apply repeat_length.
  assert (H1 : length b1 = length b0) by apply copy_at_length.
  assert (H2 : length b2 = length b0) by (unfold b2; rewrite copy_at_length; exact H1).
  assert (H3 : length b3 = length b0) by (unfold b3; rewrite copy_at_length; exact H2).
  unfold decode.
  destruct (Nat.ltb_spec (length b3) message_offset) as [Hlt|_]; [lia|].
  assert (Hops : firstn 8 (firstn operator_id_size (skipn operator_id_offset b3)) = opb).
  { rewrite firstn_firstn. replace (Init.Nat.min 8 operator_id_size) with 8%nat by lia.
    unfold b3. rewrite window_before by lia.
    rewrite <- Hopb. unfold b2. apply read_copy_at. lia. }
  destruct (Nat.ltb_spec (length (firstn operator_id_size (skipn operator_id_offset b3))) 8) as [Hp|_].
  { rewrite firstn_length, skipn_length in Hp. lia. }
  rewrite Hops.
  f_equal.
  - (* message *)
    pose proof (read_copy_at b2 message_offset msg ltac:(lia)) as R. fold b3 in R.
    rewrite firstn_all2 in R; [exact R|]. rewrite skipn_length. lia.
  - (* operator id *)
    unfold opb. apply le_roundtrip. exact Hop.
  - (* signature *)
    unfold b3. rewrite window_before by lia. unfold b2. rewrite window_before by lia.
    rewrite <- Hsig. unfold b1. apply read_copy_at. lia.
Qed.

Lemma decode_short : forall enc, (length enc < message_offset)%nat -> decode enc = DErr.
Proof.
  intros enc H. unfold decode. destruct (Nat.ltb_spec (length enc) message_offset); [reflexivity|lia].
Qed.

Lemma decode_long : forall enc, (message_offset <= length enc)%nat ->
  exists msg op sig, decode enc = DOk msg op sig /\
    length msg = (length enc - message_offset)%nat /\ length sig = signature_size.
Proof.
  intros enc H. destruct layout as [L1 [L2 [L3 L4]]]. unfold decode.
  destruct (Nat.ltb_spec (length enc) message_offset); [lia|].
  destruct (Nat.ltb_spec (length (firstn operator_id_size (skipn operator_id_offset enc))) 8) as [Hp|_].
  { rewrite firstn_length, skipn_length in Hp. lia. }
  eexists _, _, _. split; [reflexivity|]. split.
  - apply skipn_length.
  - rewrite firstn_length, skipn_length. lia.
Qed.

Lemma decode_never_panics : forall enc, decode enc <> DPanic.
Proof.
  intros enc H. destruct (Nat.ltb_spec (length enc) message_offset) as [Hl|Hl].
  - rewrite decode_short in H by assumption. discriminate.
  - destruct (decode_long enc Hl) as [m [o [s [E _]]]]. rewrite E in H. discriminate.
Qed.

(* two envelopes that are equal carry the same three parts *)
Lemma encode_injective : forall m1 o1 s1 m2 o2 s2,
  length s1 = signature_size -> length s2 = signature_size -> o1 < 2 ^ 64 -> o2 < 2 ^ 64 ->
  encode m1 o1 s1 = encode m2 o2 s2 -> m1 = m2 /\ o1 = o2 /\ s1 = s2.
Proof.
  intros m1 o1 s1 m2 o2 s2 H1 H2 H3 H4 E.
  pose proof (envelope_roundtrip m1 o1 s1 H1 H3) as R1.
  pose proof (envelope_roundtrip m2 o2 s2 H2 H4) as R2.
  rewrite E, R2 in R1. injection R1 as -> -> ->. repeat split.
Qed.

(* ---- subnet bitmap ----------------------------------------------------------------------------- *)

Definition b2n (b : bool) : N := if b then 1 else 0.
Definition bits4 (d : N) : list N := [d mod 2; (d / 2) mod 2; (d / 4) mod 2; (d / 8) mod 2].

Lemma is_prefix_0x_false : forall s, Forall (fun c => c <> 120) s -> is_prefix [48; 120] s = false.
Proof.
  intros s H. destruct s as [|a [|b tl]]; cbn [is_prefix].
  - reflexivity.
  - apply andb_false_r.
  - inversion H as [|? ? _ H']; subst. inversion H' as [|? ? Hb _]; subst.
    destruct (N.eqb_spec 120 b) as [E|_]; [congruence|]. simpl. apply andb_false_r.
Qed.

Lemma replace_0x_noop : forall s, Forall (fun c => c <> 120) s -> replace_first [48; 120] s = s.
Proof.
  induction s as [|c tl IH]; intro H; rewrite replace_first_unfold, is_prefix_0x_false by assumption.
  - reflexivity.
  - inversion H; subst. rewrite IH by assumption. reflexivity.
Qed.

Lemma char_mask_digit : forall d, d < 16 -> char_mask (hex_digit d) = Some (bits4 d).
Proof. intros d H. nibble_cases d H; reflexivity. Qed.

Lemma from_pairs_cons2 : forall c1 c2 tl,
  from_pairs (c1 :: c2 :: tl) =
  match char_mask c1, char_mask c2 with
  | Some m1, Some m2 => match from_pairs tl with Some r => Some (m2 ++ m1 ++ r) | None => None end
  | _, _ => None
  end.
Proof. reflexivity. Qed.

Lemma bits_byte : forall b0 b1 b2 b3 b4 b5 b6 b7,
  let v := bits_value [b0; b1; b2; b3; b4; b5; b6; b7] in
  v < 256 /\ bits4 (v mod 16) ++ bits4 (v / 16) = map b2n [b0; b1; b2; b3; b4; b5; b6; b7].
Proof.
  intros. destruct b0, b1, b2, b3, b4, b5, b6, b7; vm_compute; split; reflexivity.
Qed.

Lemma from_pairs_pack : forall k bits, length bits = (8 * k)%nat ->
  from_pairs (hex_encode (pack k bits)) = Some (map b2n bits) /\ bytes (pack k bits).
Proof.
  induction k as [|k IH]; intros bits Hl.
  - destruct bits; [|discriminate]. split; [reflexivity|constructor].
  - destruct bits as [|b0 [|b1 [|b2 [|b3 [|b4 [|b5 [|b6 [|b7 rest]]]]]]]]; simpl in Hl; try lia.
    assert (Hr : length rest = (8 * k)%nat) by lia.
    destruct (IH rest Hr) as [IH1 IH2].
    cbn [pack firstn skipn].
    destruct (bits_byte b0 b1 b2 b3 b4 b5 b6 b7) as [Hv Hb].
    set (v := bits_value [b0; b1; b2; b3; b4; b5; b6; b7]) in *.
    destruct (byte_nibbles v Hv) as [Hh Hlo].
    split.
    + rewrite hex_encode_cons, from_pairs_cons2, (char_mask_digit _ Hh), (char_mask_digit _ Hlo), IH1.
      rewrite app_assoc, Hb. reflexivity.
    + constructor; assumption.
Qed.

Lemma subnet_bits_full : forall s, length s = bitvector_bits -> subnet_bits s = map (fun v => 0 <? v) s.
Proof.
  intros s H. unfold subnet_bits.
  rewrite firstn_all2 by (rewrite map_length; lia).
  rewrite map_length, H, Nat.sub_diag. apply app_nil_r.
Qed.

Lemma subnets_roundtrip : forall s, length s = bitvector_bits ->
  subnets_from_string (subnets_to_string s) = Some (normalize_subnets s).
Proof.
  intros s H. unfold subnets_from_string, subnets_to_string.
  assert (Hl : length (subnet_bits s) = (8 * bitvector_bytes)%nat).
  { rewrite subnet_bits_full, map_length by assumption. exact H. }
  destruct (from_pairs_pack _ _ Hl) as [F B].
  rewrite replace_0x_noop by (apply hex_encode_no_x; exact B).
  rewrite F, subnet_bits_full by assumption. rewrite map_map. reflexivity.
Qed.

Definition bit_vector (s : list N) : Prop := Forall (fun v => v = 0 \/ v = 1) s.

Lemma normalize_bits : forall s, bit_vector s -> normalize_subnets s = s.
Proof.
  induction s as [|v s IH]; intro H; [reflexivity|]. inversion H as [|? ? Hv Hs]; subst.
  cbn [normalize_subnets map]. fold (normalize_subnets s). rewrite IH by assumption.
  destruct Hv as [->| ->]; reflexivity.
Qed.

Lemma subnets_roundtrip_bits : forall s, length s = bitvector_bits -> bit_vector s ->
  subnets_from_string (subnets_to_string s) = Some s.
Proof. intros s H B. rewrite subnets_roundtrip by assumption. rewrite normalize_bits by assumption. reflexivity. Qed.

(* the vector UpdateSubnets builds has one entry per subnet, and that is the size of the bitmap *)
Lemma bitmap_covers_subnets : N.to_nat subnets_count = bitvector_bits.
Proof. vm_compute. reflexivity. Qed.

Lemma set_nth_length : forall l i v, length (set_nth i v l) = length l.
Proof. induction l as [|x l IH]; intros [|i] v; simpl; auto. Qed.

Lemma nth_set_nth : forall l i v d, (i < length l)%nat -> nth i (set_nth i v l) d = v.
Proof.
  induction l as [|x l IH]; intros [|i] v d H; simpl in *; try lia; try reflexivity. apply IH. lia.
Qed.

Lemma nth_normalize : forall l i,
  nth i (normalize_subnets l) 0 = if 0 <? nth i l 0 then 1 else 0.
Proof. induction l as [|x l IH]; destruct i; simpl; auto. Qed.

Lemma advertised_bit_survives : forall pk vec, bytes pk -> (5 <= length pk)%nat ->
  length vec = N.to_nat subnets_count ->
  exists i back, advertised_subnet pk = Z.of_nat i /\ (i < length vec)%nat /\
    subnets_from_string (subnets_to_string (set_nth i 1 vec)) = Some back /\
    length back = length vec /\ nth i back 0 = 1.
Proof.
  intros pk vec Hb Hl Hv.
  destruct (topic_agreement pk Hb Hl) as [_ [_ [_ [_ [_ [Hs [_ Ha]]]]]]].
  set (s := be_value (firstn 5 pk) mod subnets_count) in *.
  exists (N.to_nat s), (normalize_subnets (set_nth (N.to_nat s) 1 vec)).
  assert (Hi : (N.to_nat s < length vec)%nat) by lia.
  split; [rewrite Ha; lia|]. split; [exact Hi|]. split.
  - apply subnets_roundtrip. rewrite set_nth_length, Hv. apply bitmap_covers_subnets.
  - split.
    + unfold normalize_subnets. rewrite map_length. apply set_nth_length.
    + rewrite nth_normalize, nth_set_nth by assumption. reflexivity.
Qed.

(* the two literal strings of network/records *)
Lemma zero_all_strings :
  subnets_to_string (repeat 0 bitvector_bits) = zero_subnets_str /\
  subnets_to_string (repeat 1 bitvector_bits) = all_subnets_str.
Proof. vm_compute. split; reflexivity. Qed.
