(* GENERATED on every check run by harness/cmd/gen-valconsts from the repository sources
   (message/validation, network/commons, roundtimer) and ssv-spec v0.3.7.  Do not edit. *)
From Coq Require Import NArith ZArith List.
Import ListNotations.

(* message/validation/validation.go *)
Definition lateMessageMargin_ns : Z := 3000000000%Z.
Definition clockErrorTolerance_ns : Z := 50000000%Z.
Definition maxMessageSize : N := 8388608%N.
Definition maxConsensusMsgSize : N := 8388608%N.
Definition maxPartialSignatureMsgSize : N := 1952%N.
Definition maxEncodedMsgSize : N := 9227600%N.
Definition allowedRoundsInFuture : N := 1%N.
Definition lateSlotAllowance : N := 2%N.
Definition signatureSize : N := 96%N.
Definition maxDutiesPerEpoch : Z := 2%Z.
(* protocol/v2/qbft/roundtimer/timer.go, ssv-spec qbft/types.go *)
Definition quickTimeoutThreshold : N := 8%N.
Definition quickTimeout_ns : Z := 2000000000%Z.
Definition slowTimeout_ns : Z := 120000000000%Z.
Definition firstRound : N := 1%N.
Definition firstHeight : N := 0%N.
(* network/commons/common.go *)
Definition subnetsCount : N := 128%N.
Definition rsaSignatureSize : N := 256%N.
Definition operatorIDSize : N := 8%N.
Definition messageOffset : N := 264%N.
(* message types and roles (ssv-spec types, protocol/v2/message) *)
Definition ssvConsensusMsgType : N := 0%N.
Definition ssvPartialSignatureMsgType : N := 1%N.
Definition dkgMsgType : N := 2%N.
Definition ssvEventMsgType : N := 200%N.
Definition qbftProposalMsgType : N := 0%N.
Definition qbftPrepareMsgType : N := 1%N.
Definition qbftCommitMsgType : N := 2%N.
Definition qbftRoundChangeMsgType : N := 3%N.
Definition roleAttester : N := 0%N.
Definition roleAggregator : N := 1%N.
Definition roleProposer : N := 2%N.
Definition roleSyncCommittee : N := 3%N.
Definition roleSyncCommitteeContribution : N := 4%N.
Definition roleValidatorRegistration : N := 5%N.
Definition roleVoluntaryExit : N := 6%N.
Definition ptPostConsensusPartialSig : N := 0%N.
Definition ptRandaoPartialSig : N := 1%N.
Definition ptSelectionProofPartialSig : N := 2%N.
Definition ptContributionProofs : N := 3%N.
Definition ptValidatorRegistrationPartialSig : N := 4%N.
Definition ptVoluntaryExitPartialSig : N := 5%N.
(* consensus_validation.go maxRound: role -> maximal round; roles not listed reach `default: panic` *)
Definition max_round_table : list (N * N) := [(0%N, 12%N); (1%N, 12%N); (2%N, 6%N); (3%N, 6%N); (4%N, 6%N); (5%N, 0%N); (6%N, 0%N)].
Definition max_round_default_panics : bool := true.
(* validation.go lateMessage: role -> Some ttl (slots) | None (never late); roles not listed keep ttl = 0 *)
Definition ttl_table : list (N * option N) := [(2%N, Some 3%N); (3%N, Some 3%N); (4%N, Some 3%N); (0%N, Some 34%N); (1%N, Some 34%N); (5%N, None); (6%N, None)].
(* message_counts.go maxMessageCounts: per-type limits; Decided is maxDecidedCount(committee size) *)
Definition limitPreConsensus : Z := 1%Z.
Definition limitProposal : Z := 1%Z.
Definition limitPrepare : Z := 1%Z.
Definition limitCommit : Z := 1%Z.
Definition limitRoundChange : Z := 1%Z.
Definition limitPostConsensus : Z := 1%Z.
(* errors.go: the error table *)
Inductive verr : Set :=
| ErrEmptyData
| ErrWrongDomain
| ErrNoShareMetadata
| ErrUnknownValidator
| ErrValidatorLiquidated
| ErrValidatorNotAttesting
| ErrSlotAlreadyAdvanced
| ErrRoundAlreadyAdvanced
| ErrRoundTooHigh
| ErrEarlyMessage
| ErrLateMessage
| ErrTooManySameTypeMessagesPerRound
| ErrSignatureVerification
| ErrOperatorNotFound
| ErrPubSubMessageHasNoData
| ErrPubSubDataTooBig
| ErrMalformedPubSubMessage
| ErrEmptyPubSubMessage
| ErrTopicNotFound
| ErrSSVDataTooBig
| ErrInvalidRole
| ErrUnexpectedConsensusMessage
| ErrNoSigners
| ErrWrongSignatureSize
| ErrZeroSignature
| ErrZeroSigner
| ErrSignerNotInCommittee
| ErrDuplicatedSigner
| ErrSignerNotLeader
| ErrSignersNotSorted
| ErrUnexpectedSigner
| ErrInvalidHash
| ErrEstimatedRoundTooFar
| ErrMalformedMessage
| ErrMalformedSignedMessage
| ErrUnknownSSVMessageType
| ErrUnknownQBFTMessageType
| ErrUnknownPartialMessageType
| ErrPartialSignatureTypeRoleMismatch
| ErrNonDecidedWithMultipleSigners
| ErrWrongSignersLength
| ErrDuplicatedProposalWithDifferentData
| ErrEventMessage
| ErrDKGMessage
| ErrMalformedPrepareJustifications
| ErrUnexpectedPrepareJustifications
| ErrMalformedRoundChangeJustifications
| ErrUnexpectedRoundChangeJustifications
| ErrInvalidJustifications
| ErrTooManyDutiesPerEpoch
| ErrNoDuty
| ErrNoDutyIgnored
| ErrDeserializePublicKey
| ErrNoPartialMessages
| ErrDuplicatedPartialSignatureMessage
.
Definition err_reject (e : verr) : bool :=
  match e with
  | ErrEmptyData => false
  | ErrWrongDomain => false
  | ErrNoShareMetadata => false
  | ErrUnknownValidator => false
  | ErrValidatorLiquidated => false
  | ErrValidatorNotAttesting => false
  | ErrSlotAlreadyAdvanced => false
  | ErrRoundAlreadyAdvanced => false
  | ErrRoundTooHigh => false
  | ErrEarlyMessage => false
  | ErrLateMessage => false
  | ErrTooManySameTypeMessagesPerRound => false
  | ErrSignatureVerification => true
  | ErrOperatorNotFound => true
  | ErrPubSubMessageHasNoData => true
  | ErrPubSubDataTooBig => true
  | ErrMalformedPubSubMessage => true
  | ErrEmptyPubSubMessage => true
  | ErrTopicNotFound => true
  | ErrSSVDataTooBig => true
  | ErrInvalidRole => true
  | ErrUnexpectedConsensusMessage => true
  | ErrNoSigners => true
  | ErrWrongSignatureSize => true
  | ErrZeroSignature => true
  | ErrZeroSigner => true
  | ErrSignerNotInCommittee => true
  | ErrDuplicatedSigner => true
  | ErrSignerNotLeader => true
  | ErrSignersNotSorted => true
  | ErrUnexpectedSigner => true
  | ErrInvalidHash => true
  | ErrEstimatedRoundTooFar => false
  | ErrMalformedMessage => true
  | ErrMalformedSignedMessage => true
  | ErrUnknownSSVMessageType => true
  | ErrUnknownQBFTMessageType => true
  | ErrUnknownPartialMessageType => true
  | ErrPartialSignatureTypeRoleMismatch => true
  | ErrNonDecidedWithMultipleSigners => true
  | ErrWrongSignersLength => true
  | ErrDuplicatedProposalWithDifferentData => true
  | ErrEventMessage => true
  | ErrDKGMessage => true
  | ErrMalformedPrepareJustifications => true
  | ErrUnexpectedPrepareJustifications => true
  | ErrMalformedRoundChangeJustifications => true
  | ErrUnexpectedRoundChangeJustifications => true
  | ErrInvalidJustifications => true
  | ErrTooManyDutiesPerEpoch => true
  | ErrNoDuty => true
  | ErrNoDutyIgnored => false
  | ErrDeserializePublicKey => true
  | ErrNoPartialMessages => true
  | ErrDuplicatedPartialSignatureMessage => true
  end.
(* texts as character codes (the extracted model must not define a type called string) *)
Definition err_text (e : verr) : list N :=
  match e with
  | ErrEmptyData => [101; 109; 112; 116; 121; 32; 100; 97; 116; 97]%N (* empty data *)
  | ErrWrongDomain => [119; 114; 111; 110; 103; 32; 100; 111; 109; 97; 105; 110]%N (* wrong domain *)
  | ErrNoShareMetadata => [115; 104; 97; 114; 101; 32; 104; 97; 115; 32; 110; 111; 32; 109; 101; 116; 97; 100; 97; 116; 97]%N (* share has no metadata *)
  | ErrUnknownValidator => [117; 110; 107; 110; 111; 119; 110; 32; 118; 97; 108; 105; 100; 97; 116; 111; 114]%N (* unknown validator *)
  | ErrValidatorLiquidated => [118; 97; 108; 105; 100; 97; 116; 111; 114; 32; 105; 115; 32; 108; 105; 113; 117; 105; 100; 97; 116; 101; 100]%N (* validator is liquidated *)
  | ErrValidatorNotAttesting => [118; 97; 108; 105; 100; 97; 116; 111; 114; 32; 105; 115; 32; 110; 111; 116; 32; 97; 116; 116; 101; 115; 116; 105; 110; 103]%N (* validator is not attesting *)
  | ErrSlotAlreadyAdvanced => [115; 105; 103; 110; 101; 114; 32; 104; 97; 115; 32; 97; 108; 114; 101; 97; 100; 121; 32; 97; 100; 118; 97; 110; 99; 101; 100; 32; 116; 111; 32; 97; 32; 108; 97; 116; 101; 114; 32; 115; 108; 111; 116]%N (* signer has already advanced to a later slot *)
  | ErrRoundAlreadyAdvanced => [115; 105; 103; 110; 101; 114; 32; 104; 97; 115; 32; 97; 108; 114; 101; 97; 100; 121; 32; 97; 100; 118; 97; 110; 99; 101; 100; 32; 116; 111; 32; 97; 32; 108; 97; 116; 101; 114; 32; 114; 111; 117; 110; 100]%N (* signer has already advanced to a later round *)
  | ErrRoundTooHigh => [114; 111; 117; 110; 100; 32; 105; 115; 32; 116; 111; 111; 32; 104; 105; 103; 104; 32; 102; 111; 114; 32; 116; 104; 105; 115; 32; 114; 111; 108; 101]%N (* round is too high for this role *)
  | ErrEarlyMessage => [101; 97; 114; 108; 121; 32; 109; 101; 115; 115; 97; 103; 101]%N (* early message *)
  | ErrLateMessage => [108; 97; 116; 101; 32; 109; 101; 115; 115; 97; 103; 101]%N (* late message *)
  | ErrTooManySameTypeMessagesPerRound => [116; 111; 111; 32; 109; 97; 110; 121; 32; 109; 101; 115; 115; 97; 103; 101; 115; 32; 111; 102; 32; 115; 97; 109; 101; 32; 116; 121; 112; 101; 32; 112; 101; 114; 32; 114; 111; 117; 110; 100]%N (* too many messages of same type per round *)
  | ErrSignatureVerification => [115; 105; 103; 110; 97; 116; 117; 114; 101; 32; 118; 101; 114; 105; 102; 105; 99; 97; 116; 105; 111; 110]%N (* signature verification *)
  | ErrOperatorNotFound => [111; 112; 101; 114; 97; 116; 111; 114; 32; 110; 111; 116; 32; 102; 111; 117; 110; 100]%N (* operator not found *)
  | ErrPubSubMessageHasNoData => [112; 117; 98; 45; 115; 117; 98; 32; 109; 101; 115; 115; 97; 103; 101; 32; 104; 97; 115; 32; 110; 111; 32; 100; 97; 116; 97]%N (* pub-sub message has no data *)
  | ErrPubSubDataTooBig => [112; 117; 98; 45; 115; 117; 98; 32; 109; 101; 115; 115; 97; 103; 101; 32; 100; 97; 116; 97; 32; 116; 111; 111; 32; 98; 105; 103]%N (* pub-sub message data too big *)
  | ErrMalformedPubSubMessage => [112; 117; 98; 45; 115; 117; 98; 32; 109; 101; 115; 115; 97; 103; 101; 32; 105; 115; 32; 109; 97; 108; 102; 111; 114; 109; 101; 100]%N (* pub-sub message is malformed *)
  | ErrEmptyPubSubMessage => [112; 117; 98; 45; 115; 117; 98; 32; 109; 101; 115; 115; 97; 103; 101; 32; 105; 115; 32; 101; 109; 112; 116; 121]%N (* pub-sub message is empty *)
  | ErrTopicNotFound => [116; 111; 112; 105; 99; 32; 110; 111; 116; 32; 102; 111; 117; 110; 100]%N (* topic not found *)
  | ErrSSVDataTooBig => [115; 115; 118; 32; 109; 101; 115; 115; 97; 103; 101; 32; 100; 97; 116; 97; 32; 116; 111; 111; 32; 98; 105; 103]%N (* ssv message data too big *)
  | ErrInvalidRole => [105; 110; 118; 97; 108; 105; 100; 32; 114; 111; 108; 101]%N (* invalid role *)
  | ErrUnexpectedConsensusMessage => [117; 110; 101; 120; 112; 101; 99; 116; 101; 100; 32; 99; 111; 110; 115; 101; 110; 115; 117; 115; 32; 109; 101; 115; 115; 97; 103; 101; 32; 102; 111; 114; 32; 116; 104; 105; 115; 32; 114; 111; 108; 101]%N (* unexpected consensus message for this role *)
  | ErrNoSigners => [110; 111; 32; 115; 105; 103; 110; 101; 114; 115]%N (* no signers *)
  | ErrWrongSignatureSize => [119; 114; 111; 110; 103; 32; 115; 105; 103; 110; 97; 116; 117; 114; 101; 32; 115; 105; 122; 101]%N (* wrong signature size *)
  | ErrZeroSignature => [122; 101; 114; 111; 32; 115; 105; 103; 110; 97; 116; 117; 114; 101]%N (* zero signature *)
  | ErrZeroSigner => [122; 101; 114; 111; 32; 115; 105; 103; 110; 101; 114; 32; 73; 68]%N (* zero signer ID *)
  | ErrSignerNotInCommittee => [115; 105; 103; 110; 101; 114; 32; 105; 115; 32; 110; 111; 116; 32; 105; 110; 32; 99; 111; 109; 109; 105; 116; 116; 101; 101]%N (* signer is not in committee *)
  | ErrDuplicatedSigner => [115; 105; 103; 110; 101; 114; 32; 105; 115; 32; 100; 117; 112; 108; 105; 99; 97; 116; 101; 100]%N (* signer is duplicated *)
  | ErrSignerNotLeader => [115; 105; 103; 110; 101; 114; 32; 105; 115; 32; 110; 111; 116; 32; 108; 101; 97; 100; 101; 114]%N (* signer is not leader *)
  | ErrSignersNotSorted => [115; 105; 103; 110; 101; 114; 115; 32; 97; 114; 101; 32; 110; 111; 116; 32; 115; 111; 114; 116; 101; 100]%N (* signers are not sorted *)
  | ErrUnexpectedSigner => [115; 105; 103; 110; 101; 114; 32; 105; 115; 32; 110; 111; 116; 32; 101; 120; 112; 101; 99; 116; 101; 100]%N (* signer is not expected *)
  | ErrInvalidHash => [114; 111; 111; 116; 32; 100; 111; 101; 115; 110; 39; 116; 32; 109; 97; 116; 99; 104; 32; 102; 117; 108; 108; 32; 100; 97; 116; 97; 32; 104; 97; 115; 104]%N (* root doesn't match full data hash *)
  | ErrEstimatedRoundTooFar => [109; 101; 115; 115; 97; 103; 101; 32; 114; 111; 117; 110; 100; 32; 105; 115; 32; 116; 111; 111; 32; 102; 97; 114; 32; 102; 114; 111; 109; 32; 101; 115; 116; 105; 109; 97; 116; 101; 100]%N (* message round is too far from estimated *)
  | ErrMalformedMessage => [109; 101; 115; 115; 97; 103; 101; 32; 99; 111; 117; 108; 100; 32; 110; 111; 116; 32; 98; 101; 32; 100; 101; 99; 111; 100; 101; 100]%N (* message could not be decoded *)
  | ErrMalformedSignedMessage => [115; 105; 103; 110; 101; 100; 32; 109; 101; 115; 115; 97; 103; 101; 32; 99; 111; 117; 108; 100; 32; 110; 111; 116; 32; 98; 101; 32; 100; 101; 99; 111; 100; 101; 100]%N (* signed message could not be decoded *)
  | ErrUnknownSSVMessageType => [117; 110; 107; 110; 111; 119; 110; 32; 83; 83; 86; 32; 109; 101; 115; 115; 97; 103; 101; 32; 116; 121; 112; 101]%N (* unknown SSV message type *)
  | ErrUnknownQBFTMessageType => [117; 110; 107; 110; 111; 119; 110; 32; 81; 66; 70; 84; 32; 109; 101; 115; 115; 97; 103; 101; 32; 116; 121; 112; 101]%N (* unknown QBFT message type *)
  | ErrUnknownPartialMessageType => [117; 110; 107; 110; 111; 119; 110; 32; 112; 97; 114; 116; 105; 97; 108; 32; 115; 105; 103; 110; 97; 116; 117; 114; 101; 32; 109; 101; 115; 115; 97; 103; 101; 32; 116; 121; 112; 101]%N (* unknown partial signature message type *)
  | ErrPartialSignatureTypeRoleMismatch => [112; 97; 114; 116; 105; 97; 108; 32; 115; 105; 103; 110; 97; 116; 117; 114; 101; 32; 116; 121; 112; 101; 32; 97; 110; 100; 32; 114; 111; 108; 101; 32; 100; 111; 110; 39; 116; 32; 109; 97; 116; 99; 104]%N (* partial signature type and role don't match *)
  | ErrNonDecidedWithMultipleSigners => [110; 111; 110; 45; 100; 101; 99; 105; 100; 101; 100; 32; 119; 105; 116; 104; 32; 109; 117; 108; 116; 105; 112; 108; 101; 32; 115; 105; 103; 110; 101; 114; 115]%N (* non-decided with multiple signers *)
  | ErrWrongSignersLength => [100; 101; 99; 105; 100; 101; 100; 32; 115; 105; 103; 110; 101; 114; 115; 32; 115; 105; 122; 101; 32; 105; 115; 32; 110; 111; 116; 32; 98; 101; 116; 119; 101; 101; 110; 32; 113; 117; 111; 114; 117; 109; 32; 97; 110; 100; 32; 99; 111; 109; 109; 105; 116; 116; 101; 101; 32; 115; 105; 122; 101]%N (* decided signers size is not between quorum and committee size *)
  | ErrDuplicatedProposalWithDifferentData => [100; 117; 112; 108; 105; 99; 97; 116; 101; 100; 32; 112; 114; 111; 112; 111; 115; 97; 108; 32; 119; 105; 116; 104; 32; 100; 105; 102; 102; 101; 114; 101; 110; 116; 32; 100; 97; 116; 97]%N (* duplicated proposal with different data *)
  | ErrEventMessage => [101; 118; 101; 110; 116; 32; 109; 101; 115; 115; 97; 103; 101; 115; 32; 97; 114; 101; 32; 110; 111; 116; 32; 98; 114; 111; 97; 100; 99; 97; 115; 116]%N (* event messages are not broadcast *)
  | ErrDKGMessage => [68; 75; 71; 32; 109; 101; 115; 115; 97; 103; 101; 115; 32; 97; 114; 101; 32; 110; 111; 116; 32; 115; 117; 112; 112; 111; 114; 116; 101; 100]%N (* DKG messages are not supported *)
  | ErrMalformedPrepareJustifications => [109; 97; 108; 102; 111; 114; 109; 101; 100; 32; 112; 114; 101; 112; 97; 114; 101; 32; 106; 117; 115; 116; 105; 102; 105; 99; 97; 116; 105; 111; 110; 115]%N (* malformed prepare justifications *)
  | ErrUnexpectedPrepareJustifications => [112; 114; 101; 112; 97; 114; 101; 32; 106; 117; 115; 116; 105; 102; 105; 99; 97; 116; 105; 111; 110; 115; 32; 117; 110; 101; 120; 112; 101; 99; 116; 101; 100; 32; 102; 111; 114; 32; 116; 104; 105; 115; 32; 109; 101; 115; 115; 97; 103; 101; 32; 116; 121; 112; 101]%N (* prepare justifications unexpected for this message type *)
  | ErrMalformedRoundChangeJustifications => [109; 97; 108; 102; 111; 114; 109; 101; 100; 32; 114; 111; 117; 110; 100; 32; 99; 104; 97; 110; 103; 101; 32; 106; 117; 115; 116; 105; 102; 105; 99; 97; 116; 105; 111; 110; 115]%N (* malformed round change justifications *)
  | ErrUnexpectedRoundChangeJustifications => [114; 111; 117; 110; 100; 32; 99; 104; 97; 110; 103; 101; 32; 106; 117; 115; 116; 105; 102; 105; 99; 97; 116; 105; 111; 110; 115; 32; 117; 110; 101; 120; 112; 101; 99; 116; 101; 100; 32; 102; 111; 114; 32; 116; 104; 105; 115; 32; 109; 101; 115; 115; 97; 103; 101; 32; 116; 121; 112; 101]%N (* round change justifications unexpected for this message type *)
  | ErrInvalidJustifications => [105; 110; 118; 97; 108; 105; 100; 32; 106; 117; 115; 116; 105; 102; 105; 99; 97; 116; 105; 111; 110; 115]%N (* invalid justifications *)
  | ErrTooManyDutiesPerEpoch => [116; 111; 111; 32; 109; 97; 110; 121; 32; 100; 117; 116; 105; 101; 115; 32; 112; 101; 114; 32; 101; 112; 111; 99; 104]%N (* too many duties per epoch *)
  | ErrNoDuty => [110; 111; 32; 100; 117; 116; 121; 32; 102; 111; 114; 32; 116; 104; 105; 115; 32; 101; 112; 111; 99; 104]%N (* no duty for this epoch *)
  | ErrNoDutyIgnored => [110; 111; 32; 100; 117; 116; 121; 32; 102; 111; 114; 32; 116; 104; 105; 115; 32; 101; 112; 111; 99; 104; 32; 40; 105; 103; 110; 111; 114; 101; 100; 41]%N (* no duty for this epoch (ignored) *)
  | ErrDeserializePublicKey => [100; 101; 115; 101; 114; 105; 97; 108; 105; 122; 101; 32; 112; 117; 98; 108; 105; 99; 32; 107; 101; 121]%N (* deserialize public key *)
  | ErrNoPartialMessages => [110; 111; 32; 112; 97; 114; 116; 105; 97; 108; 32; 109; 101; 115; 115; 97; 103; 101; 115]%N (* no partial messages *)
  | ErrDuplicatedPartialSignatureMessage => [100; 117; 112; 108; 105; 99; 97; 116; 101; 100; 32; 112; 97; 114; 116; 105; 97; 108; 32; 115; 105; 103; 110; 97; 116; 117; 114; 101; 32; 109; 101; 115; 115; 97; 103; 101]%N (* duplicated partial signature message *)
  end.
Definition all_errs : list verr := [ErrEmptyData; ErrWrongDomain; ErrNoShareMetadata; ErrUnknownValidator; ErrValidatorLiquidated; ErrValidatorNotAttesting; ErrSlotAlreadyAdvanced; ErrRoundAlreadyAdvanced; ErrRoundTooHigh; ErrEarlyMessage; ErrLateMessage; ErrTooManySameTypeMessagesPerRound; ErrSignatureVerification; ErrOperatorNotFound; ErrPubSubMessageHasNoData; ErrPubSubDataTooBig; ErrMalformedPubSubMessage; ErrEmptyPubSubMessage; ErrTopicNotFound; ErrSSVDataTooBig; ErrInvalidRole; ErrUnexpectedConsensusMessage; ErrNoSigners; ErrWrongSignatureSize; ErrZeroSignature; ErrZeroSigner; ErrSignerNotInCommittee; ErrDuplicatedSigner; ErrSignerNotLeader; ErrSignersNotSorted; ErrUnexpectedSigner; ErrInvalidHash; ErrEstimatedRoundTooFar; ErrMalformedMessage; ErrMalformedSignedMessage; ErrUnknownSSVMessageType; ErrUnknownQBFTMessageType; ErrUnknownPartialMessageType; ErrPartialSignatureTypeRoleMismatch; ErrNonDecidedWithMultipleSigners; ErrWrongSignersLength; ErrDuplicatedProposalWithDifferentData; ErrEventMessage; ErrDKGMessage; ErrMalformedPrepareJustifications; ErrUnexpectedPrepareJustifications; ErrMalformedRoundChangeJustifications; ErrUnexpectedRoundChangeJustifications; ErrInvalidJustifications; ErrTooManyDutiesPerEpoch; ErrNoDuty; ErrNoDutyIgnored; ErrDeserializePublicKey; ErrNoPartialMessages; ErrDuplicatedPartialSignatureMessage].
