(* C09: the gossip rules, stated on the abstract envelope independently of the checks of the
   model (plain arithmetic on Z, no wrap-around, no Go time values).  Definitions only. *)
From Coq Require Import List NArith ZArith Bool Sorting.Sorted.
From SSV Require Import Gen.ValidationConsts Validation.Model.
Import ListNotations.
Local Open Scope Z_scope.

(* the consensus / partial-signature message an envelope carries *)
Definition env_cmsg (env : envelope) : option cmsg :=
  if N.eqb (e_msg_type env) ssvConsensusMsgType
  then match e_body env with BConsensus m => Some m | _ => None end else None.
Definition env_pmsg (env : envelope) : option pmsg :=
  if N.eqb (e_msg_type env) ssvPartialSignatureMsgType
  then match e_body env with BPartial m => Some m | _ => None end else None.

(* known, active, non-liquidated validator *)
Definition known_active_nonliquidated (c : cfg) (env : envelope) (sh : share) : Prop :=
  get_share c (e_vid env) = Some sh /\ s_liquidated sh = false /\ s_has_meta sh = true /\
  s_attesting sh = true /\ e_domain env = c_domain c /\ e_pk_deser_ok env = true.

(* sent on that validator's topic *)
Definition on_validator_topic (env : envelope) : Prop :=
  e_p2p env = true -> e_topic env = Some (e_pk_prefix env mod subnetsCount)%N.

(* wall clock, in plain integers *)
Definition true_slot (c : cfg) (now_sec : Z) : Z :=
  if now_sec <? Z.of_N (c_genesis c) then 0 else (now_sec - Z.of_N (c_genesis c)) / Z.of_N (c_slot_dur c).
Definition start_ns (c : cfg) (slot : Z) : Z := (Z.of_N (c_genesis c) + slot * Z.of_N (c_slot_dur c)) * nano.
Definition now_ns (now : Z * Z) : Z := fst now * nano + snd now.

Definition envelope_active (c : cfg) (now : Z * Z) : Prop :=
  Z.of_N (c_perm_epoch c) < true_slot c (fst now) / Z.of_N (c_spe c).

(* once signed envelopes are active: a valid signature of a registered operator over exactly the payload *)
Definition signed_by_registered_operator (c : cfg) (now : Z * Z) (env : envelope) : Prop :=
  e_p2p env = true -> envelope_active c now ->
  (messageOffset <= e_raw_len env)%N /\ e_op_found env = true /\ e_op_key_ok env = true /\ e_rsa_ok env = true.

(* signers: sorted, distinct, non-zero committee members *)
Definition signers_ok (sh : share) (signers : list N) : Prop :=
  StronglySorted N.lt signers /\ Forall (fun s => s <> 0%N /\ In s (s_committee sh)) signers.

(* one signer unless it is a quorum-sized commit *)
Definition signer_count_ok (sh : share) (m : cmsg) : Prop :=
  length (c_signers m) = 1%nat \/
  (c_type m = qbftCommitMsgType /\ (s_quorum sh <= N.of_nat (length (c_signers m)))%N /\
   (length (c_signers m) <= length (s_committee sh))%nat).

(* a proposal comes from the round leader: committee[(height + round - 1) mod n] *)
Definition leader_ok (sh : share) (m : cmsg) : Prop :=
  c_type m = qbftProposalMsgType ->
  exists s, c_signers m = [s] /\ (1 <= c_round m)%N /\
    nth_error (s_committee sh)
      (Z.to_nat ((Z.of_N (c_height m) + Z.of_N (c_round m) - 1) mod Z.of_nat (length (s_committee sh)))) = Some s.

(* attached full data (proposal, round change, decided) matches the root *)
Definition carries_data (m : cmsg) : bool := has_full_data m.
Definition data_ok (m : cmsg) : Prop := carries_data m = true -> c_root_ok m = true.

(* slot window of the role: the slot has started (up to the clock tolerance) and has not expired *)
Definition in_slot_window (c : cfg) (now : Z * Z) (role : N) (m : cmsg) : Prop :=
  exists ttl, ttl_of role = Some ttl /\
    let cur := true_slot c (fst now) in
    let slot := Z.of_N (c_height m) in
    start_ns c slot <= start_ns c (cur + 1) - clockErrorTolerance_ns /\
    start_ns c cur <= start_ns c (slot + Z.of_N ttl) + lateMessageMargin_ns + clockErrorTolerance_ns /\
    slot <= cur.

(* round estimated from the time since the slot started *)
Definition est_round (since : Z) : Z :=
  if since <=? 0 then Z.of_N firstRound else
  let q := Z.of_N firstRound + since / quickTimeout_ns in
  if q <=? Z.of_N quickTimeoutThreshold then q
  else Z.of_N quickTimeoutThreshold + Z.of_N firstRound
       + (since - Z.of_N quickTimeoutThreshold * quickTimeout_ns) / slowTimeout_ns.

Definition in_round_window (c : cfg) (now : Z * Z) (role : N) (m : cmsg) : Prop :=
  exists mr, max_round role = Some mr /\
    (firstRound <= c_round m)%N /\ (c_round m <= mr)%N /\
    Z.of_N (c_round m) <= est_round (now_ns now - start_ns c (Z.of_N (c_height m))) + Z.of_N allowedRoundsInFuture.

(* everything an accepted consensus message satisfies *)
Definition consensus_rules (c : cfg) (now : Z * Z) (env : envelope) (sh : share) (m : cmsg) : Prop :=
  valid_qbft_type (c_type m) = true /\
  c_sig_len m = signatureSize /\ c_sig_zero m = false /\
  signers_ok sh (c_signers m) /\ signer_count_ok sh m /\ leader_ok sh m /\ data_ok m /\
  in_slot_window c now (e_role env) m /\ in_round_window c now (e_role env) m /\
  validate_justifications m = None /\ validate_beacon_duty (e_role env) sh (c_duty_ok m) = None.

(* ... and an accepted partial signature message *)
Definition partial_rules (env : envelope) (sh : share) (m : pmsg) : Prop :=
  valid_ptype (p_type m) = true /\ ptype_matches_role (p_type m) (e_role env) = Some true /\
  p_signer m <> 0%N /\ In (p_signer m) (s_committee sh) /\
  p_sig_len m = signatureSize /\ p_sig_zero m = false /\
  p_msgs m <> [] /\ NoDup (map ps_root (p_msgs m)) /\
  Forall (fun x => ps_signer x = p_signer m /\ ps_sig_len x = signatureSize /\ ps_sig_zero x = false) (p_msgs m).

Definition accept_rules (c : cfg) (now : Z * Z) (env : envelope) : Prop :=
  exists sh, known_active_nonliquidated c env sh /\ valid_role (e_role env) = true /\
    on_validator_topic env /\ signed_by_registered_operator c now env /\
    ((exists m, env_cmsg env = Some m /\ consensus_rules c now env sh m) \/
     (exists m, env_pmsg env = Some m /\ partial_rules env sh m)).

(* ---- per-signer limits over a history --------------------------------------------------------- *)

(* the accepted consensus messages of a history, oldest first, with their message id *)
Definition accepted_of (env : envelope) (r : result) : list ((N * N) * cmsg) :=
  match r, env_cmsg env with
  | Accept, Some m => [((e_vid env, e_role env), m)]
  | _, _ => []
  end.

Fixpoint accepted_consensus (h : list ((Z * Z) * envelope)) (rs : list result) : list ((N * N) * cmsg) :=
  match h, rs with
  | (_, env) :: tl, r :: rtl => accepted_of env r ++ accepted_consensus tl rtl
  | _, _ => []
  end.

Definition signed_by (s : N) (m : cmsg) : bool := existsb (N.eqb s) (c_signers m).

(* the messages of one message id that list signer s, in order of acceptance *)
Definition by_signer (k : N * N) (s : N) (acc : list ((N * N) * cmsg)) : list cmsg :=
  map snd (filter (fun x => key_eqb (fst x) k && signed_by s (snd x)) acc).

(* kind of a consensus message for the limits: the four QBFT types, multi-signer commits apart *)
Definition kind_of (m : cmsg) : N := if is_decided m then 4%N else c_type m.
Definition limit_of (n : nat) (kind : N) : Z :=
  if N.eqb kind 4 then max_decided (Z.of_nat n)
  else if N.eqb kind qbftProposalMsgType then limitProposal
  else if N.eqb kind qbftPrepareMsgType then limitPrepare
  else if N.eqb kind qbftCommitMsgType then limitCommit
  else if N.eqb kind qbftRoundChangeMsgType then limitRoundChange else 0.

Definition at_round (slot round kind : N) (m : cmsg) : bool :=
  N.eqb (c_height m) slot && N.eqb (c_round m) round && N.eqb (kind_of m) kind.
Definition count_at (l : list cmsg) (slot round kind : N) : Z :=
  Z.of_nat (length (filter (at_round slot round kind) l)).

Definition lex_le (a b : N * N) : Prop := (fst a < fst b)%N \/ (fst a = fst b /\ (snd a <= snd b)%N).
Definition slot_round (m : cmsg) : N * N := (c_height m, c_round m).

Inductive nondecreasing : list (N * N) -> Prop :=
| nd_nil : nondecreasing []
| nd_one : forall a, nondecreasing [a]
| nd_cons : forall a b l, lex_le a b -> nondecreasing (b :: l) -> nondecreasing (a :: b :: l).

Definition no_second_proposal_with_other_data (l : list cmsg) : Prop :=
  forall i j m1 m2, nth_error l i = Some m1 -> nth_error l j = Some m2 ->
    c_type m1 = qbftProposalMsgType -> c_type m2 = qbftProposalMsgType ->
    slot_round m1 = slot_round m2 -> i = j.

(* ---- error classes ---------------------------------------------------------------------------- *)

(* The errors that only ignore the message: they depend on the receiver's clock, registry or on
   what it happened to see before, so an honest relayer may trigger them.  Everything else - also
   any error added later - is expected to penalise the sender (reject). *)
Definition expected_ignore (e : verr) : bool :=
  match e with
  | ErrEmptyData | ErrWrongDomain | ErrNoShareMetadata | ErrUnknownValidator | ErrValidatorLiquidated
  | ErrValidatorNotAttesting | ErrSlotAlreadyAdvanced | ErrRoundAlreadyAdvanced | ErrRoundTooHigh
  | ErrEarlyMessage | ErrLateMessage | ErrTooManySameTypeMessagesPerRound | ErrEstimatedRoundTooFar
  | ErrNoDutyIgnored => true
  | _ => false
  end.
