(* C10 at the validator's entry point: [validate] (ValidatePubsubMessage / validateSSVMessage) on the envelopes
   that carry the honest first-round messages, validated while the beacon clock is in the duty's slot. *)
From Coq Require Import List NArith ZArith Bool Lia.
From SSV Require Import Gen.ValidationConsts Validation.Model Validation.Rules Validation.ProofsPanic
     Validation.ProofsTime Validation.ProofsHist Validation.HonestRound Validation.HonestTime.
Import ListNotations.
Local Open Scope Z_scope.

Section Envelope.
Variables (c : cfg) (sh : share) (vid role h rho ld v fdlen nrc : N) (rcfull : bool) (nrcj npj : N) (dsig : N -> list N) (p2p : bool) (rawlen dlen pkprefix : N).

Definition henv (t s : N) : envelope :=
  {| e_p2p := p2p; e_raw_len := rawlen; e_topic := Some (pkprefix mod subnetsCount)%N;
     e_op_found := true; e_op_key_ok := true; e_rsa_ok := true; e_ssv_decode_ok := true;
     e_data_len := dlen; e_domain := c_domain c; e_pk_prefix := pkprefix; e_role := role;
     e_pk_deser_ok := true; e_vid := vid; e_msg_type := ssvConsensusMsgType;
     e_body := BConsensus (hmsg h rho v fdlen nrc rcfull nrcj npj dsig t s) |}.

Hypothesis W : wf_cfg c.
Hypothesis Hshare : get_share c vid = Some sh.
Hypothesis Hliq : s_liquidated sh = false.
Hypothesis Hmeta : s_has_meta sh = true.
Hypothesis Hatt : s_attesting sh = true.
Hypothesis Hd0 : dlen <> 0%N.
Hypothesis Hd1 : (dlen <= maxConsensusMsgSize)%N.
Hypothesis Hr0 : (messageOffset < rawlen)%N.
Hypothesis Hr1 : (rawlen <= maxEncodedMsgSize)%N.
Hypothesis Hrole : (N.eqb role roleValidatorRegistration || N.eqb role roleVoluntaryExit) = false.
Hypothesis Hvalid : valid_role role = true.
Hypothesis Hleader : round_robin (s_committee sh) h rho = LeaderIs ld.
Hypothesis Hrr : rr_defined sh h rho = true.
Hypothesis Hfd : fdlen <> 0%N.
Hypothesis Hrho1 : (firstRound <= rho)%N.
Hypothesis Hrho2 : (rho <= 2)%N.

Definition key : N * N := (vid, role).
Definition in_slot (now : Z * Z) : Prop := wf_time c now /\ true_slot c (fst now) = Z.of_N h.

Lemma honest_envelope_accepted : forall now sent vs t s,
  in_slot now ->
  inv h rho v dsig sent (get_cs key vs) -> honest_item sh ld dsig (t, s) -> ~ In (t, s) sent ->
  (is_dec t = true -> ndec sent < max_decided (Z.of_nat (length (s_committee sh)))) ->
  exists vs', validate c vs now (henv t s) = (Accept, vs') /\
              inv h rho v dsig ((t, s) :: sent) (get_cs key vs').
Proof.
  intros now sent vs t s [T Hslot] I Hh Hn Hmax.
  set (recv := time_unix (fst now) (snd now)).
  pose proof (own_slot_passes_slot_time c now role h W T Hslot) as Ht1.
  pose proof (own_slot_round_in_window c now h rho W T Hslot Hrho2) as Ht2.
  assert (Hrho6 : (rho <= 6)%N) by lia.
  assert (Hcore : forall verifier, run_verifier verifier = None ->
            exists vs', validate_ssv c vs recv (henv t s) verifier = (Accept, vs') /\
                        inv h rho v dsig ((t, s) :: sent) (get_cs key vs')).
  { intros verifier Hv.
    destruct (honest_message_accepted c sh role h rho ld v fdlen nrc rcfull nrcj npj dsig Hrole Hvalid Hmeta Hleader Hrr Hfd Hrho1 Hrho6
                recv verifier sent (get_cs key vs) t s Ht1 Ht2 Hv I Hh Hn Hmax) as (cs' & Ev & I').
    unfold validate_ssv. cbn [henv e_data_len e_domain e_role e_pk_deser_ok e_vid e_msg_type e_body].
    destruct (N.eqb_spec dlen 0); [contradiction|].
    assert (E1 : (maxMessageSize <? dlen)%N = false) by (apply N.ltb_ge; exact Hd1).
    rewrite E1, N.eqb_refl, Hvalid, Hshare, Hliq, Hmeta, Hatt. cbn [negb].
    unfold decode_ssv. rewrite N.eqb_refl.
    assert (E2 : (maxConsensusMsgSize <? dlen)%N = false) by (apply N.ltb_ge; exact Hd1).
    rewrite E2. fold key. rewrite Ev. eexists. split; [reflexivity|].
    rewrite get_cs_set_same. exact I'. }
  unfold validate. fold recv. cbn [henv e_p2p]. destruct p2p.
  - unfold validate_p2p. cbn [henv e_raw_len e_ssv_decode_ok].
    assert (E0 : (rawlen <? messageOffset)%N = false) by (apply N.ltb_ge; lia).
    rewrite E0, andb_false_r.
    assert (E3 : forall b : bool, N.eqb (if b then (rawlen - messageOffset)%N else rawlen) 0 = false).
    { intros b. apply N.eqb_neq. destruct b; lia. }
    assert (E4 : forall b : bool, (maxEncodedMsgSize <? (if b then (rawlen - messageOffset)%N else rawlen))%N = false).
    { intros b. apply N.ltb_ge. destruct b; lia. }
    rewrite E3, E4. cbn [negb].
    assert (E5 : topic_matches (henv t s) = true) by (unfold topic_matches; cbn; apply N.eqb_refl).
    fold (henv t s). rewrite E5. cbn [negb].
    apply Hcore. destruct (signed_active c recv); reflexivity.
  - apply Hcore. reflexivity.
Qed.

(* a whole round through [Model.run] *)
Theorem honest_round_accepted_at_the_gate : forall l vs,
  before_round h rho (get_cs key vs) ->
  NoDup (map snd l) ->
  Forall (fun x => in_slot (fst x) /\ honest_item sh ld dsig (snd x)) l ->
  decided_within_limit sh [] (map snd l) ->
  Forall (eq Accept) (snd (run c vs (map (fun x => (fst x, henv (fst (snd x)) (snd (snd x)))) l))).
Proof.
  intros l vs Hfresh Hnd Hall Hlim.
  assert (G : forall l sent vs,
            inv h rho v dsig sent (get_cs key vs) -> NoDup (map snd l) ->
            (forall x, In x l -> ~ In (snd x) sent) ->
            Forall (fun x => in_slot (fst x) /\ honest_item sh ld dsig (snd x)) l ->
            decided_within_limit sh sent (map snd l) ->
            Forall (eq Accept) (snd (run c vs (map (fun x => (fst x, henv (fst (snd x)) (snd (snd x)))) l)))).
  { clear l vs Hfresh Hnd Hall Hlim.
    induction l as [|[now [t s]] tl IH]; intros sent vs I Hnd Hf Hall Hlim; [constructor|].
    inversion Hall as [|x l' [Hs Hh] Hall']; subst. cbn [fst snd] in *.
    inversion Hnd as [|x l' Hni Hnd']; subst.
    destruct (ndec_step sh sent t s (map snd tl) Hlim) as [Hmax Hlim'].
    destruct (honest_envelope_accepted now sent vs t s Hs I Hh) as (vs' & Ev & I').
    { apply (Hf (now, (t, s))). left. reflexivity. }
    { exact Hmax. }
    cbn [map run fst snd]. rewrite Ev.
    destruct (run c vs' (map (fun x => (fst x, henv (fst (snd x)) (snd (snd x)))) tl)) as [vs2 rs] eqn:Er.
    cbn [snd]. constructor; [reflexivity|].
    change rs with (snd (vs2, rs)). rewrite <- Er. eapply IH; eauto.
    intros x Hx [E|E].
    - apply Hni. rewrite E. apply in_map. exact Hx.
    - eapply Hf; [right; exact Hx|exact E]. }
  apply (G l [] vs); auto.
  apply before_round_inv. exact Hfresh.
Qed.

End Envelope.
