(* C09, part 4: the per-signer limits hold on the accepted consensus messages of every history;
   validation for one message id neither reads nor writes the state of another (frame). *)
From Coq Require Import List NArith ZArith Bool Lia Sorting.Sorted.
From SSV Require Import Gen.ValidationConsts Validation.Model Validation.Rules Validation.ProofsPanic
     Validation.ProofsRules.
Import ListNotations.
Local Open Scope Z_scope.

(* ---- association lists ----------------------------------------------------------------------- *)

Lemma get_signer_set_same : forall s v cs, get_signer s (set_signer s v cs) = Some v.
Proof.
  intros s v cs. induction cs as [|[k v0] tl IH]; simpl.
  - rewrite N.eqb_refl. reflexivity.
  - destruct (N.eqb k s) eqn:E; simpl; rewrite E; [reflexivity|exact IH].
Qed.

Lemma get_signer_set_other : forall s s' v cs, s' <> s -> get_signer s' (set_signer s v cs) = get_signer s' cs.
Proof.
  intros s s' v cs Hne. induction cs as [|[k v0] tl IH]; simpl.
  - destruct (N.eqb s s') eqn:E; [apply N.eqb_eq in E; congruence|reflexivity].
  - destruct (N.eqb k s) eqn:E; simpl.
    + apply N.eqb_eq in E. subst k. destruct (N.eqb s s') eqn:E2; [apply N.eqb_eq in E2; congruence|reflexivity].
    + destruct (N.eqb k s'); [reflexivity|exact IH].
Qed.

Lemma key_eqb_eq : forall a b, key_eqb a b = true <-> a = b.
Proof.
  intros [a1 a2] [b1 b2]. unfold key_eqb. simpl. rewrite andb_true_iff, !N.eqb_eq.
  split; [intros (-> & ->); reflexivity|intros E; inversion E; auto].
Qed.

Lemma key_eqb_refl : forall a, key_eqb a a = true.
Proof. intros a. apply key_eqb_eq. reflexivity. Qed.

Lemma key_eqb_sym : forall a b, key_eqb a b = key_eqb b a.
Proof. intros [a1 a2] [b1 b2]. unfold key_eqb. simpl. rewrite (N.eqb_sym a1), (N.eqb_sym a2). reflexivity. Qed.

Lemma get_cs_set_same : forall k v vs, get_cs k (set_cs k v vs) = v.
Proof.
  intros k v vs. induction vs as [|[k0 v0] tl IH]; simpl.
  - rewrite key_eqb_refl. reflexivity.
  - destruct (key_eqb k0 k) eqn:E; simpl; rewrite E; [reflexivity|exact IH].
Qed.

Lemma get_cs_set_other : forall k k' v vs, key_eqb k k' = false -> get_cs k' (set_cs k v vs) = get_cs k' vs.
Proof.
  intros k k' v vs Hne. induction vs as [|[k0 v0] tl IH]; simpl.
  - rewrite Hne. reflexivity.
  - destruct (key_eqb k0 k) eqn:E; simpl.
    + apply key_eqb_eq in E. subst k0. rewrite Hne. reflexivity.
    + destruct (key_eqb k0 k'); [reflexivity|exact IH].
Qed.

(* ---- update_signers touches exactly the listed signers --------------------------------------- *)

Definition next_opt (c : cfg) (m : cmsg) (o : option sstate) : option sstate :=
  match next_sstate c m o with inl x => Some x | inr _ => None end.

Lemma update_signers_get : forall c m l cs cs',
  NoDup l -> update_signers c m cs l = inl cs' ->
  forall s, get_signer s cs' =
            if existsb (N.eqb s) l then next_opt c m (get_signer s cs) else get_signer s cs.
Proof.
  intros c m l. induction l as [|a tl IH]; intros cs cs' Hnd H s; simpl in *.
  - inversion H. reflexivity.
  - inversion Hnd as [|? ? Hnot Hnd']; subst.
    unfold update_signer in H.
    destruct (next_sstate c m (get_signer a cs)) as [ss'|p] eqn:En; [|discriminate].
    rewrite (IH _ _ Hnd' H s).
    destruct (N.eqb s a) eqn:Ea; simpl.
    + apply N.eqb_eq in Ea. subst s.
      assert (existsb (N.eqb a) tl = false).
      { destruct (existsb (N.eqb a) tl) eqn:Ex; [|reflexivity]. apply existsb_exists in Ex.
        destruct Ex as (x & Hin & Hx). apply N.eqb_eq in Hx. subst. contradiction. }
      rewrite H0. rewrite get_signer_set_same. unfold next_opt. rewrite En. reflexivity.
    + apply N.eqb_neq in Ea. rewrite get_signer_set_other by assumption. reflexivity.
Qed.

Lemma strongly_sorted_nodup : forall l, StronglySorted N.lt l -> NoDup l.
Proof.
  induction l as [|a tl IH]; intros H; [constructor|].
  inversion H; subst. constructor; [|auto].
  intros Hin. rewrite Forall_forall in H3. specialize (H3 _ Hin). lia.
Qed.

(* ---- the order on (slot, round) --------------------------------------------------------------- *)

Lemma lex_le_refl : forall a, lex_le a a.
Proof. intros a. right. split; [reflexivity|lia]. Qed.

Lemma lex_le_trans : forall a b c, lex_le a b -> lex_le b c -> lex_le a c.
Proof. intros a b c [H1|(H1 & H1')] [H2|(H2 & H2')]; unfold lex_le; [left|left|left|right]; lia. Qed.

Lemma nondecreasing_snoc : forall l b, nondecreasing l -> Forall (fun a => lex_le a b) l -> nondecreasing (l ++ [b]).
Proof.
  induction l as [|a tl IH]; intros b Hn Hf; simpl; [constructor|].
  inversion Hf; subst. destruct tl as [|a2 tl2]; simpl.
  - constructor; [assumption|constructor].
  - inversion Hn; subst. constructor; [assumption|]. apply IH; assumption.
Qed.

(* ---- counting --------------------------------------------------------------------------------- *)

Definition cnt_get (cn : counts) (kind : N) : Z :=
  if N.eqb kind 4 then n_decided cn
  else if N.eqb kind qbftProposalMsgType then n_proposal cn
  else if N.eqb kind qbftPrepareMsgType then n_prepare cn
  else if N.eqb kind qbftCommitMsgType then n_commit cn
  else if N.eqb kind qbftRoundChangeMsgType then n_rc cn else 0.

Lemma count_at_app : forall l1 l2 sl r k, count_at (l1 ++ l2) sl r k = count_at l1 sl r k + count_at l2 sl r k.
Proof. intros. unfold count_at. rewrite filter_app, app_length. lia. Qed.

Lemma count_at_one : forall m sl r k, count_at [m] sl r k = if at_round sl r k m then 1 else 0.
Proof. intros. unfold count_at. simpl. destruct (at_round sl r k m); reflexivity. Qed.

Lemma count_at_nonneg : forall l sl r k, 0 <= count_at l sl r k.
Proof. intros. unfold count_at. lia. Qed.

Lemma count_at_zero_above : forall L sl r k b,
  Forall (fun m => lex_le (slot_round m) b) L -> ~ lex_le (sl, r) b -> count_at L sl r k = 0.
Proof.
  intros L sl r k b H Hn. unfold count_at.
  replace (filter (at_round sl r k) L) with (@nil cmsg); [reflexivity|].
  symmetry. induction L as [|m tl IH]; [reflexivity|]. inversion H; subst. simpl.
  destruct (at_round sl r k m) eqn:E; [|auto].
  exfalso. unfold at_round in E. apply andb_prop in E. destruct E as [E _].
  apply andb_prop in E. destruct E as [E1 E2]. apply N.eqb_eq in E1, E2.
  apply Hn. unfold slot_round in H2. rewrite E1, E2 in H2. exact H2.
Qed.

(* the kind of a message with a valid type, and what Record adds *)
Lemma valid_type_cases : forall t, valid_qbft_type t = true -> t = 0%N \/ t = 1%N \/ t = 2%N \/ t = 3%N.
Proof.
  intros t H. unfold valid_qbft_type in H.
  repeat (apply orb_prop in H; destruct H as [H|H]); apply N.eqb_eq in H; subst; vm_compute; auto.
Qed.

Ltac kind_cases :=
  repeat match goal with |- context [N.eqb ?k ?c] => destruct (N.eqb k c) eqn:? end;
  repeat match goal with H : N.eqb _ _ = true |- _ => apply N.eqb_eq in H end;
  subst; try discriminate; try lia.

Lemma kind_of_cases : forall m, valid_qbft_type (c_type m) = true -> c_signers m <> [] ->
  (c_type m = 0%N /\ kind_of m = 0%N) \/ (c_type m = 1%N /\ kind_of m = 1%N) \/
  (c_type m = 3%N /\ kind_of m = 3%N) \/
  (c_type m = 2%N /\ length (c_signers m) = 1%nat /\ kind_of m = 2%N) \/
  (c_type m = 2%N /\ (1 < length (c_signers m))%nat /\ kind_of m = 4%N).
Proof.
  intros m Hv Hs. unfold kind_of, is_decided. change qbftCommitMsgType with 2%N.
  destruct (valid_type_cases _ Hv) as [E|[E|[E|E]]]; rewrite E; simpl.
  - auto.
  - auto.
  - destruct (c_signers m) as [|a [|b tl]]; [congruence| |]; simpl.
    + right. right. right. left. auto.
    + right. right. right. right. repeat split; auto. lia.
  - auto 10.
Qed.

Lemma record_cnt : forall cn m cn', valid_qbft_type (c_type m) = true -> c_signers m <> [] ->
  counts_record cn m = inl cn' ->
  (forall kind, cnt_get cn' kind = cnt_get cn kind + (if N.eqb kind (kind_of m) then 1 else 0)) /\
  n_pre cn' = n_pre cn /\ n_post cn' = n_post cn.
Proof.
  intros cn m cn' Hv Hs H. unfold counts_record in H.
  unfold qbftProposalMsgType, qbftPrepareMsgType, qbftCommitMsgType, qbftRoundChangeMsgType in H.
  destruct (kind_of_cases m Hv Hs) as [(E & K)|[(E & K)|[(E & K)|[(E & L & K)|(E & L & K)]]]];
    rewrite E in H; rewrite K; simpl in H;
    try (rewrite L in H; simpl in H);
    try (destruct (Nat.eqb (length (c_signers m)) 1) eqn:E1;
         [apply Nat.eqb_eq in E1; lia|];
         destruct (Nat.ltb 1 (length (c_signers m))) eqn:E2; [|apply Nat.ltb_ge in E2; lia]);
    inversion H; subst; clear H; (split; [|simpl; auto]);
    intros kind; unfold cnt_get, qbftProposalMsgType, qbftPrepareMsgType, qbftCommitMsgType,
                 qbftRoundChangeMsgType; simpl; kind_cases.
Qed.

(* ---- the invariant linking a signer's state to the messages accepted from it ------------------ *)

Definition msg_ok (m : cmsg) : Prop := valid_qbft_type (c_type m) = true /\ c_signers m <> [].

Definition sinv (n : nat) (o : option sstate) (L : list cmsg) : Prop :=
  Forall msg_ok L /\
  nondecreasing (map slot_round L) /\
  (forall sl r kind, count_at L sl r kind <= limit_of n kind) /\
  match o with
  | None => L = []
  | Some ss =>
      Forall (fun m => lex_le (slot_round m) (ss_slot ss, ss_round ss)) L /\
      (forall kind, count_at L (ss_slot ss) (ss_round ss) kind = cnt_get (ss_counts ss) kind)
  end.

Lemma limit_nonneg : forall n kind, 0 <= limit_of n kind.
Proof.
  intros n kind. unfold limit_of, max_decided, limitProposal, limitPrepare, limitCommit, limitRoundChange.
  destruct (N.eqb kind 4).
  - assert (0 <= Z.quot (Z.of_nat n - 1) 3 + 1).
    { destruct n; [simpl; lia|]. pose proof (Z.quot_pos (Z.of_nat (S n) - 1) 3 ltac:(lia) ltac:(lia)). lia. }
    apply Z.mul_nonneg_nonneg; lia.
  - repeat (destruct (N.eqb kind _)); lia.
Qed.

Lemma limit_pos : forall n m, msg_ok m -> (1 <= n)%nat -> 1 <= limit_of n (kind_of m).
Proof.
  intros n m (Hv & Hs) Hn. unfold limit_of, max_decided, limitProposal, limitPrepare, limitCommit, limitRoundChange,
    qbftProposalMsgType, qbftPrepareMsgType, qbftCommitMsgType, qbftRoundChangeMsgType.
  destruct (kind_of_cases m Hv Hs) as [(E & K)|[(E & K)|[(E & K)|[(E & L & K)|(E & L & K)]]]]; rewrite K; simpl; try lia.
  pose proof (Z.quot_pos (Z.of_nat n - 1) 3 ltac:(lia) ltac:(lia)). nia.
Qed.

(* what the checks on an existing signer state say *)
Lemma signer_behavior_some : forall c sh role m cs s ss,
  get_signer s cs = Some ss -> signer_behavior c sh role m cs s = None ->
  lex_le (ss_slot ss, ss_round ss) (slot_round m) /\
  ((c_height m = ss_slot ss /\ c_round m = ss_round ss) ->
   counts_validate (ss_counts ss) m (length (s_committee sh)) = None /\
   (has_full_data m = true -> forall d, ss_pdata ss = Some d -> d = c_fd_id m)).
Proof.
  intros c sh role m cs s ss G H. unfold signer_behavior in H. rewrite G in H.
  destruct (c_height m <? ss_slot ss)%N eqn:E1; [discriminate|]. apply N.ltb_ge in E1.
  destruct (N.eqb (c_height m) (ss_slot ss) && (c_round m <? ss_round ss)%N) eqn:E2; [discriminate|].
  split.
  - unfold lex_le, slot_round. simpl. destruct (N.eq_dec (ss_slot ss) (c_height m)) as [Eq|Ne]; [|left; lia].
    right. split; [assumption|]. rewrite <- Eq in E2. rewrite N.eqb_refl in E2. simpl in E2. apply N.ltb_ge in E2. exact E2.
  - intros (Eh & Er). destruct (validate_duty_count _ _ _); [discriminate|].
    rewrite Eh, Er, !N.eqb_refl in H. simpl in H.
    destruct (has_full_data m && _) eqn:E3; [discriminate|].
    destruct (counts_validate _ _ _) eqn:E4; [discriminate|]. split; [reflexivity|].
    intros Hf d Hd. rewrite Hf, Hd in E3. simpl in E3. apply negb_false_iff in E3. apply N.eqb_eq in E3. exact E3.
Qed.

Lemma counts_validate_none : forall cn m n, msg_ok m ->
  counts_validate cn m n = None -> cnt_get cn (kind_of m) < limit_of n (kind_of m).
Proof.
  intros cn m n (Hv & Hs) H. unfold counts_validate in H.
  unfold limit_of, cnt_get, qbftProposalMsgType, qbftPrepareMsgType, qbftCommitMsgType, qbftRoundChangeMsgType in *.
  destruct (kind_of_cases m Hv Hs) as [(E & K)|[(E & K)|[(E & K)|[(E & L & K)|(E & L & K)]]]];
    rewrite E in H; rewrite K; simpl in *.
  - destruct (n_proposal cn >=? limitProposal) eqn:E1; [discriminate|]. rewrite Z.geb_leb in E1. apply Z.leb_gt in E1. exact E1.
  - destruct (n_prepare cn >=? limitPrepare) eqn:E1; [discriminate|]. rewrite Z.geb_leb in E1. apply Z.leb_gt in E1. exact E1.
  - destruct (n_rc cn >=? limitRoundChange) eqn:E1; [discriminate|]. rewrite Z.geb_leb in E1. apply Z.leb_gt in E1. exact E1.
  - rewrite L in H. simpl in H.
    destruct (n_commit cn >=? limitCommit) eqn:E1; [discriminate|]. rewrite Z.geb_leb in E1. apply Z.leb_gt in E1. exact E1.
  - destruct (Nat.eqb (length (c_signers m)) 1) eqn:E0; [apply Nat.eqb_eq in E0; lia|]. simpl in H.
    destruct (Nat.ltb 1 (length (c_signers m))) eqn:E2; [|apply Nat.ltb_ge in E2; lia]. simpl in H.
    destruct (n_decided cn >=? max_decided (Z.of_nat n)) eqn:E1; [discriminate|]. rewrite Z.geb_leb in E1. apply Z.leb_gt in E1. exact E1.
Qed.

(* the state after Record, in terms of the state before *)
Lemma next_sstate_shape : forall c m o ss',
  msg_ok m -> next_sstate c m o = inl ss' ->
  let ss0 := match o with Some x => x | None => new_sstate end in
  (ss_slot ss', ss_round ss') = (if (ss_slot ss0 <? c_height m)%N then slot_round m
                                 else if N.eqb (c_height m) (ss_slot ss0) && (ss_round ss0 <? c_round m)%N then slot_round m
                                 else (ss_slot ss0, ss_round ss0)) /\
  (forall kind, cnt_get (ss_counts ss') kind =
     (if (ss_slot ss0 <? c_height m)%N || (N.eqb (c_height m) (ss_slot ss0) && (ss_round ss0 <? c_round m)%N)
      then 0 else cnt_get (ss_counts ss0) kind) + (if N.eqb kind (kind_of m) then 1 else 0)).
Proof.
  intros c m o ss' (Hv & Hs) H ss0. unfold next_sstate in H. fold ss0 in H.
  destruct (ss_slot ss0 <? c_height m)%N eqn:E1.
  - simpl in H. destruct (counts_record zero_counts m) as [cn|p] eqn:Er; [|discriminate]. inversion H; subst; clear H. simpl.
    split; [reflexivity|]. intros kind. destruct (record_cnt _ _ _ Hv Hs Er) as (R & _). rewrite R.
    unfold cnt_get, zero_counts; simpl. kind_cases.
  - destruct (N.eqb (c_height m) (ss_slot ss0) && (ss_round ss0 <? c_round m)%N) eqn:E2.
    + simpl in H. destruct (counts_record zero_counts m) as [cn|p] eqn:Er; [|discriminate]. inversion H; subst; clear H. simpl.
      apply andb_prop in E2. destruct E2 as [E2 _]. apply N.eqb_eq in E2.
      split; [unfold slot_round; rewrite E2; reflexivity|]. intros kind. destruct (record_cnt _ _ _ Hv Hs Er) as (R & _). rewrite R.
      unfold cnt_get, zero_counts; simpl. kind_cases.
    + simpl in H. destruct (counts_record (ss_counts ss0) m) as [cn|p] eqn:Er; [|discriminate]. inversion H; subst; clear H. simpl.
      split; [reflexivity|]. intros kind. destruct (record_cnt _ _ _ Hv Hs Er) as (R & _). rewrite R. reflexivity.
Qed.

Lemma at_round_self : forall m kind, at_round (c_height m) (c_round m) kind m = N.eqb kind (kind_of m).
Proof. intros. unfold at_round. rewrite !N.eqb_refl. simpl. apply N.eqb_sym. Qed.

Lemma at_round_kind : forall sl r kind m, at_round sl r kind m = true ->
  c_height m = sl /\ c_round m = r /\ kind = kind_of m.
Proof.
  intros sl r kind m H. unfold at_round in H. apply andb_prop in H. destruct H as [H H3].
  apply andb_prop in H. destruct H as [H1 H2]. apply N.eqb_eq in H1, H2, H3. auto.
Qed.

(* acceptance of a consensus message extends the invariant of each of its signers *)
Lemma sinv_step_consensus : forall c sh role m cs s o ss' L n,
  n = length (s_committee sh) -> (1 <= n)%nat -> msg_ok m ->
  o = get_signer s cs -> signer_behavior c sh role m cs s = None ->
  next_sstate c m o = inl ss' -> sinv n o L -> sinv n (Some ss') (L ++ [m]).
Proof.
  intros c sh role m cs s o ss' L n Hn Hn1 Hok Ho Hb Hnext (I1 & I2 & I3 & I4).
  destruct (next_sstate_shape c m o ss' Hok Hnext) as (Sh1 & Sh2). cbv zeta in Sh1, Sh2.
  pose proof (limit_pos n m Hok Hn1) as Hlp.
  (* all earlier messages are below the message, and the count at its round before it *)
  assert (Hbelow : Forall (fun x => lex_le (slot_round x) (slot_round m)) L /\
                   (ss_slot ss', ss_round ss') = slot_round m /\
                   (forall kind, count_at L (c_height m) (c_round m) kind + (if N.eqb kind (kind_of m) then 1 else 0)
                                 = cnt_get (ss_counts ss') kind) /\
                   count_at L (c_height m) (c_round m) (kind_of m) < limit_of n (kind_of m)).
  { destruct o as [ss|].
    - destruct I4 as (I4 & I5).
      destruct (signer_behavior_some c sh role m cs s ss (eq_sym Ho) Hb) as (B1 & B2).
      assert (F : Forall (fun x => lex_le (slot_round x) (slot_round m)) L).
      { eapply Forall_impl; [|exact I4]. intros x Hx. simpl in Hx. exact (lex_le_trans _ _ _ Hx B1). }
      split; [exact F|].
      destruct (ss_slot ss <? c_height m)%N eqn:E1.
      + apply N.ltb_lt in E1. simpl in Sh2.
        assert (Z0 : forall kind, count_at L (c_height m) (c_round m) kind = 0).
        { intros kind. eapply count_at_zero_above; [exact I4|]. unfold lex_le. simpl. lia. }
        split; [exact Sh1|]. split; [intros kind; rewrite Z0, Sh2; reflexivity|]. rewrite Z0. lia.
      + apply N.ltb_ge in E1.
        destruct (N.eqb (c_height m) (ss_slot ss) && (ss_round ss <? c_round m)%N) eqn:E2.
        * apply andb_prop in E2. destruct E2 as [E2a E2b]. apply N.eqb_eq in E2a. apply N.ltb_lt in E2b.
          assert (Z0 : forall kind, count_at L (c_height m) (c_round m) kind = 0).
          { intros kind. eapply count_at_zero_above; [exact I4|]. unfold lex_le. simpl. lia. }
          simpl in Sh2. split; [exact Sh1|]. split; [intros kind; rewrite Z0, Sh2; reflexivity|]. rewrite Z0. lia.
        * assert (Eq : c_height m = ss_slot ss /\ c_round m = ss_round ss).
          { unfold lex_le, slot_round in B1. simpl in B1.
            apply andb_false_iff in E2. destruct B1 as [B1|(B1 & B1')]; [lia|]. split; [auto|].
            destruct E2 as [E2|E2]; [apply N.eqb_neq in E2; congruence|apply N.ltb_ge in E2; lia]. }
          destruct Eq as (Eh & Er). destruct (B2 (conj Eh Er)) as (Cv & _).
          simpl in Sh2. split; [unfold slot_round; rewrite Eh, Er; exact Sh1|].
          split; [intros kind; rewrite Eh, Er, I5, Sh2; reflexivity|].
          rewrite Eh, Er, I5. apply counts_validate_none; [exact Hok|rewrite Hn; exact Cv].
    - subst L. split; [constructor|]. simpl in Sh1, Sh2.
      assert (Sh1' : (ss_slot ss', ss_round ss') = slot_round m).
      { rewrite Sh1. unfold slot_round.
        destruct (0 <? c_height m)%N eqn:E1; [reflexivity|]. apply N.ltb_ge in E1.
        assert (c_height m = 0%N) by lia. rewrite H. simpl.
        destruct (0 <? c_round m)%N eqn:E2; [reflexivity|]. apply N.ltb_ge in E2.
        assert (c_round m = 0%N) by lia. rewrite H0. reflexivity. }
      split; [exact Sh1'|].
      assert (Z0 : forall kind, cnt_get zero_counts kind = 0) by (intros; unfold cnt_get, zero_counts; simpl; kind_cases).
      split.
      + intros kind. rewrite Sh2. unfold count_at; simpl. rewrite Z0. destruct (_ || _); reflexivity.
      + unfold count_at; simpl. lia. }
  destruct Hbelow as (F & Est & Ecnt & Hlt).
  unfold sinv. split; [apply Forall_app; split; [exact I1|constructor; [exact Hok|constructor]]|].
  split.
  { rewrite map_app. simpl. apply nondecreasing_snoc; [exact I2|].
    apply Forall_map. exact F. }
  split.
  { intros sl r kind. rewrite count_at_app, count_at_one.
    destruct (at_round sl r kind m) eqn:E; [|pose proof (I3 sl r kind); lia].
    destruct (at_round_kind _ _ _ _ E) as (E1 & E2 & E3). subst sl r kind. lia. }
  split.
  { rewrite Est. apply Forall_app. split; [exact F|constructor; [apply lex_le_refl|constructor]]. }
  inversion Est as [[Es Er]]. intros kind. rewrite Es, Er, count_at_app, count_at_one, at_round_self, <- Ecnt. reflexivity.
Qed.

(* acceptance of a partial signature message moves the signer's slot forward only *)
Lemma sinv_step_partial : forall c m o ss' L n,
  (match o with Some ss => signer_behavior_partial c 0%N m ss = None -> True | None => True end) ->
  (forall ss, o = Some ss -> (ss_slot ss <=? p_slot m)%N = true) ->
  next_sstate_partial c m o = inl ss' -> sinv n o L -> sinv n (Some ss') L.
Proof.
  intros c m o ss' L n _ Hslot Hnext (I1 & I2 & I3 & I4).
  unfold sinv. repeat (split; [assumption|]).
  unfold next_sstate_partial in Hnext.
  set (ss0 := match o with Some x => x | None => new_sstate end) in *.
  assert (Hcn : forall cn cn' t, pcounts_record cn t = inl cn' -> forall kind, cnt_get cn' kind = cnt_get cn kind).
  { intros cn cn' t H kind. unfold pcounts_record in H.
    destruct (is_pre_ptype t); [inversion H; reflexivity|].
    destruct (N.eqb t ptPostConsensusPartialSig); inversion H; reflexivity. }
  destruct (ss_slot ss0 <? p_slot m)%N eqn:E1.
  - destruct (pcounts_record _ _) as [cn|p] eqn:Er; [|discriminate]. inversion Hnext; subst; clear Hnext. simpl.
    apply N.ltb_lt in E1.
    assert (F : Forall (fun x => lex_le (slot_round x) (p_slot m, firstRound)) L /\
                forall kind, count_at L (p_slot m) firstRound kind = 0).
    { destruct o as [ss|].
      - destruct I4 as (I4 & _). unfold ss0 in E1. simpl in E1.
        assert (F : Forall (fun x => lex_le (slot_round x) (p_slot m, firstRound)) L).
        { eapply Forall_impl; [|exact I4]. intros x Hx. simpl in Hx.
          eapply lex_le_trans; [exact Hx|]. left. simpl. exact E1. }
        split; [exact F|]. intros kind. eapply count_at_zero_above; [exact I4|].
        unfold lex_le. simpl. lia.
      - subst L. split; [constructor|reflexivity]. }
    destruct F as (F1 & F2). split; [exact F1|]. intros kind. rewrite F2, (Hcn _ _ _ Er).
    unfold cnt_get, zero_counts; simpl. kind_cases.
  - destruct (pcounts_record _ _) as [cn|p] eqn:Er; [|discriminate]. inversion Hnext; subst; clear Hnext. simpl.
    destruct o as [ss|].
    + destruct I4 as (I4 & I5). split; [exact I4|]. intros kind. rewrite I5, (Hcn _ _ _ Er). reflexivity.
    + subst L. split; [constructor|]. intros kind. rewrite (Hcn _ _ _ Er).
      unfold count_at, cnt_get, new_sstate, zero_counts; simpl. kind_cases.
Qed.

(* ---- the invariant of the whole validator state ---------------------------------------------- *)

Definition committee_size (c : cfg) (k : N * N) : nat :=
  match get_share c (fst k) with Some sh => length (s_committee sh) | None => 0 end.

Definition hist_inv (c : cfg) (vs : vstate) (acc : list ((N * N) * cmsg)) : Prop :=
  forall k s, sinv (committee_size c k) (get_signer s (get_cs k vs)) (by_signer k s acc).

Lemma by_signer_app : forall k s a b, by_signer k s (a ++ b) = by_signer k s a ++ by_signer k s b.
Proof. intros. unfold by_signer. rewrite filter_app, map_app. reflexivity. Qed.

Lemma hist_inv_init : forall c, hist_inv c [] [].
Proof.
  intros c k s. simpl. unfold sinv, by_signer. simpl.
  split; [constructor|]. split; [constructor|]. split; [|reflexivity].
  intros. unfold count_at. simpl. apply limit_nonneg.
Qed.

Lemma in_existsb : forall s l, existsb (N.eqb s) l = true <-> In s l.
Proof.
  intros s l. rewrite existsb_exists. split.
  - intros (x & Hin & Hx). apply N.eqb_eq in Hx. subst. exact Hin.
  - intros Hin. exists s. split; [exact Hin|apply N.eqb_refl].
Qed.

Lemma signers_behavior_in : forall c sh role m cs l s,
  signers_behavior c sh role m cs l = None -> In s l -> signer_behavior c sh role m cs s = None.
Proof.
  intros c sh role m cs l s. induction l as [|a tl IH]; intros H Hin; [contradiction|]. simpl in H.
  destruct (signer_behavior c sh role m cs a) eqn:E; [discriminate|].
  destruct Hin as [->|Hin]; [exact E|auto].
Qed.

Theorem validate_preserves_hist_inv : forall c vs now env r vs' acc,
  wf_cfg c -> hist_inv c vs acc -> validate c vs now env = (r, vs') ->
  hist_inv c vs' (acc ++ accepted_of env r).
Proof.
  intros c vs now env r vs' acc W I H.
  destruct r; try (
    (* not accepted: neither the state nor the history changes *)
    assert (vs' = vs) by (
      unfold validate, validate_p2p, validate_ssv in H;
      repeat match type of H with
             | (if ?b then _ else _) = _ => destruct b
             | (match ?x with _ => _ end) = _ => destruct x eqn:?
             | (let '(_, _) := ?x in _) = _ => destruct x eqn:?
             end; inversion H; subst; try reflexivity; try congruence);
    subst vs'; unfold accepted_of; rewrite app_nil_r; exact I).
  destruct (validate_accept c vs now env vs' W H) as (A & _).
  destruct A as [sh m cs' K Hr Wsh Em CP Evs | sh m cs' K Hr Wsh Em PP Evs].
  - (* consensus *)
    unfold accepted_of. rewrite Em. subst vs'.
    destruct K as (Hs & _).
    pose proof (valid_consensus_signers_rules sh m Wsh (cp_signers _ _ _ _ _ _ _ _ CP)) as ((SS & SF) & _ & _).
    pose proof (strongly_sorted_nodup _ SS) as Hnd.
    pose proof (valid_consensus_signers_nonempty _ _ (cp_signers _ _ _ _ _ _ _ _ CP)) as Hne.
    assert (Hok : msg_ok m) by (split; [exact (cp_type _ _ _ _ _ _ _ _ CP)|exact Hne]).
    assert (Hn1 : (1 <= length (s_committee sh))%nat).
    { destruct (c_signers m) as [|a tl]; [congruence|]. inversion SF; subst. destruct H2 as (_ & Hin).
      destruct (s_committee sh); [contradiction|simpl; lia]. }
    intros k s. rewrite by_signer_app.
    destruct (key_eqb (e_vid env, e_role env) k) eqn:Ek.
    + apply key_eqb_eq in Ek. subst k. rewrite get_cs_set_same.
      rewrite (update_signers_get c m _ _ _ Hnd (cp_update _ _ _ _ _ _ _ _ CP) s).
      unfold by_signer at 2. cbn [filter fst snd]. rewrite key_eqb_refl. cbn [andb]. unfold signed_by.
      destruct (existsb (N.eqb s) (c_signers m)) eqn:Es; cbn [map snd].
      * apply in_existsb in Es.
        destruct (next_sstate_ok c m (get_signer s (get_cs (e_vid env, e_role env) vs)) (cp_type _ _ _ _ _ _ _ _ CP) Hne) as (ss' & En).
        unfold next_opt. rewrite En.
        eapply sinv_step_consensus with (sh := sh) (cs := get_cs (e_vid env, e_role env) vs) (s := s); eauto.
        -- unfold committee_size. simpl. rewrite Hs. reflexivity.
        -- unfold committee_size. simpl. rewrite Hs. exact Hn1.
        -- eapply signers_behavior_in; [exact (cp_behavior _ _ _ _ _ _ _ _ CP)|exact Es].
      * rewrite app_nil_r. apply I.
    + rewrite get_cs_set_other by exact Ek.
      unfold by_signer at 2. cbn [filter fst snd]. rewrite Ek. cbn [andb map]. rewrite app_nil_r. apply I.
  - (* partial signature *)
    unfold accepted_of. unfold env_cmsg. unfold env_pmsg in Em.
    assert (Hnc : (if N.eqb (e_msg_type env) ssvConsensusMsgType
                   then match e_body env with BConsensus m0 => Some m0 | _ => None end else None) = None).
    { destruct (N.eqb (e_msg_type env) ssvConsensusMsgType) eqn:E1; [|reflexivity].
      destruct (N.eqb (e_msg_type env) ssvPartialSignatureMsgType) eqn:E2; [|discriminate].
      apply N.eqb_eq in E1, E2. rewrite E1 in E2. vm_compute in E2. discriminate. }
    rewrite Hnc. rewrite app_nil_r. subst vs'.
    destruct (pp_update _ _ _ _ _ _ _ PP) as (ss' & En & ->).
    intros k s. destruct (key_eqb (e_vid env, e_role env) k) eqn:Ek.
    + apply key_eqb_eq in Ek. subst k. rewrite get_cs_set_same.
      destruct (N.eq_dec s (p_signer m)) as [->|Hne].
      * rewrite get_signer_set_same.
        eapply sinv_step_partial with (o := get_signer (p_signer m) (get_cs (e_vid env, e_role env) vs)); [| |exact En|apply I].
        -- destruct (get_signer _ _); auto.
        -- intros ss Ho. pose proof (pp_behavior _ _ _ _ _ _ _ PP) as B. rewrite Ho in B.
           unfold signer_behavior_partial in B.
           destruct (p_slot m <? ss_slot ss)%N eqn:E; [discriminate|]. apply N.ltb_ge in E. apply N.leb_le. exact E.
      * rewrite get_signer_set_other by exact Hne. apply I.
    + rewrite get_cs_set_other by exact Ek. apply I.
Qed.

Lemma run_hist_inv : forall c h vs acc, wf_cfg c -> hist_inv c vs acc ->
  hist_inv c (fst (run c vs h)) (acc ++ accepted_consensus h (snd (run c vs h))).
Proof.
  intros c h. induction h as [|[now env] tl IH]; intros vs acc W I; simpl.
  - rewrite app_nil_r. exact I.
  - destruct (validate c vs now env) as [r vs1] eqn:Ev.
    pose proof (validate_preserves_hist_inv c vs now env r vs1 acc W I Ev) as I1.
    specialize (IH vs1 _ W I1). destruct (run c vs1 tl) as [vs2 rs]. simpl in *.
    rewrite app_assoc. exact IH.
Qed.

Lemma two_in_filter : forall (A : Type) (f : A -> bool) (l : list A) i j a b,
  nth_error l i = Some a -> nth_error l j = Some b -> i <> j -> f a = true -> f b = true ->
  (2 <= length (filter f l))%nat.
Proof.
  intros A f l. induction l as [|x tl IH]; intros i j a b Hi Hj Hne Ha Hb.
  - destruct i; discriminate.
  - assert (one : forall k y, nth_error tl k = Some y -> f y = true -> (1 <= length (filter f tl))%nat).
    { clear. intros k y. revert k. induction tl as [|z tl IH]; intros k Hk Hy; [destruct k; discriminate|].
      simpl. destruct k; simpl in Hk.
      - inversion Hk; subst. rewrite Hy. simpl. lia.
      - specialize (IH _ Hk Hy). destruct (f z); simpl; lia. }
    simpl. destruct i as [|i], j as [|j]; simpl in Hi, Hj.
    + congruence.
    + inversion Hi; subst. rewrite Ha. simpl. pose proof (one _ _ Hj Hb). lia.
    + inversion Hj; subst. rewrite Hb. simpl. pose proof (one _ _ Hi Ha). lia.
    + assert (i <> j) by congruence. pose proof (IH _ _ _ _ Hi Hj H Ha Hb). destruct (f x); simpl; lia.
Qed.

Theorem per_signer_limits : forall c h, wf_cfg c ->
  let acc := accepted_consensus h (snd (run c [] h)) in
  forall k s,
    nondecreasing (map slot_round (by_signer k s acc)) /\
    (forall sl r kind, count_at (by_signer k s acc) sl r kind <= limit_of (committee_size c k) kind) /\
    no_second_proposal_with_other_data (by_signer k s acc).
Proof.
  intros c h W acc k s.
  pose proof (run_hist_inv c h [] [] W (hist_inv_init c) k s) as (I1 & I2 & I3 & _).
  simpl in I1, I2, I3. fold acc in I1, I2, I3.
  split; [exact I2|]. split; [exact I3|].
  intros i j m1 m2 Hi Hj T1 T2 Esr.
  destruct (Nat.eq_dec i j) as [|Hne]; [assumption|exfalso].
  assert (K : forall m, c_type m = qbftProposalMsgType -> kind_of m = 0%N).
  { intros m Hm. unfold kind_of, is_decided. rewrite Hm. reflexivity. }
  pose proof (two_in_filter _ (at_round (c_height m1) (c_round m1) 0) _ i j m1 m2 Hi Hj Hne) as H2.
  assert (A1 : at_round (c_height m1) (c_round m1) 0 m1 = true).
  { rewrite at_round_self, (K _ T1). reflexivity. }
  assert (A2 : at_round (c_height m1) (c_round m1) 0 m2 = true).
  { unfold slot_round in Esr. inversion Esr as [[Eh Er]]. rewrite Eh, Er, at_round_self, (K _ T2). reflexivity. }
  specialize (H2 A1 A2).
  pose proof (I3 (c_height m1) (c_round m1) 0%N) as H3. unfold count_at in H3.
  unfold limit_of in H3. simpl in H3. unfold limitProposal in H3. lia.
Qed.

(* ---- frame: validation for one message id neither reads nor writes the state of another ------- *)

Definition env_key (env : envelope) : N * N := (e_vid env, e_role env).

Lemma validate_ssv_frame : forall c vs vs2 recv env v,
  get_cs (env_key env) vs2 = get_cs (env_key env) vs ->
  (validate_ssv c vs recv env v = (fst (validate_ssv c vs recv env v), vs) /\
   validate_ssv c vs2 recv env v = (fst (validate_ssv c vs recv env v), vs2)) \/
  exists cs', validate_ssv c vs recv env v = (Accept, set_cs (env_key env) cs' vs) /\
              validate_ssv c vs2 recv env v = (Accept, set_cs (env_key env) cs' vs2).
Proof.
  intros c vs vs2 recv env v E. unfold env_key in *. unfold validate_ssv. rewrite E.
  repeat match goal with
         | |- context [if ?b then _ else _] => destruct b
         | |- context [match get_share ?a ?b with _ => _ end] => destruct (get_share a b)
         | |- context [match decode_ssv ?a ?b with _ => _ end] => destruct (decode_ssv a b)
         | |- context [match ?b with BUndecodable => _ | _ => _ end] => destruct b
         | |- context [validate_consensus ?a ?b ?c0 ?d ?e ?f ?g] => destruct (validate_consensus a b c0 d e f g) as [[] ?]
         | |- context [validate_partial ?a ?b ?c0 ?d ?e ?f] => destruct (validate_partial a b c0 d e f) as [[] ?]
         end; simpl; eauto.
Qed.

Theorem validate_frame : forall c vs now env,
  (forall k, key_eqb (env_key env) k = false -> get_cs k (snd (validate c vs now env)) = get_cs k vs) /\
  (forall vs2, get_cs (env_key env) vs2 = get_cs (env_key env) vs ->
     fst (validate c vs2 now env) = fst (validate c vs now env) /\
     get_cs (env_key env) (snd (validate c vs2 now env)) = get_cs (env_key env) (snd (validate c vs now env))).
Proof.
  intros c vs now env.
  assert (P : forall vs2 v, get_cs (env_key env) vs2 = get_cs (env_key env) vs ->
          let r1 := validate_ssv c vs (time_unix (fst now) (snd now)) env v in
          let r2 := validate_ssv c vs2 (time_unix (fst now) (snd now)) env v in
          (forall k, key_eqb (env_key env) k = false -> get_cs k (snd r1) = get_cs k vs) /\
          fst r2 = fst r1 /\ get_cs (env_key env) (snd r2) = get_cs (env_key env) (snd r1)).
  { intros vs2 v E r1 r2. unfold r1, r2.
    destruct (validate_ssv_frame c vs vs2 (time_unix (fst now) (snd now)) env v E) as [(H1 & H2)|(cs' & H1 & H2)]; rewrite H1, H2; simpl.
    - split; [auto|]. split; [reflexivity|exact E].
    - split; [intros k Hk; apply get_cs_set_other; exact Hk|]. split; [reflexivity|].
      rewrite !get_cs_set_same. reflexivity. }
  split.
  - intros k Hk. unfold validate. destruct (e_p2p env).
    + unfold validate_p2p.
      repeat match goal with |- context [if ?b then _ else _] => destruct b end; simpl; try reflexivity;
        match goal with |- context [validate_ssv _ _ _ _ ?v] => apply (P vs v eq_refl); exact Hk end.
    + apply (P vs None eq_refl); exact Hk.
  - intros vs2 E. unfold validate. destruct (e_p2p env).
    + unfold validate_p2p.
      repeat match goal with |- context [if ?b then _ else _] => destruct b end; simpl; auto;
        match goal with |- context [validate_ssv _ _ _ _ ?v] => destruct (P vs2 v E) as (_ & A & B); auto end.
    + destruct (P vs2 None E) as (_ & A & B); auto.
Qed.

(* ---- consequences for reachable states -------------------------------------------------------- *)

Lemma reachable_counts_bounded : forall c h, wf_cfg c ->
  forall k s ss, get_signer s (get_cs k (fst (run c [] h))) = Some ss ->
  forall kind, 0 <= cnt_get (ss_counts ss) kind <= limit_of (committee_size c k) kind.
Proof.
  intros c h W k s ss G kind.
  pose proof (run_hist_inv c h [] [] W (hist_inv_init c) k s) as (_ & _ & I3 & I4).
  rewrite G in I4. destruct I4 as (_ & I5). rewrite <- I5. split; [apply count_at_nonneg|apply I3].
Qed.

Lemma reject_classes : forall e, err_reject e = negb (expected_ignore e).
Proof. intros e. destruct e; reflexivity. Qed.

Lemma windows_as_documented :
  allowedRoundsInFuture = 1%N /\ lateSlotAllowance = 2%N /\
  clockErrorTolerance_ns = 50000000 /\ lateMessageMargin_ns = 3000000000 /\
  quickTimeoutThreshold = 8%N /\ quickTimeout_ns = 2000000000 /\ slowTimeout_ns = 120000000000 /\
  max_round_table = [(0, 12); (1, 12); (2, 6); (3, 6); (4, 6); (5, 0); (6, 0)]%N /\
  ttl_table = [(2, Some 3); (3, Some 3); (4, Some 3); (0, Some 34); (1, Some 34); (5, None); (6, None)]%N /\
  limitProposal = 1 /\ limitPrepare = 1 /\ limitCommit = 1 /\ limitRoundChange = 1 /\
  signatureSize = 96%N /\ subnetsCount = 128%N /\ messageOffset = 264%N.
Proof. repeat split; reflexivity. Qed.
