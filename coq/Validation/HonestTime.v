(* C10: the timing assumption made concrete.  A message for the duty of slot [h] that a peer validates while
   its beacon clock is in slot [h] passes validateSlotTime, and round 1 is inside the round window. *)
From Coq Require Import List NArith ZArith Bool Lia.
From SSV Require Import Gen.ValidationConsts Validation.Model Validation.Rules Validation.ProofsPanic
     Validation.ProofsTime.
Local Open Scope Z_scope.

Lemma own_slot_passes_slot_time : forall c now role h,
  wf_cfg c -> wf_time c now -> true_slot c (fst now) = Z.of_N h ->
  validate_slot_time c h role (time_unix (fst now) (snd now)) = None.
Proof.
  intros c now role h W (Hg & Hd & Hs & Hn) Hcur0.
  pose proof W as (Hd0 & Hspe & _).
  unfold validate_slot_time. rewrite recv_unix by assumption.
  pose proof (est_slot_true c (fst now) W Hg Hs) as Hcur. rewrite Hcur0 in Hcur.
  destruct (true_slot_bounds c (fst now) W Hs) as (Hc0 & Hc1). rewrite Hcur0 in Hc0, Hc1.
  set (ecur := est_slot_at c (fst now)) in *.
  assert (Ee : ecur = h) by lia.
  assert (Hdur : 0 < Z.of_N (c_slot_dur c) < 1048576) by lia.
  assert (Hcd : Z.of_N h * Z.of_N (c_slot_dur c) < p61) by (unfold p61 in *; lia).
  assert (Hsz : forall k, 0 <= k <= 102 -> (Z.of_N h + k) * Z.of_N (c_slot_dur c) < p61 + p61).
  { intros k Hk. unfold p61 in *. nia. }
  assert (Hcur1 : Z.of_N (addw ecur 1) = Z.of_N h + 1).
  { rewrite addw_small; [rewrite Hcur; reflexivity|]. rewrite Hcur. unfold two64, p61 in *. nia. }
  destruct (addw ecur 1 <? h)%N eqn:Eg; [apply N.ltb_lt in Eg; lia|]. clear Eg.
  unfold validate_slot_time_unguarded.
  (* early *)
  assert (Hearly : early_message c h (time_unix (fst now) (snd now)) = false).
  { unfold early_message. rewrite recv_unix by assumption. fold ecur. unfold slot_end.
    destruct (slot_start_ns c (addw ecur 1) Hg) as (T1 & N1); [rewrite Hcur1; apply Hsz; lia|].
    destruct (slot_start_ns c h Hg) as (T2 & N2); [pose proof (Hsz 0 ltac:(lia)); lia|].
    destruct (time_add_ns _ (slot_start c (addw ecur 1)) (- clockErrorTolerance_ns) T1
                ltac:(unfold tb, p61, step; lia) ltac:(unfold tb, p61, step, two63; lia)
                ltac:(unfold clockErrorTolerance_ns, two63; lia)) as (T3 & N3).
    rewrite (time_before_ns (tb + step));
      [|exact T3|eapply tokb_weaken; [exact T2|unfold step; lia]].
    apply Z.ltb_ge. rewrite N3, N1, N2, Hcur1.
    unfold start_ns, clockErrorTolerance_ns, nano. nia. }
  rewrite Hearly.
  (* late *)
  unfold late_message. destruct (ttl_of role) as [ttl|] eqn:Httl; [|reflexivity].
  rewrite recv_unix by assumption. fold ecur.
  pose proof (ttl_of_bound _ _ Httl) as Ht.
  assert (Hst : Z.of_N (addw h ttl) = Z.of_N h + Z.of_N ttl).
  { apply addw_small. unfold two64, p61 in *. nia. }
  destruct (slot_start_ns c (addw h ttl) Hg) as (T4 & N4).
  { rewrite Hst. pose proof (Hsz (Z.of_N ttl) ltac:(lia)). lia. }
  destruct (slot_start_ns c ecur Hg) as (T5 & N5); [rewrite Hcur; pose proof (Hsz 0 ltac:(lia)); lia|].
  destruct (time_add_ns _ (slot_start c (addw h ttl)) lateMessageMargin_ns T4
              ltac:(unfold tb, p61, step; lia) ltac:(unfold tb, p61, step, two63; lia)
              ltac:(unfold lateMessageMargin_ns, two63; lia)) as (T6 & N6).
  destruct (time_add_ns _ _ clockErrorTolerance_ns T6
              ltac:(unfold tb, p61, step; lia) ltac:(unfold tb, p61, step, two63; lia)
              ltac:(unfold clockErrorTolerance_ns, two63; lia)) as (T7 & N7).
  rewrite time_sub_pos;
    [|eapply tokb_weaken; [exact T5|unfold tb, p61, step, big; lia]
     |eapply tokb_weaken; [exact T7|unfold tb, p61, step, big; lia]].
  replace (_ <? _) with false; [reflexivity|].
  symmetry. apply Z.ltb_ge. rewrite N7, N6, N4, N5, Hst, Hcur.
  unfold start_ns, lateMessageMargin_ns, clockErrorTolerance_ns, nano. nia.
Qed.

(* rounds 1 and 2 are inside the round window at any instant of the slot: the estimated round is at least 1 and one
   round in the future is allowed *)
Lemma own_slot_round_in_window : forall c now h rho,
  wf_cfg c -> wf_time c now -> true_slot c (fst now) = Z.of_N h -> (rho <= 2)%N ->
  (addw (estimated_round c h (time_unix (fst now) (snd now))) allowedRoundsInFuture <? rho)%N = false.
Proof.
  intros c now h rho W (Hg & Hd & Hs & Hn) Hcur0 Hrho.
  pose proof W as (Hd0 & _ & _).
  destruct (true_slot_bounds c (fst now) W Hs) as (Hc0 & Hc1). rewrite Hcur0 in Hc0, Hc1.
  assert (Hdur : 0 < Z.of_N (c_slot_dur c) < 1048576) by lia.
  destruct (slot_start_ns c h Hg) as (T1 & N1); [unfold p61 in *; lia|].
  set (recv := time_unix (fst now) (snd now)) in *.
  assert (T2 : tokb tb recv /\ ns_of recv = now_ns now + unixToInternal * nano).
  { unfold recv, time_unix, tokb, ns_of, now_ns. cbn [t_sec t_nsec].
    rewrite to_i64_range by (unfold unixToInternal, two63, p61 in *; lia).
    unfold tb, p61, step, unixToInternal, nano in *. lia. }
  destruct T2 as (T2 & N2).
  assert (Hnow : now_ns now < start_ns c (Z.of_N h + 1)).
  { rewrite <- Hcur0. unfold now_ns, start_ns, true_slot, nano in *.
    destruct (fst now <? Z.of_N (c_genesis c)) eqn:E; [apply Z.ltb_lt in E; nia|].
    apply Z.ltb_ge in E.
    pose proof (Z.mod_pos_bound (fst now - Z.of_N (c_genesis c)) (Z.of_N (c_slot_dur c)) ltac:(lia)) as Hm.
    pose proof (Z.div_mod (fst now - Z.of_N (c_genesis c)) (Z.of_N (c_slot_dur c)) ltac:(lia)) as Hdm.
    nia. }
  set (S := now_ns now - start_ns c (Z.of_N h)) in *.
  assert (HS : S < 1000000000000000000).
  { unfold S. unfold start_ns, nano in *. nia. }
  unfold estimated_round, time_after. rewrite (time_before_ns tb _ _ T1 T2). rewrite N1, N2.
  assert (Hest : Z.of_N (if start_ns c (Z.of_N h) + unixToInternal * nano <? now_ns now + unixToInternal * nano
                         then current_estimated_round (time_sub recv (slot_start c h)) else firstRound)
                 = est_round S).
  { destruct (_ <? _) eqn:E.
    - apply Z.ltb_lt in E. assert (0 < S) by (unfold S; lia).
      destruct (time_sub_spec recv (slot_start c h)) as (S1 & _ & _);
        [eapply tokb_weaken; [exact T2|unfold tb, p61, step, big; lia]
        |eapply tokb_weaken; [exact T1|unfold tb, p61, step, big; lia]|].
      rewrite S1 by (rewrite N1, N2; fold S; unfold two63; lia).
      rewrite N1, N2. replace (now_ns now + unixToInternal * nano - (start_ns c (Z.of_N h) + unixToInternal * nano)) with S by (unfold S; lia).
      apply current_estimated_round_math. unfold two63. lia.
    - apply Z.ltb_ge in E. unfold est_round. assert (S <= 0) by (unfold S; lia).
      destruct (S <=? 0) eqn:E2; [reflexivity|apply Z.leb_gt in E2; lia]. }
  assert (Hb : 1 <= est_round S <= 1000000000).
  { unfold est_round, firstRound, quickTimeoutThreshold, quickTimeout_ns, slowTimeout_ns.
    change (Z.of_N 1) with 1. change (Z.of_N 8) with 8.
    destruct (S <=? 0) eqn:E; [lia|]. apply Z.leb_gt in E.
    assert (0 <= S / 2000000000 < 500000000) by (split; [apply Z.div_pos; lia|apply Z.div_lt_upper_bound; lia]).
    destruct (1 + S / 2000000000 <=? 8) eqn:E2; [lia|].
    apply Z.leb_gt in E2. change (8 * 2000000000) with 16000000000.
    assert (16000000000 <= S).
    { destruct (Z_lt_ge_dec S 16000000000) as [Hlt|]; [|lia].
      assert (S / 2000000000 < 8) by (apply Z.div_lt_upper_bound; lia). lia. }
    assert (0 <= (S - 16000000000) / 120000000000 < 10000000) by (split; [apply Z.div_pos; lia|apply Z.div_lt_upper_bound; lia]).
    lia. }
  rewrite <- Hest in Hb.
  apply N.ltb_ge.
  match goal with |- (_ <= addw ?X _)%N => 
    assert (Ha : Z.of_N (addw X allowedRoundsInFuture) = Z.of_N X + Z.of_N allowedRoundsInFuture)
      by (apply addw_small; unfold allowedRoundsInFuture, two64; change (Z.of_N 1) with 1; lia) end.
  unfold firstRound, allowedRoundsInFuture in *. change (Z.of_N 1) with 1 in *. lia.
Qed.

Lemma own_slot_round_one_in_window : forall c now h,
  wf_cfg c -> wf_time c now -> true_slot c (fst now) = Z.of_N h ->
  (addw (estimated_round c h (time_unix (fst now) (snd now))) allowedRoundsInFuture <? firstRound)%N = false.
Proof. intros. apply own_slot_round_in_window; auto. unfold firstRound. lia. Qed.
