(* C09, part 3: Accept implies the conjunction of the gossip rules. *)
From Coq Require Import List NArith ZArith Bool Lia.
From SSV Require Import Gen.ValidationConsts Validation.Model Validation.Rules Validation.ProofsPanic
     Validation.ProofsRules Validation.ProofsTime.
Import ListNotations.
Local Open Scope Z_scope.

Lemma ttl_of_consensus_role : forall role,
  valid_role role = true -> (N.eqb role roleValidatorRegistration || N.eqb role roleVoluntaryExit) = false ->
  exists ttl, ttl_of role = Some ttl.
Proof.
  intros role H E. unfold valid_role in H.
  repeat (apply orb_prop in H; destruct H as [H|H]);
    apply N.eqb_eq in H; subst role; try (vm_compute; eauto; fail); vm_compute in E; discriminate.
Qed.

Lemma signer_behavior_none_just : forall c sh role m cs s,
  signer_behavior c sh role m cs s = None -> validate_justifications m = None.
Proof.
  intros c sh role m cs s H. unfold signer_behavior in H.
  destruct (get_signer s cs) as [ss|]; [|exact H].
  destruct (_ <? _)%N; [discriminate|].
  destruct (_ && _); [discriminate|].
  destruct (validate_duty_count _ _ _); [discriminate|].
  destruct (if N.eqb (c_height m) (ss_slot ss) && N.eqb (c_round m) (ss_round ss) then _ else None);
    [discriminate|exact H].
Qed.

Lemma signers_behavior_none_just : forall c sh role m cs l,
  l <> [] -> signers_behavior c sh role m cs l = None -> validate_justifications m = None.
Proof.
  intros c sh role m cs l Hl H. destruct l as [|s tl]; [congruence|]. simpl in H.
  destruct (signer_behavior c sh role m cs s) eqn:E; [discriminate|].
  eapply signer_behavior_none_just; eauto.
Qed.

Lemma signed_active_true : forall c now, wf_cfg c -> wf_time c now ->
  envelope_active c now -> signed_active c (time_unix (fst now) (snd now)) = true.
Proof.
  intros c now W (Hg & Hd & Hs & Hn) H. unfold signed_active, envelope_active in *.
  rewrite recv_unix by assumption. apply N.ltb_lt. unfold epoch_at.
  pose proof (est_slot_true c (fst now) W Hg Hs) as E.
  destruct W as (_ & Hspe & _).
  assert (Z.of_N (est_slot_at c (fst now) / c_spe c) = true_slot c (fst now) / Z.of_N (c_spe c)).
  { rewrite N2Z.inj_div. rewrite E. reflexivity. }
  lia.
Qed.

Theorem accept_implies_rules : forall c vs now env vs',
  wf_cfg c -> wf_time c now -> validate c vs now env = (Accept, vs') -> accept_rules c now env.
Proof.
  intros c vs now env vs' W T H.
  destruct (validate_accept c vs now env vs' W H) as (A & P).
  assert (Htopic : on_validator_topic env).
  { unfold on_validator_topic. intros Ep. destruct (P Ep) as (Ht & _).
    unfold topic_matches in Ht. destruct (e_topic env) as [k|]; [|discriminate].
    apply N.eqb_eq in Ht. subst. reflexivity. }
  assert (Hsig : forall v', run_verifier (verifier_of c now env) = None -> v' = tt ->
                 signed_by_registered_operator c now env).
  { intros _ Hv _. unfold signed_by_registered_operator. intros Ep Ha.
    pose proof (signed_active_true c now W T Ha) as Hact.
    destruct (P Ep) as (_ & Hlen). split; [exact (Hlen Hact)|].
    unfold verifier_of in Hv. rewrite Ep, Hact in Hv. simpl in Hv.
    apply verify_signature_none. exact Hv. }
  destruct A as [sh m cs' K Hr Wsh Em CP Evs | sh m cs' K Hr Wsh Em PP Evs].
  - exists sh. split; [exact K|]. split; [exact Hr|]. split; [exact Htopic|].
    split; [apply (Hsig tt); [apply (cp_verifier _ _ _ _ _ _ _ _ CP)|reflexivity]|].
    left. exists m. split; [exact Em|].
    destruct (consensus_passed_rules _ _ _ _ _ _ _ _ Wsh CP) as (R1 & R2 & R3 & R4 & R5 & R6 & R7).
    destruct (ttl_of_consensus_role _ Hr (cp_role _ _ _ _ _ _ _ _ CP)) as (ttl & Httl).
    destruct (slot_window c now (e_role env) (c_height m) W T (cp_slot _ _ _ _ _ _ _ _ CP) ttl Httl) as (S1 & S2 & S3).
    destruct (cp_round _ _ _ _ _ _ _ _ CP) as (mr & M1 & M2 & M3 & M4).
    unfold consensus_rules. repeat (split; [assumption|]).
    split; [exists ttl; split; [exact Httl|]; cbv zeta; auto|].
    split.
    { exists mr. split; [exact M1|]. apply N.ltb_ge in M2. apply N.ltb_ge in M3.
      split; [exact M3|]. split; [exact M2|].
      eapply round_window; eauto. eapply ttl_of_bound; eauto. }
    split; [|exact (cp_duty _ _ _ _ _ _ _ _ CP)].
    eapply signers_behavior_none_just; [|exact (cp_behavior _ _ _ _ _ _ _ _ CP)].
    eapply valid_consensus_signers_nonempty. exact (cp_signers _ _ _ _ _ _ _ _ CP).
  - exists sh. split; [exact K|]. split; [exact Hr|]. split; [exact Htopic|].
    split; [apply (Hsig tt); [apply (pp_verifier _ _ _ _ _ _ _ PP)|reflexivity]|].
    right. exists m. split; [exact Em|]. eapply partial_passed_rules; eauto.
Qed.
