(* C09, part 2: Go's time arithmetic is exact where the values are sane, and saturates with the
   right sign otherwise; hence the slot and round windows of an accepted consensus message. *)
From Coq Require Import List NArith ZArith Bool Lia.
From SSV Require Import Gen.ValidationConsts Validation.Model Validation.Rules Validation.ProofsPanic.
Import ListNotations.
Local Open Scope Z_scope.

(* ---- machine integers ------------------------------------------------------------------------ *)

Lemma to_i64_range : forall z, - two63 <= z < two63 -> to_i64 z = z.
Proof.
  intros z H. unfold to_i64, two64, two63 in *.
  destruct (Z_lt_ge_dec z 0) as [Hn|Hp].
  - replace (z mod 18446744073709551616) with (z + 18446744073709551616).
    + destruct (_ <? _) eqn:E; [apply Z.ltb_lt in E; lia|lia].
    + apply Z.mod_unique with (q := -1); lia.
  - rewrite Z.mod_small by lia. destruct (_ <? _) eqn:E; [reflexivity|apply Z.ltb_ge in E; lia].
Qed.

Lemma to_i64_bounds : forall z, - two63 <= to_i64 z < two63.
Proof.
  intros z. unfold to_i64, two64, two63.
  pose proof (Z.mod_pos_bound z 18446744073709551616 ltac:(lia)) as H.
  destruct (_ <? _) eqn:E; [apply Z.ltb_lt in E|apply Z.ltb_ge in E]; lia.
Qed.

Lemma to_i64_cong : forall z, exists k, to_i64 z = z + k * two64.
Proof.
  intros z. unfold to_i64, two64.
  pose proof (Z.div_mod z 18446744073709551616 ltac:(lia)) as H.
  destruct (_ <? _).
  - exists (- (z / 18446744073709551616)). lia.
  - exists (- (z / 18446744073709551616) - 1). lia.
Qed.

Lemma wrap_u64_small : forall z, 0 <= z < two64 -> wrap_u64 z = z.
Proof. intros z H. unfold wrap_u64. apply Z.mod_small. exact H. Qed.

Lemma addw_small : forall a b, Z.of_N a + Z.of_N b < two64 -> Z.of_N (addw a b) = Z.of_N a + Z.of_N b.
Proof.
  intros a b H. unfold addw. rewrite wrap_u64_small by lia. rewrite Z2N.id by lia. reflexivity.
Qed.

(* ---- time values ----------------------------------------------------------------------------- *)

Definition ns_of (t : gotime) : Z := t_sec t * nano + t_nsec t.
Definition tokb (B : Z) (t : gotime) : Prop := - B < t_sec t < B /\ 0 <= t_nsec t < nano.

Definition big : Z := 9223372019674906624. (* 2^63 - 2^34 *)
Definition step : Z := 17179869184.       (* 2^34 *)

Lemma time_before_ns : forall B t u, tokb B t -> tokb B u -> time_before t u = (ns_of t <? ns_of u).
Proof.
  intros B t u (_ & Ht) (_ & Hu). unfold time_before, ns_of, nano in *.
  destruct (t_sec t <? t_sec u) eqn:E1; simpl.
  - apply Z.ltb_lt in E1. symmetry. apply Z.ltb_lt. lia.
  - apply Z.ltb_ge in E1. destruct (t_sec t =? t_sec u) eqn:E2; simpl.
    + apply Z.eqb_eq in E2. rewrite E2.
      destruct (t_nsec t <? t_nsec u) eqn:E3; symmetry;
        [apply Z.ltb_lt in E3; apply Z.ltb_lt|apply Z.ltb_ge in E3; apply Z.ltb_ge]; lia.
    + apply Z.eqb_neq in E2. symmetry. apply Z.ltb_ge. lia.
Qed.

Lemma time_equal_ns : forall B t u, tokb B t -> tokb B u -> time_equal t u = (ns_of t =? ns_of u).
Proof.
  intros B t u (_ & Ht) (_ & Hu). unfold time_equal, ns_of, nano in *.
  destruct (t_sec t =? t_sec u) eqn:E1; simpl.
  - apply Z.eqb_eq in E1. rewrite E1.
    destruct (t_nsec t =? t_nsec u) eqn:E2; symmetry;
      [apply Z.eqb_eq in E2; apply Z.eqb_eq|apply Z.eqb_neq in E2; apply Z.eqb_neq]; lia.
  - apply Z.eqb_neq in E1. symmetry. apply Z.eqb_neq. lia.
Qed.

Lemma add_sec_exact : forall ext d, - two63 < ext + d < two63 -> - two63 < ext < two63 ->
  add_sec ext d = ext + d.
Proof.
  intros ext d H He. unfold add_sec. rewrite to_i64_range by (unfold two63 in *; lia).
  destruct (ext + d >? ext) eqn:E1; destruct (d >? 0) eqn:E2; simpl; try reflexivity.
  - apply Z.gtb_lt in E1. rewrite Z.gtb_ltb in E2. apply Z.ltb_ge in E2. lia.
  - rewrite Z.gtb_ltb in E1. apply Z.ltb_ge in E1. apply Z.gtb_lt in E2. lia.
Qed.

Lemma time_add_ns : forall B t d, tokb B t -> 0 < B -> B + step <= two63 -> - two63 <= d < two63 ->
  tokb (B + step) (time_add t d) /\ ns_of (time_add t d) = ns_of t + d.
Proof.
  intros B t d (Hs & Hn) HB HB2 Hd. unfold time_add, ns_of, tokb.
  pose proof (Z.quot_rem' d nano) as Hqr.
  pose proof (Z.rem_bound_abs d nano ltac:(unfold nano; lia)) as Hrb.
  assert (Hq : - step < Z.quot d nano < step).
  { unfold nano, step, two63 in *.
    assert (Z.abs (Z.rem d 1000000000) < 1000000000) by (rewrite (Z.abs_eq 1000000000) in Hrb; lia).
    lia. }
  unfold nano, step, two63 in *.
  assert (Habs : Z.abs (Z.rem d 1000000000) < 1000000000) by (rewrite (Z.abs_eq 1000000000) in Hrb; lia).
  destruct (t_nsec t + Z.rem d 1000000000 >=? 1000000000) eqn:E1; simpl.
  - rewrite Z.geb_leb in E1. apply Z.leb_le in E1.
    rewrite add_sec_exact by (unfold two63; lia). lia.
  - rewrite Z.geb_leb in E1. apply Z.leb_gt in E1.
    destruct (t_nsec t + Z.rem d 1000000000 <? 0) eqn:E2; simpl.
    + apply Z.ltb_lt in E2. rewrite add_sec_exact by (unfold two63; lia). lia.
    + apply Z.ltb_ge in E2. rewrite add_sec_exact by (unfold two63; lia). lia.
Qed.

(* Sub: exact when the difference fits a Duration, otherwise saturated with the right sign *)
Lemma time_sub_spec : forall t u, tokb big t -> tokb big u ->
  let D := ns_of t - ns_of u in
  (- two63 <= D < two63 -> time_sub t u = D) /\
  (two63 <= D -> time_sub t u = max_dur) /\
  (D < - two63 -> time_sub t u = min_dur).
Proof.
  intros t u Ht Hu D. unfold time_sub.
  assert (HD : (t_sec t - t_sec u) * nano + (t_nsec t - t_nsec u) = D).
  { unfold D, ns_of. lia. }
  rewrite HD.
  pose proof (to_i64_bounds D) as Hb.
  destruct (time_add_ns big u (to_i64 D) Hu ltac:(unfold big; lia) ltac:(unfold big, step, two63; lia) Hb) as (Hok & Hns).
  assert (Ht' : tokb (big + step) t).
  { destruct Ht as (A & B0). split; [unfold big, step in *; lia|exact B0]. }
  rewrite (time_equal_ns _ _ _ Hok Ht'). rewrite Hns.
  rewrite (time_before_ns _ _ _ Ht Hu).
  destruct (to_i64_cong D) as (k & Hk).
  split; [|split]; intros HR.
  - rewrite to_i64_range by exact HR. replace (ns_of u + D) with (ns_of t) by (unfold D; lia).
    rewrite Z.eqb_refl. reflexivity.
  - destruct (ns_of u + to_i64 D =? ns_of t) eqn:E.
    + apply Z.eqb_eq in E. unfold D in *. unfold two63, two64 in *. lia.
    + destruct (ns_of t <? ns_of u) eqn:E2; [apply Z.ltb_lt in E2; unfold D, two63 in *; lia|reflexivity].
  - destruct (ns_of u + to_i64 D =? ns_of t) eqn:E.
    + apply Z.eqb_eq in E. unfold D in *. unfold two63, two64 in *. lia.
    + destruct (ns_of t <? ns_of u) eqn:E2; [reflexivity|apply Z.ltb_ge in E2; unfold D, two63 in *; lia].
Qed.

Lemma time_sub_pos : forall t u, tokb big t -> tokb big u ->
  (time_sub t u >? 0) = (ns_of u <? ns_of t).
Proof.
  intros t u Ht Hu. destruct (time_sub_spec t u Ht Hu) as (S1 & S2 & S3).
  set (D := ns_of t - ns_of u) in *.
  destruct (Z_lt_ge_dec D (- two63)) as [H1|H1].
  - rewrite (S3 H1). unfold min_dur, two63 in *. simpl.
    symmetry. apply Z.ltb_ge. unfold D in H1. lia.
  - destruct (Z_lt_ge_dec D two63) as [H2|H2].
    + rewrite (S1 ltac:(lia)). unfold D.
      destruct (ns_of u <? ns_of t) eqn:E; [apply Z.ltb_lt in E|apply Z.ltb_ge in E].
      * apply Z.gtb_lt. lia.
      * rewrite Z.gtb_ltb. apply Z.ltb_ge. lia.
    + rewrite (S2 ltac:(lia)). unfold max_dur, max_i64. simpl.
      symmetry. apply Z.ltb_lt. unfold D, two63 in H2. lia.
Qed.

(* ---- the beacon clock ------------------------------------------------------------------------ *)

Definition p61 : Z := 2305843009213693952.
Definition wf_time (c : cfg) (now : Z * Z) : Prop :=
  Z.of_N (c_genesis c) < p61 /\ Z.of_N (c_slot_dur c) < 1048576 /\
  0 <= fst now < p61 /\ 0 <= snd now < nano.

Lemma recv_unix : forall sec nsec, 0 <= sec < p61 -> time_to_unix (time_unix sec nsec) = sec.
Proof.
  intros sec nsec H. unfold time_to_unix, time_unix. simpl. unfold unixToInternal, p61 in *.
  rewrite (to_i64_range (sec + 62135596800)) by (unfold two63; lia).
  rewrite to_i64_range by (unfold two63; lia). lia.
Qed.

Lemma est_slot_true : forall c sec, wf_cfg c -> Z.of_N (c_genesis c) < p61 -> 0 <= sec < p61 ->
  Z.of_N (est_slot_at c sec) = true_slot c sec.
Proof.
  intros c sec (Hd & _) Hg Hs. unfold est_slot_at, true_slot, p61 in *.
  destruct (sec <? Z.of_N (c_genesis c)) eqn:E; [reflexivity|]. apply Z.ltb_ge in E.
  rewrite to_i64_range by (unfold two63; lia).
  rewrite wrap_u64_small by (unfold two64; lia).
  rewrite Z2N.id; [reflexivity|]. apply Z.div_pos; lia.
Qed.

Lemma true_slot_bounds : forall c sec, wf_cfg c -> 0 <= sec < p61 ->
  0 <= true_slot c sec /\ true_slot c sec * Z.of_N (c_slot_dur c) <= sec.
Proof.
  intros c sec (Hd & _) Hs. unfold true_slot.
  destruct (sec <? Z.of_N (c_genesis c)) eqn:E; [lia|]. apply Z.ltb_ge in E.
  pose proof (Z.div_pos (sec - Z.of_N (c_genesis c)) (Z.of_N (c_slot_dur c)) ltac:(lia) ltac:(lia)).
  pose proof (Z.mul_div_le (sec - Z.of_N (c_genesis c)) (Z.of_N (c_slot_dur c)) ltac:(lia)). lia.
Qed.

(* GetSlotStartTime without wrap-around *)
Lemma slot_start_small : forall c s,
  Z.of_N (c_genesis c) < p61 -> Z.of_N s * Z.of_N (c_slot_dur c) < p61 + p61 ->
  slot_start c s = {| t_sec := Z.of_N (c_genesis c) + Z.of_N s * Z.of_N (c_slot_dur c) + unixToInternal; t_nsec := 0 |}.
Proof.
  intros c s Hg Hs. unfold slot_start, time_unix, p61, unixToInternal in *.
  rewrite (wrap_u64_small (Z.of_N s * Z.of_N (c_slot_dur c))) by (unfold two64; lia).
  rewrite wrap_u64_small by (unfold two64; lia).
  rewrite (to_i64_range (Z.of_N (c_genesis c) + _)) by (unfold two63; lia).
  rewrite to_i64_range by (unfold two63; lia). reflexivity.
Qed.

Definition tb : Z := p61 * 3 + 4 * step.

Lemma slot_start_ns : forall c s,
  Z.of_N (c_genesis c) < p61 -> Z.of_N s * Z.of_N (c_slot_dur c) < p61 + p61 ->
  tokb tb (slot_start c s) /\
  ns_of (slot_start c s) = start_ns c (Z.of_N s) + unixToInternal * nano.
Proof.
  intros c s Hg Hs. rewrite slot_start_small by assumption.
  unfold tokb, ns_of, start_ns. cbn [t_sec t_nsec]. unfold tb, p61, step, unixToInternal, nano in *.
  assert (0 <= Z.of_N s * Z.of_N (c_slot_dur c)) by (apply Z.mul_nonneg_nonneg; lia). lia.
Qed.

Lemma ttl_of_bound : forall role t, ttl_of role = Some t -> (t <= 100)%N.
Proof.
  intros role t H. unfold ttl_of in H.
  destruct (assoc role ttl_table) as [[x|]|] eqn:E; inversion H; subst; [|lia].
  unfold ttl_table in E. cbn [assoc] in E. revert E.
  repeat (destruct (N.eqb _ role); [intros E; inversion E; subst; lia|]). discriminate.
Qed.

Lemma tokb_weaken : forall B B' t, tokb B t -> B <= B' -> tokb B' t.
Proof. intros B B' t (H1 & H2) HB. split; [lia|exact H2]. Qed.

(* ---- the slot window ------------------------------------------------------------------------- *)

Lemma slot_window : forall c now role slot,
  wf_cfg c -> wf_time c now ->
  validate_slot_time c slot role (time_unix (fst now) (snd now)) = None ->
  forall ttl, ttl_of role = Some ttl ->
    let cur := true_slot c (fst now) in
    start_ns c (Z.of_N slot) <= start_ns c (cur + 1) - clockErrorTolerance_ns /\
    start_ns c cur <= start_ns c (Z.of_N slot + Z.of_N ttl) + lateMessageMargin_ns + clockErrorTolerance_ns /\
    Z.of_N slot <= cur.
Proof.
  intros c now role slot W (Hg & Hd & Hs & Hn) H ttl Httl cur.
  pose proof W as (Hd0 & Hspe & _).
  unfold validate_slot_time in H.
  rewrite recv_unix in H by assumption.
  pose proof (est_slot_true c (fst now) W Hg Hs) as Hcur. fold cur in Hcur.
  destruct (true_slot_bounds c (fst now) W Hs) as (Hc0 & Hc1). fold cur in Hc0, Hc1.
  set (ecur := est_slot_at c (fst now)) in *.
  assert (Hcur1 : Z.of_N (addw ecur 1) = cur + 1).
  { rewrite addw_small; [rewrite Hcur; reflexivity|]. rewrite Hcur. unfold two64, p61 in *. nia. }
  destruct (addw ecur 1 <? slot)%N eqn:Eg; [discriminate|].
  apply N.ltb_ge in Eg. assert (Hsl : Z.of_N slot <= cur + 1) by lia.
  unfold validate_slot_time_unguarded in H.
  destruct (early_message c slot _) eqn:Ee; [discriminate|].
  destruct (late_message c slot role _ >? 0) eqn:El; [discriminate|].
  (* sizes *)
  assert (Hdur : 0 < Z.of_N (c_slot_dur c) < 1048576) by lia.
  assert (Hcd : cur * Z.of_N (c_slot_dur c) < p61) by (unfold p61 in *; lia).
  pose proof (ttl_of_bound _ _ Httl) as Ht.
  assert (Hsz : forall k, 0 <= k <= 102 -> (cur + k) * Z.of_N (c_slot_dur c) < p61 + p61).
  { intros k Hk. unfold p61 in *. nia. }
  (* early *)
  unfold early_message in Ee. rewrite recv_unix in Ee by assumption. fold ecur in Ee.
  unfold slot_end in Ee.
  destruct (slot_start_ns c (addw ecur 1) Hg) as (T1 & N1); [rewrite Hcur1; apply Hsz; lia|].
  destruct (slot_start_ns c slot Hg) as (T2 & N2).
  { assert (Z.of_N slot * Z.of_N (c_slot_dur c) <= (cur + 1) * Z.of_N (c_slot_dur c)) by nia.
    pose proof (Hsz 1 ltac:(lia)). lia. }
  destruct (time_add_ns _ (slot_start c (addw ecur 1)) (- clockErrorTolerance_ns) T1
              ltac:(unfold tb, p61, step; lia) ltac:(unfold tb, p61, step, two63; lia)
              ltac:(unfold clockErrorTolerance_ns, two63; lia)) as (T3 & N3).
  rewrite (time_before_ns (tb + step)) in Ee;
    [|exact T3|eapply tokb_weaken; [exact T2|unfold step; lia]].
  apply Z.ltb_ge in Ee. rewrite N3, N1, N2, Hcur1 in Ee.
  assert (Hearly : start_ns c (Z.of_N slot) <= start_ns c (cur + 1) - clockErrorTolerance_ns) by lia.
  assert (Hle : Z.of_N slot <= cur).
  { unfold start_ns, clockErrorTolerance_ns, nano in Hearly.
    destruct (Z_le_gt_dec (Z.of_N slot) cur) as [|Hgt]; [assumption|].
    assert (Z.of_N slot = cur + 1) by lia. rewrite H0 in Hearly. lia. }
  split; [exact Hearly|]. split; [|exact Hle].
  (* late *)
  unfold late_message in El. rewrite Httl in El. rewrite recv_unix in El by assumption. fold ecur in El.
  assert (Hst : Z.of_N (addw slot ttl) = Z.of_N slot + Z.of_N ttl).
  { apply addw_small. unfold two64, p61 in *. nia. }
  destruct (slot_start_ns c (addw slot ttl) Hg) as (T4 & N4).
  { rewrite Hst. assert ((Z.of_N slot + Z.of_N ttl) * Z.of_N (c_slot_dur c) <= (cur + 100) * Z.of_N (c_slot_dur c)) by nia.
    pose proof (Hsz 100 ltac:(lia)). lia. }
  destruct (slot_start_ns c ecur Hg) as (T5 & N5); [rewrite Hcur; pose proof (Hsz 0 ltac:(lia)); lia|].
  destruct (time_add_ns _ (slot_start c (addw slot ttl)) lateMessageMargin_ns T4
              ltac:(unfold tb, p61, step; lia) ltac:(unfold tb, p61, step, two63; lia)
              ltac:(unfold lateMessageMargin_ns, two63; lia)) as (T6 & N6).
  destruct (time_add_ns _ _ clockErrorTolerance_ns T6
              ltac:(unfold tb, p61, step; lia) ltac:(unfold tb, p61, step, two63; lia)
              ltac:(unfold clockErrorTolerance_ns, two63; lia)) as (T7 & N7).
  rewrite time_sub_pos in El;
    [|eapply tokb_weaken; [exact T5|unfold tb, p61, step, big; lia]
     |eapply tokb_weaken; [exact T7|unfold tb, p61, step, big; lia]].
  apply Z.ltb_ge in El. rewrite N7, N6, N4, N5, Hst, Hcur in El. lia.
Qed.

(* ---- the round window ------------------------------------------------------------------------ *)

Lemma current_estimated_round_math : forall S, 0 < S < two63 ->
  Z.of_N (current_estimated_round S) = est_round S.
Proof.
  intros S HS. unfold current_estimated_round, est_round.
  destruct (S <=? 0) eqn:E0; [apply Z.leb_le in E0; lia|].
  unfold quickTimeout_ns, slowTimeout_ns, quickTimeoutThreshold, firstRound, two63 in *.
  rewrite Z.quot_div_nonneg by lia.
  assert (Hq : 0 <= S / 2000000000 < 4611686019).
  { split; [apply Z.div_pos; lia|]. apply Z.div_lt_upper_bound; lia. }
  rewrite (wrap_u64_small (S / 2000000000)) by (unfold two64; lia).
  assert (Hq1 : Z.of_N (addw 1 (Z.to_N (S / 2000000000))) = 1 + S / 2000000000).
  { rewrite addw_small; rewrite Z2N.id by lia; [reflexivity|unfold two64; lia]. }
  destruct (addw 1 (Z.to_N (S / 2000000000)) <=? 8)%N eqn:E1.
  - apply N.leb_le in E1.
    destruct (Z.of_N 1 + S / 2000000000 <=? Z.of_N 8) eqn:E2; [rewrite Hq1; reflexivity|].
    apply Z.leb_gt in E2. lia.
  - apply N.leb_gt in E1.
    destruct (Z.of_N 1 + S / 2000000000 <=? Z.of_N 8) eqn:E2; [apply Z.leb_le in E2; lia|].
    assert (Hs : 16000000000 <= S).
    { destruct (Z_lt_ge_dec S 16000000000) as [Hlt|]; [|lia].
      assert (S / 2000000000 < 8) by (apply Z.div_lt_upper_bound; lia). lia. }
    change (Z.of_N 8 * 2000000000) with 16000000000.
    rewrite Z.quot_div_nonneg by lia.
    assert (Hq2 : 0 <= (S - 16000000000) / 120000000000 < 76861434).
    { split; [apply Z.div_pos; lia|]. apply Z.div_lt_upper_bound; lia. }
    rewrite (wrap_u64_small ((S - 16000000000) / 120000000000)) by (unfold two64; lia).
    change (addw 8 1) with 9%N.
    rewrite addw_small.
    + rewrite Z2N.id by lia. change (Z.of_N 9) with 9. change (Z.of_N 8) with 8. change (Z.of_N 1) with 1. lia.
    + rewrite Z2N.id by lia. change (Z.of_N 9) with 9. unfold two64. lia.
Qed.

Lemma round_window : forall c now slot round ttl,
  wf_cfg c -> wf_time c now -> (ttl <= 100)%N ->
  Z.of_N slot <= true_slot c (fst now) ->
  start_ns c (true_slot c (fst now)) <=
    start_ns c (Z.of_N slot + Z.of_N ttl) + lateMessageMargin_ns + clockErrorTolerance_ns ->
  (addw (estimated_round c slot (time_unix (fst now) (snd now))) allowedRoundsInFuture <? round)%N = false ->
  Z.of_N round <= est_round (now_ns now - start_ns c (Z.of_N slot)) + Z.of_N allowedRoundsInFuture.
Proof.
  intros c now slot round ttl W (Hg & Hd & Hs & Hn) Ht Hle Hlate H.
  pose proof W as (Hd0 & _ & _).
  set (cur := true_slot c (fst now)) in *.
  destruct (true_slot_bounds c (fst now) W Hs) as (Hc0 & Hc1). fold cur in Hc0, Hc1.
  assert (Hdur : 0 < Z.of_N (c_slot_dur c) < 1048576) by lia.
  (* the slot's start *)
  destruct (slot_start_ns c slot Hg) as (T1 & N1).
  { assert (Z.of_N slot * Z.of_N (c_slot_dur c) <= cur * Z.of_N (c_slot_dur c)) by nia. unfold p61 in *. lia. }
  (* the reception time *)
  set (recv := time_unix (fst now) (snd now)) in *.
  assert (T2 : tokb tb recv /\ ns_of recv = now_ns now + unixToInternal * nano).
  { unfold recv, time_unix, tokb, ns_of, now_ns. cbn [t_sec t_nsec].
    rewrite to_i64_range by (unfold unixToInternal, two63, p61 in *; lia).
    unfold tb, p61, step, unixToInternal, nano in *. lia. }
  destruct T2 as (T2 & N2).
  (* now is before the end of the current slot *)
  assert (Hnow : now_ns now < start_ns c (cur + 1)).
  { unfold now_ns, start_ns, cur, true_slot, nano in *.
    destruct (fst now <? Z.of_N (c_genesis c)) eqn:E; [apply Z.ltb_lt in E; nia|].
    apply Z.ltb_ge in E.
    pose proof (Z.mod_pos_bound (fst now - Z.of_N (c_genesis c)) (Z.of_N (c_slot_dur c)) ltac:(lia)) as Hm.
    pose proof (Z.div_mod (fst now - Z.of_N (c_genesis c)) (Z.of_N (c_slot_dur c)) ltac:(lia)) as Hdm.
    nia. }
  set (S := now_ns now - start_ns c (Z.of_N slot)) in *.
  assert (HS : S < 1000000000000000000).
  { unfold S. unfold start_ns, lateMessageMargin_ns, clockErrorTolerance_ns, nano in *. nia. }
  unfold estimated_round in H. unfold time_after in H.
  rewrite (time_before_ns tb _ _ T1 T2) in H. rewrite N1, N2 in H.
  assert (Hest : Z.of_N (if start_ns c (Z.of_N slot) + unixToInternal * nano <? now_ns now + unixToInternal * nano
                         then current_estimated_round (time_sub recv (slot_start c slot)) else firstRound)
                 = est_round S).
  { destruct (_ <? _) eqn:E.
    - apply Z.ltb_lt in E. assert (0 < S) by (unfold S; lia).
      destruct (time_sub_spec recv (slot_start c slot)) as (S1 & _ & _);
        [eapply tokb_weaken; [exact T2|unfold tb, p61, step, big; lia]
        |eapply tokb_weaken; [exact T1|unfold tb, p61, step, big; lia]|].
      rewrite S1 by (rewrite N1, N2; fold S; unfold two63; lia).
      rewrite N1, N2. replace (now_ns now + unixToInternal * nano - (start_ns c (Z.of_N slot) + unixToInternal * nano)) with S by (unfold S; lia).
      apply current_estimated_round_math. unfold two63. lia.
    - apply Z.ltb_ge in E. unfold est_round. assert (S <= 0) by (unfold S; lia).
      destruct (S <=? 0) eqn:E2; [reflexivity|apply Z.leb_gt in E2; lia]. }
  apply N.ltb_ge in H.
  assert (Hb : 0 <= est_round S <= 1000000000).
  { unfold est_round, firstRound, quickTimeoutThreshold, quickTimeout_ns, slowTimeout_ns.
    change (Z.of_N 1) with 1. change (Z.of_N 8) with 8.
    destruct (S <=? 0) eqn:E; [lia|]. apply Z.leb_gt in E.
    assert (0 <= S / 2000000000 < 500000000) by (split; [apply Z.div_pos; lia|apply Z.div_lt_upper_bound; lia]).
    destruct (1 + S / 2000000000 <=? 8) eqn:E2; [lia|].
    apply Z.leb_gt in E2. change (8 * 2000000000) with 16000000000.
    assert (16000000000 <= S).
    { destruct (Z_lt_ge_dec S 16000000000) as [Hlt|]; [|lia].
      assert (S / 2000000000 < 8) by (apply Z.div_lt_upper_bound; lia). lia. }
    assert (0 <= (S - 16000000000) / 120000000000 < 10000000) by (split; [apply Z.div_pos; lia|apply Z.div_lt_upper_bound; lia]).
    lia. }
  rewrite <- Hest in Hb |- *.
  assert (Ha : Z.of_N (addw (if start_ns c (Z.of_N slot) + unixToInternal * nano <? now_ns now + unixToInternal * nano
                              then current_estimated_round (time_sub recv (slot_start c slot)) else firstRound)
                             allowedRoundsInFuture)
               = Z.of_N (if start_ns c (Z.of_N slot) + unixToInternal * nano <? now_ns now + unixToInternal * nano
                         then current_estimated_round (time_sub recv (slot_start c slot)) else firstRound)
                 + Z.of_N allowedRoundsInFuture).
  { apply addw_small. unfold allowedRoundsInFuture, two64. change (Z.of_N 1) with 1. lia. }
  lia.
Qed.
