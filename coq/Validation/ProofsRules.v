(* C09, part 1: an accepted message passed every check; what the checks mean (everything but the
   slot / round windows, which need the time arithmetic of ProofsTime.v). *)
From Coq Require Import List NArith ZArith Bool Lia Sorting.Sorted.
From SSV Require Import Gen.ValidationConsts Validation.Model Validation.Rules Validation.ProofsPanic.
Import ListNotations.
Local Open Scope Z_scope.

Lemma fail_not_accept : forall e, fail e <> Accept.
Proof. intros e. apply is_fail_not_accept, fail_is_fail. Qed.

(* ---- signers --------------------------------------------------------------------------------- *)

Lemma common_signer_none : forall s sh, common_signer s sh = None -> s <> 0%N /\ In s (s_committee sh).
Proof.
  intros s sh H. unfold common_signer in H.
  destruct (N.eqb s 0) eqn:E; [discriminate|]. apply N.eqb_neq in E.
  destruct (negb (in_committee s sh)) eqn:E2; [discriminate|].
  apply negb_false_iff in E2. unfold in_committee in E2. apply existsb_exists in E2.
  destruct E2 as (x & Hin & Hx). apply N.eqb_eq in Hx. subst. auto.
Qed.

Lemma signers_loop_none : forall sh l prev,
  is_sorted l = true -> signers_loop sh prev l = None ->
  Sorted N.lt l /\ HdRel (fun a b => a <> b) prev l /\ Forall (fun s => s <> 0%N /\ In s (s_committee sh)) l.
Proof.
  induction l as [|s tl IH]; intros prev Hs H; simpl in *; [repeat constructor|].
  destruct (common_signer s sh) eqn:Ec; [discriminate|].
  destruct (N.eqb s prev) eqn:Ep; [discriminate|]. apply N.eqb_neq in Ep.
  assert (Hs' : is_sorted tl = true) by (destruct tl; [reflexivity|apply andb_prop in Hs; tauto]).
  destruct (IH s Hs' H) as (S1 & S2 & S3).
  split; [|split].
  - constructor; [assumption|]. destruct tl as [|b tl']; constructor.
    apply andb_prop in Hs. destruct Hs as [Hle _]. apply N.leb_le in Hle.
    inversion S2; subst. lia.
  - constructor. congruence.
  - constructor; [apply common_signer_none; assumption|assumption].
Qed.

Lemma round_robin_math : forall sh h r op,
  wf_share sh -> rr_defined sh h r = true -> round_robin (s_committee sh) h r = LeaderIs op ->
  (1 <= r)%N /\
  nth_error (s_committee sh)
    (Z.to_nat ((Z.of_N h + Z.of_N r - 1) mod Z.of_nat (length (s_committee sh)))) = Some op.
Proof.
  intros sh h r op W H R. unfold rr_defined in H. unfold wf_share in W.
  apply andb_prop in H. destruct H as [H H4].
  apply andb_prop in H. destruct H as [H H3].
  apply andb_prop in H. destruct H as [H1 H2].
  apply negb_true_iff in H1. apply Nat.eqb_neq in H1.
  apply N.leb_le in H2. apply Z.leb_le in H3. apply Z.leb_le in H4.
  change (Z.quot max_i64 2) with 4611686018427387903 in H3.
  unfold max_i64 in H4. unfold firstRound in H2. split; [exact H2|].
  unfold round_robin in R.
  set (n := Z.of_nat (length (s_committee sh))) in *.
  assert (Hn : 0 < n <= 13) by (unfold n; lia).
  destruct (n =? 0) eqn:E; [apply Z.eqb_eq in E; lia|].
  rewrite (to_i64_small (Z.of_N h)) in R by (unfold two63; lia).
  rewrite (to_i64_small (Z.of_N r)) in R by (unfold two63; lia).
  change (to_i64 (Z.of_N firstRound)) with 1 in R.
  set (fri := if N.eqb h firstHeight then 0 else Z.rem (Z.of_N h) n) in *.
  assert (Hfm : fri = Z.of_N h mod n).
  { unfold fri. destruct (N.eqb h firstHeight) eqn:Eh.
    - apply N.eqb_eq in Eh. unfold firstHeight in Eh. subst h. rewrite Z.mod_0_l by lia. reflexivity.
    - apply Z.rem_mod_nonneg; lia. }
  assert (Hf : 0 <= fri < n) by (rewrite Hfm; apply Z.mod_pos_bound; lia).
  rewrite (to_i64_small (fri + Z.of_N r)) in R by (unfold two63; lia).
  rewrite (to_i64_small (fri + Z.of_N r - 1)) in R by (unfold two63; lia).
  rewrite Z.rem_mod_nonneg in R by lia.
  assert (Hidx : (fri + Z.of_N r - 1) mod n = (Z.of_N h + Z.of_N r - 1) mod n).
  { rewrite Hfm. replace (Z.of_N h mod n + Z.of_N r - 1) with (Z.of_N h mod n + (Z.of_N r - 1)) by lia.
    rewrite Zplus_mod_idemp_l. f_equal. lia. }
  rewrite Hidx in R.
  pose proof (Z.mod_pos_bound (Z.of_N h + Z.of_N r - 1) n ltac:(lia)) as Hb.
  destruct (_ <? 0) eqn:E2; [apply Z.ltb_lt in E2; lia|].
  destruct (nth_error _ _) eqn:E3; inversion R; subst. reflexivity.
Qed.

Lemma valid_consensus_signers_rules : forall sh m,
  wf_share sh -> valid_consensus_signers sh m = None ->
  signers_ok sh (c_signers m) /\ signer_count_ok sh m /\ leader_ok sh m.
Proof.
  intros sh m W H. unfold valid_consensus_signers in H.
  destruct (match c_signers m with [] => _ | _ => _ end) eqn:E1; [discriminate|].
  destruct (negb (is_sorted (c_signers m))) eqn:E2; [discriminate|].
  apply negb_false_iff in E2.
  destruct (signers_loop_none sh _ _ E2 H) as (S1 & _ & S3).
  split; [|split].
  - split; [|exact S3]. apply Sorted_StronglySorted; [|exact S1]. intros a b c0; lia.
  - unfold signer_count_ok. destruct (c_signers m) as [|s [|s2 tl]] eqn:Es; [discriminate|left; reflexivity|].
    right. destruct (negb (N.eqb (c_type m) qbftCommitMsgType)) eqn:Et; [discriminate|].
    apply negb_false_iff in Et. apply N.eqb_eq in Et.
    destruct (_ || _) eqn:Eq; [discriminate|]. apply orb_false_iff in Eq. destruct Eq as [Eq1 Eq2].
    apply negb_false_iff in Eq1. unfold has_quorum in Eq1. apply N.leb_le in Eq1.
    apply Nat.ltb_ge in Eq2. auto.
  - unfold leader_ok. intros Hp. destruct (c_signers m) as [|s [|s2 tl]] eqn:Es; [discriminate| |].
    + rewrite Hp in E1. rewrite N.eqb_refl in E1.
      destruct (negb (rr_defined sh (c_height m) (c_round m))) eqn:Ed; [discriminate|].
      apply negb_false_iff in Ed.
      destruct (round_robin (s_committee sh) (c_height m) (c_round m)) as [op|p] eqn:Er; [|discriminate].
      destruct (N.eqb s op) eqn:Eo; [|discriminate]. apply N.eqb_eq in Eo. subst op.
      destruct (round_robin_math sh _ _ _ W Ed Er) as (R1 & R2). exists s. auto.
    + rewrite Hp in E1. change (N.eqb qbftProposalMsgType qbftCommitMsgType) with false in E1.
      simpl in E1. discriminate.
Qed.

(* ---- inversion of validate_consensus --------------------------------------------------------- *)

Lemma sig_format_none : forall l z, sig_format l z = None -> l = signatureSize /\ z = false.
Proof.
  intros l z H. unfold sig_format in H.
  destruct (negb (N.eqb l signatureSize)) eqn:E; [discriminate|].
  apply negb_false_iff in E. apply N.eqb_eq in E. destruct z; [discriminate|auto].
Qed.

Record consensus_passed (c : cfg) (sh : share) (role : N) (m : cmsg) (recv : gotime)
       (v : option check) (cs cs' : cstate) : Prop := {
  cp_role : (N.eqb role roleValidatorRegistration || N.eqb role roleVoluntaryExit) = false;
  cp_sig : sig_format (c_sig_len m) (c_sig_zero m) = None;
  cp_type : valid_qbft_type (c_type m) = true;
  cp_signers : valid_consensus_signers sh m = None;
  cp_slot : validate_slot_time c (c_height m) role recv = None;
  cp_round : exists mr, max_round role = Some mr /\ (mr <? c_round m)%N = false /\
               (c_round m <? firstRound)%N = false /\
               (addw (estimated_round c (c_height m) recv) allowedRoundsInFuture <? c_round m)%N = false;
  cp_data : (has_full_data m && negb (c_root_ok m)) = false;
  cp_duty : validate_beacon_duty role sh (c_duty_ok m) = None;
  cp_behavior : signers_behavior c sh role m cs (c_signers m) = None;
  cp_verifier : run_verifier v = None;
  cp_update : update_signers c m cs (c_signers m) = inl cs'
}.

Lemma validate_consensus_accept : forall c sh role m recv v cs cs',
  wf_share sh -> verifier_np v ->
  validate_consensus c sh role m recv v cs = (Accept, cs') ->
  consensus_passed c sh role m recv v cs cs'.
Proof.
  intros c sh role m recv v cs cs' W Hv H. unfold validate_consensus in H.
  assert (F : forall e x, (fail e, x) = (Accept, cs') -> False).
  { intros e x E. inversion E. eapply fail_not_accept; eauto. }
  assert (G : forall (ck : check) r x, ck_no_panic ck -> ck = Some r -> (r, x) = (Accept, cs') -> False).
  { intros ck r x Hc -> E. inversion E; subst. simpl in Hc. exact Hc. }
  destruct (N.eqb role roleValidatorRegistration || N.eqb role roleVoluntaryExit) eqn:E0; [exfalso; eapply F; eauto|].
  destruct (sig_format _ _) eqn:E1; [exfalso; eapply (G _ _ _ (sig_format_np _ _) E1); eauto|].
  destruct (negb (valid_qbft_type (c_type m))) eqn:E2; [exfalso; eapply F; eauto|].
  apply negb_false_iff in E2.
  destruct (valid_consensus_signers sh m) eqn:E3;
    [exfalso; eapply (G _ _ _ (valid_consensus_signers_np sh m W) E3); eauto|].
  destruct (validate_slot_time _ _ _ _) eqn:E4;
    [exfalso; eapply (G _ _ _ (validate_slot_time_np _ _ _ _) E4); eauto|].
  destruct (max_round role) as [mr|] eqn:E5; [|inversion H].
  destruct (mr <? c_round m)%N eqn:E6; [exfalso; eapply F; eauto|].
  destruct ((c_round m <? firstRound)%N || _) eqn:E7; [exfalso; eapply F; eauto|].
  apply orb_false_iff in E7. destruct E7 as [E7a E7b].
  destruct (has_full_data m && negb (c_root_ok m)) eqn:E8; [exfalso; eapply F; eauto|].
  destruct (validate_beacon_duty _ _ _) eqn:E9;
    [exfalso; eapply (G _ _ _ (validate_beacon_duty_np _ _ _) E9); eauto|].
  destruct (signers_behavior _ _ _ _ _ _) eqn:E10;
    [exfalso; eapply (G _ _ _ (signers_behavior_np _ _ _ _ _ _ E2) E10); eauto|].
  destruct (run_verifier v) eqn:E11.
  { exfalso. unfold run_verifier in E11. destruct v as [ck|]; [|discriminate].
    simpl in Hv. eapply (G _ _ _ Hv E11); eauto. }
  destruct (update_signers _ _ _ _) eqn:E12; inversion H; subst.
  constructor; auto. exists mr. auto.
Qed.

Lemma consensus_passed_rules : forall c sh role m recv v cs cs',
  wf_share sh -> consensus_passed c sh role m recv v cs cs' ->
  valid_qbft_type (c_type m) = true /\ c_sig_len m = signatureSize /\ c_sig_zero m = false /\
  signers_ok sh (c_signers m) /\ signer_count_ok sh m /\ leader_ok sh m /\ data_ok m.
Proof.
  intros c sh role m recv v cs cs' W P. destruct P.
  destruct (sig_format_none _ _ cp_sig0) as (S1 & S2).
  destruct (valid_consensus_signers_rules sh m W cp_signers0) as (R1 & R2 & R3).
  repeat (split; [assumption|]).
  unfold data_ok, carries_data. intros Hd. rewrite Hd in cp_data0. simpl in cp_data0.
  apply negb_false_iff in cp_data0. exact cp_data0.
Qed.

(* ---- partial signature messages -------------------------------------------------------------- *)

Lemma partial_msgs_loop_none : forall sh signer l seen,
  partial_msgs_loop sh signer seen l = None ->
  NoDup (map ps_root l) /\ (forall x, In x (map ps_root l) -> ~ In x seen) /\
  Forall (fun x => ps_signer x = signer /\ ps_sig_len x = signatureSize /\ ps_sig_zero x = false) l.
Proof.
  induction l as [|pm tl IH]; intros seen H; simpl in *.
  - split; [constructor|]. split; [intros x []|constructor].
  - destruct (existsb (N.eqb (ps_root pm)) seen) eqn:E1; [discriminate|].
    destruct (negb (N.eqb (ps_signer pm) signer)) eqn:E2; [discriminate|].
    apply negb_false_iff in E2. apply N.eqb_eq in E2.
    destruct (common_signer _ _); [discriminate|].
    destruct (sig_format _ _) eqn:E3; [discriminate|].
    destruct (sig_format_none _ _ E3) as (S1 & S2).
    destruct (IH _ H) as (N1 & N2 & N3).
    assert (Hnot : ~ In (ps_root pm) seen).
    { intros Hin. assert (existsb (N.eqb (ps_root pm)) seen = true); [|congruence].
      apply existsb_exists. exists (ps_root pm). split; [assumption|apply N.eqb_refl]. }
    split; [|split].
    + constructor; [|assumption]. intros Hin. apply (N2 _ Hin). left. reflexivity.
    + intros x [Hx|Hx]; [subst; assumption|]. intros Hs. apply (N2 _ Hx). right. assumption.
    + constructor; auto.
Qed.

Record partial_passed (c : cfg) (sh : share) (role : N) (m : pmsg) (v : option check) (cs cs' : cstate) : Prop := {
  pp_type : valid_ptype (p_type m) = true;
  pp_role : ptype_matches_role (p_type m) role = Some true;
  pp_msgs : validate_partial_messages sh m = None;
  pp_behavior : match get_signer (p_signer m) cs with
                | Some ss => signer_behavior_partial c role m ss | None => None end = None;
  pp_sig : sig_format (p_sig_len m) (p_sig_zero m) = None;
  pp_verifier : run_verifier v = None;
  pp_update : exists ss', next_sstate_partial c m (get_signer (p_signer m) cs) = inl ss' /\
                          cs' = set_signer (p_signer m) ss' cs
}.

Lemma validate_partial_accept : forall c sh role m v cs cs',
  valid_role role = true -> verifier_np v ->
  validate_partial c sh role m v cs = (Accept, cs') -> partial_passed c sh role m v cs cs'.
Proof.
  intros c sh role m v cs cs' Hr Hv H. unfold validate_partial in H.
  assert (F : forall e x, (fail e, x) = (Accept, cs') -> False).
  { intros e x E. inversion E. eapply fail_not_accept; eauto. }
  assert (G : forall (ck : check) r x, ck_no_panic ck -> ck = Some r -> (r, x) = (Accept, cs') -> False).
  { intros ck r x Hc -> E. inversion E; subst. simpl in Hc. exact Hc. }
  destruct (negb (valid_ptype (p_type m))) eqn:E1; [exfalso; eapply F; eauto|].
  apply negb_false_iff in E1.
  destruct (ptype_matches_role (p_type m) role) as [[|]|] eqn:E2; [|exfalso; eapply F; eauto|inversion H].
  destruct (validate_partial_messages sh m) eqn:E3;
    [exfalso; eapply (G _ _ _ (validate_partial_messages_np sh m) E3); eauto|].
  destruct (match get_signer (p_signer m) cs with
            | Some ss => signer_behavior_partial c role m ss | None => None end) eqn:E4.
  { exfalso. refine (G _ _ _ _ E4 H).
    destruct (get_signer _ _); [apply signer_behavior_partial_np; assumption|exact I]. }
  destruct (sig_format _ _) eqn:E5; [exfalso; eapply (G _ _ _ (sig_format_np _ _) E5); eauto|].
  destruct (run_verifier v) eqn:E6.
  { exfalso. unfold run_verifier in E6. destruct v as [ck|]; [|discriminate].
    simpl in Hv. eapply (G _ _ _ Hv E6); eauto. }
  destruct (next_sstate_partial _ _ _) eqn:E7; inversion H; subst.
  constructor; eauto.
Qed.

Lemma partial_passed_rules : forall c sh env m v cs cs',
  partial_passed c sh (e_role env) m v cs cs' -> partial_rules env sh m.
Proof.
  intros c sh env m v cs cs' P. destruct P. unfold partial_rules.
  unfold validate_partial_messages in pp_msgs0.
  destruct (common_signer (p_signer m) sh) eqn:Ec; [discriminate|].
  destruct (common_signer_none _ _ Ec) as (C1 & C2).
  destruct (Nat.eqb (length (p_msgs m)) 0) eqn:El; [discriminate|].
  destruct (partial_msgs_loop_none _ _ _ _ pp_msgs0) as (N1 & _ & N3).
  destruct (sig_format_none _ _ pp_sig0) as (S1 & S2).
  repeat (split; [assumption|]). split; [|auto].
  intros E. rewrite E in El. discriminate.
Qed.

(* ---- inversion of validate_ssv / validate_p2p ------------------------------------------------ *)

Inductive ssv_accepted (c : cfg) (vs : vstate) (recv : gotime) (env : envelope) (v : option check)
          (vs' : vstate) : Prop :=
| SsvConsensus : forall sh m cs',
    known_active_nonliquidated c env sh -> valid_role (e_role env) = true -> wf_share sh ->
    env_cmsg env = Some m ->
    consensus_passed c sh (e_role env) m recv v (get_cs (e_vid env, e_role env) vs) cs' ->
    vs' = set_cs (e_vid env, e_role env) cs' vs -> ssv_accepted c vs recv env v vs'
| SsvPartial : forall sh m cs',
    known_active_nonliquidated c env sh -> valid_role (e_role env) = true -> wf_share sh ->
    env_pmsg env = Some m ->
    partial_passed c sh (e_role env) m v (get_cs (e_vid env, e_role env) vs) cs' ->
    vs' = set_cs (e_vid env, e_role env) cs' vs -> ssv_accepted c vs recv env v vs'.

Lemma validate_ssv_accept : forall c vs recv env v vs',
  wf_cfg c -> verifier_np v ->
  validate_ssv c vs recv env v = (Accept, vs') -> ssv_accepted c vs recv env v vs'.
Proof.
  intros c vs recv env v vs' W Hv H. unfold validate_ssv in H.
  assert (F : forall e x, (fail e, x) = (Accept, vs') -> False).
  { intros e x E. inversion E. eapply fail_not_accept; eauto. }
  destruct (N.eqb (e_data_len env) 0); [exfalso; eapply F; eauto|].
  destruct (maxMessageSize <? e_data_len env)%N eqn:Esz; [exfalso; eapply F; eauto|].
  destruct (negb (N.eqb (e_domain env) (c_domain c))) eqn:Ed; [exfalso; eapply F; eauto|].
  apply negb_false_iff in Ed. apply N.eqb_eq in Ed.
  destruct (negb (valid_role (e_role env))) eqn:Hr; [exfalso; eapply F; eauto|].
  apply negb_false_iff in Hr.
  destruct (negb (e_pk_deser_ok env)) eqn:Epk; [exfalso; eapply F; eauto|].
  apply negb_false_iff in Epk.
  destruct (get_share c (e_vid env)) as [sh|] eqn:Hs; [|exfalso; eapply F; eauto].
  pose proof (get_share_wf _ _ _ W Hs) as Wsh.
  destruct (s_liquidated sh) eqn:El; [exfalso; eapply F; eauto|].
  destruct (negb (s_has_meta sh)) eqn:Em; [exfalso; eapply F; eauto|]. apply negb_false_iff in Em.
  destruct (negb (s_attesting sh)) eqn:Ea; [exfalso; eapply F; eauto|]. apply negb_false_iff in Ea.
  assert (K : known_active_nonliquidated c env sh) by (unfold known_active_nonliquidated; auto 10).
  destruct (decode_ssv (e_msg_type env) (e_body env)) as [| |b] eqn:Hd;
    [exfalso; eapply F; eauto|exfalso; eapply F; eauto|].
  destruct (decode_ssv_kind _ _ _ Hd) as (-> & Hc & Hp).
  destruct (N.eqb (e_msg_type env) ssvConsensusMsgType) eqn:E1.
  { destruct (maxConsensusMsgSize <? e_data_len env)%N; [exfalso; eapply F; eauto|].
    destruct (Hc eq_refl) as (m & Eb). rewrite Eb in H.
    destruct (validate_consensus _ _ _ _ _ _ _) as [r cs'] eqn:Ev.
    destruct r; inversion H; subst.
    eapply SsvConsensus; eauto.
    - unfold env_cmsg. rewrite E1, Eb. reflexivity.
    - eapply validate_consensus_accept; eauto. }
  destruct (N.eqb (e_msg_type env) ssvPartialSignatureMsgType) eqn:E2.
  { destruct (maxPartialSignatureMsgSize <? e_data_len env)%N; [exfalso; eapply F; eauto|].
    destruct (Hp eq_refl eq_refl) as (m & Eb). rewrite Eb in H.
    destruct (validate_partial _ _ _ _ _ _) as [r cs'] eqn:Ev.
    destruct r; inversion H; subst.
    eapply SsvPartial; eauto.
    - unfold env_pmsg. rewrite E2, Eb. reflexivity.
    - eapply validate_partial_accept; eauto. }
  exfalso. unfold decode_ssv in Hd. rewrite E1, E2 in Hd.
  destruct (N.eqb (e_msg_type env) ssvEventMsgType); [eapply F; eauto|discriminate].
Qed.

Lemma verify_signature_none : forall env,
  verify_signature env = None -> e_op_found env = true /\ e_op_key_ok env = true /\ e_rsa_ok env = true.
Proof.
  intros env H. unfold verify_signature in H.
  destruct (e_op_found env); [|discriminate].
  destruct (e_op_key_ok env); [|discriminate].
  destruct (e_rsa_ok env); [auto|discriminate].
Qed.

Definition verifier_of (c : cfg) (now : Z * Z) (env : envelope) : option check :=
  if e_p2p env && signed_active c (time_unix (fst now) (snd now)) then Some (verify_signature env) else None.

Lemma validate_accept : forall c vs now env vs',
  wf_cfg c -> validate c vs now env = (Accept, vs') ->
  ssv_accepted c vs (time_unix (fst now) (snd now)) env (verifier_of c now env) vs' /\
  (e_p2p env = true ->
     topic_matches env = true /\
     (signed_active c (time_unix (fst now) (snd now)) = true -> (messageOffset <= e_raw_len env)%N)).
Proof.
  intros c vs now env vs' W H. unfold validate in H. unfold verifier_of.
  destruct (e_p2p env) eqn:Ep; simpl.
  - unfold validate_p2p in H.
    assert (F : forall e x, (fail e, x) = (Accept, vs') -> False).
    { intros e x E. inversion E. eapply fail_not_accept; eauto. }
    destruct (signed_active c _ && _) eqn:E1; [exfalso; eapply F; eauto|].
    destruct (N.eqb _ 0); [exfalso; eapply F; eauto|].
    destruct (maxEncodedMsgSize <? _)%N; [exfalso; eapply F; eauto|].
    destruct (negb (e_ssv_decode_ok env)); [exfalso; eapply F; eauto|].
    destruct (negb (topic_matches env)) eqn:Et; [exfalso; eapply F; eauto|].
    apply negb_false_iff in Et.
    split.
    + apply validate_ssv_accept; [assumption| |assumption].
      destruct (signed_active _ _); simpl; [apply verify_signature_np|exact I].
    + intros _. split; [assumption|]. intros Ha. rewrite Ha in E1. simpl in E1.
      apply N.ltb_ge in E1. exact E1.
  - split; [|discriminate]. apply validate_ssv_accept; [assumption|exact I|assumption].
Qed.
