(* Compiled from ocaml/validation/ so that model.ml lands there.  ExtrOcamlBasic only. *)
From Coq Require Import Extraction ExtrOcamlBasic.
From SSV Require Import Gen.ValidationConsts Validation.Model.
Extraction "model.ml" validate run get_cs get_share err_text
  decode_signed_ssv subnets_from_chars shared_subnets signed_node_info_post_json decode_domain_type.
