(* C10, composition with the gate: the messages correct operators emit in a fault-free first round are
   accepted by a correct peer's validator, in WHATEVER order they arrive, when each is validated inside
   its slot / round window.  [validate_consensus] is the model of validateConsensusMessage; the per-signer
   state it threads is the only coupling between messages, so the proof is an invariant over that state. *)
From Coq Require Import List NArith ZArith Bool Lia.
From SSV Require Import Gen.ValidationConsts Validation.Model Validation.ProofsHist.
Import ListNotations.
Local Open Scope Z_scope.

Section HonestRound.
Variables (c : cfg) (sh : share) (role : N) (h rho ld v fdlen nrc : N) (rcfull : bool) (nrcj npj : N).

(* what a correct operator [s] broadcasts in round [rho] of height [h]: type [t] in proposal / prepare / commit /
   round change, well-formed signature, its own id as the only signer; the proposal carries the value and, after
   the first round, [nrc] round changes (and [npj] prepares) as its justification; a round change of a prepared
   operator ([rcfull]) carries the prepared value and [nrcj] prepares *)
(* which messages carry the value: the proposal, and - when the operators are prepared ([rcfull]) - the round change *)
Definition carries (t : N) : bool := N.eqb t qbftProposalMsgType || (N.eqb t qbftRoundChangeMsgType && rcfull).

Definition hmsg (t s : N) : cmsg :=
  {| c_sig_len := signatureSize; c_sig_zero := false; c_type := t; c_height := h; c_round := rho;
     c_signers := [s]; c_fd_len := if carries t then fdlen else 0%N;
     c_fd_id := if carries t then v else 0%N;
     c_root_ok := carries t;                        (* only read for messages that carry data *)
     c_pj_ok := true; c_pj_len := if N.eqb t qbftProposalMsgType then npj else 0%N; c_rcj_ok := true;
     c_rcj_len := if N.eqb t qbftProposalMsgType then nrc
                  else if N.eqb t qbftRoundChangeMsgType then nrcj else 0%N;
     c_just_ok := true; c_duty_ok := true |}.

Definition honest_item (x : N * N) : Prop :=
  let '(t, s) := x in
  (t = qbftProposalMsgType \/ t = qbftPrepareMsgType \/ t = qbftCommitMsgType \/ t = qbftRoundChangeMsgType) /\
  s <> 0%N /\ in_committee s sh = true /\ (t = qbftProposalMsgType -> s = ld).

Definition cnt (sent : list (N * N)) (t s : N) : Z :=
  if existsb (fun x => N.eqb (fst x) t && N.eqb (snd x) s) sent then 1 else 0.

Lemma cnt_not_in : forall sent t s, ~ In (t, s) sent -> cnt sent t s = 0.
Proof.
  intros sent t s H. unfold cnt. destruct (existsb _ sent) eqn:E; [|reflexivity].
  apply existsb_exists in E. destruct E as [[t' s'] [Hi Hx]]. simpl in Hx.
  apply andb_true_iff in Hx. destruct Hx as [A B]. apply N.eqb_eq in A, B. subst. contradiction.
Qed.

Lemma cnt_cons_same : forall sent t s, cnt ((t, s) :: sent) t s = 1.
Proof. intros. unfold cnt. simpl. rewrite !N.eqb_refl. reflexivity. Qed.

Lemma cnt_cons_other : forall sent t s t' s', (t', s') <> (t, s) -> cnt ((t', s') :: sent) t s = cnt sent t s.
Proof.
  intros sent t s t' s' H. unfold cnt. simpl.
  destruct (N.eqb_spec t' t); destruct (N.eqb_spec s' s); simpl; try reflexivity. subst. contradiction.
Qed.

(* the state of signer [s] after the messages of [sent]: nothing yet and no state, or nothing yet and a state left
   by an EARLIER round of this duty (whatever was counted there), or the exact account of what [s] sent in [rho] *)
Definition current (sent : list (N * N)) (s : N) (ss : sstate) : Prop :=
  ss_slot ss = h /\ ss_round ss = rho /\
  n_proposal (ss_counts ss) = cnt sent qbftProposalMsgType s /\
  n_prepare (ss_counts ss) = cnt sent qbftPrepareMsgType s /\
  n_commit (ss_counts ss) = cnt sent qbftCommitMsgType s /\
  n_rc (ss_counts ss) = cnt sent qbftRoundChangeMsgType s /\
  0 <= ss_duties ss <= 1 /\
  (ss_pdata ss = None \/ ss_pdata ss = Some v).

Definition earlier_round (ss : sstate) : Prop :=
  ss_slot ss = h /\ (ss_round ss < rho)%N /\ 0 <= ss_duties ss <= 1.

Definition sinv (sent : list (N * N)) (s : N) (o : option sstate) : Prop :=
  match o with
  | None => forall t, ~ In (t, s) sent
  | Some ss => current sent s ss \/ (earlier_round ss /\ forall t, ~ In (t, s) sent)
  end.

Definition inv (sent : list (N * N)) (cs : cstate) : Prop := forall s, sinv sent s (get_signer s cs).

Hypothesis Hrole : (N.eqb role roleValidatorRegistration || N.eqb role roleVoluntaryExit) = false.
Hypothesis Hvalid : valid_role role = true.
Hypothesis Hmeta : s_has_meta sh = true.
Hypothesis Hleader : round_robin (s_committee sh) h rho = LeaderIs ld.
Hypothesis Hrr : rr_defined sh h rho = true.
Hypothesis Hfd : fdlen <> 0%N.
Hypothesis Hrho1 : (firstRound <= rho)%N.
Hypothesis Hrho6 : (rho <= 6)%N.

Lemma max_round_ok : exists mr, max_round role = Some mr /\ (mr <? rho)%N = false.
Proof.
  pose proof Hvalid as Hv. pose proof Hrole as Hr. revert Hv Hr. generalize role. intros r Hv Hr.
  unfold valid_role in Hv.
  repeat (apply orb_prop in Hv; destruct Hv as [Hv|Hv]);
    apply N.eqb_eq in Hv; subst r; try (vm_compute in Hr; discriminate);
    (eexists; split; [vm_compute; reflexivity|apply N.ltb_ge; lia]).
Qed.

Lemma hmsg_signers_ok : forall t s, honest_item (t, s) -> valid_consensus_signers sh (hmsg t s) = None.
Proof.
  intros t s (Ht & Hs & Hin & Hl). unfold valid_consensus_signers. cbn [hmsg c_signers c_type c_height c_round].
  assert (E1 : (if N.eqb t qbftProposalMsgType
                then if negb (rr_defined sh h rho) then Some (fail ErrSignerNotLeader)
                     else match round_robin (s_committee sh) h rho with
                          | LeaderPanic p => Some (Panic p)
                          | LeaderIs l => if N.eqb s l then None else Some (fail ErrSignerNotLeader)
                          end
                else None) = None).
  { destruct (N.eqb_spec t qbftProposalMsgType) as [E|E]; [|reflexivity].
    rewrite Hrr, Hleader. cbn [negb]. rewrite (Hl E), N.eqb_refl. reflexivity. }
  rewrite E1. cbn [is_sorted negb signers_loop]. unfold common_signer.
  destruct (N.eqb_spec s 0); [contradiction|]. rewrite Hin. cbn [negb].
  destruct (N.eqb_spec s 0); [contradiction|]. reflexivity.
Qed.

Lemma hmsg_just_ok : forall t s, validate_justifications (hmsg t s) = None.
Proof.
  intros. unfold validate_justifications. cbn [hmsg c_pj_ok c_pj_len c_rcj_ok c_rcj_len c_type c_just_ok negb].
  destruct (N.eqb t qbftProposalMsgType); cbn [negb andb].
  - rewrite !andb_false_r. reflexivity.
  - destruct (N.eqb t qbftRoundChangeMsgType); cbn [negb andb N.eqb]; rewrite ?andb_false_r; reflexivity.
Qed.

Lemma hmsg_type_ok : forall t s, honest_item (t, s) -> valid_qbft_type t = true.
Proof. intros t s ([->|[->|[->| ->]]] & _); reflexivity. Qed.

Lemma duty_ok : validate_beacon_duty role sh true = None.
Proof.
  unfold validate_beacon_duty. rewrite Hmeta. cbn [negb].
  destruct (N.eqb role roleProposer); [reflexivity|].
  destruct (N.eqb role roleSyncCommittee || N.eqb role roleSyncCommitteeContribution); reflexivity.
Qed.

Lemma hmsg_full_data : forall t s, honest_item (t, s) ->
  has_full_data (hmsg t s) = carries t.
Proof.
  intros t s ([->|[->|[->| ->]]] & _); unfold has_full_data, is_decided, carries; cbn; try reflexivity.
  - destruct (N.eqb_spec fdlen 0); [contradiction|reflexivity].
  - destruct rcfull; cbn; [|reflexivity]. destruct (N.eqb_spec fdlen 0); [contradiction|reflexivity].
Qed.

(* the per-signer check and update *)
Lemma hmsg_record : forall t s cn, honest_item (t, s) ->
  exists cn', counts_record cn (hmsg t s) = inl cn' /\
    n_proposal cn' = n_proposal cn + (if N.eqb t qbftProposalMsgType then 1 else 0) /\
    n_prepare cn' = n_prepare cn + (if N.eqb t qbftPrepareMsgType then 1 else 0) /\
    n_commit cn' = n_commit cn + (if N.eqb t qbftCommitMsgType then 1 else 0) /\
    n_rc cn' = n_rc cn + (if N.eqb t qbftRoundChangeMsgType then 1 else 0).
Proof.
  intros t s cn ([->|[->|[->| ->]]] & _); unfold counts_record; cbn;
    eexists; (split; [reflexivity|]); cbn; lia.
Qed.

(* the state a first message of round [rho] leaves: counters and proposal data start from nothing *)
Lemma first_message_state : forall sent t s ss1 cn',
  honest_item (t, s) -> (forall t', ~ In (t', s) sent) ->
  ss_slot ss1 = h -> ss_round ss1 = rho -> ss_counts ss1 = zero_counts -> ss_pdata ss1 = None ->
  0 <= ss_duties ss1 <= 1 ->
  counts_record (ss_counts ss1) (hmsg t s) = inl cn' ->
  current ((t, s) :: sent) s
    {| ss_slot := ss_slot ss1; ss_round := ss_round ss1; ss_counts := cn';
       ss_pdata := if has_full_data (hmsg t s)
                   then match ss_pdata ss1 with None => Some (c_fd_id (hmsg t s)) | Some d => Some d end
                   else ss_pdata ss1;
       ss_duties := ss_duties ss1 |}.
Proof.
  intros sent t s ss1 cn' Hh Hnone A1 A2 A3 A4 A5 Er.
  destruct (hmsg_record t s (ss_counts ss1) Hh) as (cn2 & Er2 & R1 & R2 & R3 & R4).
  rewrite Er in Er2. inversion Er2; subst cn2. clear Er2.
  assert (Hz : forall t', cnt sent t' s = 0) by (intros t'; apply cnt_not_in; apply Hnone).
  assert (Hcases : forall t', (if N.eqb t t' then 1 else 0) + cnt sent t' s = cnt ((t, s) :: sent) t' s).
  { intros t'. destruct (N.eqb_spec t t') as [<-|E].
    - rewrite cnt_cons_same, Hz. reflexivity.
    - rewrite cnt_cons_other by congruence. lia. }
  unfold current. cbn [ss_slot ss_round ss_counts ss_duties ss_pdata].
  rewrite R1, R2, R3, R4, A3. cbn [zero_counts n_proposal n_prepare n_commit n_rc].
  rewrite <- !Hcases, !Hz.
  repeat split; try lia; try assumption.
  rewrite A4, (hmsg_full_data t s Hh). destruct (carries t) eqn:Et; [right|left]; [|reflexivity].
  cbn [hmsg c_fd_id]. rewrite Et. reflexivity.
Qed.

Lemma duty_count_ok : forall ss b, 0 <= ss_duties ss <= 1 -> validate_duty_count ss role b = None.
Proof.
  intros ss b Hdu. unfold validate_duty_count.
  destruct (N.eqb role roleAttester || N.eqb role roleAggregator ||
            N.eqb role roleValidatorRegistration || N.eqb role roleVoluntaryExit); [|reflexivity].
  unfold maxDutiesPerEpoch. destruct b.
  - destruct (Z.geb_spec (ss_duties ss) 2); [lia|reflexivity].
  - destruct (Z.geb_spec (ss_duties ss) (2 + 1)); [lia|reflexivity].
Qed.

Lemma signer_step : forall sent cs t s,
  inv sent cs -> honest_item (t, s) -> ~ In (t, s) sent ->
  signer_behavior c sh role (hmsg t s) cs s = None /\
  exists cs', update_signer c (hmsg t s) cs s = inl cs' /\ inv ((t, s) :: sent) cs'.
Proof.
  intros sent cs t s I Hh Hn. pose proof (I s) as Is. unfold sinv in Is.
  pose proof (hmsg_full_data t s Hh) as Hfdm.
  assert (Hother : forall cs' ss', cs' = set_signer s ss' cs -> current ((t, s) :: sent) s ss' ->
            inv ((t, s) :: sent) cs').
  { intros cs' ss' -> Hs s'. destruct (N.eq_dec s' s) as [->|Hne].
    - rewrite get_signer_set_same. left. exact Hs.
    - rewrite get_signer_set_other by exact Hne. pose proof (I s') as Is'. unfold sinv, current in *.
      destruct (get_signer s' cs) as [ss2|].
      + destruct Is' as [Is'|[Is' Hno]].
        * left. rewrite !cnt_cons_other by congruence. exact Is'.
        * right. split; [exact Is'|]. intros t' [E|E]; [congruence|]. exact (Hno t' E).
      + intros t' [E|E]; [congruence|]. exact (Is' t' E). }
  unfold signer_behavior, update_signer, next_sstate.
  destruct (get_signer s cs) as [ss|] eqn:Eg.
  - destruct Is as [(Hsl & Hrd & Hp & Hpr & Hcm & Hrc & Hdu & Hpd)|[(Hsl & Hrd & Hdu) Hnone]].
    + (* the signer is already in round rho *)
      cbn [hmsg c_height c_round]. rewrite Hsl, Hrd, !N.ltb_irrefl, !N.eqb_refl. cbn [andb].
      rewrite (duty_count_ok ss false Hdu).
      assert (Hcv : counts_validate (ss_counts ss) (hmsg t s) (length (s_committee sh)) = None).
      { destruct Hh as ([->|[->|[->| ->]]] & _); unfold counts_validate; cbn.
        - rewrite Hp, cnt_not_in by exact Hn. reflexivity.
        - rewrite Hpr, cnt_not_in by exact Hn. reflexivity.
        - rewrite Hcm, cnt_not_in by exact Hn. reflexivity.
        - rewrite Hrc, cnt_not_in by exact Hn. reflexivity. }
      assert (Hpdm : (has_full_data (hmsg t s) &&
                match ss_pdata ss with Some d => negb (N.eqb d (c_fd_id (hmsg t s))) | None => false end) = false).
      { rewrite Hfdm. destruct Hpd as [-> | ->]; [apply andb_false_r|]. cbn [hmsg c_fd_id].
        destruct (carries t) eqn:Et; [rewrite N.eqb_refl|]; reflexivity. }
      rewrite Hpdm, Hcv, hmsg_just_ok. split; [reflexivity|].
      destruct (hmsg_record t s (ss_counts ss) Hh) as (cn' & Er & R1 & R2 & R3 & R4). rewrite Er.
      eexists. split; [reflexivity|]. eapply Hother; [reflexivity|].
      assert (Hcases : forall t', (if N.eqb t t' then 1 else 0) + cnt sent t' s = cnt ((t, s) :: sent) t' s).
      { intros t'. destruct (N.eqb_spec t t') as [<-|E].
        - rewrite cnt_cons_same, cnt_not_in by exact Hn. reflexivity.
        - rewrite cnt_cons_other by congruence. lia. }
      unfold current. cbn [ss_slot ss_round ss_counts ss_duties ss_pdata].
      rewrite R1, R2, R3, R4, Hp, Hpr, Hcm, Hrc.
      rewrite <- !Hcases. repeat split; try lia; try assumption.
      rewrite Hfdm. destruct (carries t) eqn:Et; [|exact Hpd].
      destruct Hpd as [-> | ->]; right; cbn [hmsg c_fd_id]; rewrite ?Et; reflexivity.
    + (* the signer's state is from an earlier round of this duty: the round is reset *)
      cbn [hmsg c_height c_round]. rewrite Hsl, N.ltb_irrefl, N.eqb_refl. cbn [andb].
      assert (E1 : (rho <? ss_round ss)%N = false) by (apply N.ltb_ge; lia).
      assert (E2 : N.eqb rho (ss_round ss) = false) by (apply N.eqb_neq; lia).
      assert (E3 : (ss_round ss <? rho)%N = true) by (apply N.ltb_lt; lia).
      rewrite E1, E2, E3, (duty_count_ok ss false Hdu), hmsg_just_ok. split; [reflexivity|].
      set (ss1 := reset_round ss rho).
      destruct (hmsg_record t s (ss_counts ss1) Hh) as (cn' & Er & _). rewrite Er.
      eexists. split; [reflexivity|]. eapply Hother; [reflexivity|].
      apply (first_message_state sent t s ss1 cn' Hh Hnone); try reflexivity; try exact Er; cbn; assumption.
  - rewrite hmsg_just_ok. split; [reflexivity|].
    cbn [hmsg c_height c_round new_sstate ss_slot ss_round].
    set (ss1 := if (0 <? h)%N then reset_slot new_sstate h rho (epoch_at c 0 <? epoch_at c h)%N
                else if N.eqb h 0 && (0 <? rho)%N then reset_round new_sstate rho else new_sstate).
    assert (H1 : ss_slot ss1 = h /\ ss_round ss1 = rho /\ ss_counts ss1 = zero_counts /\
                 ss_pdata ss1 = None /\ 0 <= ss_duties ss1 <= 1).
    { unfold ss1. destruct (N.ltb_spec 0 h) as [Hl|Hl].
      - cbn. destruct (_ <? _)%N; repeat split; lia.
      - assert (E : h = 0%N) by lia. rewrite E.
        assert (E3 : (0 <? rho)%N = true) by (apply N.ltb_lt; unfold firstRound in Hrho1; lia).
        rewrite E3. cbn. repeat split; lia. }
    destruct H1 as (A1 & A2 & A3 & A4 & A5).
    destruct (hmsg_record t s (ss_counts ss1) Hh) as (cn' & Er & _).
    fold ss1. rewrite Er. eexists. split; [reflexivity|]. eapply Hother; [reflexivity|].
    apply (first_message_state sent t s ss1 cn' Hh Is A1 A2 A3 A4 A5 Er).
Qed.

(* one message through validateConsensusMessage *)
Theorem honest_message_accepted : forall recv verifier sent cs t s,
  validate_slot_time c h role recv = None ->
  ((addw (estimated_round c h recv) allowedRoundsInFuture <? rho)%N = false) ->
  run_verifier verifier = None ->
  inv sent cs -> honest_item (t, s) -> ~ In (t, s) sent ->
  exists cs', validate_consensus c sh role (hmsg t s) recv verifier cs = (Accept, cs') /\
              inv ((t, s) :: sent) cs'.
Proof.
  intros recv verifier sent cs t s Htime Hround Hver I Hh Hn.
  destruct (signer_step sent cs t s I Hh Hn) as (Hb & cs' & Hu & I').
  destruct max_round_ok as (mr & Hmr & Hmr1).
  unfold validate_consensus. rewrite Hrole.
  change (sig_format (c_sig_len (hmsg t s)) (c_sig_zero (hmsg t s))) with (sig_format signatureSize false).
  unfold sig_format. rewrite N.eqb_refl. cbn [negb].
  change (c_type (hmsg t s)) with t. rewrite (hmsg_type_ok t s Hh). cbn [negb].
  rewrite (hmsg_signers_ok t s Hh).
  change (c_height (hmsg t s)) with h. change (c_round (hmsg t s)) with rho.
  assert (E0 : (rho <? firstRound)%N = false) by (apply N.ltb_ge; exact Hrho1).
  rewrite Htime, Hmr, Hmr1, E0, Hround. cbn [orb].
  rewrite (hmsg_full_data t s Hh). change (c_root_ok (hmsg t s)) with (carries t).
  rewrite andb_negb_r.
  change (c_duty_ok (hmsg t s)) with true. rewrite duty_ok.
  change (c_signers (hmsg t s)) with [s]. cbn [signers_behavior]. rewrite Hb, Hver.
  cbn [update_signers]. rewrite Hu. exists cs'. split; [reflexivity|exact I'].
Qed.

(* ---- a whole round, any arrival order ----------------------------------------------------------- *)

(* every delivery: reception time, (type, signer) *)
Fixpoint run_honest (cs : cstate) (l : list (gotime * (N * N))) : list result * cstate :=
  match l with
  | [] => ([], cs)
  | (recv, (t, s)) :: tl =>
      let '(r, cs1) := validate_consensus c sh role (hmsg t s) recv None cs in
      let '(rs, cs2) := run_honest cs1 tl in (r :: rs, cs2)
  end.

Definition timely (recv : gotime) : Prop :=
  validate_slot_time c h role recv = None /\
  (addw (estimated_round c h recv) allowedRoundsInFuture <? rho)%N = false.

Lemma run_honest_accepts : forall l sent cs,
  inv sent cs -> NoDup (map snd l) -> (forall x, In x l -> ~ In (snd x) sent) ->
  Forall (fun x => honest_item (snd x) /\ timely (fst x)) l ->
  Forall (eq Accept) (fst (run_honest cs l)).
Proof.
  induction l as [|[recv [t s]] tl IH]; intros sent cs I Hnd Hfresh Hall; [constructor|].
  inversion Hall as [|x l' [Hh [Ht1 Ht2]] Hall']; subst. cbn [fst snd] in *.
  inversion Hnd as [|x l' Hni Hnd']; subst.
  destruct (honest_message_accepted recv None sent cs t s Ht1 Ht2 eq_refl I Hh) as (cs' & Ev & I').
  { apply (Hfresh (recv, (t, s))). left. reflexivity. }
  cbn [run_honest]. rewrite Ev.
  destruct (run_honest cs' tl) as [rs cs2] eqn:Er. cbn [fst]. constructor; [reflexivity|].
  change rs with (fst (rs, cs2)). rewrite <- Er. eapply IH; eauto.
  intros x Hx [E|E].
  - apply Hni. rewrite E. apply in_map. exact Hx.
  - eapply Hfresh; [right; exact Hx|exact E].
Qed.

(* C10, second sentence, at the gate: from a validator that has seen nothing of this duty, or only earlier rounds
   of it, the proposal of the round's leader and the prepares, commits and (unprepared) round changes of any
   operators for round [rho] - each at most once, in ANY order, each validated inside its window - are all accepted. *)
Definition before_round (cs : cstate) : Prop :=
  forall s, match get_signer s cs with None => True | Some ss => earlier_round ss end.

Lemma before_round_inv : forall cs, before_round cs -> inv [] cs.
Proof.
  intros cs H s. specialize (H s). unfold sinv. destruct (get_signer s cs) as [ss|].
  - right. split; [exact H|]. intros t [].
  - intros t [].
Qed.

Theorem honest_round_accepted : forall l cs,
  before_round cs ->
  NoDup (map snd l) -> Forall (fun x => honest_item (snd x) /\ timely (fst x)) l ->
  Forall (eq Accept) (fst (run_honest cs l)).
Proof.
  intros l cs Hfresh Hnd Hall. apply (run_honest_accepts l [] cs); auto.
  apply before_round_inv. exact Hfresh.
Qed.

End HonestRound.
