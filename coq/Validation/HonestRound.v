(* C10, composition with the gate: the messages correct operators emit in one round of a duty are accepted by a
   correct peer's validator, in WHATEVER order they arrive, when each is validated inside its slot / round window.
   [validate_consensus] is the model of validateConsensusMessage; the per-signer state it threads is the only
   coupling between messages, so the proof is an invariant over that state. *)
From Coq Require Import List NArith ZArith Bool Lia.
From SSV Require Import Gen.ValidationConsts Validation.Model Validation.ProofsPanic Validation.ProofsHist.
Import ListNotations.
Local Open Scope Z_scope.

Section HonestRound.
Variables (c : cfg) (sh : share) (role : N) (h rho ld v fdlen nrc : N) (rcfull : bool) (nrcj npj : N).
(* the signers of the decided message (aggregated commit) operator [s] broadcasts when it decides *)
Variable dsig : N -> list N.

(* An item (t, s): t = 0..3 is the single-signer message of that QBFT type from operator s; t = 4 is the decided
   message operator s broadcasts - a commit signed by [dsig s]. *)
Definition tDecided : N := 4%N.
Definition is_dec (t : N) : bool := N.eqb t tDecided.
Definition mtype (t : N) : N := if is_dec t then qbftCommitMsgType else t.
Definition msigners (t s : N) : list N := if is_dec t then dsig s else [s].

(* which messages carry the value: the proposal, the decided message, and - when the operators are prepared
   ([rcfull]) - the round change *)
Definition carries (t : N) : bool :=
  N.eqb t qbftProposalMsgType || (N.eqb t qbftRoundChangeMsgType && rcfull) || is_dec t.

(* what a correct operator [s] broadcasts in round [rho] of height [h]: well-formed signature; the proposal carries
   the value and, after the first round, [nrc] round changes (and [npj] prepares) as its justification; a round
   change of a prepared operator ([rcfull]) carries the prepared value and [nrcj] prepares *)
Definition hmsg (t s : N) : cmsg :=
  {| c_sig_len := signatureSize; c_sig_zero := false; c_type := mtype t; c_height := h; c_round := rho;
     c_signers := msigners t s; c_fd_len := if carries t then fdlen else 0%N;
     c_fd_id := if carries t then v else 0%N;
     c_root_ok := carries t;                        (* only read for messages that carry data *)
     c_pj_ok := true; c_pj_len := if N.eqb t qbftProposalMsgType then npj else 0%N; c_rcj_ok := true;
     c_rcj_len := if N.eqb t qbftProposalMsgType then nrc
                  else if N.eqb t qbftRoundChangeMsgType then nrcj else 0%N;
     c_just_ok := true; c_duty_ok := true |}.

Definition member (x : N) : Prop := x <> 0%N /\ in_committee x sh = true.

Fixpoint increasing (prev : N) (l : list N) : Prop :=
  match l with [] => True | x :: tl => (prev < x)%N /\ increasing x tl end.

(* the signer list of a decided message: strictly increasing ids of committee members, at least a quorum and at
   least two, not more than the committee *)
Definition decided_signers_ok (l : list N) : Prop :=
  (1 < length l)%nat /\ has_quorum sh (length l) = true /\ (length l <= length (s_committee sh))%nat /\
  increasing 0 l /\ Forall member l.

Definition honest_item (x : N * N) : Prop :=
  let '(t, s) := x in
  ((t = qbftProposalMsgType \/ t = qbftPrepareMsgType \/ t = qbftCommitMsgType \/ t = qbftRoundChangeMsgType) /\
   member s /\ (t = qbftProposalMsgType -> s = ld))
  \/ (t = tDecided /\ decided_signers_ok (dsig s)).

(* counting what has been delivered *)
Definition cnt (sent : list (N * N)) (t s : N) : Z :=
  if existsb (fun x => N.eqb (fst x) t && N.eqb (snd x) s) sent then 1 else 0.

Definition mem_n (x : N) (l : list N) : bool := existsb (N.eqb x) l.

Definition in_decided (x : N) (it : N * N) : bool := is_dec (fst it) && mem_n x (dsig (snd it)).

Definition cntd (sent : list (N * N)) (x : N) : Z := Z.of_nat (length (filter (in_decided x) sent)).

Definition ndec (l : list (N * N)) : Z := Z.of_nat (length (filter (fun it => is_dec (fst it)) l)).

Lemma cnt_not_in : forall sent t s, ~ In (t, s) sent -> cnt sent t s = 0.
Proof.
  intros sent t s H. unfold cnt. destruct (existsb _ sent) eqn:E; [|reflexivity].
  apply existsb_exists in E. destruct E as [[t' s'] [Hi Hx]]. simpl in Hx.
  apply andb_true_iff in Hx. destruct Hx as [A B]. apply N.eqb_eq in A, B. subst. contradiction.
Qed.

Lemma cnt_cons_same : forall sent t s, cnt ((t, s) :: sent) t s = 1.
Proof. intros. unfold cnt. simpl. rewrite !N.eqb_refl. reflexivity. Qed.

Lemma cnt_cons_other : forall sent t s t' s', (t', s') <> (t, s) -> cnt ((t', s') :: sent) t s = cnt sent t s.
Proof.
  intros sent t s t' s' H. unfold cnt. simpl.
  destruct (N.eqb_spec t' t); destruct (N.eqb_spec s' s); simpl; try reflexivity. subst. contradiction.
Qed.

Lemma cntd_cons : forall sent it x,
  cntd (it :: sent) x = (if in_decided x it then 1 else 0) + cntd sent x.
Proof. intros. unfold cntd. cbn [filter]. destruct (in_decided x it); cbn [length]; lia. Qed.

Lemma cntd_le_ndec : forall sent x, cntd sent x <= ndec sent.
Proof.
  intros sent x. unfold cntd, ndec. induction sent as [|it tl IH]; cbn [filter]; [lia|].
  unfold in_decided at 1. destruct (is_dec (fst it)); cbn [andb].
  - destruct (mem_n x (dsig (snd it))); cbn [length]; lia.
  - exact IH.
Qed.

Lemma ndec_cons : forall it l, ndec (it :: l) = (if is_dec (fst it) then 1 else 0) + ndec l.
Proof. intros. unfold ndec. cbn [filter]. destruct (is_dec (fst it)); cbn [length]; lia. Qed.

(* the state of signer [x] after the messages of [sent]: nothing from or with x yet and no state, or nothing yet and
   a state left by an EARLIER round of this duty, or the exact account of what x sent / co-signed in [rho] *)
Definition current (sent : list (N * N)) (x : N) (ss : sstate) : Prop :=
  ss_slot ss = h /\ ss_round ss = rho /\
  n_proposal (ss_counts ss) = cnt sent qbftProposalMsgType x /\
  n_prepare (ss_counts ss) = cnt sent qbftPrepareMsgType x /\
  n_commit (ss_counts ss) = cnt sent qbftCommitMsgType x /\
  n_rc (ss_counts ss) = cnt sent qbftRoundChangeMsgType x /\
  n_decided (ss_counts ss) = cntd sent x /\
  0 <= ss_duties ss <= 1 /\
  (ss_pdata ss = None \/ ss_pdata ss = Some v).

Definition earlier_round (ss : sstate) : Prop :=
  ss_slot ss = h /\ (ss_round ss < rho)%N /\ 0 <= ss_duties ss <= 1.

Definition untouched (sent : list (N * N)) (x : N) : Prop :=
  (forall t, is_dec t = false -> ~ In (t, x) sent) /\ cntd sent x = 0.

Definition sinv (sent : list (N * N)) (x : N) (o : option sstate) : Prop :=
  match o with
  | None => untouched sent x
  | Some ss => current sent x ss \/ (earlier_round ss /\ untouched sent x)
  end.

Definition inv (sent : list (N * N)) (cs : cstate) : Prop := forall x, sinv sent x (get_signer x cs).

Hypothesis Hrole : (N.eqb role roleValidatorRegistration || N.eqb role roleVoluntaryExit) = false.
Hypothesis Hvalid : valid_role role = true.
Hypothesis Hmeta : s_has_meta sh = true.
Hypothesis Hleader : round_robin (s_committee sh) h rho = LeaderIs ld.
Hypothesis Hrr : rr_defined sh h rho = true.
Hypothesis Hfd : fdlen <> 0%N.
Hypothesis Hrho1 : (firstRound <= rho)%N.
Hypothesis Hrho6 : (rho <= 6)%N.

Lemma max_round_ok : exists mr, max_round role = Some mr /\ (mr <? rho)%N = false.
Proof.
  pose proof Hvalid as Hv. pose proof Hrole as Hr. revert Hv Hr. generalize role. intros r Hv Hr.
  unfold valid_role in Hv.
  repeat (apply orb_prop in Hv; destruct Hv as [Hv|Hv]);
    apply N.eqb_eq in Hv; subst r; try (vm_compute in Hr; discriminate);
    (eexists; split; [vm_compute; reflexivity|apply N.ltb_ge; lia]).
Qed.

(* the shape of an item *)
Lemma item_cases : forall t s, honest_item (t, s) ->
  (is_dec t = false /\ mtype t = t /\ msigners t s = [s] /\ member s /\
   (t = qbftProposalMsgType \/ t = qbftPrepareMsgType \/ t = qbftCommitMsgType \/ t = qbftRoundChangeMsgType) /\
   (t = qbftProposalMsgType -> s = ld))
  \/ (t = tDecided /\ is_dec t = true /\ mtype t = qbftCommitMsgType /\ msigners t s = dsig s /\
      decided_signers_ok (dsig s)).
Proof.
  intros t s [(Ht & Hm & Hl)|(-> & Hd)].
  - left. assert (E : is_dec t = false) by (destruct Ht as [->|[->|[->| ->]]]; reflexivity).
    unfold mtype, msigners. rewrite E. auto 10.
  - right. repeat split; try reflexivity; apply Hd.
Qed.

Lemma increasing_sorted : forall l p, increasing p l -> is_sorted l = true.
Proof.
  induction l as [|a tl IH]; intros p H; [reflexivity|]. destruct tl as [|b tl2]; [reflexivity|].
  cbn [is_sorted]. destruct H as [_ [Hab Hr]]. apply andb_true_iff. split.
  - apply N.leb_le. lia.
  - apply (IH a). split; assumption.
Qed.

Lemma increasing_loop : forall l p, increasing p l -> Forall member l -> signers_loop sh p l = None.
Proof.
  induction l as [|a tl IH]; intros p H F; [reflexivity|]. cbn [signers_loop].
  destruct H as [Hpa Hr]. inversion F as [|? ? [Ha0 Hain] F']; subst.
  unfold common_signer. destruct (N.eqb_spec a 0); [contradiction|]. rewrite Hain. cbn [negb].
  destruct (N.eqb_spec a p); [lia|]. apply IH; assumption.
Qed.

Lemma increasing_nodup : forall l p, increasing p l -> NoDup l /\ Forall (fun x => (p < x)%N) l.
Proof.
  induction l as [|a tl IH]; intros p H; [split; constructor|].
  destruct H as [Hpa Hr]. destruct (IH a Hr) as [Hn Hf]. split.
  - constructor; [|exact Hn]. intros Hin. rewrite Forall_forall in Hf. specialize (Hf _ Hin). lia.
  - constructor; [exact Hpa|]. eapply Forall_impl; [|exact Hf]. intros x Hx. cbn in Hx. lia.
Qed.

Lemma hmsg_signers_ok : forall t s, honest_item (t, s) -> valid_consensus_signers sh (hmsg t s) = None.
Proof.
  intros t s Hh. unfold valid_consensus_signers. cbn [hmsg c_signers c_type c_height c_round].
  destruct (item_cases t s Hh) as [(_ & Emt & Ems & (Hs & Hin) & Ht & Hl)|(-> & _ & Emt & Ems & (L1 & L2 & L3 & L4 & L5))];
    rewrite Emt, Ems.
  - assert (E1 : (if N.eqb t qbftProposalMsgType
                  then if negb (rr_defined sh h rho) then Some (fail ErrSignerNotLeader)
                       else match round_robin (s_committee sh) h rho with
                            | LeaderPanic p => Some (Panic p)
                            | LeaderIs l => if N.eqb s l then None else Some (fail ErrSignerNotLeader)
                            end
                  else None) = None).
    { destruct (N.eqb_spec t qbftProposalMsgType) as [E|E]; [|reflexivity].
      rewrite Hrr, Hleader. cbn [negb]. rewrite (Hl E), N.eqb_refl. reflexivity. }
    rewrite E1. cbn [is_sorted negb signers_loop]. unfold common_signer.
    destruct (N.eqb_spec s 0); [contradiction|]. rewrite Hin. cbn [negb].
    destruct (N.eqb_spec s 0); [contradiction|]. reflexivity.
  - destruct (dsig s) as [|a [|b tl]] eqn:Ed; [cbn in L1; lia|cbn in L1; lia|].
    rewrite N.eqb_refl. cbn [negb]. rewrite L2. cbn [negb orb].
    assert (E3 : Nat.ltb (length (s_committee sh)) (length (a :: b :: tl)) = false) by (apply Nat.ltb_ge; exact L3).
    rewrite E3. rewrite (increasing_sorted _ _ L4). cbn [negb].
    apply increasing_loop; assumption.
Qed.

Lemma hmsg_just_ok : forall t s, validate_justifications (hmsg t s) = None.
Proof.
  intros. unfold validate_justifications. cbn [hmsg c_pj_ok c_pj_len c_rcj_ok c_rcj_len c_type c_just_ok negb].
  destruct (N.eqb_spec t qbftProposalMsgType) as [->|E1]; cbn [negb andb].
  - rewrite !andb_false_r. reflexivity.
  - destruct (N.eqb_spec t qbftRoundChangeMsgType) as [->|E2]; cbn [negb andb N.eqb].
    + cbn. rewrite ?andb_false_r. reflexivity.
    + assert (Em : N.eqb (mtype t) qbftProposalMsgType = false).
      { unfold mtype. destruct (is_dec t); [reflexivity|]. apply N.eqb_neq. exact E1. }
      rewrite Em. reflexivity.
Qed.

Lemma hmsg_type_ok : forall t s, honest_item (t, s) -> valid_qbft_type (mtype t) = true.
Proof.
  intros t s Hh. destruct (item_cases t s Hh) as [(_ & -> & _ & _ & [->|[->|[->| ->]]] & _)|(_ & _ & -> & _)]; reflexivity.
Qed.

Lemma duty_ok : validate_beacon_duty role sh true = None.
Proof.
  unfold validate_beacon_duty. rewrite Hmeta. cbn [negb].
  destruct (N.eqb role roleProposer); [reflexivity|].
  destruct (N.eqb role roleSyncCommittee || N.eqb role roleSyncCommitteeContribution); reflexivity.
Qed.

Lemma hmsg_full_data : forall t s, honest_item (t, s) ->
  has_full_data (hmsg t s) = carries t.
Proof.
  intros t s Hh. unfold has_full_data, is_decided. cbn [hmsg c_type c_signers c_fd_len].
  destruct (item_cases t s Hh) as [(Ed & -> & -> & _ & Ht & _)|(-> & _ & -> & -> & (L1 & _))].
  - unfold carries. rewrite Ed, orb_false_r. cbn [length Nat.ltb Nat.leb]. rewrite andb_false_r, orb_false_r.
    destruct Ht as [->|[->|[->| ->]]]; cbn; try reflexivity.
    + destruct (N.eqb_spec fdlen 0); [contradiction|reflexivity].
    + destruct rcfull; cbn; [|reflexivity]. destruct (N.eqb_spec fdlen 0); [contradiction|reflexivity].
  - destruct (Nat.ltb_spec 1 (length (dsig s))) as [_|Hc]; [|lia].
    cbn. destruct (N.eqb_spec fdlen 0); [contradiction|reflexivity].
Qed.

Lemma hmsg_signers_nonempty : forall t s, honest_item (t, s) -> c_signers (hmsg t s) <> [].
Proof.
  intros t s Hh. cbn [hmsg c_signers].
  destruct (item_cases t s Hh) as [(_ & _ & -> & _)|(_ & _ & _ & -> & (L1 & _))]; [discriminate|].
  intros E. rewrite E in L1. cbn in L1. lia.
Qed.

(* what recording the message does to the counters of one of its signers *)
Lemma hmsg_record : forall t s cn, honest_item (t, s) ->
  exists cn', counts_record cn (hmsg t s) = inl cn' /\
    n_proposal cn' = n_proposal cn + (if N.eqb t qbftProposalMsgType then 1 else 0) /\
    n_prepare cn' = n_prepare cn + (if N.eqb t qbftPrepareMsgType then 1 else 0) /\
    n_commit cn' = n_commit cn + (if N.eqb t qbftCommitMsgType then 1 else 0) /\
    n_rc cn' = n_rc cn + (if N.eqb t qbftRoundChangeMsgType then 1 else 0) /\
    n_decided cn' = n_decided cn + (if is_dec t then 1 else 0).
Proof.
  intros t s cn Hh. unfold counts_record. cbn [hmsg c_type c_signers].
  destruct (item_cases t s Hh) as [(_ & -> & -> & _ & [->|[->|[->| ->]]] & _)|(-> & _ & -> & -> & (L1 & _))].
  1-4: cbn; eexists; (split; [reflexivity|]); cbn; lia.
  assert (E1 : Nat.eqb (length (dsig s)) 1 = false) by (apply Nat.eqb_neq; lia).
  assert (E2 : Nat.ltb 1 (length (dsig s)) = true) by (apply Nat.ltb_lt; exact L1).
  unfold qbftProposalMsgType, qbftPrepareMsgType, qbftCommitMsgType, qbftRoundChangeMsgType.
  cbn [N.eqb Pos.eqb]. rewrite E1, E2. eexists; (split; [reflexivity|]); cbn; lia.
Qed.

Lemma duty_count_ok : forall ss b, 0 <= ss_duties ss <= 1 -> validate_duty_count ss role b = None.
Proof.
  intros ss b Hdu. unfold validate_duty_count.
  destruct (N.eqb role roleAttester || N.eqb role roleAggregator ||
            N.eqb role roleValidatorRegistration || N.eqb role roleVoluntaryExit); [|reflexivity].
  unfold maxDutiesPerEpoch. destruct b.
  - destruct (Z.geb_spec (ss_duties ss) 2); [lia|reflexivity].
  - destruct (Z.geb_spec (ss_duties ss) (2 + 1)); [lia|reflexivity].
Qed.

(* the counters after the message, in terms of the delivered items *)
Lemma counts_after : forall sent t s x,
  honest_item (t, s) -> In x (msigners t s) -> ~ In (t, s) sent ->
  (if N.eqb t qbftProposalMsgType then 1 else 0) + cnt sent qbftProposalMsgType x = cnt ((t, s) :: sent) qbftProposalMsgType x /\
  (if N.eqb t qbftPrepareMsgType then 1 else 0) + cnt sent qbftPrepareMsgType x = cnt ((t, s) :: sent) qbftPrepareMsgType x /\
  (if N.eqb t qbftCommitMsgType then 1 else 0) + cnt sent qbftCommitMsgType x = cnt ((t, s) :: sent) qbftCommitMsgType x /\
  (if N.eqb t qbftRoundChangeMsgType then 1 else 0) + cnt sent qbftRoundChangeMsgType x = cnt ((t, s) :: sent) qbftRoundChangeMsgType x /\
  (if is_dec t then 1 else 0) + cntd sent x = cntd ((t, s) :: sent) x.
Proof.
  intros sent t s x Hh Hx Hn.
  destruct (item_cases t s Hh) as [(Ed & _ & Ems & _ & Ht & _)|(-> & Ed & _ & Ems & _)]; rewrite Ems in Hx.
  - destruct Hx as [<-|[]].
    assert (Hc : forall t', (if N.eqb t t' then 1 else 0) + cnt sent t' s = cnt ((t, s) :: sent) t' s).
    { intros t'. destruct (N.eqb_spec t t') as [<-|E].
      - rewrite cnt_cons_same, cnt_not_in by exact Hn. reflexivity.
      - rewrite cnt_cons_other by congruence. lia. }
    rewrite cntd_cons. unfold in_decided. cbn [fst]. rewrite Ed. cbn [andb].
    repeat split; try apply Hc.
  - rewrite cntd_cons. unfold in_decided. cbn [fst snd]. rewrite Ed. cbn [andb].
    assert (Em : mem_n x (dsig s) = true).
    { unfold mem_n. apply existsb_exists. exists x. split; [exact Hx|apply N.eqb_refl]. }
    rewrite Em. rewrite !cnt_cons_other by (unfold tDecided; intros E; inversion E). cbn. repeat split; lia.
Qed.

(* one signer of one message: its check passes and its new state is the account of the extended history *)
Lemma signer_one : forall sent cs t s x,
  sinv sent x (get_signer x cs) -> honest_item (t, s) -> In x (msigners t s) -> ~ In (t, s) sent ->
  (is_dec t = true -> ndec sent < max_decided (Z.of_nat (length (s_committee sh)))) ->
  signer_behavior c sh role (hmsg t s) cs x = None /\
  exists ss', next_sstate c (hmsg t s) (get_signer x cs) = inl ss' /\ current ((t, s) :: sent) x ss'.
Proof.
  intros sent cs t s x Is Hh Hx Hn Hmax.
  pose proof (hmsg_full_data t s Hh) as Hfdm.
  destruct (counts_after sent t s x Hh Hx Hn) as (C1 & C2 & C3 & C4 & C5).
  assert (Hfirst : forall ss1 cn',
            untouched sent x -> ss_slot ss1 = h -> ss_round ss1 = rho -> ss_counts ss1 = zero_counts ->
            ss_pdata ss1 = None -> 0 <= ss_duties ss1 <= 1 ->
            counts_record (ss_counts ss1) (hmsg t s) = inl cn' ->
            current ((t, s) :: sent) x
              {| ss_slot := ss_slot ss1; ss_round := ss_round ss1; ss_counts := cn';
                 ss_pdata := if has_full_data (hmsg t s)
                             then match ss_pdata ss1 with None => Some (c_fd_id (hmsg t s)) | Some d => Some d end
                             else ss_pdata ss1;
                 ss_duties := ss_duties ss1 |}).
  { intros ss1 cn' [Hno Hd0] A1 A2 A3 A4 A5 Er.
    destruct (hmsg_record t s (ss_counts ss1) Hh) as (cn2 & Er2 & R1 & R2 & R3 & R4 & R5).
    rewrite Er in Er2. inversion Er2; subst cn2. clear Er2.
    assert (Hz : forall t', is_dec t' = false -> cnt sent t' x = 0) by (intros t' E; apply cnt_not_in; apply Hno; exact E).
    unfold current. cbn [ss_slot ss_round ss_counts ss_duties ss_pdata].
    rewrite R1, R2, R3, R4, R5, A3. cbn [zero_counts n_proposal n_prepare n_commit n_rc n_decided].
    rewrite <- C1, <- C2, <- C3, <- C4, <- C5, !Hz, Hd0 by reflexivity.
    repeat split; try lia; try assumption.
    rewrite A4, Hfdm. destruct (carries t) eqn:Et; [right|left]; [|reflexivity].
    cbn [hmsg c_fd_id]. rewrite Et. reflexivity. }
  unfold signer_behavior, next_sstate.
  destruct (get_signer x cs) as [ss|] eqn:Eg.
  - destruct Is as [(Hsl & Hrd & Hp & Hpr & Hcm & Hrc & Hdc & Hdu & Hpd)|[(Hsl & Hrd & Hdu) Hun]].
    + (* the signer is already in round rho *)
      cbn [hmsg c_height c_round]. rewrite Hsl, Hrd, !N.ltb_irrefl, !N.eqb_refl. cbn [andb].
      rewrite (duty_count_ok ss false Hdu).
      assert (Hcv : counts_validate (ss_counts ss) (hmsg t s) (length (s_committee sh)) = None).
      { unfold counts_validate. cbn [hmsg c_type c_signers].
        destruct (item_cases t s Hh) as [(Ed & -> & Ems & _ & Ht & _)|(-> & Ed & -> & Ems & (L1 & _))]; rewrite Ems.
        - rewrite Ems in Hx. destruct Hx as [<-|[]].
          destruct Ht as [->|[->|[->| ->]]]; cbn.
          + rewrite Hp, cnt_not_in by exact Hn. reflexivity.
          + rewrite Hpr, cnt_not_in by exact Hn. reflexivity.
          + rewrite Hcm, cnt_not_in by exact Hn. reflexivity.
          + rewrite Hrc, cnt_not_in by exact Hn. reflexivity.
        - assert (E1 : Nat.eqb (length (dsig s)) 1 = false) by (apply Nat.eqb_neq; lia).
          assert (E2 : Nat.ltb 1 (length (dsig s)) = true) by (apply Nat.ltb_lt; exact L1).
          unfold qbftProposalMsgType, qbftPrepareMsgType, qbftCommitMsgType, qbftRoundChangeMsgType.
          cbn [N.eqb Pos.eqb]. rewrite E1, E2. cbn [andb]. rewrite Hdc.
          pose proof (cntd_le_ndec sent x). pose proof (Hmax eq_refl).
          destruct (Z.geb_spec (cntd sent x) (max_decided (Z.of_nat (length (s_committee sh))))); [lia|reflexivity]. }
      assert (Hpdm : (has_full_data (hmsg t s) &&
                match ss_pdata ss with Some d => negb (N.eqb d (c_fd_id (hmsg t s))) | None => false end) = false).
      { rewrite Hfdm. destruct Hpd as [-> | ->]; [apply andb_false_r|]. cbn [hmsg c_fd_id].
        destruct (carries t) eqn:Et; [rewrite N.eqb_refl|]; reflexivity. }
      rewrite Hpdm, Hcv, hmsg_just_ok. split; [reflexivity|].
      destruct (hmsg_record t s (ss_counts ss) Hh) as (cn' & Er & R1 & R2 & R3 & R4 & R5). rewrite Er.
      eexists. split; [reflexivity|].
      unfold current. cbn [ss_slot ss_round ss_counts ss_duties ss_pdata].
      rewrite R1, R2, R3, R4, R5, Hp, Hpr, Hcm, Hrc, Hdc.
      rewrite <- C1, <- C2, <- C3, <- C4, <- C5. repeat split; try lia; try assumption.
      rewrite Hfdm. destruct (carries t) eqn:Et; [|exact Hpd].
      destruct Hpd as [-> | ->]; right; cbn [hmsg c_fd_id]; rewrite ?Et; reflexivity.
    + (* the signer's state is from an earlier round of this duty: the round is reset *)
      cbn [hmsg c_height c_round]. rewrite Hsl, N.ltb_irrefl, N.eqb_refl. cbn [andb].
      assert (E1 : (rho <? ss_round ss)%N = false) by (apply N.ltb_ge; lia).
      assert (E2 : N.eqb rho (ss_round ss) = false) by (apply N.eqb_neq; lia).
      assert (E3 : (ss_round ss <? rho)%N = true) by (apply N.ltb_lt; lia).
      rewrite E1, E2, E3, (duty_count_ok ss false Hdu), hmsg_just_ok. split; [reflexivity|].
      set (ss1 := reset_round ss rho).
      destruct (hmsg_record t s (ss_counts ss1) Hh) as (cn' & Er & _). rewrite Er.
      eexists. split; [reflexivity|].
      apply (Hfirst ss1 cn' Hun); try reflexivity; try exact Er; cbn; assumption.
  - rewrite hmsg_just_ok. split; [reflexivity|].
    cbn [hmsg c_height c_round new_sstate ss_slot ss_round].
    set (ss1 := if (0 <? h)%N then reset_slot new_sstate h rho (epoch_at c 0 <? epoch_at c h)%N
                else if N.eqb h 0 && (0 <? rho)%N then reset_round new_sstate rho else new_sstate).
    assert (H1 : ss_slot ss1 = h /\ ss_round ss1 = rho /\ ss_counts ss1 = zero_counts /\
                 ss_pdata ss1 = None /\ 0 <= ss_duties ss1 <= 1).
    { unfold ss1. destruct (N.ltb_spec 0 h) as [Hl|Hl].
      - cbn. destruct (_ <? _)%N; repeat split; lia.
      - assert (E : h = 0%N) by lia. rewrite E.
        assert (E3 : (0 <? rho)%N = true) by (apply N.ltb_lt; unfold firstRound in Hrho1; lia).
        rewrite E3. cbn. repeat split; lia. }
    destruct H1 as (A1 & A2 & A3 & A4 & A5).
    destruct (hmsg_record t s (ss_counts ss1) Hh) as (cn' & Er & _).
    fold ss1. rewrite Er. eexists. split; [reflexivity|].
    apply (Hfirst ss1 cn' Is A1 A2 A3 A4 A5 Er).
Qed.

(* a signer the message does not name keeps its account *)
Lemma signer_other : forall sent t s y o,
  sinv sent y o -> honest_item (t, s) -> ~ In y (msigners t s) -> sinv ((t, s) :: sent) y o.
Proof.
  intros sent t s y o Is Hh Hy.
  assert (Hc : forall t', is_dec t' = false -> cnt ((t, s) :: sent) t' y = cnt sent t' y).
  { intros t' Et'. apply cnt_cons_other. intros E. inversion E; subst.
    destruct (item_cases t' y Hh) as [(_ & _ & Ems & _)|(_ & Ed & _)]; [|congruence].
    apply Hy. rewrite Ems. left. reflexivity. }
  assert (Hd : cntd ((t, s) :: sent) y = cntd sent y).
  { rewrite cntd_cons. unfold in_decided. cbn [fst snd].
    destruct (item_cases t s Hh) as [(Ed & _)|(_ & Ed & _ & Ems & _)]; rewrite Ed; cbn [andb]; [lia|].
    assert (Em : mem_n y (dsig s) = false).
    { unfold mem_n. destruct (existsb (N.eqb y) (dsig s)) eqn:E; [|reflexivity].
      apply existsb_exists in E. destruct E as (z & Hz & Ez). apply N.eqb_eq in Ez. subst z.
      exfalso. apply Hy. rewrite Ems. exact Hz. }
    rewrite Em. lia. }
  assert (Hu : untouched sent y -> untouched ((t, s) :: sent) y).
  { intros [Hno Hd0]. split; [|rewrite Hd; exact Hd0].
    intros t' Et' [E|E]; [|exact (Hno t' Et' E)]. inversion E; subst.
    destruct (item_cases t' y Hh) as [(_ & _ & Ems & _)|(_ & Ed & _)]; [|congruence].
    apply Hy. rewrite Ems. left. reflexivity. }
  unfold sinv in *. destruct o as [ss|]; [|exact (Hu Is)].
  destruct Is as [Hcur|[He Hun]]; [left|right; split; [exact He|exact (Hu Hun)]].
  unfold current in *. rewrite !Hc by reflexivity. rewrite Hd. exact Hcur.
Qed.

Lemma msigners_nodup : forall t s, honest_item (t, s) -> NoDup (msigners t s).
Proof.
  intros t s Hh. destruct (item_cases t s Hh) as [(_ & _ & -> & _)|(_ & _ & _ & -> & (_ & _ & _ & L4 & _))].
  - constructor; [intros []|constructor].
  - exact (proj1 (increasing_nodup _ _ L4)).
Qed.

(* all signers of one message *)
Lemma message_step : forall sent cs t s,
  inv sent cs -> honest_item (t, s) -> ~ In (t, s) sent ->
  (is_dec t = true -> ndec sent < max_decided (Z.of_nat (length (s_committee sh)))) ->
  signers_behavior c sh role (hmsg t s) cs (msigners t s) = None /\
  exists cs', update_signers c (hmsg t s) cs (msigners t s) = inl cs' /\ inv ((t, s) :: sent) cs'.
Proof.
  intros sent cs t s I Hh Hn Hmax. split.
  - assert (G : forall l, (forall x, In x l -> In x (msigners t s)) ->
              signers_behavior c sh role (hmsg t s) cs l = None).
    { induction l as [|a tl IH]; intros Hin; [reflexivity|]. cbn [signers_behavior].
      destruct (signer_one sent cs t s a (I a) Hh (Hin a (or_introl eq_refl)) Hn Hmax) as [-> _].
      apply IH. intros x Hx. apply Hin. right. exact Hx. }
    apply G. auto.
  - assert (Hty : valid_qbft_type (c_type (hmsg t s)) = true) by (exact (hmsg_type_ok t s Hh)).
    destruct (update_signers_ok c (hmsg t s) (msigners t s) cs Hty (hmsg_signers_nonempty t s Hh)) as (cs' & Eu).
    exists cs'. split; [exact Eu|].
    intros y. rewrite (update_signers_get c (hmsg t s) (msigners t s) cs cs' (msigners_nodup t s Hh) Eu y).
    destruct (existsb (N.eqb y) (msigners t s)) eqn:Ey.
    + apply existsb_exists in Ey. destruct Ey as (z & Hz & Ez). apply N.eqb_eq in Ez. subst z.
      destruct (signer_one sent cs t s y (I y) Hh Hz Hn Hmax) as (_ & ss' & En & Hcur).
      unfold next_opt. rewrite En. left. exact Hcur.
    + apply signer_other; [exact (I y)|exact Hh|].
      intros Hin. assert (existsb (N.eqb y) (msigners t s) = true); [|congruence].
      apply existsb_exists. exists y. split; [exact Hin|apply N.eqb_refl].
Qed.

(* one message through validateConsensusMessage *)
Theorem honest_message_accepted : forall recv verifier sent cs t s,
  validate_slot_time c h role recv = None ->
  ((addw (estimated_round c h recv) allowedRoundsInFuture <? rho)%N = false) ->
  run_verifier verifier = None ->
  inv sent cs -> honest_item (t, s) -> ~ In (t, s) sent ->
  (is_dec t = true -> ndec sent < max_decided (Z.of_nat (length (s_committee sh)))) ->
  exists cs', validate_consensus c sh role (hmsg t s) recv verifier cs = (Accept, cs') /\
              inv ((t, s) :: sent) cs'.
Proof.
  intros recv verifier sent cs t s Htime Hround Hver I Hh Hn Hmax.
  destruct (message_step sent cs t s I Hh Hn Hmax) as (Hb & cs' & Hu & I').
  destruct max_round_ok as (mr & Hmr & Hmr1).
  unfold validate_consensus. rewrite Hrole.
  change (sig_format (c_sig_len (hmsg t s)) (c_sig_zero (hmsg t s))) with (sig_format signatureSize false).
  unfold sig_format. rewrite N.eqb_refl. cbn [negb].
  change (c_type (hmsg t s)) with (mtype t). rewrite (hmsg_type_ok t s Hh). cbn [negb].
  rewrite (hmsg_signers_ok t s Hh).
  change (c_height (hmsg t s)) with h. change (c_round (hmsg t s)) with rho.
  assert (E0 : (rho <? firstRound)%N = false) by (apply N.ltb_ge; exact Hrho1).
  rewrite Htime, Hmr, Hmr1, E0, Hround. cbn [orb].
  rewrite (hmsg_full_data t s Hh). change (c_root_ok (hmsg t s)) with (carries t).
  rewrite andb_negb_r.
  change (c_duty_ok (hmsg t s)) with true. rewrite duty_ok.
  change (c_signers (hmsg t s)) with (msigners t s). rewrite Hb, Hver, Hu.
  exists cs'. split; [reflexivity|exact I'].
Qed.

(* ---- a whole round, any arrival order ----------------------------------------------------------- *)

(* every delivery: reception time, item *)
Fixpoint run_honest (cs : cstate) (l : list (gotime * (N * N))) : list result * cstate :=
  match l with
  | [] => ([], cs)
  | (recv, (t, s)) :: tl =>
      let '(r, cs1) := validate_consensus c sh role (hmsg t s) recv None cs in
      let '(rs, cs2) := run_honest cs1 tl in (r :: rs, cs2)
  end.

Definition timely (recv : gotime) : Prop :=
  validate_slot_time c h role recv = None /\
  (addw (estimated_round c h recv) allowedRoundsInFuture <? rho)%N = false.

(* the decided messages among the deliveries stay below the per-signer limit n * (f + 1) *)
Definition decided_within_limit (sent l : list (N * N)) : Prop :=
  ndec sent + ndec l <= max_decided (Z.of_nat (length (s_committee sh))).

Lemma ndec_step : forall sent t s tl,
  decided_within_limit sent ((t, s) :: tl) ->
  (is_dec t = true -> ndec sent < max_decided (Z.of_nat (length (s_committee sh)))) /\
  decided_within_limit ((t, s) :: sent) tl.
Proof.
  clear Hfd Hrho1 Hrho6.
  intros sent t s tl H. unfold decided_within_limit in *. rewrite ndec_cons in H. rewrite ndec_cons. cbn [fst] in *.
  assert (0 <= ndec tl) by (unfold ndec; lia).
  destruct (is_dec t); split; try lia; intros E; try discriminate; lia.
Qed.

Lemma run_honest_accepts : forall l sent cs,
  inv sent cs -> NoDup (map snd l) -> (forall x, In x l -> ~ In (snd x) sent) ->
  Forall (fun x => honest_item (snd x) /\ timely (fst x)) l ->
  decided_within_limit sent (map snd l) ->
  Forall (eq Accept) (fst (run_honest cs l)).
Proof.
  induction l as [|[recv [t s]] tl IH]; intros sent cs I Hnd Hfresh Hall Hlim; [constructor|].
  inversion Hall as [|x l' [Hh [Ht1 Ht2]] Hall']; subst. cbn [fst snd map] in *.
  inversion Hnd as [|x l' Hni Hnd']; subst.
  destruct (ndec_step sent t s (map snd tl) Hlim) as [Hmax Hlim'].
  destruct (honest_message_accepted recv None sent cs t s Ht1 Ht2 eq_refl I Hh) as (cs' & Ev & I').
  { apply (Hfresh (recv, (t, s))). left. reflexivity. }
  { exact Hmax. }
  cbn [run_honest]. rewrite Ev.
  destruct (run_honest cs' tl) as [rs cs2] eqn:Er. cbn [fst]. constructor; [reflexivity|].
  change rs with (fst (rs, cs2)). rewrite <- Er. eapply IH; eauto.
  intros x Hx [E|E].
  - apply Hni. rewrite E. apply in_map. exact Hx.
  - eapply Hfresh; [right; exact Hx|exact E].
Qed.

Definition before_round (cs : cstate) : Prop :=
  forall s, match get_signer s cs with None => True | Some ss => earlier_round ss end.

Lemma before_round_inv : forall cs, before_round cs -> inv [] cs.
Proof.
  intros cs H s. specialize (H s). unfold sinv, untouched. destruct (get_signer s cs) as [ss|].
  - right. split; [exact H|]. split; [intros t _ []|reflexivity].
  - split; [intros t _ []|reflexivity].
Qed.

End HonestRound.
