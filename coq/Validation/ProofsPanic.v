(* C08: no input makes the validation model reach a Panic branch. *)
From Coq Require Import List NArith ZArith Bool Lia.
From SSV Require Import Gen.ValidationConsts Validation.Model.
Import ListNotations.
Local Open Scope Z_scope.

Definition no_panic (r : result) : Prop := match r with Panic _ => False | _ => True end.
(* a check that stops validation stops it with an ignore or a reject: never accept, never panic *)
Definition is_fail (r : result) : Prop := match r with Ignore _ | Reject _ => True | _ => False end.
Definition ck_no_panic (c : check) : Prop := match c with Some r => is_fail r | None => True end.

Lemma is_fail_no_panic : forall r, is_fail r -> no_panic r.
Proof. intros [] H; simpl in *; auto. Qed.
Lemma is_fail_not_accept : forall r, is_fail r -> r <> Accept.
Proof. intros [] H; simpl in *; try contradiction; discriminate. Qed.

(* shares come from the registry contract, which admits at most 13 operators per validator *)
Definition wf_share (sh : share) : Prop := (length (s_committee sh) <= 13)%nat.
Definition wf_cfg (c : cfg) : Prop :=
  (0 < c_slot_dur c)%N /\ (0 < c_spe c)%N /\ Forall wf_share (c_shares c).

Lemma get_share_wf : forall c vid sh, wf_cfg c -> get_share c vid = Some sh -> wf_share sh.
Proof.
  intros c vid sh (_ & _ & H) G. unfold get_share in G.
  destruct (N.eqb vid 0); [discriminate|].
  apply nth_error_In in G. rewrite Forall_forall in H. auto.
Qed.

Lemma fail_no_panic : forall e, no_panic (fail e).
Proof. intros e. unfold fail. destruct (err_reject e); exact I. Qed.

Lemma fail_is_fail : forall e, is_fail (fail e).
Proof. intros e. unfold fail. destruct (err_reject e); exact I. Qed.

Lemma some_fail_no_panic : forall e, ck_no_panic (Some (fail e)).
Proof. intros e. apply fail_is_fail. Qed.

Global Hint Resolve fail_no_panic fail_is_fail some_fail_no_panic : np.

Ltac np_bools :=
  repeat match goal with
         | |- context [if ?b then _ else _] => destruct b eqn:?
         end; simpl; auto with np; try exact I.

Lemma sig_format_np : forall l z, ck_no_panic (sig_format l z).
Proof. intros. unfold sig_format. np_bools. Qed.

Lemma common_signer_np : forall s sh, ck_no_panic (common_signer s sh).
Proof. intros. unfold common_signer. np_bools. Qed.

Lemma signers_loop_np : forall sh l prev, ck_no_panic (signers_loop sh prev l).
Proof.
  induction l as [|s tl IH]; intros prev; simpl; [exact I|].
  pose proof (common_signer_np s sh) as H. destruct (common_signer s sh); [exact H|].
  destruct (N.eqb s prev); auto with np.
Qed.

(* ---- the leader computation is defined whenever the guard holds ------------------------------ *)

Lemma to_i64_small : forall z, 0 <= z < two63 -> to_i64 z = z.
Proof.
  intros z H. unfold to_i64, two64, two63 in *.
  rewrite Z.mod_small by lia. destruct (z <? 9223372036854775808) eqn:E; [reflexivity|].
  apply Z.ltb_ge in E. lia.
Qed.

Lemma round_robin_defined : forall sh h r,
  wf_share sh -> rr_defined sh h r = true ->
  exists op, round_robin (s_committee sh) h r = LeaderIs op /\ In op (s_committee sh).
Proof.
  intros sh h r W H. unfold rr_defined in H. unfold wf_share in W.
  apply andb_prop in H. destruct H as [H H4].
  apply andb_prop in H. destruct H as [H H3].
  apply andb_prop in H. destruct H as [H1 H2].
  apply negb_true_iff in H1. apply Nat.eqb_neq in H1.
  apply N.leb_le in H2. apply Z.leb_le in H3. apply Z.leb_le in H4.
  change (Z.quot max_i64 2) with 4611686018427387903 in H3.
  unfold max_i64 in H4. unfold firstRound in H2.
  unfold round_robin.
  set (n := Z.of_nat (length (s_committee sh))).
  assert (Hn : 0 < n <= 13) by (unfold n; lia).
  destruct (n =? 0) eqn:E; [apply Z.eqb_eq in E; lia|].
  rewrite (to_i64_small (Z.of_N h)) by (unfold two63; lia).
  rewrite (to_i64_small (Z.of_N r)) by (unfold two63; lia).
  change (to_i64 (Z.of_N firstRound)) with 1.
  set (fri := if N.eqb h firstHeight then 0 else Z.rem (Z.of_N h) n).
  assert (Hf : 0 <= fri < n).
  { unfold fri. destruct (N.eqb h firstHeight); [lia|].
    pose proof (Z.rem_bound_pos (Z.of_N h) n ltac:(lia) ltac:(lia)). lia. }
  rewrite (to_i64_small (fri + Z.of_N r)) by (unfold two63; lia).
  rewrite (to_i64_small (fri + Z.of_N r - 1)) by (unfold two63; lia).
  pose proof (Z.rem_bound_pos (fri + Z.of_N r - 1) n ltac:(lia) ltac:(lia)) as Hi.
  destruct (Z.rem (fri + Z.of_N r - 1) n <? 0) eqn:E2; [apply Z.ltb_lt in E2; lia|].
  destruct (nth_error (s_committee sh) (Z.to_nat (Z.rem (fri + Z.of_N r - 1) n))) eqn:E3.
  - exists n0. split; [reflexivity|]. eapply nth_error_In; eauto.
  - apply nth_error_None in E3. assert (Hnn : n = Z.of_nat (length (s_committee sh))) by reflexivity. lia.
Qed.

Lemma valid_consensus_signers_np : forall sh m, wf_share sh -> ck_no_panic (valid_consensus_signers sh m).
Proof.
  intros sh m W. unfold valid_consensus_signers.
  assert (T : forall c : check, ck_no_panic c ->
            ck_no_panic (match c with Some r => Some r | None =>
              if negb (is_sorted (c_signers m)) then Some (fail ErrSignersNotSorted)
              else signers_loop sh 0%N (c_signers m) end)).
  { intros [r|] Hc; [exact Hc|]. destruct (negb _); auto with np. apply signers_loop_np. }
  apply T. clear T.
  destruct (c_signers m) as [|s [|s2 tl]]; auto with np.
  - destruct (N.eqb (c_type m) qbftProposalMsgType); [|exact I].
    destruct (negb (rr_defined sh (c_height m) (c_round m))) eqn:E; auto with np.
    apply negb_false_iff in E. destruct (round_robin_defined _ _ _ W E) as (op & -> & _).
    destruct (N.eqb s op); auto with np. exact I.
  - np_bools.
Qed.

(* ---- enum guards ----------------------------------------------------------------------------- *)

Lemma max_round_valid : forall role, valid_role role = true -> exists mr, max_round role = Some mr.
Proof.
  intros role H. unfold valid_role in H.
  repeat (apply orb_prop in H; destruct H as [H|H]);
    apply N.eqb_eq in H; subst role; vm_compute; eauto.
Qed.

Lemma ptype_matches_role_valid : forall t role, valid_role role = true -> ptype_matches_role t role <> None.
Proof.
  intros t role H. unfold valid_role in H.
  repeat (apply orb_prop in H; destruct H as [H|H]);
    apply N.eqb_eq in H; subst role; unfold ptype_matches_role; simpl; discriminate.
Qed.

Lemma counts_validate_np : forall cn m k, valid_qbft_type (c_type m) = true -> ck_no_panic (counts_validate cn m k).
Proof.
  intros cn m k H. unfold counts_validate. unfold valid_qbft_type in H.
  destruct (N.eqb (c_type m) qbftProposalMsgType); [np_bools|].
  destruct (N.eqb (c_type m) qbftPrepareMsgType); [np_bools|].
  destruct (N.eqb (c_type m) qbftCommitMsgType); [np_bools|].
  destruct (N.eqb (c_type m) qbftRoundChangeMsgType); [np_bools|].
  discriminate.
Qed.

Lemma counts_record_ok : forall cn m,
  valid_qbft_type (c_type m) = true -> c_signers m <> [] -> exists cn', counts_record cn m = inl cn'.
Proof.
  intros cn m H Hs. unfold counts_record. unfold valid_qbft_type in H.
  destruct (N.eqb (c_type m) qbftProposalMsgType); [eauto|].
  destruct (N.eqb (c_type m) qbftPrepareMsgType); [eauto|].
  destruct (N.eqb (c_type m) qbftCommitMsgType).
  - destruct (c_signers m) as [|a [|b tl]]; [congruence| |]; simpl; eauto.
  - destruct (N.eqb (c_type m) qbftRoundChangeMsgType); [eauto|discriminate].
Qed.

Lemma valid_ptype_cases : forall t, valid_ptype t = true -> is_pre_ptype t = true \/ N.eqb t ptPostConsensusPartialSig = true.
Proof.
  intros t H. unfold valid_ptype in H. unfold is_pre_ptype.
  repeat (apply orb_prop in H; destruct H as [H|H]); rewrite H;
    repeat rewrite orb_true_r; auto.
Qed.

Lemma pcounts_validate_np : forall cn t, valid_ptype t = true -> ck_no_panic (pcounts_validate cn t).
Proof.
  intros cn t H. unfold pcounts_validate.
  destruct (valid_ptype_cases t H) as [E|E].
  - rewrite E. np_bools.
  - destruct (is_pre_ptype t); [np_bools|]. rewrite E. np_bools.
Qed.

Lemma pcounts_record_ok : forall cn t, valid_ptype t = true -> exists cn', pcounts_record cn t = inl cn'.
Proof.
  intros cn t H. unfold pcounts_record.
  destruct (valid_ptype_cases t H) as [E|E].
  - rewrite E. eauto.
  - destruct (is_pre_ptype t); [eauto|]. rewrite E. eauto.
Qed.

(* ---- consensus path -------------------------------------------------------------------------- *)

Lemma validate_justifications_np : forall m, ck_no_panic (validate_justifications m).
Proof. intros. unfold validate_justifications. np_bools. Qed.

Lemma validate_duty_count_np : forall ss role b, ck_no_panic (validate_duty_count ss role b).
Proof. intros. unfold validate_duty_count. np_bools. Qed.

Lemma validate_beacon_duty_np : forall role sh d, ck_no_panic (validate_beacon_duty role sh d).
Proof. intros. unfold validate_beacon_duty. np_bools. Qed.

Lemma validate_slot_time_np : forall c slot role recv, ck_no_panic (validate_slot_time c slot role recv).
Proof. intros. unfold validate_slot_time, validate_slot_time_unguarded. np_bools. Qed.

Lemma signer_behavior_np : forall c sh role m cs s,
  valid_qbft_type (c_type m) = true -> ck_no_panic (signer_behavior c sh role m cs s).
Proof.
  intros c sh role m cs s H. unfold signer_behavior.
  destruct (get_signer s cs) as [ss|]; [|apply validate_justifications_np].
  destruct (_ <? _)%N; auto with np.
  destruct (_ && _); auto with np.
  pose proof (validate_duty_count_np ss role
    ((ss_slot ss <? c_height m)%N && N.eqb (epoch_at c (c_height m)) (epoch_at c (ss_slot ss)))) as H1.
  destruct (validate_duty_count _ _ _); [exact H1|].
  destruct (N.eqb (c_height m) (ss_slot ss) && N.eqb (c_round m) (ss_round ss)).
  - destruct (has_full_data m && _); auto with np.
    pose proof (counts_validate_np (ss_counts ss) m (length (s_committee sh)) H) as H2.
    destruct (counts_validate _ _ _); [exact H2|]. apply validate_justifications_np.
  - apply validate_justifications_np.
Qed.

Lemma signers_behavior_np : forall c sh role m cs l,
  valid_qbft_type (c_type m) = true -> ck_no_panic (signers_behavior c sh role m cs l).
Proof.
  intros c sh role m cs l H. induction l as [|s tl IH]; simpl; [exact I|].
  pose proof (signer_behavior_np c sh role m cs s H) as H1.
  destruct (signer_behavior _ _ _ _ _ _); [exact H1|exact IH].
Qed.

Lemma next_sstate_ok : forall c m o,
  valid_qbft_type (c_type m) = true -> c_signers m <> [] -> exists ss', next_sstate c m o = inl ss'.
Proof.
  intros c m o H Hs. unfold next_sstate.
  match goal with |- context [counts_record ?x m] => destruct (counts_record_ok x m H Hs) as (cn & ->) end.
  eauto.
Qed.

Lemma update_signer_ok : forall c m cs s,
  valid_qbft_type (c_type m) = true -> c_signers m <> [] -> exists cs', update_signer c m cs s = inl cs'.
Proof.
  intros c m cs s H Hs. unfold update_signer.
  destruct (next_sstate_ok c m (get_signer s cs) H Hs) as (ss' & ->). eauto.
Qed.

Lemma update_signers_ok : forall c m l cs,
  valid_qbft_type (c_type m) = true -> c_signers m <> [] -> exists cs', update_signers c m cs l = inl cs'.
Proof.
  intros c m l. induction l as [|s tl IH]; intros cs H Hs; simpl; [eauto|].
  destruct (update_signer_ok c m cs s H Hs) as (cs1 & ->). apply IH; assumption.
Qed.

Lemma valid_consensus_signers_nonempty : forall sh m, valid_consensus_signers sh m = None -> c_signers m <> [].
Proof.
  intros sh m H E. unfold valid_consensus_signers in H. rewrite E in H. discriminate.
Qed.

Definition verifier_np (v : option check) : Prop := match v with Some c => ck_no_panic c | None => True end.

Lemma validate_consensus_np : forall c sh role m recv v cs,
  wf_share sh -> valid_role role = true -> verifier_np v ->
  no_panic (fst (validate_consensus c sh role m recv v cs)).
Proof.
  intros c sh role m recv v cs W Hr Hv. unfold validate_consensus.
  destruct (_ || _); simpl; auto with np.
  pose proof (sig_format_np (c_sig_len m) (c_sig_zero m)) as H1.
  destruct (sig_format _ _); [apply is_fail_no_panic; exact H1|].
  destruct (negb (valid_qbft_type (c_type m))) eqn:Ht; simpl; auto with np.
  apply negb_false_iff in Ht.
  pose proof (valid_consensus_signers_np sh m W) as H2.
  destruct (valid_consensus_signers sh m) eqn:Es; [apply is_fail_no_panic; exact H2|].
  pose proof (validate_slot_time_np c (c_height m) role recv) as H3.
  destruct (validate_slot_time _ _ _ _); [apply is_fail_no_panic; exact H3|].
  destruct (max_round_valid role Hr) as (mr & ->).
  destruct (_ <? _)%N; simpl; auto with np.
  destruct (_ || _); simpl; auto with np.
  destruct (_ && _); simpl; auto with np.
  pose proof (validate_beacon_duty_np role sh (c_duty_ok m)) as H4.
  destruct (validate_beacon_duty _ _ _); [apply is_fail_no_panic; exact H4|].
  pose proof (signers_behavior_np c sh role m cs (c_signers m) Ht) as H5.
  destruct (signers_behavior _ _ _ _ _ _); [apply is_fail_no_panic; exact H5|].
  unfold run_verifier. destruct v as [[r|]|]; simpl in *; try (apply is_fail_no_panic; exact Hv);
    destruct (update_signers_ok c m (c_signers m) cs Ht (valid_consensus_signers_nonempty _ _ Es)) as (cs' & ->);
    exact I.
Qed.

(* ---- partial signature path ------------------------------------------------------------------ *)

Lemma partial_msgs_loop_np : forall sh signer l seen, ck_no_panic (partial_msgs_loop sh signer seen l).
Proof.
  induction l as [|pm tl IH]; intros seen; simpl; [exact I|].
  destruct (existsb _ _); auto with np.
  destruct (negb _); auto with np.
  pose proof (common_signer_np (ps_signer pm) sh) as H1. destruct (common_signer _ _); [exact H1|].
  pose proof (sig_format_np (ps_sig_len pm) (ps_sig_zero pm)) as H2. destruct (sig_format _ _); [exact H2|].
  apply IH.
Qed.

Lemma validate_partial_messages_np : forall sh m, ck_no_panic (validate_partial_messages sh m).
Proof.
  intros. unfold validate_partial_messages.
  pose proof (common_signer_np (p_signer m) sh) as H1. destruct (common_signer _ _); [exact H1|].
  destruct (Nat.eqb _ _); auto with np. apply partial_msgs_loop_np.
Qed.

Lemma signer_behavior_partial_np : forall c role m ss,
  valid_ptype (p_type m) = true -> ck_no_panic (signer_behavior_partial c role m ss).
Proof.
  intros c role m ss H. unfold signer_behavior_partial.
  destruct (_ <? _)%N; auto with np.
  match goal with |- context [validate_duty_count ?a ?b ?d] =>
    pose proof (validate_duty_count_np a b d) as H1; destruct (validate_duty_count a b d); [exact H1|] end.
  destruct (_ <=? _)%N; [|exact I]. apply pcounts_validate_np; assumption.
Qed.

Lemma validate_partial_np : forall c sh role m v cs,
  valid_role role = true -> verifier_np v -> no_panic (fst (validate_partial c sh role m v cs)).
Proof.
  intros c sh role m v cs Hr Hv. unfold validate_partial.
  destruct (negb (valid_ptype (p_type m))) eqn:Ht; simpl; auto with np.
  apply negb_false_iff in Ht.
  pose proof (ptype_matches_role_valid (p_type m) role Hr) as Hm.
  destruct (ptype_matches_role (p_type m) role) as [[|]|]; [|simpl; auto with np|congruence].
  pose proof (validate_partial_messages_np sh m) as H1.
  destruct (validate_partial_messages sh m); [apply is_fail_no_panic; exact H1|].
  assert (H2 : ck_no_panic (match get_signer (p_signer m) cs with
                            | Some ss => signer_behavior_partial c role m ss | None => None end)).
  { destruct (get_signer _ _); [apply signer_behavior_partial_np; assumption|exact I]. }
  destruct (match get_signer (p_signer m) cs with
            | Some ss => signer_behavior_partial c role m ss | None => None end); [apply is_fail_no_panic; exact H2|].
  pose proof (sig_format_np (p_sig_len m) (p_sig_zero m)) as H3.
  destruct (sig_format _ _); [apply is_fail_no_panic; exact H3|].
  unfold run_verifier. destruct v as [[r|]|]; simpl in *; try (apply is_fail_no_panic; exact Hv);
    (unfold next_sstate_partial;
     match goal with |- context [pcounts_record ?x ?t] => destruct (pcounts_record_ok x t Ht) as (cn & ->) end);
    exact I.
Qed.

(* ---- top level ------------------------------------------------------------------------------- *)

Lemma decode_ssv_kind : forall ty b b',
  decode_ssv ty b = DBody b' ->
  b' = b /\
  (N.eqb ty ssvConsensusMsgType = true -> exists m, b = BConsensus m) /\
  (N.eqb ty ssvConsensusMsgType = false -> N.eqb ty ssvPartialSignatureMsgType = true -> exists m, b = BPartial m).
Proof.
  intros ty b b' H. unfold decode_ssv in H.
  destruct (N.eqb ty ssvConsensusMsgType) eqn:E1.
  { destruct b; inversion H; subst. split; [reflexivity|]. split; [eauto|discriminate]. }
  destruct (N.eqb ty ssvPartialSignatureMsgType) eqn:E2.
  { destruct b; inversion H; subst. split; [reflexivity|]. split; [discriminate|eauto]. }
  destruct (N.eqb ty ssvEventMsgType); [|discriminate].
  destruct b; inversion H; subst. split; [reflexivity|]. split; discriminate.
Qed.

Lemma validate_ssv_np : forall c vs recv env v,
  wf_cfg c -> verifier_np v -> no_panic (fst (validate_ssv c vs recv env v)).
Proof.
  intros c vs recv env v W Hv. unfold validate_ssv.
  destruct (N.eqb (e_data_len env) 0); simpl; auto with np.
  destruct (_ <? _)%N; simpl; auto with np.
  destruct (negb (N.eqb _ _)); simpl; auto with np.
  destruct (negb (valid_role (e_role env))) eqn:Hr; simpl; auto with np.
  apply negb_false_iff in Hr.
  destruct (negb (e_pk_deser_ok env)); simpl; auto with np.
  destruct (get_share c (e_vid env)) as [sh|] eqn:Hs; simpl; auto with np.
  pose proof (get_share_wf _ _ _ W Hs) as Wsh.
  destruct (s_liquidated sh); simpl; auto with np.
  destruct (negb (s_has_meta sh)); simpl; auto with np.
  destruct (negb (s_attesting sh)); simpl; auto with np.
  destruct (decode_ssv (e_msg_type env) (e_body env)) as [| |b] eqn:Hd; simpl; auto with np.
  destruct (decode_ssv_kind _ _ _ Hd) as (-> & Hc & Hp).
  destruct (N.eqb (e_msg_type env) ssvConsensusMsgType) eqn:E1.
  { try (destruct (_ <? _)%N; simpl; [solve [auto with np]|]).
    destruct (Hc eq_refl) as (m & ->).
    pose proof (validate_consensus_np c sh (e_role env) m recv v
                  (get_cs (e_vid env, e_role env) vs) Wsh Hr Hv) as H.
    destruct (validate_consensus _ _ _ _ _ _ _) as [r cs']. simpl in H.
    destruct r; simpl in *; auto; contradiction. }
  destruct (N.eqb (e_msg_type env) ssvPartialSignatureMsgType) eqn:E2.
  { try (destruct (_ <? _)%N; simpl; [solve [auto with np]|]).
    destruct (Hp eq_refl eq_refl) as (m & ->).
    pose proof (validate_partial_np c sh (e_role env) m v
                  (get_cs (e_vid env, e_role env) vs) Hr Hv) as H.
    destruct (validate_partial _ _ _ _ _ _) as [r cs']. simpl in H.
    destruct r; simpl in *; auto; contradiction. }
  destruct (N.eqb _ ssvEventMsgType); simpl; auto with np.
  destruct (N.eqb _ dkgMsgType); simpl; auto with np.
Qed.

Lemma verify_signature_np : forall env, ck_no_panic (verify_signature env).
Proof. intros. unfold verify_signature. np_bools. Qed.

Lemma validate_np : forall c vs now env, wf_cfg c -> no_panic (fst (validate c vs now env)).
Proof.
  intros c vs now env W. unfold validate.
  destruct (e_p2p env).
  - unfold validate_p2p.
    destruct (_ && _); simpl; auto with np.
    destruct (N.eqb _ 0); simpl; auto with np.
    destruct (_ <? _)%N; simpl; auto with np.
    destruct (negb (e_ssv_decode_ok env)); simpl; auto with np.
    destruct (negb (topic_matches env)); simpl; auto with np.
    apply validate_ssv_np; [assumption|].
    destruct (signed_active _ _); simpl; [apply verify_signature_np|exact I].
  - apply validate_ssv_np; [assumption|exact I].
Qed.

(* ---- hand-written decoders are total --------------------------------------------------------- *)

Lemma skipn_add : forall (A : Type) (a b : nat) (l : list A), skipn a (skipn b l) = skipn (b + a) l.
Proof.
  intros A a b. induction b as [|b IH]; intros l; simpl; [reflexivity|].
  destruct l; [destruct a; reflexivity|apply IH].
Qed.

Lemma decode_signed_ssv_total : forall b,
  (length b < N.to_nat messageOffset)%nat /\ decode_signed_ssv b = None \/
  exists m o s, decode_signed_ssv b = Some (m, o, s) /\
    length s = N.to_nat rsaSignatureSize /\ length o = N.to_nat operatorIDSize /\
    b = s ++ o ++ m.
Proof.
  intros b. unfold decode_signed_ssv.
  destruct (Nat.ltb (length b) (N.to_nat messageOffset)) eqn:E.
  - left. apply Nat.ltb_lt in E. auto.
  - right. apply Nat.ltb_ge in E. do 3 eexists. split; [reflexivity|].
    change (N.to_nat messageOffset) with 264%nat in *.
    change (N.to_nat rsaSignatureSize) with 256%nat.
    change (N.to_nat operatorIDSize) with 8%nat.
    rewrite firstn_length, firstn_length, skipn_length.
    split; [lia|]. split; [lia|].
    rewrite <- (firstn_skipn 256 b) at 1. f_equal.
    rewrite <- (firstn_skipn 8 (skipn 256 b)) at 1. f_equal.
    rewrite skipn_add. reflexivity.
Qed.

(* FromString returns a value or an error for every string: it is a total function here by
   construction; what is worth stating is the length of the result. *)
Lemma char_mask_length : forall ch m, char_mask ch = Some m -> length m = 4%nat.
Proof. intros ch m H. unfold char_mask in H. destruct (hex_val ch); inversion H. reflexivity. Qed.

Lemma subnets_from_chars_length : forall n l r,
  (length l <= n)%nat -> subnets_from_chars l = Some r -> length r = (8 * (length l / 2))%nat.
Proof.
  induction n as [|n IH]; intros l r Hl H.
  - destruct l; [|simpl in Hl; lia]. inversion H. reflexivity.
  - destruct l as [|a [|b tl]]; try (inversion H; reflexivity).
    simpl in H.
    destruct (char_mask a) eqn:Ea; [|discriminate].
    destruct (char_mask b) eqn:Eb; [|discriminate].
    destruct (subnets_from_chars tl) eqn:Et; [|discriminate].
    inversion H; subst. rewrite !app_length.
    rewrite (char_mask_length _ _ Ea), (char_mask_length _ _ Eb).
    rewrite (IH tl l1) by (simpl in Hl; try lia; auto).
    change (length (a :: b :: tl)) with (S (S (length tl))).
    assert (E2 : (S (S (length tl)) / 2 = S (length tl / 2))%nat).
    { replace (S (S (length tl))) with (1 * 2 + length tl)%nat by lia.
      rewrite Nat.div_add_l by lia. reflexivity. }
    rewrite E2. simpl. lia.
Qed.

(* SharedSubnets with the length guard never indexes out of range, for lists of any lengths *)
Lemma shared_loop_guarded_total : forall a b i ml acc, shared_loop true a b i ml acc <> None.
Proof.
  induction a as [|av atl IH]; intros b i ml acc; simpl; [discriminate|].
  destruct (N.eqb av 0); [apply IH|].
  destruct b as [|bv btl]; [discriminate|].
  destruct (N.eqb bv 0); [apply IH|].
  destruct (Nat.eqb _ _); [discriminate|apply IH].
Qed.

Lemma shared_subnets_total : forall a b ml, shared_subnets true a b ml <> None.
Proof.
  intros. unfold shared_subnets. destruct (_ || _); [discriminate|]. apply shared_loop_guarded_total.
Qed.

(* the function before the repair (F9): a shorter second argument is indexed out of range *)
Lemma shared_subnets_unguarded_refuted :
  shared_subnets false [0; 0; 0; 0; 0; 0; 0; 0; 0; 1]%N [0; 0; 0; 0; 0; 0; 0; 0]%N 1 = None.
Proof. vm_compute. reflexivity. Qed.

Lemma signed_node_info_post_json_total : forall k a b c d e, signed_node_info_post_json k a b c d e <> None.
Proof.
  intros. unfold signed_node_info_post_json.
  destruct (Nat.ltb k 6) eqn:E; [discriminate|].
  apply Nat.ltb_ge in E. destruct (Nat.ltb 5 k) eqn:E2; [discriminate|].
  apply Nat.ltb_ge in E2. lia.
Qed.

(* ---- histories ------------------------------------------------------------------------------- *)

Lemma run_np : forall c h vs, wf_cfg c -> Forall no_panic (snd (run c vs h)).
Proof.
  intros c h. induction h as [|[now env] tl IH]; intros vs W; simpl; [constructor|].
  pose proof (validate_np c vs now env W) as H.
  destruct (validate c vs now env) as [r vs1]. simpl in H.
  specialize (IH vs1 W). destruct (run c vs1 tl) as [vs2 rs]. simpl in *.
  constructor; assumption.
Qed.

(* the node-record entry decoder with the length test never panics, whatever a peer puts in its record *)
Lemma decode_domain_type_total : forall bs, decode_domain_type true bs <> None.
Proof. intros bs. unfold decode_domain_type. destruct (Nat.ltb (length bs) 4); discriminate. Qed.

Lemma decode_domain_type_spec : forall bs,
  (length bs < 4)%nat /\ decode_domain_type true bs = Some None \/
  (4 <= length bs)%nat /\ decode_domain_type true bs = Some (Some (firstn 4 bs)).
Proof.
  intros bs. unfold decode_domain_type. destruct (Nat.ltb (length bs) 4) eqn:E.
  - left. apply Nat.ltb_lt in E. auto.
  - right. apply Nat.ltb_ge in E. auto.
Qed.

Lemma decode_domain_type_unchecked_refuted : decode_domain_type false [1; 2]%N = None.
Proof. reflexivity. Qed.
