(* Executable model of message/validation (validation.go, consensus_validation.go,
   partial_validation.go, signer_state.go, message_counts.go, rsa.go) and of the hand-written
   decoders of network/commons/common.go and network/records/subnets.go.
   Definitions only; proofs are in Validation/Proofs*.v.
   Constants, per-role tables and the error table come from Gen/ValidationConsts.v, which is
   regenerated from the repository on every run. *)
From Coq Require Import List NArith ZArith Bool.
From SSV Require Import Gen.ValidationConsts.
Import ListNotations.
Local Open Scope Z_scope.

(* ---- machine integers ------------------------------------------------------------------------ *)

Definition two64 : Z := 18446744073709551616.
Definition two63 : Z := 9223372036854775808.
Definition max_i64 : Z := 9223372036854775807.

(* value of a uint64 expression whose mathematical value is z *)
Definition wrap_u64 (z : Z) : Z := z mod two64.
(* value of an int64 expression whose mathematical value is z; also uint64 -> int64 conversion *)
Definition to_i64 (z : Z) : Z := let w := z mod two64 in if w <? two63 then w else w - two64.
(* uint64 addition on N *)
Definition addw (a b : N) : N := Z.to_N (wrap_u64 (Z.of_N a + Z.of_N b)).

(* ---- Go's time.Time (wall clock only) and time.Duration -------------------------------------- *)

(* t_sec: seconds since year 1 (the int64 `ext` field), t_nsec in [0, 1e9) *)
Record gotime := { t_sec : Z; t_nsec : Z }.

Definition unixToInternal : Z := 62135596800.
Definition nano : Z := 1000000000.
Definition max_dur : Z := max_i64.
Definition min_dur : Z := - two63.

(* time.Unix(sec, nsec) for 0 <= nsec < 1e9 *)
Definition time_unix (sec nsec : Z) : gotime :=
  {| t_sec := to_i64 (sec + unixToInternal); t_nsec := nsec |}.
(* t.Unix() *)
Definition time_to_unix (t : gotime) : Z := to_i64 (t_sec t - unixToInternal).

(* Time.addSec: saturating *)
Definition add_sec (ext d : Z) : Z :=
  let sum := to_i64 (ext + d) in
  if Bool.eqb (sum >? ext) (d >? 0) then sum
  else if d >? 0 then max_i64 else - max_i64.

(* t.Add(d) *)
Definition time_add (t : gotime) (d : Z) : gotime :=
  let dsec := Z.quot d nano in
  let nsec := t_nsec t + Z.rem d nano in
  if nsec >=? nano then {| t_sec := add_sec (t_sec t) (dsec + 1); t_nsec := nsec - nano |}
  else if nsec <? 0 then {| t_sec := add_sec (t_sec t) (dsec - 1); t_nsec := nsec + nano |}
  else {| t_sec := add_sec (t_sec t) dsec; t_nsec := nsec |}.

Definition time_before (t u : gotime) : bool :=
  (t_sec t <? t_sec u) || ((t_sec t =? t_sec u) && (t_nsec t <? t_nsec u)).
Definition time_after (t u : gotime) : bool := time_before u t.
Definition time_equal (t u : gotime) : bool := (t_sec t =? t_sec u) && (t_nsec t =? t_nsec u).

(* t.Sub(u): wrapped difference, replaced by the saturated value when it is not exact *)
Definition time_sub (t u : gotime) : Z :=
  let d := to_i64 ((t_sec t - t_sec u) * nano + (t_nsec t - t_nsec u)) in
  if time_equal (time_add u d) t then d
  else if time_before t u then min_dur else max_dur.

(* ---- configuration: network + registry as seen by the validator ------------------------------ *)

Record share := {
  s_liquidated : bool;
  s_has_meta : bool;          (* BeaconMetadata != nil *)
  s_attesting : bool;         (* share.IsAttesting(current epoch), given metadata *)
  s_quorum : N;               (* Share.Quorum *)
  s_committee : list N        (* operator ids in committee order *)
}.

Record cfg := {
  c_genesis : N;              (* MinGenesisTime, unix seconds *)
  c_slot_dur : N;             (* uint64(SlotDurationSec().Seconds()) *)
  c_spe : N;                  (* SlotsPerEpoch *)
  c_perm_epoch : N;           (* PermissionlessActivationEpoch *)
  c_domain : N;               (* netCfg.Domain as a big-endian number *)
  c_shares : list share       (* validator i (1-based) = nth (i-1) *)
}.

Definition get_share (c : cfg) (vid : N) : option share :=
  if N.eqb vid 0 then None else nth_error (c_shares c) (N.to_nat (vid - 1)).

(* beacon network functions (protocol/v2/blockchain/beacon/network.go, ssv-spec beacon_types.go) *)
Definition est_slot_at (c : cfg) (unix : Z) : N :=
  let g := Z.of_N (c_genesis c) in
  if unix <? g then 0%N
  else Z.to_N (wrap_u64 (to_i64 (unix - g)) / Z.of_N (c_slot_dur c)).

Definition epoch_at (c : cfg) (slot : N) : N := (slot / c_spe c)%N.

(* GetSlotStartTime: uint64 multiplication and addition wrap, then int64 reinterpretation *)
Definition slot_start (c : cfg) (slot : N) : gotime :=
  time_unix (to_i64 (wrap_u64 (Z.of_N (c_genesis c)
                               + wrap_u64 (Z.of_N slot * Z.of_N (c_slot_dur c))))) 0.
Definition slot_end (c : cfg) (slot : N) : gotime := slot_start c (addw slot 1).

(* ---- messages -------------------------------------------------------------------------------- *)

(* specqbft.SignedMessage as far as validation looks at it.  Oracle fields (computed by the real
   code in the driver): c_root_ok = (HashDataRoot(FullData) == Message.Root); c_pj_ok / c_rcj_ok =
   the justifications unmarshal; c_just_ok = instance.IsProposalJustification(...) == nil;
   c_duty_ok = the duty store has the duty validateBeaconDuty looks for (or there is no store);
   c_fd_id = an injective name of the FullData bytes. *)
Record cmsg := {
  c_sig_len : N; c_sig_zero : bool;
  c_type : N; c_height : N; c_round : N;
  c_signers : list N;
  c_fd_len : N; c_fd_id : N; c_root_ok : bool;
  c_pj_ok : bool; c_pj_len : N; c_rcj_ok : bool; c_rcj_len : N; c_just_ok : bool;
  c_duty_ok : bool
}.

Record psig := { ps_signer : N; ps_root : N; ps_sig_len : N; ps_sig_zero : bool }.
Record pmsg := {
  p_type : N; p_slot : N; p_signer : N; p_sig_len : N; p_sig_zero : bool;
  p_msgs : list psig
}.

Inductive body :=
| BUndecodable                 (* the SSZ / JSON decoder returned an error *)
| BConsensus (m : cmsg)
| BPartial (m : pmsg)
| BEvent.

(* One input of validateP2PMessage (e_p2p = true) or validateSSVMessage (e_p2p = false). *)
Record envelope := {
  e_p2p : bool;
  e_raw_len : N;               (* len(pMsg.Data) *)
  e_topic : option N;          (* Some k: the topic's base name is the decimal numeral k *)
  e_op_found : bool;           (* oracle: operator of the envelope is registered *)
  e_op_key_ok : bool;          (* oracle: its stored public key parses *)
  e_rsa_ok : bool;             (* oracle: RSA signature verifies over exactly the payload *)
  e_ssv_decode_ok : bool;      (* oracle: DecodeNetworkMsg succeeded *)
  e_data_len : N;              (* len(SSVMessage.Data) *)
  e_domain : N;
  e_pk_prefix : N;             (* first five bytes of the validator key, big endian *)
  e_role : N;
  e_pk_deser_ok : bool;        (* oracle: DeserializeBLSPublicKey *)
  e_vid : N;                   (* 0: no share stored for the key; i: share i *)
  e_msg_type : N;
  e_body : body
}.

(* ---- results --------------------------------------------------------------------------------- *)

Inductive panic_site :=
| PanicMaxRound                (* maxRound: default: panic("unknown role") *)
| PanicPartialTypeRole         (* partialSignatureTypeMatchesRole: default: panic("invalid role") *)
| PanicCountsValidate          (* MessageCounts.ValidateConsensusMessage default *)
| PanicCountsRecord            (* MessageCounts.RecordConsensusMessage default *)
| PanicRecordNoSigners         (* RecordConsensusMessage: commit with no signers *)
| PanicPartialCountsValidate   (* ValidatePartialSignatureMessage default *)
| PanicPartialCountsRecord     (* RecordPartialSignatureMessage default *)
| PanicLeaderDivZero           (* RoundRobinProposer: % len(Committee) with an empty committee *)
| PanicLeaderIndex             (* RoundRobinProposer: Committee[index] out of range *)
| PanicSigArray                (* [96]byte(signature) with len != 96 *)
| PanicNilMetadata             (* share.BeaconMetadata dereferenced while nil *)
| PanicBodyType.               (* msg.Body.(T) type assertion *)

Inductive result :=
| Accept
| Ignore (e : verr)
| Reject (e : verr)
| Panic (p : panic_site).

(* the class of an error is read from the generated table *)
Definition fail (e : verr) : result := if err_reject e then Reject e else Ignore e.

(* a check: None = passed, Some r = validation ends with r *)
Definition check := option result.
Definition ck_fail (b : bool) (e : verr) : check := if b then Some (fail e) else None.

Notation "'chk' a ; b" := (match a with Some res_ => res_ | None => b end)
  (at level 200, a at level 100, b at level 200, only parsing).
Notation "'chk?' a ; b" := (match a with Some res_ => Some res_ | None => b end)
  (at level 200, a at level 100, b at level 200, only parsing).

(* ---- per-signer state ------------------------------------------------------------------------ *)

Record counts := {
  n_pre : Z; n_proposal : Z; n_prepare : Z; n_commit : Z; n_decided : Z; n_rc : Z; n_post : Z
}.
Definition zero_counts : counts :=
  {| n_pre := 0; n_proposal := 0; n_prepare := 0; n_commit := 0; n_decided := 0; n_rc := 0; n_post := 0 |}.

Record sstate := {
  ss_slot : N; ss_round : N; ss_counts : counts;
  ss_pdata : option N;         (* ProposalData: name of the stored full data *)
  ss_duties : Z                (* EpochDuties *)
}.
Definition new_sstate : sstate :=
  {| ss_slot := 0; ss_round := 0; ss_counts := zero_counts; ss_pdata := None; ss_duties := 0 |}.

(* ConsensusState.Signers, keyed by operator id *)
Definition cstate := list (N * sstate).
(* messageValidator.index, keyed by (validator, role) *)
Definition vstate := list ((N * N) * cstate).

Fixpoint get_signer (s : N) (cs : cstate) : option sstate :=
  match cs with
  | [] => None
  | (k, v) :: tl => if N.eqb k s then Some v else get_signer s tl
  end.
Fixpoint set_signer (s : N) (v : sstate) (cs : cstate) : cstate :=
  match cs with
  | [] => [(s, v)]
  | (k, v0) :: tl => if N.eqb k s then (k, v) :: tl else (k, v0) :: set_signer s v tl
  end.

Definition key_eqb (a b : N * N) : bool := N.eqb (fst a) (fst b) && N.eqb (snd a) (snd b).
Fixpoint get_cs (k : N * N) (vs : vstate) : cstate :=
  match vs with
  | [] => []
  | (k0, v) :: tl => if key_eqb k0 k then v else get_cs k tl
  end.
Fixpoint set_cs (k : N * N) (v : cstate) (vs : vstate) : vstate :=
  match vs with
  | [] => [(k, v)]
  | (k0, v0) :: tl => if key_eqb k0 k then (k0, v) :: tl else (k0, v0) :: set_cs k v tl
  end.

(* SignerState.ResetSlot / ResetRound *)
Definition reset_slot (ss : sstate) (slot round : N) (new_epoch : bool) : sstate :=
  {| ss_slot := slot; ss_round := round; ss_counts := zero_counts; ss_pdata := None;
     ss_duties := if new_epoch then 1 else ss_duties ss + 1 |}.
Definition reset_round (ss : sstate) (round : N) : sstate :=
  {| ss_slot := ss_slot ss; ss_round := round; ss_counts := zero_counts; ss_pdata := None;
     ss_duties := ss_duties ss |}.

(* maxMessageCounts / maxDecidedCount *)
Definition max_decided (n : Z) : Z := n * (Z.quot (n - 1) 3 + 1).

(* ---- enums ----------------------------------------------------------------------------------- *)

Definition valid_role (r : N) : bool :=
  N.eqb r roleAttester || N.eqb r roleAggregator || N.eqb r roleProposer ||
  N.eqb r roleSyncCommittee || N.eqb r roleSyncCommitteeContribution ||
  N.eqb r roleValidatorRegistration || N.eqb r roleVoluntaryExit.

Definition valid_qbft_type (t : N) : bool :=
  N.eqb t qbftProposalMsgType || N.eqb t qbftPrepareMsgType ||
  N.eqb t qbftCommitMsgType || N.eqb t qbftRoundChangeMsgType.

Definition valid_ptype (t : N) : bool :=
  N.eqb t ptPostConsensusPartialSig || N.eqb t ptRandaoPartialSig ||
  N.eqb t ptSelectionProofPartialSig || N.eqb t ptContributionProofs ||
  N.eqb t ptValidatorRegistrationPartialSig || N.eqb t ptVoluntaryExitPartialSig.

Fixpoint assoc {A : Type} (k : N) (l : list (N * A)) : option A :=
  match l with
  | [] => None
  | (k0, v) :: tl => if N.eqb k0 k then Some v else assoc k tl
  end.

(* maxRound: None = the default arm, which panics *)
Definition max_round (role : N) : option N := assoc role max_round_table.

(* partialSignatureTypeMatchesRole: None = panic("invalid role") *)
Definition ptype_matches_role (t role : N) : option bool :=
  if N.eqb role roleAttester then Some (N.eqb t ptPostConsensusPartialSig)
  else if N.eqb role roleAggregator then
    Some (N.eqb t ptPostConsensusPartialSig || N.eqb t ptSelectionProofPartialSig)
  else if N.eqb role roleProposer then
    Some (N.eqb t ptPostConsensusPartialSig || N.eqb t ptRandaoPartialSig)
  else if N.eqb role roleSyncCommittee then Some (N.eqb t ptPostConsensusPartialSig)
  else if N.eqb role roleSyncCommitteeContribution then
    Some (N.eqb t ptPostConsensusPartialSig || N.eqb t ptContributionProofs)
  else if N.eqb role roleValidatorRegistration then Some (N.eqb t ptValidatorRegistrationPartialSig)
  else if N.eqb role roleVoluntaryExit then Some (N.eqb t ptVoluntaryExitPartialSig)
  else None.

(* ---- signature format, signers --------------------------------------------------------------- *)

(* validateSignatureFormat; the array conversion is only evaluated when the length matches *)
Definition sig_format (len : N) (zero : bool) : check :=
  if negb (N.eqb len signatureSize) then Some (fail ErrWrongSignatureSize)
  else if zero then Some (fail ErrZeroSignature) else None.

Definition in_committee (s : N) (sh : share) : bool := existsb (N.eqb s) (s_committee sh).

(* commonSignerValidation *)
Definition common_signer (s : N) (sh : share) : check :=
  if N.eqb s 0 then Some (fail ErrZeroSigner)
  else if negb (in_committee s sh) then Some (fail ErrSignerNotInCommittee) else None.

Definition has_quorum (sh : share) (cnt : nat) : bool := (s_quorum sh <=? N.of_nat cnt)%N.

(* slices.IsSorted: non-decreasing *)
Fixpoint is_sorted (l : list N) : bool :=
  match l with
  | a :: ((b :: _) as tl) => (a <=? b)%N && is_sorted tl
  | _ => true
  end.

(* roundRobinProposerDefined (the guard added by the F1 repair) *)
Definition rr_defined (sh : share) (height round : N) : bool :=
  negb (Nat.eqb (length (s_committee sh)) 0) && (firstRound <=? round)%N &&
  (Z.of_N round <=? Z.quot max_i64 2) && (Z.of_N height <=? max_i64).

(* specqbft.RoundRobinProposer: int conversions reinterpret, % truncates towards zero *)
Inductive leader_result := LeaderIs (op : N) | LeaderPanic (p : panic_site).
Definition round_robin (committee : list N) (height round : N) : leader_result :=
  let n := Z.of_nat (length committee) in
  if n =? 0 then LeaderPanic PanicLeaderDivZero else
  let fri := if N.eqb height firstHeight then 0 else Z.rem (to_i64 (Z.of_N height)) n in
  let idx := Z.rem (to_i64 (to_i64 (fri + to_i64 (Z.of_N round)) - to_i64 (Z.of_N firstRound))) n in
  if idx <? 0 then LeaderPanic PanicLeaderIndex
  else match nth_error committee (Z.to_nat idx) with
       | Some op => LeaderIs op
       | None => LeaderPanic PanicLeaderIndex
       end.

Fixpoint signers_loop (sh : share) (prev : N) (l : list N) : check :=
  match l with
  | [] => None
  | s :: tl =>
      chk? common_signer s sh;
      if N.eqb s prev then Some (fail ErrDuplicatedSigner) else signers_loop sh s tl
  end.

(* validConsensusSigners *)
Definition valid_consensus_signers (sh : share) (m : cmsg) : check :=
  chk? (match c_signers m with
        | [] => Some (fail ErrNoSigners)
        | [s] =>
            if N.eqb (c_type m) qbftProposalMsgType then
              if negb (rr_defined sh (c_height m) (c_round m)) then Some (fail ErrSignerNotLeader)
              else match round_robin (s_committee sh) (c_height m) (c_round m) with
                   | LeaderPanic p => Some (Panic p)
                   | LeaderIs l => if N.eqb s l then None else Some (fail ErrSignerNotLeader)
                   end
            else None
        | _ =>
            if negb (N.eqb (c_type m) qbftCommitMsgType) then Some (fail ErrNonDecidedWithMultipleSigners)
            else if negb (has_quorum sh (length (c_signers m)))
                    || Nat.ltb (length (s_committee sh)) (length (c_signers m))
                 then Some (fail ErrWrongSignersLength) else None
        end);
  if negb (is_sorted (c_signers m)) then Some (fail ErrSignersNotSorted)
  else signers_loop sh 0%N (c_signers m).

(* ---- slot and round windows ------------------------------------------------------------------ *)

(* lateMessage's switch: None = the roles that are never late *)
Definition ttl_of (role : N) : option N :=
  match assoc role ttl_table with
  | Some (Some t) => Some t
  | Some None => None
  | None => Some 0%N
  end.

Definition early_message (c : cfg) (slot : N) (recv : gotime) : bool :=
  time_before (time_add (slot_end c (est_slot_at c (time_to_unix recv))) (- clockErrorTolerance_ns))
              (slot_start c slot).

Definition late_message (c : cfg) (slot role : N) (recv : gotime) : Z :=
  match ttl_of role with
  | None => 0
  | Some ttl =>
      let deadline := time_add (time_add (slot_start c (addw slot ttl)) lateMessageMargin_ns)
                               clockErrorTolerance_ns in
      time_sub (slot_start c (est_slot_at c (time_to_unix recv))) deadline
  end.

(* validateSlotTime before the F8 repair (kept for the regression theorem in Old.v) *)
Definition validate_slot_time_unguarded (c : cfg) (slot role : N) (recv : gotime) : check :=
  if early_message c slot recv then Some (fail ErrEarlyMessage)
  else if late_message c slot role recv >? 0 then Some (fail ErrLateMessage) else None.

(* validateSlotTime: a slot beyond the next one is early whatever the time arithmetic says *)
Definition validate_slot_time (c : cfg) (slot role : N) (recv : gotime) : check :=
  if (addw (est_slot_at c (time_to_unix recv)) 1 <? slot)%N then Some (fail ErrEarlyMessage)
  else validate_slot_time_unguarded c slot role recv.

(* currentEstimatedRound, for a non-negative duration *)
Definition current_estimated_round (since : Z) : N :=
  let q := addw firstRound (Z.to_N (wrap_u64 (Z.quot since quickTimeout_ns))) in
  if (q <=? quickTimeoutThreshold)%N then q
  else
    let sfs := since - Z.of_N quickTimeoutThreshold * quickTimeout_ns in
    addw (addw quickTimeoutThreshold firstRound) (Z.to_N (wrap_u64 (Z.quot sfs slowTimeout_ns))).

Definition estimated_round (c : cfg) (slot : N) (recv : gotime) : N :=
  let sst := slot_start c slot in
  if time_after recv sst then current_estimated_round (time_sub recv sst) else firstRound.

(* ---- full data, justifications, duties ------------------------------------------------------- *)

Definition is_decided (m : cmsg) : bool :=
  N.eqb (c_type m) qbftCommitMsgType && Nat.ltb 1 (length (c_signers m)).

Definition has_full_data (m : cmsg) : bool :=
  (N.eqb (c_type m) qbftProposalMsgType || N.eqb (c_type m) qbftRoundChangeMsgType || is_decided m)
  && negb (N.eqb (c_fd_len m) 0).

(* validateJustifications *)
Definition validate_justifications (m : cmsg) : check :=
  if negb (c_pj_ok m) then Some (fail ErrMalformedPrepareJustifications)
  else if negb (N.eqb (c_pj_len m) 0) && negb (N.eqb (c_type m) qbftProposalMsgType)
  then Some (fail ErrUnexpectedPrepareJustifications)
  else if negb (c_rcj_ok m) then Some (fail ErrMalformedRoundChangeJustifications)
  else if negb (N.eqb (c_rcj_len m) 0) && negb (N.eqb (c_type m) qbftProposalMsgType)
          && negb (N.eqb (c_type m) qbftRoundChangeMsgType)
  then Some (fail ErrUnexpectedRoundChangeJustifications)
  else if N.eqb (c_type m) qbftProposalMsgType && negb (c_just_ok m)
  then Some (fail ErrInvalidJustifications)
  else None.

(* validateBeaconDuty; the metadata pointer is dereferenced only after the nil test *)
Definition validate_beacon_duty (role : N) (sh : share) (duty_ok : bool) : check :=
  if N.eqb role roleProposer then
    if negb (s_has_meta sh) then Some (fail ErrNoShareMetadata)
    else if negb duty_ok then Some (fail ErrNoDuty) else None
  else if N.eqb role roleSyncCommittee || N.eqb role roleSyncCommitteeContribution then
    if negb (s_has_meta sh) then Some (fail ErrNoShareMetadata)
    else if negb duty_ok then Some (fail ErrNoDutyIgnored) else None
  else None.

(* validateDutyCount *)
Definition validate_duty_count (ss : sstate) (role : N) (new_duty_same_epoch : bool) : check :=
  if N.eqb role roleAttester || N.eqb role roleAggregator ||
     N.eqb role roleValidatorRegistration || N.eqb role roleVoluntaryExit then
    let limit := if new_duty_same_epoch then maxDutiesPerEpoch else maxDutiesPerEpoch + 1 in
    if ss_duties ss >=? limit then Some (fail ErrTooManyDutiesPerEpoch) else None
  else None.

(* ---- message counts -------------------------------------------------------------------------- *)

(* MessageCounts.ValidateConsensusMessage *)
Definition counts_validate (cn : counts) (m : cmsg) (committee_size : nat) : check :=
  let t := c_type m in
  if N.eqb t qbftProposalMsgType then
    if n_proposal cn >=? limitProposal then Some (fail ErrTooManySameTypeMessagesPerRound) else None
  else if N.eqb t qbftPrepareMsgType then
    if n_prepare cn >=? limitPrepare then Some (fail ErrTooManySameTypeMessagesPerRound) else None
  else if N.eqb t qbftCommitMsgType then
    if Nat.eqb (length (c_signers m)) 1 && (n_commit cn >=? limitCommit)
    then Some (fail ErrTooManySameTypeMessagesPerRound)
    else if Nat.ltb 1 (length (c_signers m)) && (n_decided cn >=? max_decided (Z.of_nat committee_size))
    then Some (fail ErrTooManySameTypeMessagesPerRound) else None
  else if N.eqb t qbftRoundChangeMsgType then
    if n_rc cn >=? limitRoundChange then Some (fail ErrTooManySameTypeMessagesPerRound) else None
  else Some (Panic PanicCountsValidate).

(* MessageCounts.RecordConsensusMessage *)
Definition counts_record (cn : counts) (m : cmsg) : counts + panic_site :=
  let t := c_type m in
  let upd p pr cm de rc :=
    {| n_pre := n_pre cn; n_proposal := n_proposal cn + p; n_prepare := n_prepare cn + pr;
       n_commit := n_commit cn + cm; n_decided := n_decided cn + de; n_rc := n_rc cn + rc;
       n_post := n_post cn |} in
  if N.eqb t qbftProposalMsgType then inl (upd 1 0 0 0 0)
  else if N.eqb t qbftPrepareMsgType then inl (upd 0 1 0 0 0)
  else if N.eqb t qbftCommitMsgType then
    if Nat.eqb (length (c_signers m)) 1 then inl (upd 0 0 1 0 0)
    else if Nat.ltb 1 (length (c_signers m)) then inl (upd 0 0 0 1 0)
    else inr PanicRecordNoSigners
  else if N.eqb t qbftRoundChangeMsgType then inl (upd 0 0 0 0 1)
  else inr PanicCountsRecord.

Definition is_pre_ptype (t : N) : bool :=
  N.eqb t ptRandaoPartialSig || N.eqb t ptSelectionProofPartialSig || N.eqb t ptContributionProofs ||
  N.eqb t ptValidatorRegistrationPartialSig || N.eqb t ptVoluntaryExitPartialSig.

(* MessageCounts.ValidatePartialSignatureMessage (sic: strictly greater) *)
Definition pcounts_validate (cn : counts) (t : N) : check :=
  if is_pre_ptype t then
    if n_pre cn >? limitPreConsensus then Some (fail ErrTooManySameTypeMessagesPerRound) else None
  else if N.eqb t ptPostConsensusPartialSig then
    if n_post cn >? limitPostConsensus then Some (fail ErrTooManySameTypeMessagesPerRound) else None
  else Some (Panic PanicPartialCountsValidate).

(* MessageCounts.RecordPartialSignatureMessage *)
Definition pcounts_record (cn : counts) (t : N) : counts + panic_site :=
  if is_pre_ptype t then
    inl {| n_pre := n_pre cn + 1; n_proposal := n_proposal cn; n_prepare := n_prepare cn;
           n_commit := n_commit cn; n_decided := n_decided cn; n_rc := n_rc cn; n_post := n_post cn |}
  else if N.eqb t ptPostConsensusPartialSig then
    inl {| n_pre := n_pre cn; n_proposal := n_proposal cn; n_prepare := n_prepare cn;
           n_commit := n_commit cn; n_decided := n_decided cn; n_rc := n_rc cn; n_post := n_post cn + 1 |}
  else inr PanicPartialCountsRecord.

(* ---- consensus messages ---------------------------------------------------------------------- *)

(* validateSignerBehaviorConsensus for one signer *)
Definition signer_behavior (c : cfg) (sh : share) (role : N) (m : cmsg) (cs : cstate) (s : N) : check :=
  match get_signer s cs with
  | None => validate_justifications m
  | Some ss =>
      let slot := c_height m in
      let round := c_round m in
      if (slot <? ss_slot ss)%N then Some (fail ErrSlotAlreadyAdvanced)
      else if N.eqb slot (ss_slot ss) && (round <? ss_round ss)%N then Some (fail ErrRoundAlreadyAdvanced)
      else
        let nd := (ss_slot ss <? slot)%N && N.eqb (epoch_at c slot) (epoch_at c (ss_slot ss)) in
        chk? validate_duty_count ss role nd;
        chk? (if N.eqb slot (ss_slot ss) && N.eqb round (ss_round ss) then
                if has_full_data m &&
                   match ss_pdata ss with Some d => negb (N.eqb d (c_fd_id m)) | None => false end
                then Some (fail ErrDuplicatedProposalWithDifferentData)
                else counts_validate (ss_counts ss) m (length (s_committee sh))
              else None);
        validate_justifications m
  end.

Fixpoint signers_behavior (c : cfg) (sh : share) (role : N) (m : cmsg) (cs : cstate) (l : list N) : check :=
  match l with
  | [] => None
  | s :: tl => chk? signer_behavior c sh role m cs s; signers_behavior c sh role m cs tl
  end.

(* the new state of one signer after all checks passed (None = no state yet) *)
Definition next_sstate (c : cfg) (m : cmsg) (o : option sstate) : sstate + panic_site :=
  let ss0 := match o with Some x => x | None => new_sstate end in
  let slot := c_height m in
  let round := c_round m in
  let ss1 :=
    if (ss_slot ss0 <? slot)%N then
      reset_slot ss0 slot round (epoch_at c (ss_slot ss0) <? epoch_at c slot)%N
    else if N.eqb slot (ss_slot ss0) && (ss_round ss0 <? round)%N then reset_round ss0 round
    else ss0 in
  let pd := if has_full_data m then
              match ss_pdata ss1 with None => Some (c_fd_id m) | Some d => Some d end
            else ss_pdata ss1 in
  match counts_record (ss_counts ss1) m with
  | inr p => inr p
  | inl cn =>
      inl {| ss_slot := ss_slot ss1; ss_round := ss_round ss1; ss_counts := cn;
             ss_pdata := pd; ss_duties := ss_duties ss1 |}
  end.

Definition update_signer (c : cfg) (m : cmsg) (cs : cstate) (s : N) : cstate + panic_site :=
  match next_sstate c m (get_signer s cs) with
  | inr p => inr p
  | inl ss' => inl (set_signer s ss' cs)
  end.

Fixpoint update_signers (c : cfg) (m : cmsg) (cs : cstate) (l : list N) : cstate + panic_site :=
  match l with
  | [] => inl cs
  | s :: tl =>
      match update_signer c m cs s with
      | inr p => inr p
      | inl cs' => update_signers c m cs' tl
      end
  end.

(* the envelope signature check: None = no verifier (before the activation epoch / direct call) *)
Definition run_verifier (v : option check) : check := match v with Some r => r | None => None end.

(* validateConsensusMessage; returns the result and the new signer map of this message id *)
Definition validate_consensus (c : cfg) (sh : share) (role : N) (m : cmsg) (recv : gotime)
           (verifier : option check) (cs : cstate) : result * cstate :=
  let stop (r : result) := (r, cs) in
  if N.eqb role roleValidatorRegistration || N.eqb role roleVoluntaryExit
  then stop (fail ErrUnexpectedConsensusMessage) else
  match sig_format (c_sig_len m) (c_sig_zero m) with Some r => stop r | None =>
  if negb (valid_qbft_type (c_type m)) then stop (fail ErrUnknownQBFTMessageType) else
  match valid_consensus_signers sh m with Some r => stop r | None =>
  match validate_slot_time c (c_height m) role recv with Some r => stop r | None =>
  match max_round role with None => stop (Panic PanicMaxRound) | Some mr =>
  if (mr <? c_round m)%N then stop (fail ErrRoundTooHigh) else
  let highest := addw (estimated_round c (c_height m) recv) allowedRoundsInFuture in
  if (c_round m <? firstRound)%N || (highest <? c_round m)%N then stop (fail ErrEstimatedRoundTooFar) else
  if has_full_data m && negb (c_root_ok m) then stop (fail ErrInvalidHash) else
  match validate_beacon_duty role sh (c_duty_ok m) with Some r => stop r | None =>
  match signers_behavior c sh role m cs (c_signers m) with Some r => stop r | None =>
  match run_verifier verifier with Some r => stop r | None =>
  match update_signers c m cs (c_signers m) with
  | inr p => stop (Panic p)
  | inl cs' => (Accept, cs')
  end end end end end end end end.

(* ---- partial signature messages -------------------------------------------------------------- *)

Fixpoint partial_msgs_loop (sh : share) (signer : N) (seen : list N) (l : list psig) : check :=
  match l with
  | [] => None
  | pm :: tl =>
      if existsb (N.eqb (ps_root pm)) seen then Some (fail ErrDuplicatedPartialSignatureMessage)
      else if negb (N.eqb (ps_signer pm) signer) then Some (fail ErrUnexpectedSigner)
      else
        chk? common_signer (ps_signer pm) sh;
        chk? sig_format (ps_sig_len pm) (ps_sig_zero pm);
        partial_msgs_loop sh signer (ps_root pm :: seen) tl
  end.

(* validatePartialMessages *)
Definition validate_partial_messages (sh : share) (m : pmsg) : check :=
  chk? common_signer (p_signer m) sh;
  if Nat.eqb (length (p_msgs m)) 0 then Some (fail ErrNoPartialMessages)
  else partial_msgs_loop sh (p_signer m) [] (p_msgs m).

(* validateSignerBehaviorPartial *)
Definition signer_behavior_partial (c : cfg) (role : N) (m : pmsg) (ss : sstate) : check :=
  let slot := p_slot m in
  if (slot <? ss_slot ss)%N then Some (fail ErrSlotAlreadyAdvanced)
  else
    let nd := (ss_slot ss <? slot)%N && N.eqb (epoch_at c slot) (epoch_at c (ss_slot ss)) in
    chk? validate_duty_count ss role nd;
    if (slot <=? ss_slot ss)%N then pcounts_validate (ss_counts ss) (p_type m) else None.

(* the new state of the signer of an accepted partial signature message *)
Definition next_sstate_partial (c : cfg) (m : pmsg) (o : option sstate) : sstate + panic_site :=
  let ss0 := match o with Some x => x | None => new_sstate end in
  let ss1 := if (ss_slot ss0 <? p_slot m)%N
             then reset_slot ss0 (p_slot m) firstRound
                             (epoch_at c (ss_slot ss0) <? epoch_at c (p_slot m))%N
             else ss0 in
  match pcounts_record (ss_counts ss1) (p_type m) with
  | inr p => inr p
  | inl cn =>
      inl {| ss_slot := ss_slot ss1; ss_round := ss_round ss1; ss_counts := cn;
             ss_pdata := ss_pdata ss1; ss_duties := ss_duties ss1 |}
  end.

(* validatePartialSignatureMessage *)
Definition validate_partial (c : cfg) (sh : share) (role : N) (m : pmsg)
           (verifier : option check) (cs : cstate) : result * cstate :=
  let stop (r : result) := (r, cs) in
  if negb (valid_ptype (p_type m)) then stop (fail ErrUnknownPartialMessageType) else
  match ptype_matches_role (p_type m) role with
  | None => stop (Panic PanicPartialTypeRole)
  | Some false => stop (fail ErrPartialSignatureTypeRoleMismatch)
  | Some true =>
  match validate_partial_messages sh m with Some r => stop r | None =>
  match (match get_signer (p_signer m) cs with
         | Some ss => signer_behavior_partial c role m ss
         | None => None end) with Some r => stop r | None =>
  match sig_format (p_sig_len m) (p_sig_zero m) with Some r => stop r | None =>
  match run_verifier verifier with Some r => stop r | None =>
  match next_sstate_partial c m (get_signer (p_signer m) cs) with
  | inr p => stop (Panic p)
  | inl ss' => (Accept, set_signer (p_signer m) ss' cs)
  end end end end end end.

(* ---- validateSSVMessage ---------------------------------------------------------------------- *)

(* queue.DecodeSSVMessage: the decoder is chosen by the message type *)
Inductive decoded := DUnknownType | DMalformed | DBody (b : body).
Definition decode_ssv (ty : N) (b : body) : decoded :=
  if N.eqb ty ssvConsensusMsgType then
    match b with BConsensus _ => DBody b | _ => DMalformed end
  else if N.eqb ty ssvPartialSignatureMsgType then
    match b with BPartial _ => DBody b | _ => DMalformed end
  else if N.eqb ty ssvEventMsgType then
    match b with BEvent => DBody b | _ => DMalformed end
  else DUnknownType.

Definition validate_ssv (c : cfg) (vs : vstate) (recv : gotime) (env : envelope)
           (verifier : option check) : result * vstate :=
  let stop (r : result) := (r, vs) in
  if N.eqb (e_data_len env) 0 then stop (fail ErrEmptyData) else
  if (maxMessageSize <? e_data_len env)%N then stop (fail ErrSSVDataTooBig) else
  if negb (N.eqb (e_domain env) (c_domain c)) then stop (fail ErrWrongDomain) else
  if negb (valid_role (e_role env)) then stop (fail ErrInvalidRole) else
  if negb (e_pk_deser_ok env) then stop (fail ErrDeserializePublicKey) else
  match get_share c (e_vid env) with None => stop (fail ErrUnknownValidator) | Some sh =>
  if s_liquidated sh then stop (fail ErrValidatorLiquidated) else
  if negb (s_has_meta sh) then stop (fail ErrNoShareMetadata) else
  if negb (s_attesting sh) then stop (fail ErrValidatorNotAttesting) else
  match decode_ssv (e_msg_type env) (e_body env) with
  | DUnknownType => stop (fail ErrUnknownSSVMessageType)
  | DMalformed => stop (fail ErrMalformedMessage)
  | DBody b =>
      let k := (e_vid env, e_role env) in
      if N.eqb (e_msg_type env) ssvConsensusMsgType then
        if (maxConsensusMsgSize <? e_data_len env)%N then stop (fail ErrSSVDataTooBig) else
        match b with
        | BConsensus m =>
            let '(r, cs') := validate_consensus c sh (e_role env) m recv verifier (get_cs k vs) in
            match r with Accept => (Accept, set_cs k cs' vs) | _ => stop r end
        | _ => stop (Panic PanicBodyType)
        end
      else if N.eqb (e_msg_type env) ssvPartialSignatureMsgType then
        if (maxPartialSignatureMsgSize <? e_data_len env)%N then stop (fail ErrSSVDataTooBig) else
        match b with
        | BPartial m =>
            let '(r, cs') := validate_partial c sh (e_role env) m verifier (get_cs k vs) in
            match r with Accept => (Accept, set_cs k cs' vs) | _ => stop r end
        | _ => stop (Panic PanicBodyType)
        end
      else if N.eqb (e_msg_type env) ssvEventMsgType then stop (fail ErrEventMessage)
      else if N.eqb (e_msg_type env) dkgMsgType then stop (fail ErrDKGMessage)
      else stop Accept
  end end.

(* ---- validateP2PMessage ---------------------------------------------------------------------- *)

(* verifySignature, as far as the oracle bits decide it *)
Definition verify_signature (env : envelope) : check :=
  if negb (e_op_found env) then Some (fail ErrOperatorNotFound)
  else if negb (e_op_key_ok env) then Some (fail ErrSignatureVerification)
  else if negb (e_rsa_ok env) then Some (fail ErrSignatureVerification) else None.

Definition signed_active (c : cfg) (recv : gotime) : bool :=
  (c_perm_epoch c <? epoch_at c (est_slot_at c (time_to_unix recv)))%N.

Definition topic_matches (env : envelope) : bool :=
  match e_topic env with
  | Some k => N.eqb k (e_pk_prefix env mod subnetsCount)%N
  | None => false
  end.

Definition validate_p2p (c : cfg) (vs : vstate) (recv : gotime) (env : envelope) : result * vstate :=
  let stop (r : result) := (r, vs) in
  let active := signed_active c recv in
  (* commons.DecodeSignedSSVMessage *)
  if active && (e_raw_len env <? messageOffset)%N then stop (fail ErrMalformedSignedMessage) else
  let data_len := if active then (e_raw_len env - messageOffset)%N else e_raw_len env in
  if N.eqb data_len 0 then stop (fail ErrPubSubMessageHasNoData) else
  if (maxEncodedMsgSize <? data_len)%N then stop (fail ErrPubSubDataTooBig) else
  if negb (e_ssv_decode_ok env) then stop (fail ErrMalformedPubSubMessage) else
  if negb (topic_matches env) then stop (fail ErrTopicNotFound) else
  validate_ssv c vs recv env (if active then Some (verify_signature env) else None).

(* one validation: [now] = (unix seconds, nanoseconds) of receivedAt *)
Definition validate (c : cfg) (vs : vstate) (now : Z * Z) (env : envelope) : result * vstate :=
  let recv := time_unix (fst now) (snd now) in
  if e_p2p env then validate_p2p c vs recv env else validate_ssv c vs recv env None.

(* histories *)
Fixpoint run (c : cfg) (vs : vstate) (h : list ((Z * Z) * envelope)) : vstate * list result :=
  match h with
  | [] => (vs, [])
  | (now, env) :: tl =>
      let '(r, vs1) := validate c vs now env in
      let '(vs2, rs) := run c vs1 tl in (vs2, r :: rs)
  end.

(* ---- hand-written decoders ------------------------------------------------------------------- *)

(* commons.DecodeSignedSSVMessage on a byte list: (message, operator id bytes, signature) *)
Definition decode_signed_ssv (encoded : list N) : option (list N * list N * list N) :=
  if Nat.ltb (length encoded) (N.to_nat messageOffset) then None
  else Some (skipn (N.to_nat messageOffset) encoded,
             firstn (N.to_nat operatorIDSize) (skipn (N.to_nat rsaSignatureSize) encoded),
             firstn (N.to_nat rsaSignatureSize) encoded).

(* records.getCharMask on one character code: the four bits of a hex digit, least significant first *)
Definition hex_val (ch : N) : option N :=
  if (48 <=? ch)%N && (ch <=? 57)%N then Some (ch - 48)%N
  else if (97 <=? ch)%N && (ch <=? 102)%N then Some (ch - 87)%N
  else if (65 <=? ch)%N && (ch <=? 70)%N then Some (ch - 55)%N
  else None.
Definition char_mask (ch : N) : option (list N) :=
  match hex_val ch with
  | None => None
  | Some v => Some [N.land v 1; N.land (N.shiftr v 1) 1; N.land (N.shiftr v 2) 1; N.land (N.shiftr v 3) 1]%N
  end.

(* Subnets.FromString after the "0x" removal: pairs of hex digits, second digit first *)
Fixpoint subnets_from_chars (l : list N) : option (list N) :=
  match l with
  | a :: b :: tl =>
      match char_mask a, char_mask b with
      | Some ma, Some mb =>
          match subnets_from_chars tl with
          | Some r => Some (mb ++ ma ++ r)
          | None => None
          end
      | _, _ => None
      end
  | _ => Some []
  end.

(* records.SharedSubnets(a, b, maxLen); guarded = the F9 repair (stop when b is exhausted).
   None = index out of range *)
Fixpoint shared_loop (guarded : bool) (a b : list N) (i : nat) (max_len : nat) (acc : list nat)
  : option (list nat) :=
  match a with
  | [] => Some acc
  | av :: atl =>
      if N.eqb av 0 then shared_loop guarded atl (tl b) (S i) max_len acc
      else match b with
           | [] => if guarded then Some acc else None
           | bv :: _ =>
               if N.eqb bv 0 then shared_loop guarded atl (tl b) (S i) max_len acc
               else let acc' := acc ++ [i] in
                    if Nat.eqb (length acc') max_len then Some acc'
                    else shared_loop guarded atl (tl b) (S i) max_len acc'
           end
  end.
Definition shared_subnets (guarded : bool) (a b : list N) (max_len : nat) : option (list nat) :=
  let ml := if Nat.eqb max_len 0 then length a else max_len in
  if Nat.eqb (length a) 0 || Nat.eqb (length b) 0 then Some []
  else shared_loop guarded a b 0 ml [].

(* records.DomainTypeEntry.DecodeRLP: the "domaintype" entry of a peer's node record, after the RLP
   string has been read into a byte slice [bs]; the slice is converted to a [4]byte.  checked = the
   F12 repair (length test before the conversion).  None = the conversion panics; Some None = error;
   longer strings are cut (the conversion takes the first four bytes). *)
Definition decode_domain_type (checked : bool) (bs : list N) : option (option (list N)) :=
  if Nat.ltb (length bs) 4 then (if checked then Some None else None)
  else Some (Some (firstn 4 bs)).

(* SignedNodeInfo.UnmarshalRecord after json.Unmarshal: the entries are taken by index only after
   the length test; each field decoder is an oracle bit.  None = index out of range. *)
Definition signed_node_info_post_json (n_entries : nat) (b64_0 b64_1 int_2 b64_4 ni_5 : bool)
  : option bool :=
  if Nat.ltb n_entries 6 then Some false
  else if Nat.ltb 5 n_entries then
    Some (b64_0 && b64_1 && int_2 && b64_4 && ni_5)
  else None.
