(* Compiled from ocaml/ctrl/ so that model.ml lands there.  ExtrOcamlBasic only. *)
From Coq Require Import Extraction ExtrOcamlBasic.
From SSV Require Import Ctrl.Model Ctrl.Refused.
Extraction "model.ml" step xstep init.
