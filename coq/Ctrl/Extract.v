(* Compiled from ocaml/ctrl/ so that model.ml lands there.  ExtrOcamlBasic only. *)
From Coq Require Import Extraction ExtrOcamlBasic.
From SSV Require Import Ctrl.Model.
Extraction "model.ml" step init.
