(* Third layer of lemmas about Ctrl/Model.v (C15): persistence.  Whenever the controller holds a
   decided instance of its own height (other than height 0) that height is the height of the stored
   highest instance - so a height learned decided that is not below the controller height survives a
   restart.  The two coded exceptions (height 0; a full node that finds only a historical record)
   are in the statements. *)
From Coq Require Import List NArith Bool Arith Lia.
From SSV Require Import Gen.CtrlConsts Ctrl.Model Ctrl.Proofs Ctrl.Proofs2.
Import ListNotations.
Local Open Scope N_scope.

(* what the invariants below look at in an instance *)
Definition proj (i : inst) : N * bool * bool * bool := (i_height i, i_decided i, i_started i, i_stopped i).
Definition projs (l : list inst) := map proj l.

Lemma in_projs : forall l p, In p (projs l) <-> exists i, In i l /\ proj i = p.
Proof. intros l p. unfold projs. rewrite in_map_iff. split; intros [i [A B0]]; exists i; auto. Qed.

Lemma projs_update_first : forall l i' p,
  In p (projs (update_first l i')) -> p = proj i' \/ In p (projs l).
Proof.
  intros l i' p Hp. apply in_projs in Hp. destruct Hp as [x [Hx <-]].
  apply in_update_first in Hx. destruct Hx as [->|Hx]; [now left|]. right. apply in_projs. eauto.
Qed.

Lemma projs_add_new : forall l i p, In p (projs (add_new l i)) -> p = proj i \/ In p (projs l).
Proof.
  intros l i p Hp. apply in_projs in Hp. destruct Hp as [x [Hx <-]].
  apply in_add_new in Hx. destruct Hx as [->|Hx]; [now left|]. right. apply in_projs. eauto.
Qed.

(* replacing an instance by one with the same projection does not change the projections *)
Lemma projs_update_same : forall l i i', find_inst l (i_height i') = Some i -> proj i' = proj i ->
  projs (update_first l i') = projs l.
Proof.
  induction l as [|x tl IH]; simpl; intros i i' Hf Hp; [reflexivity|].
  destruct (N.eqb_spec (i_height x) (i_height i')).
  - inversion Hf; subst x. simpl. now rewrite Hp.
  - simpl. erewrite IH; eauto.
Qed.

Lemma find_update_first : forall l h i i', find_inst l h = Some i -> i_height i' = h ->
  find_inst (update_first l i') h = Some i'.
Proof.
  induction l as [|x tl IH]; simpl; intros h i i' Hf Hh; [discriminate|].
  rewrite Hh. destruct (N.eqb_spec (i_height x) h).
  - simpl. rewrite Hh, N.eqb_refl. reflexivity.
  - simpl. destruct (N.eqb_spec (i_height x) h); [contradiction|]. eapply IH; eauto.
Qed.

(* a new instance at or above everything held is kept, in front *)
Lemma find_add_new_top : forall l i,
  (forall x, In x (hts l) -> x <= i_height i) -> ~ In (i_height i) (hts l) ->
  find_inst (add_new l i) (i_height i) = Some i.
Proof.
  intros l i Hle Hn. unfold add_new. pose proof capacity_pos.
  destruct l as [|x tl]; simpl.
  - destruct capacity; [lia|]. simpl. now rewrite N.eqb_refl.
  - assert (i_height x < i_height i).
    { specialize (Hle (i_height x) (or_introl eq_refl)).
      assert (i_height x <> i_height i) by (intros E; apply Hn; left; exact E). lia. }
    destruct (N.ltb_spec (i_height x) (i_height i)); [|lia].
    destruct capacity; [lia|]. simpl. now rewrite N.eqb_refl.
Qed.

(* ---- the stored highest record is of the controller's height --------------------------------------- *)

Definition current (c : ctrl) (d : db) : Prop :=
  exists rec, highest d = Some rec /\ st_height rec = height c.

(* the fix's memory of the highest record is never ahead of the record *)
Definition vinv (c : ctrl) (d : db) : Prop :=
  forall x n, saved c = Some (x, n) -> exists rec, highest d = Some rec /\ st_height rec = x.

Lemma save_instance_stores : forall f c d i h m c' d',
  vinv c d -> i_height i = h -> save_instance f c d i h m = (c', d') ->
  vinv c' d' /\ (height c <= h -> exists r, highest d' = Some r /\ st_height r = h).
Proof.
  intros f c d i h m c' d' V Hi Hs. unfold save_instance in Hs.
  destruct (is_highest f c h m) eqn:Ehi.
  - assert (Hnew : exists r, Some {| st_inst := compact i; st_msg := m |} = Some r /\ st_height r = h).
    { eexists. split; [reflexivity|]. unfold st_height. simpl. exact Hi. }
    destruct (full f); inversion Hs; subst c' d'; simpl; (split; [|intros _; exact Hnew]);
      intros x n Hx; simpl in Hx; inversion Hx; subst x n; exact Hnew.
  - assert (Hw : height c <= h -> exists r, highest d = Some r /\ st_height r = h).
    { intros Hle. unfold is_highest in Ehi. apply N.leb_le in Hle. rewrite Hle in Ehi. simpl in Ehi.
      apply negb_false_iff in Ehi. apply andb_true_iff in Ehi. destruct Ehi as [_ Ew].
      unfold weaker in Ew. destruct (saved c) as [[sh n]|] eqn:Es; [|discriminate].
      apply andb_true_iff in Ew. destruct Ew as [Ew _]. apply N.eqb_eq in Ew. subst sh.
      eapply V; eauto. }
    destruct (full f); inversion Hs; subst c' d'; simpl; (split; [exact V|exact Hw]).
Qed.

(* ---- UponDecided: projections, and the record it leaves -------------------------------------------- *)

Lemma upon_decided_proj : forall f c d h m c3 d2 ret,
  vinv c d -> (forall x, In x (hts (insts c)) -> x <= height c) ->
  upon_decided f c d h m = (c3, d2, ret) ->
  vinv c3 d2 /\
  (forall p, In p (projs (insts c3)) ->
     In p (projs (insts c)) \/
     (exists st sp, p = (h, true, st, sp) /\ (st = true -> In (h, false, st, sp) (projs (insts c))) /\
        (height c <= h -> exists r, highest d2 = Some r /\ st_height r = h))) /\
  ((find_inst (insts c) h <> None \/ full f = false \/ lookup (history d) h = None) -> height c <= h ->
     exists i, find_inst (insts c3) h = Some i /\ i_decided i = true).
Proof.
  intros f c d h m c3 d2 ret V Hle Hu. unfold upon_decided in Hu.
  match type of Hu with (let '(l', save) := ?X in _) = _ => remember X as ls eqn:Els end.
  destruct ls as [l' save].
  (* what the message did to the list *)
  assert (Hl : (forall p, In p (projs l') -> In p (projs (insts c)) \/
                  (save = true /\ exists st sp, p = (h, true, st, sp) /\
                     (st = true -> In (h, false, st, sp) (projs (insts c))))) /\
               ((find_inst (insts c) h <> None \/ full f = false \/ lookup (history d) h = None) ->
                  height c <= h -> exists i, find_inst l' h = Some i /\ i_decided i = true)).
  { unfold instance_for_height in Els.
    destruct (find_inst (insts c) h) as [i|] eqn:Ef.
    - assert (Hih : i_height i = h) by (eapply find_inst_height; eauto).
      assert (Hpi : In (proj i) (projs (insts c))) by (apply in_projs; exists i; split; [eapply find_inst_in; eauto|reflexivity]).
      destruct (i_decided i) eqn:Edec; simpl in Els.
      + destruct (Nat.ltb _ _); inversion Els; subst l' save.
        * split.
          -- intros p Hp. apply projs_update_first in Hp. destruct Hp as [->|Hp]; auto.
          -- intros _ _. exists (add_commit i m). split; [eapply find_update_first; eauto|exact Edec].
        * split; [auto|]. intros _ _. exists i. auto.
      + inversion Els; subst l' save. split.
        * intros p Hp. apply projs_update_first in Hp. destruct Hp as [->|Hp]; auto.
          right. split; [reflexivity|]. exists (i_started i), (i_stopped i). unfold proj. simpl. rewrite Hih.
          split; [reflexivity|]. intros _. unfold proj in Hpi. rewrite Hih, Edec in Hpi. exact Hpi.
        * intros _ _. eexists. split; [eapply find_update_first; eauto|reflexivity].
    - destruct (full f) eqn:Efull.
      + destruct (lookup (history d) h) as [r|] eqn:El.
        * assert (Hsame : l' = insts c).
          { destruct (negb (i_decided (reloaded (st_inst r)))); [inversion Els; reflexivity|].
            destruct (Nat.ltb _ _); inversion Els; reflexivity. }
          subst l'. split; [auto|]. intros [Hc|[Hc|Hc]]; [congruence|discriminate|discriminate].
        * inversion Els; subst l' save. split.
          -- intros p Hp. apply projs_add_new in Hp. destruct Hp as [->|Hp]; auto.
             right. split; [reflexivity|]. exists false, false. split; [reflexivity|discriminate].
          -- intros _ Hge. exists (new_decided h m). split; [|reflexivity].
             apply (find_add_new_top (insts c) (new_decided h m)); simpl.
             ++ intros x Hx. specialize (Hle x Hx). lia.
             ++ now apply find_inst_none.
      + inversion Els; subst l' save. split.
        * intros p Hp. apply projs_add_new in Hp. destruct Hp as [->|Hp]; auto.
          right. split; [reflexivity|]. exists false, false. split; [reflexivity|discriminate].
        * intros _ Hge. exists (new_decided h m). split; [|reflexivity].
          apply (find_add_new_top (insts c) (new_decided h m)); simpl.
          -- intros x Hx. specialize (Hle x Hx). lia.
          -- now apply find_inst_none. }
  clear Els. destruct Hl as [Hl1 Hl2].
  match type of Hu with (let '(c2, d2) := ?X in _) = _ => remember X as cd eqn:Ecd end.
  destruct cd as [c2 d2'].
  assert (H2 : vinv c2 d2' /\ insts c2 = l' /\
               (save = true -> (exists i, find_inst l' h = Some i) -> height c <= h ->
                  exists r, highest d2' = Some r /\ st_height r = h)).
  { destruct save.
    - destruct (find_inst l' h) as [i|] eqn:Ei.
      + symmetry in Ecd. pose proof Ecd as Ecd2.
        eapply save_instance_stores in Ecd; [|exact V|eapply find_inst_height; eauto].
        destruct Ecd as [A B0].
        eapply save_instance_shape in Ecd2; [|eapply find_inst_height; eauto|simpl; eapply find_inst_some_in; eauto].
        destruct Ecd2 as [C _]. split; [exact A|]. split; [exact C|]. intros _ _ Hge. simpl in B0. auto.
      + inversion Ecd; subst. split; [exact V|]. split; [reflexivity|]. intros _ [i Hi]. discriminate.
    - inversion Ecd; subst. split; [exact V|]. split; [reflexivity|]. discriminate. }
  clear Ecd. destruct H2 as [V2 [Hi Hst]].
  inversion Hu; subst c3 d2 ret; clear Hu.
  assert (Hins : insts (if N.ltb (height c) h then set_height c2 h else c2) = l')
    by (destruct (N.ltb (height c) h); simpl; exact Hi).
  assert (Hsv : saved (if N.ltb (height c) h then set_height c2 h else c2) = saved c2)
    by (destruct (N.ltb (height c) h); reflexivity).
  rewrite Hins. split; [|split].
  - intros x n Hx. rewrite Hsv in Hx. eapply V2; eauto.
  - intros p Hp. destruct (Hl1 p Hp) as [Hold|[Hsave [st [sp [-> Hwas]]]]]; [now left|].
    right. exists st, sp. split; [reflexivity|]. split; [exact Hwas|].
    intros Hge. apply Hst; auto.
    (* the instance with this projection is found at h *)
    apply in_projs in Hp. destruct Hp as [i [Hin Hpi]].
    destruct (find_inst l' h) as [j|] eqn:Ej; [eauto|].
    apply find_inst_none in Ej. exfalso. apply Ej. unfold hts. apply in_map_iff. exists i. split; auto.
    unfold proj in Hpi. inversion Hpi. reflexivity.
  - exact Hl2.
Qed.

(* ---- the third invariant ------------------------------------------------------------------------------ *)

Definition inv3 (s : sys) : Prop :=
  vinv (ct s) (store s) /\
  (* a decided instance of the controller's own height (not 0) is what the store holds *)
  ((exists st sp, In (height (ct s), true, st, sp) (projs (insts (ct s)))) -> height (ct s) <> 0 ->
     current (ct s) (store s)) /\
  (* a started, running instance (not of height 0) is the runner's running instance *)
  (forall h d, In (h, d, true, false) (projs (insts (ct s))) -> h = 0 \/ rn s = RRunning h).

Lemma current_keeps : forall c d c' d' h,
  (forall rec, highest d = Some rec -> st_height rec <= height c) ->
  (forall rec, highest d' = Some rec -> st_height rec <= height c') ->
  height c' = height c -> hi_shape d d' c c' h -> current c d -> current c' d'.
Proof.
  intros c d c' d' h I2 I2' Hh Hs [rec [A B0]].
  destruct Hs as [E|[r [C [D [_ F]]]]].
  - exists rec. split; congruence.
  - exists r. split; [exact C|]. specialize (I2' r C). specialize (I2 rec A). lia.
Qed.

Lemma stored_h_keeps : forall d d' c c' h,
  (exists r, highest d = Some r /\ st_height r = h) -> hi_shape d d' c c' h ->
  exists r, highest d' = Some r /\ st_height r = h.
Proof.
  intros d d' c c' h [r [A B0]] [E|[r' [C [D _]]]]; [exists r; split; congruence|eauto].
Qed.

Lemma projs_compact_at : forall c h, projs (insts (compact_at c h)) = projs (insts c).
Proof.
  intros c h. unfold compact_at. destruct (find_inst (insts c) h) as [i|] eqn:Ef; simpl; auto.
  apply (projs_update_same (insts c) i (compact i)); [|reflexivity].
  rewrite compact_height. erewrite find_inst_height; eauto.
Qed.

Lemma find_compact_at : forall c h i, find_inst (insts c) h = Some i ->
  find_inst (insts (compact_at c h)) h = Some (compact i).
Proof.
  intros c h i Hf. unfold compact_at. rewrite Hf. simpl.
  eapply find_update_first; eauto. rewrite compact_height. eapply find_inst_height; eauto.
Qed.

Lemma runner_decided_v : forall s h m s' r,
  vinv (ct s) (store s) -> runner_decided s h m = (s', r) ->
  vinv (ct s') (store s') /\ rn s' = rn s /\ insts (ct s') = insts (ct s) /\
  (rn s = RRunning h -> height (ct s) <= h -> (exists i, find_inst (insts (ct s)) h = Some i) ->
     exists rec, highest (store s') = Some rec /\ st_height rec = h).
Proof.
  intros s h m s' r V Hr. unfold runner_decided in Hr.
  destruct (rn s) as [| |rh] eqn:Ern; try (inversion Hr; subst; repeat split; auto; discriminate).
  destruct (N.eqb_spec rh h) as [->|Hne].
  - inversion Hr; subst s' r; clear Hr. unfold runner_save.
    destruct (find_inst (insts (ct s)) h) as [i|] eqn:Ef.
    + destruct (save_instance (cf s) (ct s) (store s) i h m) as [c' d'] eqn:Es. simpl.
      pose proof Es as Es2.
      eapply save_instance_stores in Es; [|exact V|eapply find_inst_height; eauto].
      eapply save_instance_shape in Es2; [|eapply find_inst_height; eauto|eapply find_inst_some_in; eauto].
      destruct Es as [A B0]. destruct Es2 as [C _].
      split; [exact A|]. split; [exact Ern|]. split; [exact C|]. intros _ Hle _. auto.
    + split; [exact V|]. split; [exact Ern|]. split; [reflexivity|]. intros _ _ [i Hi]. discriminate.
  - inversion Hr; subst s' r. split; [exact V|]. split; [exact Ern|]. split; [reflexivity|].
    intros E. inversion E. contradiction.
Qed.

(* ProcessConsensus on a valid decided message *)
Lemma process_decided_proj : forall s g h m l s' r,
  inv s g -> vinv (ct s) (store s) -> process_decided s h m true l = (s', r) ->
  vinv (ct s') (store s') /\ rn s' = rn s /\
  (forall p, In p (projs (insts (ct s'))) ->
     In p (projs (insts (ct s))) \/
     (exists st sp, p = (h, true, st, sp) /\ (st = true -> In (h, false, st, sp) (projs (insts (ct s)))) /\
        (height (ct s) <= h -> exists rec, highest (store s') = Some rec /\ st_height rec = h))) /\
  ((find_inst (insts (ct s)) h <> None \/ full (cf s) = false \/ lookup (history (store s)) h = None) ->
     height (ct s) <= h -> exists i, find_inst (insts (ct s')) h = Some i /\ i_decided i = true).
Proof.
  intros s g h m l s' r Hinv V Hp. unfold process_decided in Hp. simpl in Hp.
  destruct (upon_decided (cf s) (ct s) (store s) h m) as [[c1 d1] ret] eqn:Eu.
  eapply upon_decided_proj in Eu; [|exact V|intros x Hx; eapply in_hts_le; eauto].
  destruct Eu as [V1 [P1 F1]].
  set (s1 := set_ct_db s (compact_at c1 h) d1) in *.
  assert (Vs1 : vinv (ct s1) (store s1)).
  { intros x n Hx. simpl in *. unfold compact_at in Hx. destruct (find_inst (insts c1) h); simpl in Hx; eapply V1; eauto. }
  assert (Ps1 : projs (insts (ct s1)) = projs (insts c1)) by (simpl; apply projs_compact_at).
  assert (Fs1 : (find_inst (insts (ct s)) h <> None \/ full (cf s) = false \/ lookup (history (store s)) h = None) ->
     height (ct s) <= h -> exists i, find_inst (insts (ct s1)) h = Some i /\ i_decided i = true).
  { intros Hy Hge. destruct (F1 Hy Hge) as [i [A B0]]. exists (compact i). split; [|exact B0].
    simpl. now apply find_compact_at. }
  destruct ret.
  - pose proof Hp as Hp2. apply runner_decided_v in Hp; auto. destruct Hp as [V2 [Hrn [Hins _]]].
    apply runner_decided_shape in Hp2. destruct Hp2 as [_ [_ [_ Hhi]]].
    split; [exact V2|]. split; [rewrite Hrn; reflexivity|]. split.
    + intros p Hp. rewrite Hins, Ps1 in Hp. destruct (P1 p Hp) as [Ho|[st [sp [E [W S]]]]]; [now left|].
      right. exists st, sp. split; [exact E|]. split; [exact W|]. intros Hge.
      eapply stored_h_keeps; [apply S; exact Hge|exact Hhi].
    + intros Hy Hge. rewrite Hins. auto.
  - inversion Hp; subst s' r. split; [exact Vs1|]. split; [reflexivity|]. split.
    + intros p Hp2. rewrite Ps1 in Hp2. destruct (P1 p Hp2) as [Ho|[st [sp [E [W S]]]]]; [now left|].
      right. exists st, sp. auto.
    + exact Fs1.
Qed.

(* one commit message reaching the instance found at h *)
Lemma commit_step_proj : forall s h x i,
  vinv (ct s) (store s) -> find_inst (insts (ct s)) h = Some i ->
  let s' := commit_step s h x in
  vinv (ct s') (store s') /\ rn s' = rn s /\
  (exists i', find_inst (insts (ct s')) h = Some i' /\ i_started i' = i_started i /\ i_stopped i' = i_stopped i) /\
  (forall p, In p (projs (insts (ct s'))) ->
     In p (projs (insts (ct s))) \/
     (p = (h, true, i_started i, i_stopped i) /\
      (rn s = RRunning h -> height (ct s) <= h -> exists rec, highest (store s') = Some rec /\ st_height rec = h))).
Proof.
  intros s h x i V Hf. unfold commit_step. rewrite Hf.
  assert (Hih : i_height i = h) by (eapply find_inst_height; eauto).
  destruct (existsb _ _).
  { split; [exact V|]. split; [reflexivity|]. split; [|auto]. exists i. repeat split; auto. }
  set (i1 := add_commit i {| c_round := 1; c_signers := [x] |}).
  set (q := Nat.leb (quorum (cf s)) (length (longest_unique (i_commits i1) 1))).
  set (i2 := if q then set_decided i1 else i1).
  set (s1 := set_ct s (set_insts (ct s) (update_first (insts (ct s)) i2))).
  assert (Hi2 : i_height i2 = h /\ i_started i2 = i_started i /\ i_stopped i2 = i_stopped i /\
                i_decided i2 = (q || i_decided i)).
  { unfold i2. destruct q; simpl; auto. }
  destruct Hi2 as [Hh2 [Hst2 [Hsp2 Hd2]]].
  assert (Hf1 : find_inst (insts (ct s1)) h = Some i2) by (simpl; eapply find_update_first; eauto).
  assert (Hold : In (proj i) (projs (insts (ct s)))).
  { apply in_projs. exists i. split; [eapply find_inst_in; eauto|reflexivity]. }
  assert (Vs1 : vinv (ct s1) (store s1)) by exact V.
  destruct (q && negb (i_decided i)) eqn:Eq.
  - destruct (runner_decided s1 h {| c_round := 1; c_signers := longest_unique (i_commits i1) 1 |}) as [s2 r] eqn:Er.
    simpl. apply runner_decided_v in Er; auto. destruct Er as [V2 [Hrn [Hins Hsv]]].
    split; [exact V2|]. split; [exact Hrn|]. split.
    + exists i2. rewrite Hins. auto.
    + intros p Hp. rewrite Hins in Hp. simpl in Hp. apply projs_update_first in Hp.
      destruct Hp as [->|Hp]; [|now left]. right.
      apply andb_true_iff in Eq. destruct Eq as [Eq1 _].
      unfold proj. rewrite Hh2, Hst2, Hsp2, Hd2, Eq1. simpl. split; [reflexivity|].
      intros Hr Hge. apply Hsv; eauto.
  - split; [exact Vs1|]. split; [reflexivity|]. split; [exists i2; auto|].
    intros p Hp. simpl in Hp. apply projs_update_first in Hp. destruct Hp as [->|Hp]; [|now left].
    left. unfold proj. rewrite Hh2, Hst2, Hsp2, Hd2.
    apply andb_false_iff in Eq. destruct Eq as [Eq|Eq].
    + rewrite Eq. simpl. unfold proj in Hold. rewrite Hih in Hold. exact Hold.
    + apply negb_false_iff in Eq. rewrite Eq, orb_true_r. unfold proj in Hold. rewrite Hih, Eq in Hold. exact Hold.
Qed.

Lemma commit_fold_proj : forall sg s h i,
  vinv (ct s) (store s) -> find_inst (insts (ct s)) h = Some i ->
  let s' := fold_left (fun a x => commit_step a h x) sg s in
  vinv (ct s') (store s') /\ rn s' = rn s /\
  (exists i', find_inst (insts (ct s')) h = Some i' /\ i_started i' = i_started i /\ i_stopped i' = i_stopped i) /\
  (forall p, In p (projs (insts (ct s'))) ->
     In p (projs (insts (ct s))) \/
     (p = (h, true, i_started i, i_stopped i) /\
      (rn s = RRunning h -> height (ct s) <= h -> exists rec, highest (store s') = Some rec /\ st_height rec = h))).
Proof.
  induction sg as [|x tl IH]; intros s h i V Hf; simpl.
  - split; [exact V|]. split; [reflexivity|]. split; [|auto]. exists i. repeat split; auto.
  - destruct (commit_step_proj s h x i V Hf) as [V1 [Hrn1 [[i1 [Hf1 [Hs1 Hp1]]] HP1]]].
    destruct (IH (commit_step s h x) h i1 V1 Hf1) as [V2 [Hrn2 [[i2 [Hf2 [Hs2 Hp2]]] HP2]]].
    destruct (commit_step_shape s h x) as [_ [Hh1 _]].
    destruct (commit_fold_shape tl (commit_step s h x) h) as [_ [_ Hhi2]].
    split; [exact V2|]. split; [congruence|]. split.
    + exists i2. split; [exact Hf2|]. split; congruence.
    + intros p Hp. destruct (HP2 p Hp) as [Ho|[-> Hb]].
      * destruct (HP1 p Ho) as [Ho'|[-> Hc]]; [now left|]. right. split; [reflexivity|].
        intros Hr Hge. eapply stored_h_keeps; [apply Hc; auto|exact Hhi2].
      * right. split; [congruence|]. intros Hr Hge. apply Hb; [congruence|lia].
Qed.

(* ---- preservation ------------------------------------------------------------------------------------- *)

Lemma inv3_same : forall s s',
  inv3 s -> projs (insts (ct s')) = projs (insts (ct s)) -> height (ct s') = height (ct s) ->
  store s' = store s -> saved (ct s') = saved (ct s) -> rn s' = rn s -> inv3 s'.
Proof.
  intros s s' [V [D R]] Hp Hh Hst Hsv Hrn. split; [|split].
  - intros x n Hx. rewrite Hst. rewrite Hsv in Hx. eauto.
  - rewrite Hp, Hh. intros He Hnz. destruct (D He Hnz) as [rec [A B0]]. exists rec. rewrite Hst, Hh. auto.
  - intros h d Hin. rewrite Hp in Hin. rewrite Hrn. eauto.
Qed.

Lemma proj_height_le : forall s g p, inv s g -> In p (projs (insts (ct s))) ->
  fst (fst (fst p)) <= height (ct s).
Proof.
  intros s g p [[I3 _] _] Hp. apply in_projs in Hp. destruct Hp as [i [Hi <-]]. simpl. now apply I3.
Qed.

Lemma inv3_start : forall s g slot s' r,
  inv s g -> inv3 s -> start_duty s slot = (s', r) -> inv3 s'.
Proof.
  intros s g slot s' r Hinv [V [D R]] Est. unfold start_duty in Est.
  destruct (should_process_duty (ct s) slot) eqn:Esp; simpl in Est;
    [|inversion Est; subst; split; [|split]; auto].
  assert (Hsp : height (ct s) < slot \/ height (ct s) = 0).
  { unfold should_process_duty in Esp. apply negb_true_iff in Esp.
    apply andb_false_iff in Esp. destruct Esp as [E|E].
    - apply N.leb_gt in E. now left.
    - apply negb_false_iff in E. apply N.eqb_eq in E. now right. }
  unfold start_new_instance in Est.
  destruct (N.ltb_spec slot (height (ct s))) as [Hlt|Hge]; [exfalso; lia|].
  destruct (find_inst (insts (ct s)) slot) as [i|] eqn:Ef.
  - (* already running: the height is 0 and so is every held height *)
    inversion Est; subst s' r; clear Est.
    assert (Hz : height (ct s) = 0).
    { assert (slot <= height (ct s)).
      { erewrite <- (find_inst_height _ _ _ Ef). destruct Hinv as [[I3 _] _]. apply I3. eapply find_inst_in; eauto. }
      lia. }
    split; [exact V|]. split; [exact D|]. simpl. intros h d Hin. left.
    pose proof (proj_height_le s g _ Hinv Hin) as Hle. simpl in Hle. lia.
  - inversion Est; subst s' r; clear Est. simpl.
    assert (Hn : ~ In slot (hts (insts (ct s)))) by (now apply find_inst_none).
    assert (Hel : forall p, In p (projs (map (fun x => if N.eqb (i_height x) slot then x else stop x)
                                           (add_new (insts (ct s)) (new_started slot)))) ->
                   p = (slot, false, true, false) \/
                   (exists hh dd st, p = (hh, dd, st, true))).
    { intros p Hp. apply in_projs in Hp. destruct Hp as [x' [Hx' <-]].
      apply in_map_iff in Hx'. destruct Hx' as [y [<- Hy]].
      apply in_add_new in Hy. destruct Hy as [->|Hy].
      - left. simpl. rewrite N.eqb_refl. reflexivity.
      - right. destruct (N.eqb_spec (i_height y) slot) as [E|E].
        + exfalso. apply Hn. rewrite <- E. unfold hts. now apply in_map.
        + exists (i_height y), (i_decided y), (i_started y). reflexivity. }
    split; [exact V|]. split.
    + simpl. intros [st [sp Hin]] _. exfalso.
      destruct (Hel _ Hin) as [E|[hh [dd [st' E]]]]; inversion E.
      (* a stopped instance of height slot would be an old instance of that height *)
      subst. apply in_projs in Hin. destruct Hin as [x' [Hx' Hpx]].
      apply in_map_iff in Hx'. destruct Hx' as [y [Hy1 Hy]].
      apply in_add_new in Hy. destruct Hy as [->|Hy].
      * simpl in Hy1. rewrite N.eqb_refl in Hy1. subst x'. inversion Hpx.
      * assert (Hyh : i_height y = hh).
        { subst x'. unfold proj in Hpx. destruct (N.eqb (i_height y) hh); inversion Hpx; reflexivity. }
        apply Hn. rewrite <- Hyh. unfold hts. now apply in_map.
    + simpl. intros h d Hin. right.
      destruct (Hel _ Hin) as [E|[hh [dd [st' E]]]]; inversion E. reflexivity.
Qed.

Lemma inv3_restart : forall s, inv3 (restart s).
Proof.
  intros s. unfold restart. destruct (highest (store s)) as [rec|] eqn:Eh; simpl.
  - rewrite add_new_nil. split; [|split]; simpl.
    + intros x n Hx. inversion Hx; subst. exists rec. split; [exact Eh|reflexivity].
    + intros _ _. exists rec. split; [exact Eh|reflexivity].
    + intros h d [Hin|[]]. inversion Hin.
  - split; [|split]; simpl.
    + intros x n Hx. discriminate.
    + intros [st [sp []]].
    + intros h d [].
Qed.

Lemma gstep_inv3 : forall s g o s' g',
  inv s g -> inv3 s -> gstep (s, g) o = (s', g') -> inv3 s'.
Proof.
  intros s g o s' g' Hinv H3 Hs.
  destruct (gstep_inv _ _ _ _ _ Hinv Hs) as [Hinv' _].
  assert (I2 : forall rec, highest (store s) = Some rec -> st_height rec <= height (ct s)).
  { intros rec Hr. destruct Hinv as [[_ I2] _]. now apply I2. }
  assert (I2' : forall rec, highest (store s') = Some rec -> st_height rec <= height (ct s')).
  { intros rec Hr. destruct Hinv' as [[_ I2'] _]. now apply I2'. }
  unfold gstep in Hs. destruct (step s o) as [s1 r] eqn:Est.
  assert (s1 = s') by (destruct o; inversion Hs; reflexivity). subst s1. clear Hs.
  destruct o as [slot|h m v l|h sg|]; simpl in Est.
  - exact (inv3_start s g slot s' r Hinv H3 Est).
  - destruct H3 as [V [D R]]. destruct v.
    + pose proof (process_decided_spec _ _ _ _ _ _ _ (proj1 Hinv) Est) as [_ [_ [Hh _]]].
      pose proof (process_decided_shape _ _ _ _ _ _ Est) as [_ Hhi].
      eapply process_decided_proj in Est; eauto. destruct Est as [V' [Hrn [P' _]]].
      split; [exact V'|]. split.
      * intros [st [sp Hin]] Hnz. destruct (P' _ Hin) as [Ho|[st' [sp' [E [_ S]]]]].
        -- pose proof (proj_height_le s g _ Hinv Ho) as Hle. simpl in Hle.
           assert (Hsame : height (ct s') = height (ct s)) by lia.
           rewrite Hsame in Ho, Hnz.
           apply (current_keeps (ct s) (store s) (ct s') (store s') h I2 I2' Hsame Hhi).
           apply D; eauto.
        -- inversion E. assert (Hge : height (ct s) <= h) by lia.
           destruct (S Hge) as [rec [A B0]]. exists rec. split; [exact A|]. congruence.
      * intros h0 d0 Hin. rewrite Hrn. destruct (P' _ Hin) as [Ho|[st' [sp' [E [W _]]]]]; [eauto|].
        inversion E; subst h0 d0 st' sp'. eapply R. apply W. reflexivity.
    + unfold process_decided in Est. simpl in Est. inversion Est; subst s' r; clear Est.
      destruct l; [|split; [|split]; auto].
      apply (inv3_same s); [split; [|split]; auto|simpl; apply projs_compact_at| | | |]; simpl; auto.
      * apply (hts_compact_at (ct s) h).
      * unfold compact_at. destruct (find_inst (insts (ct s)) h); reflexivity.
  - (* local decision *)
    destruct H3 as [V [D R]]. unfold process_local in Est.
    destruct (find_inst (insts (ct s)) h) as [i|] eqn:Ef; [|inversion Est; subst; split; [|split]; auto].
    destruct (local_ready i) eqn:Elr; [|inversion Est; subst; split; [|split]; auto].
    inversion Est; subst s' r; clear Est.
    destruct (commit_fold_proj sg s h i V Ef) as [V' [Hrn [_ P']]].
    destruct (commit_fold_shape sg s h) as [_ [Hh Hhi]].
    unfold local_ready in Elr. repeat (apply andb_true_iff in Elr; destruct Elr as [Elr ?]).
    assert (Hst : i_started i = true) by assumption.
    assert (Hsp : i_stopped i = false) by (now apply negb_true_iff).
    assert (Hpi : In (proj i) (projs (insts (ct s)))) by (apply in_projs; exists i; split; [eapply find_inst_in; eauto|reflexivity]).
    assert (Hih : i_height i = h) by (eapply find_inst_height; eauto).
    split; [exact V'|]. split.
    + rewrite Hh. intros [st [sp Hin]] Hnz. destruct (P' _ Hin) as [Ho|[E S]].
      * apply (current_keeps (ct s) (store s) _ _ h I2 I2' Hh Hhi). apply D; eauto.
      * injection E as Eh Est' Esp'.
        assert (Hrun : rn s = RRunning h).
        { destruct (R h (i_decided i)) as [Hz|Hr]; [|lia|exact Hr].
          unfold proj in Hpi. rewrite Hih, Hst, Hsp in Hpi. exact Hpi. }
        destruct (S Hrun ltac:(lia)) as [rec [A B0]]. exists rec. split; [exact A|]. rewrite Hh. congruence.
    + intros h0 d0 Hin. rewrite Hrn. destruct (P' _ Hin) as [Ho|[E _]]; [eauto|].
      injection E as E1 E2 E3 E4. subst h0 d0. apply (R h (i_decided i)).
      unfold proj in Hpi. rewrite Hih, Hst, Hsp in Hpi. exact Hpi.
  - inversion Est; subst s' r. apply inv3_restart.
Qed.

Lemma init_inv3 : forall f, inv3 (init f).
Proof.
  intros f. split; [|split]; simpl.
  - intros x n Hx. discriminate.
  - intros [st [sp []]].
  - intros h d [].
Qed.

Lemma grun_inv3 : forall ops s g s' g',
  inv s g -> inv3 s -> grun (s, g) ops = (s', g') -> inv s' g' /\ inv3 s'.
Proof.
  induction ops as [|o tl IH]; intros s g s' g' Hinv H3 Hr.
  - inversion Hr; subst. auto.
  - rewrite grun_cons in Hr. destruct (gstep (s, g) o) as [s1 g1] eqn:Eg.
    destruct (gstep_inv _ _ _ _ _ Hinv Eg) as [H1 _].
    pose proof (gstep_inv3 _ _ _ _ _ Hinv H3 Eg) as H4.
    eapply IH; eauto.
Qed.

Lemma reach_inv3 : forall f ops, exists g, inv (run (init f) ops) g /\ inv3 (run (init f) ops).
Proof.
  intros f ops. destruct (grun (init f, []) ops) as [s g] eqn:Eg.
  assert (s = run (init f) ops) by (rewrite <- (grun_fst ops (init f) []), Eg; reflexivity). subst s.
  exists g. eapply grun_inv3; eauto; [apply init_inv|apply init_inv3].
Qed.

(* ---- persistence ----------------------------------------------------------------------------------------- *)

(* the invariant itself: a decided instance of the controller's own height is what the store holds *)
Lemma decided_current_is_stored : forall f ops s i,
  run (init f) ops = s ->
  find_inst (insts (ct s)) (height (ct s)) = Some i -> i_decided i = true -> height (ct s) <> 0 ->
  exists rec, highest (store s) = Some rec /\ st_height rec = height (ct s).
Proof.
  intros f ops s i Hr Hf Hd Hnz. destruct (reach_inv3 f ops) as [g [_ [_ [D _]]]]. rewrite Hr in D.
  apply D; auto. exists (i_started i), (i_stopped i). apply in_projs. exists i.
  split; [eapply find_inst_in; eauto|]. unfold proj. rewrite Hd. erewrite find_inst_height; eauto.
Qed.

(* a valid decided message for a height not below the controller's is stored as highest (or was
   already), unless the height is 0 or a full node finds only a historical record of it *)
Lemma decided_is_persisted : forall f ops s h m l s' r,
  run (init f) ops = s -> step s (ODecided h m true l) = (s', r) ->
  height (ct s) <= h -> h <> 0 ->
  (full f = false \/ find_inst (insts (ct s)) h <> None \/ lookup (history (store s)) h = None) ->
  exists rec, highest (store s') = Some rec /\ st_height rec = h.
Proof.
  intros f ops s h m l s' r Hr Hs Hge Hnz Hy.
  destruct (reach_inv3 f ops) as [g [Hinv H3]]. rewrite Hr in Hinv, H3.
  assert (Hcf : cf s = f).
  { destruct (grun (init f, []) ops) as [s0 g0] eqn:Eg.
    destruct (grun_inv _ _ _ _ _ (init_inv f) Eg) as [_ Hc].
    assert (s0 = s) by (rewrite <- Hr, <- (grun_fst ops (init f) []), Eg; reflexivity). subst s0. exact Hc. }
  assert (Hg : gstep (s, g) (ODecided h m true l) = (s', h :: g)).
  { unfold gstep. rewrite Hs. reflexivity. }
  pose proof (gstep_inv3 _ _ _ _ _ Hinv H3 Hg) as [_ [D' _]].
  simpl in Hs.
  pose proof (process_decided_spec _ _ _ _ _ _ _ (proj1 Hinv) Hs) as [_ [_ [Hh _]]].
  eapply process_decided_proj in Hs; [|exact Hinv|apply H3]. destruct Hs as [_ [_ [_ F]]].
  assert (Hh' : height (ct s') = h) by lia.
  destruct F as [i [Hf Hd]]; [rewrite Hcf; tauto|exact Hge|].
  assert (Hc : current (ct s') (store s')).
  { apply D'; [|lia]. exists (i_started i), (i_stopped i). apply in_projs. exists i.
    split; [eapply find_inst_in; eauto|]. unfold proj. rewrite Hd, Hh'. erewrite find_inst_height; eauto. }
  destruct Hc as [rec [A B0]]. exists rec. split; [exact A|congruence].
Qed.

(* a local decision of an instance not below the controller height (other than 0) is stored *)
Lemma local_is_persisted : forall f ops s h sg s',
  run (init f) ops = s -> step s (OLocal h sg) = (s', LDone true) ->
  height (ct s) <= h -> h <> 0 ->
  exists rec, highest (store s') = Some rec /\ st_height rec = h.
Proof.
  intros f ops s h sg s' Hr Hs Hge Hnz.
  destruct (reach_inv3 f ops) as [g [Hinv H3]]. rewrite Hr in Hinv, H3.
  assert (Hg : gstep (s, g) (OLocal h sg) = (s', h :: g)).
  { unfold gstep. rewrite Hs. reflexivity. }
  pose proof (gstep_inv3 _ _ _ _ _ Hinv H3 Hg) as [_ [D' _]].
  destruct (gstep_inv _ _ _ _ _ Hinv Hg) as [Hinv' _].
  simpl in Hs. pose proof (process_local_spec _ _ _ _ _ (proj1 Hinv) Hs) as [_ [Hh [_ [_ Hl]]]].
  specialize (Hl eq_refl). assert (Hh' : height (ct s') = h) by lia.
  unfold process_local in Hs.
  destruct (find_inst (insts (ct s)) h) as [i|] eqn:Ef; [|discriminate].
  destruct (local_ready i); [|discriminate]. inversion Hs as [[Es Ed]]. rewrite Es in Ed.
  unfold is_decided_at in Ed. destruct (find_inst (insts (ct s')) h) as [j|] eqn:Ej; [|discriminate].
  assert (Hc : current (ct s') (store s')).
  { apply D'; [|lia]. exists (i_started j), (i_stopped j). apply in_projs. exists j.
    split; [eapply find_inst_in; eauto|]. unfold proj. rewrite Ed, Hh'. erewrite find_inst_height; eauto. }
  destruct Hc as [rec [A B0]]. exists rec. rewrite Es. split; [exact A|congruence].
Qed.
