(* Lemmas about Ctrl/Model.v (C15). *)
From Coq Require Import List NArith Bool Arith Lia.
From SSV Require Import Gen.CtrlConsts Ctrl.Model.
Import ListNotations.
Local Open Scope N_scope.

(* The container holds at least one instance (true of the constant in types.go; a capacity of 0
   would make LoadHighestInstance forget the instance it loads). *)
Lemma capacity_pos : (1 <= capacity)%nat.
Proof. unfold capacity. vm_compute. lia. Qed.

(* ---- lists of instances ---------------------------------------------------------------------------- *)

Lemma find_inst_height : forall l h i, find_inst l h = Some i -> i_height i = h.
Proof.
  induction l as [|x tl IH]; simpl; intros h i H; [discriminate|].
  destruct (N.eqb_spec (i_height x) h); [now inversion H; subst|auto].
Qed.

Lemma find_inst_in : forall l h i, find_inst l h = Some i -> In i l.
Proof.
  induction l as [|x tl IH]; simpl; intros h i H; [discriminate|].
  destruct (N.eqb (i_height x) h); [inversion H; auto|eauto].
Qed.

Lemma in_ins : forall l i x, In x (ins l i) -> x = i \/ In x l.
Proof.
  induction l as [|y tl IH]; simpl; intros i x H.
  - destruct H as [H|[]]; auto.
  - destruct (N.ltb (i_height y) (i_height i)); simpl in H.
    + destruct H as [H|[H|H]]; auto.
    + destruct H as [H|H]; auto. apply IH in H. tauto.
Qed.

Lemma in_firstn : forall (A : Type) n (l : list A) x, In x (firstn n l) -> In x l.
Proof.
  induction n; simpl; intros l x H; [contradiction|].
  destruct l; simpl in *; [contradiction|]. destruct H; auto.
Qed.

Lemma in_add_new : forall l i x, In x (add_new l i) -> x = i \/ In x l.
Proof. unfold add_new. intros l i x H. apply in_firstn in H. now apply in_ins. Qed.

Lemma in_update_first : forall l i' x, In x (update_first l i') -> x = i' \/ In x l.
Proof.
  induction l as [|y tl IH]; simpl; intros i' x H; [contradiction|].
  destruct (N.eqb (i_height y) (i_height i')); simpl in H.
  - destruct H; auto.
  - destruct H as [H|H]; auto. apply IH in H. tauto.
Qed.

Lemma add_new_nil : forall i, add_new [] i = [i].
Proof.
  intros i. unfold add_new. simpl. pose proof capacity_pos.
  destruct capacity; [lia|]. simpl. now destruct n.
Qed.

(* ---- the order on stored certificates ------------------------------------------------------------------ *)

Lemma better_trans : forall a b c, better a b -> better b c -> better a c.
Proof. unfold better. intros a b c H1 H2. lia. Qed.

Lemma mono_trans : forall a b c, mono a b -> mono b c -> mono a c.
Proof.
  unfold mono. intros a b c [->|H1] [->|H2]; auto.
  right. eapply better_trans; eauto.
Qed.

Lemma omono_refl : forall a, omono a a.
Proof. destruct a; simpl; eauto. exists s. split; auto. now left. Qed.

Lemma omono_trans : forall a b c, omono a b -> omono b c -> omono a c.
Proof.
  destruct a as [a|]; simpl; auto. intros b c [b' [-> H1]] H2. simpl in H2.
  destruct H2 as [c' [-> H2]]. exists c'. split; auto. eapply mono_trans; eauto.
Qed.

(* ---- the invariant of controller + store ------------------------------------------------------------- *)

Definition sig_len (r : stored) : nat := length (c_signers (st_msg r)).

(* every held instance is at or below B; the stored highest instance is at or below B and the
   controller remembers its height and signer count *)
Definition cinvb (B : N) (c : ctrl) (d : db) : Prop :=
  (forall i, In i (insts c) -> i_height i <= B) /\
  (forall r, highest d = Some r -> st_height r <= B /\ saved c = Some (st_height r, sig_len r)).

Definition cinv (c : ctrl) (d : db) : Prop := cinvb (height c) c d.

Lemma cinvb_weaken : forall B B' c d, B <= B' -> cinvb B c d -> cinvb B' c d.
Proof.
  intros B B' c d Hle [H1 H2]. split.
  - intros i Hi. specialize (H1 i Hi). lia.
  - intros r Hr. destruct (H2 r Hr). split; auto. lia.
Qed.

Lemma compact_height : forall i, i_height (compact i) = i_height i.
Proof. reflexivity. Qed.

(* SaveInstance *)
Lemma save_instance_spec : forall f B c d i h m c' d',
  cinvb B c d -> i_height i = h -> h <= B ->
  save_instance f c d i h m = (c', d') ->
  cinvb B c' d' /\ height c' = height c /\ insts c' = insts c /\
  (fixed f = true -> (forall r, highest d = Some r -> st_height r <= height c) ->
   omono (highest d) (highest d')).
Proof.
  intros f B c d i h m c' d' [H1 H2] Hi HB Hs. unfold save_instance in Hs.
  destruct (is_highest f c h m) eqn:Ehi.
  - set (rn := {| st_inst := compact i; st_msg := m |}) in *.
    assert (Hnew : forall r, Some rn = Some r ->
              st_height r <= B /\ Some (h, length (c_signers m)) = Some (st_height r, sig_len r)).
    { intros r Hr. inversion Hr; subst r. unfold st_height, sig_len, rn. simpl. rewrite Hi.
      split; [lia|reflexivity]. }
    assert (Hmono : fixed f = true -> (forall r, highest d = Some r -> st_height r <= height c) ->
              omono (highest d) (Some rn)).
    { intros Hfix Hle. destruct (highest d) as [old|] eqn:Eo; simpl; auto.
      exists rn. split; [reflexivity|]. right.
      unfold is_highest in Ehi. rewrite Hfix in Ehi. simpl in Ehi.
      apply andb_true_iff in Ehi. destruct Ehi as [E1 E2]. apply N.leb_le in E1.
      apply negb_true_iff in E2. unfold weaker in E2.
      destruct (H2 old eq_refl) as [_ Hsv]. rewrite Hsv in E2.
      specialize (Hle old eq_refl). unfold better.
      assert (Hrn : st_height rn = h) by (unfold st_height, rn; simpl; exact Hi).
      rewrite Hrn.
      destruct (N.eqb_spec (st_height old) h) as [Eh|Eh]; simpl in E2.
      - right. split; [exact Eh|]. apply Nat.leb_gt in E2. exact E2.
      - left. lia. }
    destruct (full f); inversion Hs; subst c' d'; simpl;
      (split; [split; [exact H1|exact Hnew]|split; [reflexivity|split; [reflexivity|exact Hmono]]]).
  - destruct (full f); inversion Hs; subst c' d'; simpl;
      (split; [split; [exact H1|exact H2]|split; [reflexivity|split; [reflexivity|intros _ _; apply omono_refl]]]).
Qed.

Lemma compact_at_spec : forall B c d h, cinvb B c d -> cinvb B (compact_at c h) d /\ height (compact_at c h) = height c.
Proof.
  intros B c d h [H1 H2]. unfold compact_at.
  destruct (find_inst (insts c) h) as [i|] eqn:E; simpl; [|split; [split|]; auto].
  split; [split|]; auto. simpl.
  intros x Hx. apply in_update_first in Hx. destruct Hx as [->|Hx]; auto.
  rewrite compact_height. apply H1. eapply find_inst_in; eauto.
Qed.

(* UponDecided *)
Lemma upon_decided_spec : forall f c d h m c3 d2 ret,
  cinv c d -> upon_decided f c d h m = (c3, d2, ret) ->
  cinv c3 d2 /\ height c3 = N.max (height c) h /\
  (fixed f = true -> omono (highest d) (highest d2)).
Proof.
  intros f c d h m c3 d2 ret Hinv Hu. unfold upon_decided in Hu.
  set (B := N.max (height c) h).
  assert (HB : cinvb B c d) by (eapply cinvb_weaken; [|exact Hinv]; unfold B; lia).
  destruct Hinv as [I3 I2].
  (* the instance list after the message *)
  match type of Hu with (let '(l', save) := ?X in _) = _ => remember X as ls eqn:Els end.
  destruct ls as [l' save].
  assert (Hl' : forall x, In x l' -> i_height x <= B).
  { destruct (instance_for_height f c d h) as [[i mem]|] eqn:Ef.
    - assert (Hih : mem = true -> i_height i = h /\ In i (insts c)).
      { intros ->. unfold instance_for_height in Ef.
        destruct (find_inst (insts c) h) as [i0|] eqn:E0.
        - inversion Ef; subst. split; [eapply find_inst_height|eapply find_inst_in]; eauto.
        - destruct (full f); [|discriminate]. destruct (lookup (history d) h); discriminate. }
      assert (Hc : forall x, In x (insts c) -> i_height x <= B) by (intros x Hx; specialize (I3 x Hx); unfold B; lia).
      destruct (negb (i_decided i)).
      + inversion Els; subst l' save. destruct mem; auto.
        intros x Hx. apply in_update_first in Hx. destruct Hx as [->|Hx]; auto.
        simpl. destruct (Hih eq_refl) as [-> _]. unfold B; lia.
      + destruct (Nat.ltb _ _); inversion Els; subst l' save; auto.
        destruct mem; auto.
        intros x Hx. apply in_update_first in Hx. destruct Hx as [->|Hx]; auto.
        simpl. destruct (Hih eq_refl) as [-> _]. unfold B; lia.
    - inversion Els; subst l' save. intros x Hx. apply in_add_new in Hx.
      destruct Hx as [->|Hx]; [simpl; unfold B; lia|]. specialize (I3 x Hx). unfold B; lia. }
  clear Els.
  set (c1 := set_insts c l') in *.
  assert (H1 : cinvb B c1 d).
  { split; [exact Hl'|]. intros r Hr. destruct HB as [_ HB2]. now apply HB2. }
  (* the save *)
  match type of Hu with (let '(c2, d2) := ?X in _) = _ => remember X as cd eqn:Ecd end.
  destruct cd as [c2 d2'].
  assert (H2 : cinvb B c2 d2' /\ height c2 = height c /\
               (fixed f = true -> omono (highest d) (highest d2'))).
  { destruct save.
    - destruct (find_inst l' h) as [i|] eqn:Ei.
      + symmetry in Ecd.
        eapply save_instance_spec in Ecd; [|exact H1|eapply find_inst_height; eauto|unfold B; lia].
        destruct Ecd as [Ha [Hb [_ Hd]]]. split; [exact Ha|]. split; [exact Hb|].
        intros Hfix. apply Hd; auto. intros r Hr. simpl. now apply I2.
      + inversion Ecd; subst. split; [exact H1|]. split; [reflexivity|]. intros _. apply omono_refl.
    - inversion Ecd; subst. split; [exact H1|]. split; [reflexivity|]. intros _. apply omono_refl. }
  clear Ecd. destruct H2 as [H2 [Hh Hm]].
  inversion Hu; subst c3 d2 ret; clear Hu.
  destruct (N.ltb_spec (height c) h) as [Hlt|Hge].
  - assert (EB : B = h) by (unfold B; lia). split; [|split].
    + unfold cinv. simpl. rewrite <- EB. destruct H2 as [Ha Hb]. split; auto.
    + simpl. lia.
    + exact Hm.
  - assert (EB : B = height c) by (unfold B; lia). split; [|split].
    + unfold cinv. rewrite Hh, <- EB. exact H2.
    + lia.
    + exact Hm.
Qed.

(* StartNewInstance *)
Lemma start_new_instance_spec : forall c d h c' r,
  cinv c d -> start_new_instance c h = (c', r) ->
  cinv c' d /\
  (r = SOk -> height c' = h /\ height c <= h /\ find_inst (insts c) h = None) /\
  (r <> SOk -> c' = c).
Proof.
  intros c d h c' r [I3 I2] Hs. unfold start_new_instance in Hs.
  destruct (N.ltb_spec h (height c)) as [Hlt|Hge].
  - inversion Hs; subst. split; [split; auto|]. split; [discriminate|auto].
  - destruct (find_inst (insts c) h) as [i|] eqn:Ef.
    + inversion Hs; subst. split; [split; auto|]. split; [discriminate|auto].
    + inversion Hs; subst c' r; clear Hs. split; [|split; [auto|congruence]].
      unfold cinv. simpl. split.
      * intros x Hx. apply in_map_iff in Hx. destruct Hx as [y [Hy Hin]].
        assert (Hyh : i_height x = i_height y) by (subst x; destruct (N.eqb (i_height y) h); reflexivity).
        rewrite Hyh. apply in_add_new in Hin. destruct Hin as [->|Hin]; [simpl; lia|].
        specialize (I3 y Hin). lia.
      * intros r Hr. destruct (I2 r Hr). split; auto. lia.
Qed.

(* ---- the invariant of the whole system, with the instrumentation --------------------------------------- *)

Definition inv (s : sys) (g : list N) : Prop :=
  cinv (ct s) (store s) /\ (forall h, In h g -> h <= height (ct s)).

Lemma keep_id : forall s,
  cinv (ct s) (store s) ->
  cinv (ct s) (store s) /\ height (ct s) = height (ct s) /\ cf s = cf s /\
  (fixed (cf s) = true -> omono (highest (store s)) (highest (store s))).
Proof.
  intros s H. split; [exact H|]. split; [reflexivity|]. split; [reflexivity|]. intros _. apply omono_refl.
Qed.

Lemma runner_save_spec : forall s h m,
  cinv (ct s) (store s) ->
  let s' := runner_save s h m in
  cinv (ct s') (store s') /\ height (ct s') = height (ct s) /\ cf s' = cf s /\
  (fixed (cf s) = true -> omono (highest (store s)) (highest (store s'))).
Proof.
  intros s h m Hinv. unfold runner_save.
  destruct (find_inst (insts (ct s)) h) as [i|] eqn:Ef.
  - destruct (save_instance (cf s) (ct s) (store s) i h m) as [c' d'] eqn:Es. simpl.
    assert (Hh : i_height i = h) by (eapply find_inst_height; eauto).
    assert (Hle : h <= height (ct s)).
    { destruct Hinv as [I3 _]. rewrite <- Hh. apply I3. eapply find_inst_in; eauto. }
    eapply save_instance_spec in Es; [|exact Hinv|exact Hh|exact Hle].
    destruct Es as [Ha [Hb [_ Hd]]]. split; [unfold cinv; rewrite Hb; exact Ha|].
    split; [exact Hb|]. split; [reflexivity|].
    intros Hfix. apply Hd; auto. intros r Hr. destruct Hinv as [_ I2]. now apply I2.
  - simpl. split; [exact Hinv|]. split; [reflexivity|]. split; [reflexivity|]. intros _. apply omono_refl.
Qed.

Lemma runner_decided_spec : forall s h m s' r,
  cinv (ct s) (store s) -> runner_decided s h m = (s', r) ->
  cinv (ct s') (store s') /\ height (ct s') = height (ct s) /\ cf s' = cf s /\
  (fixed (cf s) = true -> omono (highest (store s)) (highest (store s'))).
Proof.
  intros s h m s' r Hinv Hr. unfold runner_decided in Hr.
  pose proof (keep_id s Hinv) as Hid.
  destruct (rn s) as [| |rh]; try (inversion Hr; subst; exact Hid).
  destruct (N.eqb rh h); inversion Hr; subst; [|exact Hid].
  now apply runner_save_spec.
Qed.

Lemma process_decided_spec : forall s h m v l s' r,
  cinv (ct s) (store s) -> process_decided s h m v l = (s', r) ->
  cinv (ct s') (store s') /\ cf s' = cf s /\
  height (ct s') = (if v then N.max (height (ct s)) h else height (ct s)) /\
  (fixed (cf s) = true -> omono (highest (store s)) (highest (store s'))).
Proof.
  intros s h m v l s' r Hinv Hp. unfold process_decided in Hp.
  destruct v; simpl in Hp.
  - destruct (upon_decided (cf s) (ct s) (store s) h m) as [[c1 d1] ret] eqn:Eu.
    apply upon_decided_spec in Eu; auto. destruct Eu as [Hc1 [Hh1 Hm1]].
    destruct (compact_at_spec (height c1) c1 d1 h Hc1) as [Hc2 Hh2].
    set (s1 := set_ct_db s (compact_at c1 h) d1) in *.
    assert (Hs1 : cinv (ct s1) (store s1)) by (unfold cinv; simpl; rewrite Hh2; exact Hc2).
    destruct ret.
    + apply runner_decided_spec in Hp; auto. destruct Hp as [Ha [Hb [Hc Hd]]].
      split; [exact Ha|]. split; [rewrite Hc; reflexivity|]. split.
      * rewrite Hb. simpl. rewrite Hh2. exact Hh1.
      * intros Hfix. eapply omono_trans; [apply Hm1; exact Hfix|]. apply Hd. exact Hfix.
    + inversion Hp; subst s' r. split; [exact Hs1|]. split; [reflexivity|]. split.
      * simpl. rewrite Hh2. exact Hh1.
      * exact Hm1.
  - inversion Hp; subst s' r; clear Hp.
    destruct l; simpl.
    + destruct (compact_at_spec (height (ct s)) (ct s) (store s) h Hinv) as [Hc Hh].
      split; [unfold cinv; rewrite Hh; exact Hc|]. split; [reflexivity|]. split; [exact Hh|].
      intros _. apply omono_refl.
    + split; [exact Hinv|]. split; [reflexivity|]. split; [reflexivity|]. intros _. apply omono_refl.
Qed.

Lemma commit_step_spec : forall s h x,
  cinv (ct s) (store s) ->
  let s' := commit_step s h x in
  cinv (ct s') (store s') /\ height (ct s') = height (ct s) /\ cf s' = cf s /\
  (fixed (cf s) = true -> omono (highest (store s)) (highest (store s'))).
Proof.
  intros s h x Hinv. unfold commit_step.
  pose proof (keep_id s Hinv) as Hid.
  destruct (find_inst (insts (ct s)) h) as [i|] eqn:Ef; [|exact Hid].
  destruct (existsb _ _); [exact Hid|].
  set (i1 := add_commit i {| c_round := 1; c_signers := [x] |}).
  set (q := Nat.leb (quorum (cf s)) (length (longest_unique (i_commits i1) 1))).
  set (i2 := if q then set_decided i1 else i1).
  set (s1 := set_ct s (set_insts (ct s) (update_first (insts (ct s)) i2))).
  assert (Hi2 : i_height i2 = h).
  { unfold i2. destruct q; simpl; eapply find_inst_height; eauto. }
  assert (Hs1 : cinv (ct s1) (store s1)).
  { destruct Hinv as [I3 I2]. split; simpl; auto.
    intros y Hy. apply in_update_first in Hy. destruct Hy as [->|Hy]; auto.
    rewrite Hi2. erewrite <- (find_inst_height _ _ _ Ef). apply I3. eapply find_inst_in; eauto. }
  destruct (q && negb (i_decided i)).
  - destruct (runner_decided s1 h {| c_round := 1; c_signers := longest_unique (i_commits i1) 1 |}) as [s2 r] eqn:Er.
    simpl. apply runner_decided_spec in Er; auto.
  - apply (keep_id s1 Hs1).
Qed.

Lemma commit_fold_spec : forall sg s h,
  cinv (ct s) (store s) ->
  let s' := fold_left (fun a x => commit_step a h x) sg s in
  cinv (ct s') (store s') /\ height (ct s') = height (ct s) /\ cf s' = cf s /\
  (fixed (cf s) = true -> omono (highest (store s)) (highest (store s'))).
Proof.
  induction sg as [|x tl IH]; intros s h Hinv; simpl.
  - apply keep_id; exact Hinv.
  - destruct (commit_step_spec s h x Hinv) as [Ha [Hb [Hc Hd]]].
    destruct (IH (commit_step s h x) h Ha) as [Ha' [Hb' [Hc' Hd']]].
    split; [exact Ha'|]. split; [congruence|]. split; [congruence|].
    intros Hfix. eapply omono_trans; [apply Hd; exact Hfix|]. apply Hd'. congruence.
Qed.

Lemma process_local_spec : forall s h sg s' r,
  cinv (ct s) (store s) -> process_local s h sg = (s', r) ->
  cinv (ct s') (store s') /\ height (ct s') = height (ct s) /\ cf s' = cf s /\
  (fixed (cf s) = true -> omono (highest (store s)) (highest (store s'))) /\
  (r = LDone true -> h <= height (ct s)).
Proof.
  intros s h sg s' r Hinv Hp. unfold process_local in Hp.
  assert (Hid : cinv (ct s) (store s) /\ height (ct s) = height (ct s) /\ cf s = cf s /\
                (fixed (cf s) = true -> omono (highest (store s)) (highest (store s))) /\
                (LSkip = LDone true -> h <= height (ct s))).
  { destruct (keep_id s Hinv) as [A [B0 [C D]]]. split; [exact A|]. split; [exact B0|]. split; [exact C|].
    split; [exact D|discriminate]. }
  destruct (find_inst (insts (ct s)) h) as [i|] eqn:Ef; [|inversion Hp; subst; exact Hid].
  destruct (local_ready i); [|inversion Hp; subst; exact Hid].
  inversion Hp; subst s' r; clear Hp.
  destruct (commit_fold_spec sg s h Hinv) as [Ha [Hb [Hc Hd]]].
  split; [exact Ha|]. split; [exact Hb|]. split; [exact Hc|]. split; [exact Hd|].
  intros _. destruct Hinv as [I3 _]. erewrite <- (find_inst_height _ _ _ Ef). apply I3. eapply find_inst_in; eauto.
Qed.

Lemma start_duty_spec : forall s slot s' r,
  cinv (ct s) (store s) -> start_duty s slot = (s', r) ->
  cinv (ct s') (store s') /\ cf s' = cf s /\ store s' = store s /\
  (r = SOk -> height (ct s') = slot /\ height (ct s) <= slot /\ (height (ct s) < slot \/ height (ct s) = 0) /\
              find_inst (insts (ct s)) slot = None) /\
  (r <> SOk -> ct s' = ct s).
Proof.
  intros s slot s' r Hinv Hs. unfold start_duty in Hs.
  assert (Hkeep : forall e rr, e <> SOk ->
     cinv (ct (set_rn s rr)) (store (set_rn s rr)) /\ cf (set_rn s rr) = cf s /\ store (set_rn s rr) = store s /\
     (e = SOk -> height (ct (set_rn s rr)) = slot /\ height (ct s) <= slot /\
                 (height (ct s) < slot \/ height (ct s) = 0) /\ find_inst (insts (ct s)) slot = None) /\
     (e <> SOk -> ct (set_rn s rr) = ct s)).
  { intros e rr He. simpl. split; [exact Hinv|]. split; [reflexivity|]. split; [reflexivity|].
    split; [intros; contradiction|reflexivity]. }
  destruct (should_process_duty (ct s) slot) eqn:Esp; simpl in Hs.
  - destruct (start_new_instance (ct s) slot) as [c' e] eqn:En.
    apply start_new_instance_spec with (d := store s) in En; auto.
    destruct En as [Hc [Hok Hne]].
    destruct e; inversion Hs; subst s' r; clear Hs;
      try (rewrite (Hne ltac:(discriminate)) in *; apply Hkeep; discriminate).
    destruct (Hok eq_refl) as [H1 [H2 H3]]. simpl.
    split; [exact Hc|]. split; [reflexivity|]. split; [reflexivity|]. split; [|intros; contradiction].
    intros _. split; [exact H1|]. split; [exact H2|]. split; [|exact H3].
    unfold should_process_duty in Esp. apply negb_true_iff in Esp.
    apply andb_false_iff in Esp. destruct Esp as [E|E].
    + apply N.leb_gt in E. now left.
    + apply negb_false_iff in E. apply N.eqb_eq in E. now right.
  - inversion Hs; subst s' r.
    destruct (Hkeep SPassed (rn s) ltac:(discriminate)) as [A [B0 [C [D E]]]].
    destruct s; simpl in *. split; [exact A|]. split; [reflexivity|]. split; [reflexivity|].
    split; [discriminate|reflexivity].
Qed.

Lemma restart_cinv : forall s, cinv (ct (restart s)) (store (restart s)).
Proof.
  intros s. unfold restart. simpl. destruct (highest (store s)) as [r|] eqn:Eh.
  - unfold cinv. simpl. rewrite add_new_nil. split.
    + intros i [<-|[]]. simpl. lia.
    + intros r' Hr. rewrite Eh in Hr. inversion Hr; subst r'. split; [unfold st_height; lia|reflexivity].
  - split; simpl; [contradiction|]. intros r Hr. rewrite Eh in Hr. discriminate.
Qed.

(* one step keeps the invariant, the configuration, and (with the fix) never weakens the store *)
Lemma gstep_inv : forall s g o s' g',
  inv s g -> gstep (s, g) o = (s', g') ->
  inv s' g' /\ cf s' = cf s /\
  (fixed (cf s) = true -> omono (highest (store s)) (highest (store s'))).
Proof.
  intros s g o s' g' [Hc Hg] Hs. unfold gstep in Hs.
  destruct (step s o) as [s1 r] eqn:Est.
  destruct o as [slot|h m v l|h sg|]; simpl in Est.
  - inversion Hs; subst s' g'; clear Hs.
    apply start_duty_spec in Est; auto. destruct Est as [Ha [Hb [Hst [Hok Hne]]]].
    split; [split; [exact Ha|]|split; [exact Hb|]].
    + destruct r; simpl; try (intros h Hh; rewrite (Hne ltac:(discriminate)); auto).
      destruct (Hok eq_refl) as [H1 [H2 _]]. intros h [<-|Hh]; [lia|]. specialize (Hg h Hh). lia.
    + intros _. rewrite Hst. apply omono_refl.
  - inversion Hs; subst s' g'; clear Hs.
    apply process_decided_spec in Est; auto. destruct Est as [Ha [Hb [Hh Hm]]].
    split; [split; [exact Ha|]|split; [exact Hb|exact Hm]].
    destruct v; simpl.
    + intros x [<-|Hx]; rewrite Hh; [lia|]. specialize (Hg x Hx). lia.
    + intros x Hx. rewrite Hh. auto.
  - inversion Hs; subst s' g'; clear Hs.
    apply process_local_spec in Est; auto. destruct Est as [Ha [Hb [Hcf [Hm Hl]]]].
    split; [split; [exact Ha|]|split; [exact Hcf|exact Hm]].
    rewrite Hb. destruct r as [| | | | | | | |[|]|]; simpl; auto.
    intros x [<-|Hx]; auto.
  - inversion Est; subst s1 r; clear Est. inversion Hs; subst s' g'; clear Hs.
    split; [split; [apply restart_cinv|]|split; [reflexivity|]].
    + unfold restart. simpl. destruct (highest (store s)) as [rec|]; simpl; [|contradiction].
      intros h [<-|[]]. unfold st_height. simpl. lia.
    + intros _. simpl. apply omono_refl.
Qed.

Lemma init_inv : forall f, inv (init f) [].
Proof.
  intros f. split; [split|]; simpl; try contradiction. discriminate.
Qed.

Lemma grun_cons : forall sg o tl, grun sg (o :: tl) = grun (gstep sg o) tl.
Proof. reflexivity. Qed.

Lemma grun_inv : forall ops s g s' g',
  inv s g -> grun (s, g) ops = (s', g') -> inv s' g' /\ cf s' = cf s.
Proof.
  induction ops as [|o tl IH]; intros s g s' g' Hinv Hr.
  - inversion Hr; subst. auto.
  - rewrite grun_cons in Hr. destruct (gstep (s, g) o) as [s1 g1] eqn:Eg.
    destruct (gstep_inv _ _ _ _ _ Hinv Eg) as [H1 [H2 _]].
    destruct (IH _ _ _ _ H1 Hr) as [H3 H4]. split; auto. congruence.
Qed.

Lemma gstep_fst : forall s g o, fst (gstep (s, g) o) = fst (step s o).
Proof.
  intros s g o. unfold gstep. destruct (step s o) as [s1 r]. destruct o; reflexivity.
Qed.

Lemma grun_fst : forall ops s g, fst (grun (s, g) ops) = run s ops.
Proof.
  induction ops as [|o tl IH]; intros s g; [reflexivity|].
  rewrite grun_cons. destruct (gstep (s, g) o) as [s1 g1] eqn:E. rewrite IH. simpl.
  rewrite <- (gstep_fst s g o), E. reflexivity.
Qed.

(* ---- (a) no re-run --------------------------------------------------------------------------------------- *)

Lemma no_rerun_step : forall s g slot s',
  inv s g -> step s (OStart slot) = (s', SOk) ->
  forall h, In h g -> h < slot \/ slot = 0.
Proof.
  intros s g slot s' [Hc Hg] Hs h Hh. simpl in Hs.
  apply start_duty_spec in Hs; auto. destruct Hs as [_ [_ [_ [Hok _]]]].
  destruct (Hok eq_refl) as [_ [_ [[Hlt|Hz] _]]]; specialize (Hg h Hh); lia.
Qed.

Lemma no_rerun : forall f ops s g slot s',
  grun (init f, []) ops = (s, g) ->
  step s (OStart slot) = (s', SOk) ->
  forall h, In h g -> h < slot \/ slot = 0.
Proof.
  intros f ops s g slot s' Hr Hs. destruct (grun_inv _ _ _ _ _ (init_inv f) Hr) as [Hinv _].
  eapply no_rerun_step; eauto.
Qed.

(* the stored highest decided height is never started again, in whatever life *)
Lemma stored_not_restarted : forall f ops s slot s' rec,
  run (init f) ops = s ->
  step s (OStart slot) = (s', SOk) ->
  highest (store s) = Some rec -> st_height rec < slot \/ slot = 0.
Proof.
  intros f ops s slot s' rec Hr Hs Hrec.
  destruct (grun (init f, []) ops) as [s0 g] eqn:Eg.
  assert (s0 = s) by (rewrite <- Hr, <- (grun_fst ops (init f) []), Eg; reflexivity). subst s0.
  destruct (grun_inv _ _ _ _ _ (init_inv f) Eg) as [[[_ I2] _] _].
  simpl in Hs. apply start_duty_spec in Hs.
  - destruct Hs as [_ [_ [_ [Hok _]]]]. destruct (Hok eq_refl) as [_ [_ [[Hlt|Hz] _]]];
      destruct (I2 rec Hrec) as [Hle _]; lia.
  - destruct (grun_inv _ _ _ _ _ (init_inv f) Eg) as [[Hc _] _]. exact Hc.
Qed.

(* ---- (b) restart ----------------------------------------------------------------------------------------- *)

Lemma restart_resumes : forall s,
  store (restart s) = store s /\
  match highest (store s) with
  | Some rec =>
      height (ct (restart s)) = st_height rec /\
      forall slot, slot <= st_height rec -> snd (step (restart s) (OStart slot)) <> SOk
  | None => height (ct (restart s)) = 0
  end.
Proof.
  intros s. split; [reflexivity|].
  destruct (highest (store s)) as [rec|] eqn:Eh; unfold restart; rewrite Eh; simpl; [|reflexivity].
  split; [reflexivity|]. intros slot Hle.
  unfold start_duty, should_process_duty. simpl.
  fold (st_height rec). rewrite add_new_nil.
  destruct (N.eqb_spec (st_height rec) 0) as [Ez|Enz].
  - assert (slot = 0) by lia. subst slot. rewrite Ez. simpl.
    unfold start_new_instance. simpl. fold (st_height rec). rewrite Ez. simpl. discriminate.
  - apply N.leb_le in Hle. rewrite Hle. simpl. discriminate.
Qed.

(* ---- (c) the stored highest instance only gets better (tree with the fix) ----------------------------------- *)

Lemma store_monotone : forall f, fixed f = true -> store_monotone_statement f.
Proof.
  intros f Hfix ops s o s' r Hr Hs.
  destruct (grun (init f, []) ops) as [s0 g] eqn:Eg.
  assert (s0 = s) by (rewrite <- Hr, <- (grun_fst ops (init f) []), Eg; reflexivity). subst s0.
  destruct (grun_inv _ _ _ _ _ (init_inv f) Eg) as [Hinv Hcf].
  destruct (gstep (s, g) o) as [s1 g1] eqn:E1.
  assert (s1 = s').
  { unfold gstep in E1. rewrite Hs in E1. destruct o; inversion E1; reflexivity. }
  subst s1. destruct (gstep_inv _ _ _ _ _ Hinv E1) as [_ [_ Hm]]. apply Hm.
  rewrite Hcf. exact Hfix.
Qed.
