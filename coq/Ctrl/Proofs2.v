(* Second layer of lemmas about Ctrl/Model.v (C15): the container stays sorted, the instance of the
   controller's own height is never evicted, and with it the two sharper forms of the theorems:
   no slot-0 exception on light nodes, and none for the stored highest decided height. *)
From Coq Require Import List NArith Bool Arith Lia Sorting.Sorted.
From SSV Require Import Gen.CtrlConsts Ctrl.Model Ctrl.Proofs.
Import ListNotations.
Local Open Scope N_scope.

(* ---- heights of the held instances ---------------------------------------------------------------------- *)

Definition hts (l : list inst) : list N := map i_height l.

Fixpoint insN (l : list N) (h : N) : list N :=
  match l with
  | [] => [h]
  | x :: tl => if N.ltb x h then h :: x :: tl else x :: insN tl h
  end.

Lemma hts_ins : forall l i, hts (ins l i) = insN (hts l) (i_height i).
Proof.
  induction l as [|x tl IH]; simpl; intros i; [reflexivity|].
  destruct (N.ltb (i_height x) (i_height i)); simpl; [reflexivity|]. now rewrite IH.
Qed.

Lemma hts_add_new : forall l i, hts (add_new l i) = firstn capacity (insN (hts l) (i_height i)).
Proof. intros l i. unfold add_new, hts. rewrite <- firstn_map. fold (hts (ins l i)). now rewrite hts_ins. Qed.

Lemma hts_update_first : forall l i', hts (update_first l i') = hts l.
Proof.
  induction l as [|x tl IH]; simpl; intros i'; [reflexivity|].
  destruct (N.eqb_spec (i_height x) (i_height i')); simpl; [congruence|]. now rewrite IH.
Qed.

Lemma find_inst_none : forall l h, find_inst l h = None <-> ~ In h (hts l).
Proof.
  induction l as [|x tl IH]; simpl; intros h; [tauto|].
  destruct (N.eqb_spec (i_height x) h); split; intros H.
  - discriminate.
  - exfalso. apply H. now left.
  - intros [E|E]; [contradiction|]. now apply IH in H.
  - apply IH. intros E. apply H. now right.
Qed.

Lemma find_inst_some_in : forall l h i, find_inst l h = Some i -> In h (hts l).
Proof.
  intros l h i H. destruct (in_dec N.eq_dec h (hts l)) as [Hin|Hn]; auto.
  apply find_inst_none in Hn. congruence.
Qed.

Lemma in_insN : forall l h x, In x (insN l h) <-> x = h \/ In x l.
Proof.
  induction l as [|y tl IH]; simpl; intros h x.
  - split; intros [H|H]; auto; contradiction.
  - destruct (N.ltb y h); simpl; [split; intros H; intuition|].
    rewrite IH. split; intros H; intuition.
Qed.

Definition desc (hs : list N) : Prop := StronglySorted (fun a b => b < a) hs.

Lemma desc_insN : forall hs h, desc hs -> ~ In h hs -> desc (insN hs h).
Proof.
  induction hs as [|x tl IH]; simpl; intros h Hd Hn.
  - constructor; constructor.
  - inversion Hd as [|? ? Htl Hall]; subst.
    destruct (N.ltb_spec x h) as [Hlt|Hge].
    + constructor; [exact Hd|]. constructor; [exact Hlt|].
      rewrite Forall_forall in *. intros y Hy. specialize (Hall y Hy). lia.
    + constructor.
      * apply IH; auto.
      * rewrite Forall_forall in *. intros y Hy. apply in_insN in Hy. destruct Hy as [->|Hy]; auto.
        assert (x <> h) by (intros ->; apply Hn; now left). lia.
Qed.

Lemma desc_firstn : forall n hs, desc hs -> desc (firstn n hs).
Proof.
  induction n; simpl; intros hs Hd; [constructor|].
  destruct hs as [|x tl]; [constructor|]. inversion Hd; subst. constructor; [now apply IHn|].
  rewrite Forall_forall in *. intros y Hy. apply in_firstn in Hy. auto.
Qed.

(* an element that is the maximum of a descending list is its head *)
Lemma top_is_head : forall hs H, desc hs -> (forall x, In x hs -> x <= H) -> In H hs -> exists tl, hs = H :: tl.
Proof.
  intros [|x tl] H Hd Hle Hin; [contradiction|].
  destruct Hin as [->|Hin]; [eauto|].
  inversion Hd as [|? ? _ Hall]; subst. rewrite Forall_forall in Hall. specialize (Hall H Hin).
  specialize (Hle x (or_introl eq_refl)). lia.
Qed.

Lemma keep_top : forall hs H h, desc hs -> (forall x, In x hs -> x <= H) -> In H hs -> h < H ->
  In H (firstn capacity (insN hs h)).
Proof.
  intros hs H h Hd Hle Hin Hlt. destruct (top_is_head hs H Hd Hle Hin) as [tl ->]. simpl.
  destruct (N.ltb_spec H h); [lia|]. pose proof capacity_pos. destruct capacity; [lia|]. now left.
Qed.

Lemma new_top : forall hs h, (forall x, In x hs -> x <= h) -> ~ In h hs -> In h (firstn capacity (insN hs h)).
Proof.
  intros hs h Hle Hn. pose proof capacity_pos.
  destruct hs as [|x tl]; simpl.
  - destruct capacity; [lia|]. now left.
  - assert (x < h). { specialize (Hle x (or_introl eq_refl)). assert (x <> h) by (intros ->; apply Hn; now left). lia. }
    destruct (N.ltb_spec x h); [|lia]. destruct capacity; [lia|]. now left.
Qed.

(* ---- what one operation does to the heights held and to the highest record -------------------------------- *)

(* the highest record is untouched, or now holds a record of height h, an instance of height h is
   held, and the controller height was at most h *)
Definition hi_shape (d d' : db) (c c' : ctrl) (h : N) : Prop :=
  highest d' = highest d \/
  exists r, highest d' = Some r /\ st_height r = h /\ In h (hts (insts c')) /\ height c <= h.

Lemma save_instance_shape : forall f c d i h m c' d',
  i_height i = h -> In h (hts (insts c)) ->
  save_instance f c d i h m = (c', d') ->
  insts c' = insts c /\ height c' = height c /\ hi_shape d d' c c' h.
Proof.
  intros f c d i h m c' d' Hi Hin Hs. unfold save_instance in Hs.
  destruct (is_highest f c h m) eqn:Ehi.
  - assert (Hle : height c <= h).
    { unfold is_highest in Ehi. apply andb_true_iff in Ehi. destruct Ehi as [E _]. now apply N.leb_le in E. }
    destruct (full f); inversion Hs; subst c' d'; simpl; (split; [reflexivity|split; [reflexivity|]]);
      right; eexists; (split; [reflexivity|]); unfold st_height; simpl; auto.
  - destruct (full f); inversion Hs; subst c' d'; simpl; (split; [reflexivity|split; [reflexivity|]]); now left.
Qed.

Lemma hts_compact_at : forall c h, hts (insts (compact_at c h)) = hts (insts c) /\ height (compact_at c h) = height c.
Proof.
  intros c h. unfold compact_at. destruct (find_inst (insts c) h); simpl; auto.
  now rewrite hts_update_first.
Qed.

Definition hts_shape (f : cfg) (d : db) (hs hs' : list N) (h : N) : Prop :=
  (hs' = hs /\ (In h hs \/ (full f = true /\ lookup (history d) h <> None))) \/
  (hs' = firstn capacity (insN hs h) /\ ~ In h hs /\ (full f = false \/ lookup (history d) h = None)).

Lemma upon_decided_shape : forall f c d h m c3 d2 ret,
  upon_decided f c d h m = (c3, d2, ret) ->
  hts_shape f d (hts (insts c)) (hts (insts c3)) h /\ hi_shape d d2 c c3 h /\ height c <= height c3.
Proof.
  intros f c d h m c3 d2 ret Hu. unfold upon_decided in Hu.
  match type of Hu with (let '(l', save) := ?X in _) = _ => remember X as ls eqn:Els end.
  destruct ls as [l' save].
  assert (Hsh : hts_shape f d (hts (insts c)) (hts l') h).
  { unfold instance_for_height in Els.
    destruct (find_inst (insts c) h) as [i|] eqn:Ef.
    - assert (Hin : In h (hts (insts c))) by (eapply find_inst_some_in; eauto).
      left. split; [|now left].
      destruct (negb (i_decided i)); [inversion Els; subst; apply hts_update_first|].
      destruct (Nat.ltb _ _); inversion Els; subst; auto. apply hts_update_first.
    - apply find_inst_none in Ef.
      destruct (full f) eqn:Efull.
      + destruct (lookup (history d) h) as [r|] eqn:El.
        * left. split; [|right; split; [exact Efull|congruence]].
          destruct (negb (i_decided (reloaded (st_inst r)))); [inversion Els; subst; reflexivity|].
          destruct (Nat.ltb _ _); inversion Els; subst; reflexivity.
        * right. inversion Els; subst. split; [apply hts_add_new|]. split; [exact Ef|right; exact El].
      + right. inversion Els; subst. split; [apply hts_add_new|]. split; [exact Ef|left; exact Efull]. }
  clear Els.
  match type of Hu with (let '(c2, d2) := ?X in _) = _ => remember X as cd eqn:Ecd end.
  destruct cd as [c2 d2'].
  assert (H2 : insts c2 = l' /\ height c2 = height c /\ hi_shape d d2' c c2 h).
  { destruct save.
    - destruct (find_inst l' h) as [i|] eqn:Ei.
      + symmetry in Ecd. eapply save_instance_shape in Ecd.
        * destruct Ecd as [A [B0 C]]. simpl in A, B0. split; [exact A|]. split; [exact B0|].
          destruct C as [C|[r [C1 [C2 [C3 C4]]]]]; [now left|]. right. exists r. repeat split; auto.
        * eapply find_inst_height; eauto.
        * simpl. eapply find_inst_some_in; eauto.
      + inversion Ecd; subst. simpl. split; [reflexivity|]. split; [reflexivity|]. now left.
    - inversion Ecd; subst. simpl. split; [reflexivity|]. split; [reflexivity|]. now left. }
  clear Ecd. destruct H2 as [Hi [Hh Hs]].
  inversion Hu; subst c3 d2 ret; clear Hu.
  assert (Hins : insts (if N.ltb (height c) h then set_height c2 h else c2) = l')
    by (destruct (N.ltb (height c) h); simpl; exact Hi).
  rewrite Hins. split; [exact Hsh|]. split.
  - destruct Hs as [Hs|[r [A [B0 [C D]]]]]; [now left|].
    right. exists r. repeat split; auto. rewrite Hins. rewrite <- Hi. exact C.
  - destruct (N.ltb_spec (height c) h); simpl; lia.
Qed.

Lemma runner_decided_shape : forall s h m s' r,
  runner_decided s h m = (s', r) ->
  hts (insts (ct s')) = hts (insts (ct s)) /\ height (ct s') = height (ct s) /\ cf s' = cf s /\
  hi_shape (store s) (store s') (ct s) (ct s') h.
Proof.
  intros s h m s' r Hr. unfold runner_decided in Hr.
  assert (Hid : hts (insts (ct s)) = hts (insts (ct s)) /\ height (ct s) = height (ct s) /\ cf s = cf s /\
                hi_shape (store s) (store s) (ct s) (ct s) h) by (repeat split; now left).
  destruct (rn s) as [| |rh]; try (inversion Hr; subst; exact Hid).
  destruct (N.eqb rh h); inversion Hr; subst; [|exact Hid].
  unfold runner_save. destruct (find_inst (insts (ct s)) h) as [i|] eqn:Ef; [|exact Hid].
  destruct (save_instance (cf s) (ct s) (store s) i h m) as [c' d'] eqn:Es. simpl.
  eapply save_instance_shape in Es; [|eapply find_inst_height; eauto|eapply find_inst_some_in; eauto].
  destruct Es as [A [B0 C]]. rewrite A. repeat split; auto.
Qed.

(* the shape of one whole step: heights held, controller height, highest record *)
Definition step_shape (s s' : sys) (h : N) : Prop :=
  hts_shape (cf s) (store s) (hts (insts (ct s))) (hts (insts (ct s'))) h /\
  hi_shape (store s) (store s') (ct s) (ct s') h.

Lemma process_decided_shape : forall s h m l s' r,
  process_decided s h m true l = (s', r) -> step_shape s s' h.
Proof.
  intros s h m l s' r Hp. unfold process_decided in Hp. simpl in Hp.
  destruct (upon_decided (cf s) (ct s) (store s) h m) as [[c1 d1] ret] eqn:Eu.
  apply upon_decided_shape in Eu. destruct Eu as [Hsh [Hhi Hge]].
  destruct (hts_compact_at c1 h) as [Hc Hch].
  set (s1 := set_ct_db s (compact_at c1 h) d1) in *.
  assert (Hhi1 : hi_shape (store s) (store s1) (ct s) (ct s1) h).
  { simpl. destruct Hhi as [E|[r0 [A [B0 [C D]]]]]; [now left|]. right. exists r0. repeat split; auto.
    rewrite Hc. exact C. }
  destruct ret.
  - apply runner_decided_shape in Hp. destruct Hp as [A [B0 [C D]]]. split.
    + rewrite A. simpl. rewrite Hc. exact Hsh.
    + destruct D as [E|[r2 [D1 [D2 [D3 D4]]]]].
      * destruct Hhi1 as [E1|[r1 [A1 [B1 [C1 D1]]]]]; [left; congruence|].
        right. exists r1. repeat split; auto; [congruence|]. rewrite A. exact C1.
      * right. exists r2. repeat split; auto. simpl in D4. rewrite Hch in D4. lia.
  - inversion Hp; subst s' r. split; [simpl; rewrite Hc; exact Hsh|exact Hhi1].
Qed.

Lemma hi_shape_trans : forall d0 d1 d2 c0 c1 c2 h,
  hts (insts c2) = hts (insts c1) -> height c1 = height c0 ->
  hi_shape d0 d1 c0 c1 h -> hi_shape d1 d2 c1 c2 h -> hi_shape d0 d2 c0 c2 h.
Proof.
  intros d0 d1 d2 c0 c1 c2 h Hh Hhe H1 H2. unfold hi_shape in *.
  destruct H2 as [E2|[r2 [A2 [B2 [C2 D2]]]]].
  - destruct H1 as [E1|[r1 [A1 [B1 [C1 D1]]]]].
    + left. congruence.
    + right. exists r1. split; [congruence|]. split; [exact B1|]. split; [rewrite Hh; exact C1|exact D1].
  - right. exists r2. split; [exact A2|]. split; [exact B2|]. split; [exact C2|]. rewrite <- Hhe. exact D2.
Qed.

Lemma hi_shape_refl : forall d c h, hi_shape d d c c h.
Proof. intros. now left. Qed.

Lemma commit_step_shape : forall s h x,
  let s' := commit_step s h x in
  hts (insts (ct s')) = hts (insts (ct s)) /\ height (ct s') = height (ct s) /\
  hi_shape (store s) (store s') (ct s) (ct s') h.
Proof.
  intros s h x. unfold commit_step.
  assert (Hid : hts (insts (ct s)) = hts (insts (ct s)) /\ height (ct s) = height (ct s) /\
                hi_shape (store s) (store s) (ct s) (ct s) h) by (split; [|split]; auto; apply hi_shape_refl).
  destruct (find_inst (insts (ct s)) h) as [i|] eqn:Ef; [|exact Hid].
  destruct (existsb _ _); [exact Hid|].
  set (i1 := add_commit i {| c_round := 1; c_signers := [x] |}).
  set (q := Nat.leb (quorum (cf s)) (length (longest_unique (i_commits i1) 1))).
  set (i2 := if q then set_decided i1 else i1).
  set (s1 := set_ct s (set_insts (ct s) (update_first (insts (ct s)) i2))).
  assert (H1 : hts (insts (ct s1)) = hts (insts (ct s))) by (simpl; apply hts_update_first).
  destruct (q && negb (i_decided i)).
  - destruct (runner_decided s1 h {| c_round := 1; c_signers := longest_unique (i_commits i1) 1 |}) as [s2 r] eqn:Er.
    simpl. apply runner_decided_shape in Er. destruct Er as [A [B0 [_ D]]].
    split; [congruence|]. split; [exact B0|].
    destruct D as [E|[r2 [D1 [D2 [D3 D4]]]]]; [left; exact E|]. right. exists r2.
    split; [exact D1|]. split; [exact D2|]. split; [exact D3|exact D4].
  - split; [exact H1|]. split; [reflexivity|]. left. reflexivity.
Qed.

Lemma commit_fold_shape : forall sg s h,
  let s' := fold_left (fun a x => commit_step a h x) sg s in
  hts (insts (ct s')) = hts (insts (ct s)) /\ height (ct s') = height (ct s) /\
  hi_shape (store s) (store s') (ct s) (ct s') h.
Proof.
  induction sg as [|x tl IH]; intros s h; simpl.
  - split; [|split]; auto. apply hi_shape_refl.
  - destruct (commit_step_shape s h x) as [A [B0 C]].
    destruct (IH (commit_step s h x) h) as [A' [B' C']].
    split; [congruence|]. split; [congruence|].
    eapply hi_shape_trans; eauto.
Qed.

Lemma process_local_shape : forall s h sg s' r,
  process_local s h sg = (s', r) ->
  hts (insts (ct s')) = hts (insts (ct s)) /\ height (ct s') = height (ct s) /\
  hi_shape (store s) (store s') (ct s) (ct s') h /\
  (r = LDone true -> In h (hts (insts (ct s)))).
Proof.
  intros s h sg s' r Hp. unfold process_local in Hp.
  assert (Hid : hts (insts (ct s)) = hts (insts (ct s)) /\ height (ct s) = height (ct s) /\
                hi_shape (store s) (store s) (ct s) (ct s) h /\ (LSkip = LDone true -> In h (hts (insts (ct s))))).
  { split; [|split; [|split]]; auto; [apply hi_shape_refl|discriminate]. }
  destruct (find_inst (insts (ct s)) h) as [i|] eqn:Ef; [|inversion Hp; subst; exact Hid].
  destruct (local_ready i); [|inversion Hp; subst; exact Hid].
  inversion Hp; subst s' r; clear Hp.
  destruct (commit_fold_shape sg s h) as [A [B0 C]].
  split; [exact A|]. split; [exact B0|]. split; [exact C|]. intros _. eapply find_inst_some_in; eauto.
Qed.

Lemma hts_map_stop : forall l h, hts (map (fun x => if N.eqb (i_height x) h then x else stop x) l) = hts l.
Proof.
  induction l as [|x tl IH]; simpl; intros h; [reflexivity|].
  rewrite IH. destruct (N.eqb (i_height x) h); reflexivity.
Qed.

Lemma start_duty_shape : forall s slot s',
  start_duty s slot = (s', SOk) ->
  hts (insts (ct s')) = firstn capacity (insN (hts (insts (ct s))) slot) /\
  ~ In slot (hts (insts (ct s))).
Proof.
  intros s slot s' Hs. unfold start_duty in Hs.
  destruct (should_process_duty (ct s) slot); simpl in Hs; [|discriminate].
  unfold start_new_instance in Hs.
  destruct (N.ltb slot (height (ct s))); [discriminate|].
  destruct (find_inst (insts (ct s)) slot) eqn:Ef; [discriminate|].
  inversion Hs; subst s'; clear Hs. simpl. rewrite hts_map_stop, hts_add_new. simpl.
  split; [reflexivity|]. now apply find_inst_none.
Qed.

(* ---- the second invariant ------------------------------------------------------------------------------ *)

Definition inv2 (s : sys) (g : list N) : Prop :=
  desc (hts (insts (ct s))) /\
  (forall rec, highest (store s) = Some rec -> st_height rec = height (ct s) ->
     In (height (ct s)) (hts (insts (ct s)))) /\
  (full (cf s) = false -> height (ct s) = 0 -> g <> [] -> In 0 (hts (insts (ct s)))).

Lemma in_hts_le : forall s g h, inv s g -> In h (hts (insts (ct s))) -> h <= height (ct s).
Proof.
  intros s g h [[I3 _] _] Hin. unfold hts in Hin. apply in_map_iff in Hin.
  destruct Hin as [i [<- Hi]]. now apply I3.
Qed.

(* preservation for an operation that concerns height h: new heights as hts_shape says, the highest
   record as hi_shape says, the controller height becomes hgt' >= the old one *)
Lemma inv2_step : forall s g s' g' h,
  inv s g -> inv2 s g -> cf s' = cf s ->
  hts_shape (cf s) (store s) (hts (insts (ct s))) (hts (insts (ct s'))) h ->
  hi_shape (store s) (store s') (ct s) (ct s') h ->
  height (ct s) <= height (ct s') -> h <= height (ct s') ->
  inv2 s' g'.
Proof.
  intros s g s' g' h Hinv [S [K L]] Hcf Hsh Hhi Hge Hh.
  assert (Hle : forall x, In x (hts (insts (ct s))) -> x <= height (ct s)) by (intros x; eapply in_hts_le; eauto).
  assert (I2 : forall rec, highest (store s) = Some rec -> st_height rec <= height (ct s)).
  { intros rec Hr. destruct Hinv as [[_ I2] _]. now apply I2. }
  split; [|split].
  - destruct Hsh as [[E _]|[E [Hn _]]]; rewrite E; auto. apply desc_firstn. now apply desc_insN.
  - intros rec' Hr' Heq.
    destruct Hhi as [E|[r [A [B0 [C D]]]]].
    + rewrite E in Hr'. specialize (I2 rec' Hr').
      assert (Hsame : height (ct s') = height (ct s)) by lia.
      rewrite Hsame in *. specialize (K rec' Hr' Heq).
      destruct Hsh as [[E1 _]|[E1 [Hn _]]]; rewrite E1; auto.
      assert (h <> height (ct s)) by (intros ->; contradiction).
      apply keep_top; auto. lia.
    + rewrite A in Hr'. inversion Hr'; subst rec'. rewrite B0 in Heq. rewrite <- Heq. exact C.
  - intros Hlight Hz Hne. rewrite Hcf in Hlight.
    assert (Hz0 : height (ct s) = 0) by lia. assert (Hh0 : h = 0) by lia. subst h.
    destruct Hsh as [[E Hwhy]|[E [Hn _]]]; rewrite E.
    + destruct Hwhy as [Hin|[Hf _]]; [exact Hin|congruence].
    + apply new_top; auto. intros x Hx. specialize (Hle x Hx). lia.
Qed.

(* preservation for an operation that leaves the heights held and the controller height alone *)
Lemma inv2_same : forall s g s' g' h,
  inv s g -> inv2 s g -> cf s' = cf s ->
  hts (insts (ct s')) = hts (insts (ct s)) -> height (ct s') = height (ct s) ->
  hi_shape (store s) (store s') (ct s) (ct s') h ->
  (g' = g \/ (g' = h :: g /\ In h (hts (insts (ct s))))) ->
  inv2 s' g'.
Proof.
  intros s g s' g' h Hinv [S [K L]] Hcf Hh Hhe Hhi Hg.
  split; [|split].
  - now rewrite Hh.
  - intros rec' Hr' Heq. rewrite Hh, Hhe in *.
    destruct Hhi as [E|[r [A [B0 [C D]]]]].
    + rewrite E in Hr'. apply (K rec'); auto.
    + rewrite A in Hr'. inversion Hr'; subst rec'. rewrite Hh in C. rewrite <- Heq, B0. exact C.
  - intros Hlight Hz Hne. rewrite Hh. rewrite Hcf in Hlight. rewrite Hhe in Hz.
    destruct Hg as [->|[-> Hin]]; [now apply L|].
    pose proof (in_hts_le _ _ _ Hinv Hin). assert (h = 0) by lia. now subst h.
Qed.

Lemma inv2_start : forall s g slot s',
  inv s g -> inv2 s g -> start_duty s slot = (s', SOk) -> inv2 s' (slot :: g).
Proof.
  intros s g slot s' Hinv [S [K L]] Hs.
  assert (Hle : forall x, In x (hts (insts (ct s))) -> x <= height (ct s)) by (intros x; eapply in_hts_le; eauto).
  destruct (start_duty_shape _ _ _ Hs) as [Eh Hn].
  apply start_duty_spec in Hs; [|apply Hinv]. destruct Hs as [_ [Hcf [Hst [Hok _]]]].
  destruct (Hok eq_refl) as [H1 [H2 [H3 H4]]].
  split; [|split].
  - rewrite Eh. apply desc_firstn. now apply desc_insN.
  - intros rec Hr Heq. rewrite Hst in Hr. rewrite H1 in *.
    destruct Hinv as [[_ I2] _]. destruct (I2 rec Hr) as [Hle2 _].
    assert (height (ct s) = slot) by lia.
    exfalso. apply Hn. rewrite <- H. apply (K rec); auto. lia.
  - intros _ Hz _. assert (Es : slot = 0) by congruence. rewrite Eh, Es in *.
    apply new_top; auto. intros x Hx. specialize (Hle x Hx). lia.
Qed.

Lemma inv2_restart : forall s,
  inv2 (restart s) (match highest (store s) with Some rec => [st_height rec] | None => [] end).
Proof.
  intros s. unfold restart. destruct (highest (store s)) as [rec|] eqn:Eh; simpl.
  - rewrite add_new_nil. simpl. split; [|split].
    + constructor; constructor.
    + intros _ _ _. now left.
    + intros _ Hz _. left. exact Hz.
  - split; [constructor|]. split; [intros rec Hr; simpl in Hr; rewrite Eh in Hr; discriminate|]. intros _ _ Hne. contradiction.
Qed.

Lemma gstep_inv2 : forall s g o s' g',
  inv s g -> inv2 s g -> gstep (s, g) o = (s', g') -> inv2 s' g'.
Proof.
  intros s g o s' g' Hinv Hinv2 Hs. unfold gstep in Hs.
  destruct (step s o) as [s1 r] eqn:Est.
  destruct o as [slot|h m v l|h sg|]; simpl in Est.
  - inversion Hs; subst s' g'; clear Hs.
    destruct r; simpl; try (
      pose proof (start_duty_spec _ _ _ _ (proj1 Hinv) Est) as [_ [Hcf [Hst [_ Hne]]]];
      specialize (Hne ltac:(discriminate));
      apply (inv2_same s g s1 g 0 Hinv Hinv2 Hcf); [now rewrite Hne|now rewrite Hne|left; now rewrite Hst|now left]).
    apply (inv2_start s g slot s1 Hinv Hinv2 Est).
  - inversion Hs; subst s' g'; clear Hs.
    pose proof (process_decided_spec _ _ _ _ _ _ _ (proj1 Hinv) Est) as [_ [Hcf [Hh _]]].
    destruct v; simpl.
    + apply process_decided_shape in Est. destruct Est as [Hsh Hhi].
      apply (inv2_step s g s1 (h :: g) h Hinv Hinv2 Hcf Hsh Hhi); rewrite Hh; lia.
    + unfold process_decided in Est. simpl in Est. inversion Est; subst s1 r; clear Est.
      destruct l.
      * destruct (hts_compact_at (ct s) h) as [A B0].
        apply (inv2_same s g _ g 0 Hinv Hinv2); simpl; auto. now left.
      * apply (inv2_same s g s g 0 Hinv Hinv2); auto. now left.
  - inversion Hs; subst s' g'; clear Hs.
    pose proof (process_local_spec _ _ _ _ _ (proj1 Hinv) Est) as [_ [_ [Hcf _]]].
    apply process_local_shape in Est. destruct Est as [A [B0 [C D]]].
    apply (inv2_same s g s1 _ h Hinv Hinv2 Hcf A B0 C).
    destruct r as [| | | | | | | |[|]|]; simpl; auto.
  - inversion Est; subst s1 r; clear Est. inversion Hs; subst s' g'; clear Hs. apply inv2_restart.
Qed.

Lemma init_inv2 : forall f, inv2 (init f) [].
Proof.
  intros f. split; [constructor|]. split; [intros rec Hr; discriminate|]. intros _ _ Hne. contradiction.
Qed.

Lemma grun_inv2 : forall ops s g s' g',
  inv s g -> inv2 s g -> grun (s, g) ops = (s', g') -> inv s' g' /\ inv2 s' g' /\ cf s' = cf s.
Proof.
  induction ops as [|o tl IH]; intros s g s' g' Hinv Hinv2 Hr.
  - inversion Hr; subst. auto.
  - rewrite grun_cons in Hr. destruct (gstep (s, g) o) as [s1 g1] eqn:Eg.
    destruct (gstep_inv _ _ _ _ _ Hinv Eg) as [H1 [H2 _]].
    pose proof (gstep_inv2 _ _ _ _ _ Hinv Hinv2 Eg) as H3.
    destruct (IH _ _ _ _ H1 H3 Hr) as [H4 [H5 H6]]. split; auto. split; auto. congruence.
Qed.

(* ---- the sharper theorems ------------------------------------------------------------------------------- *)

(* (a) without the slot-0 exception, for light nodes *)
Lemma no_rerun_light : forall f ops s g slot s',
  full f = false ->
  grun (init f, []) ops = (s, g) ->
  step s (OStart slot) = (s', SOk) ->
  forall h, In h g -> h < slot.
Proof.
  intros f ops s g slot s' Hlight Hr Hs h Hh.
  destruct (grun_inv2 _ _ _ _ _ (init_inv f) (init_inv2 f) Hr) as [Hinv [[_ [_ L]] Hcf]].
  destruct (no_rerun_step _ _ _ _ Hinv Hs h Hh) as [Hlt|Hz]; [exact Hlt|]. subst slot.
  simpl in Hs. destruct (start_duty_shape _ _ _ Hs) as [_ Hn].
  apply start_duty_spec in Hs; [|apply Hinv]. destruct Hs as [_ [_ [_ [Hok _]]]].
  destruct (Hok eq_refl) as [_ [H2 _]].
  exfalso. apply Hn. apply L.
  - rewrite Hcf. exact Hlight.
  - lia.
  - intros ->. contradiction.
Qed.

(* (b) without exception: no duty at or below the stored highest decided height ever starts *)
Lemma stored_not_restarted_strict : forall f ops s slot s' rec,
  run (init f) ops = s ->
  step s (OStart slot) = (s', SOk) ->
  highest (store s) = Some rec -> st_height rec < slot.
Proof.
  intros f ops s slot s' rec Hr Hs Hrec.
  destruct (grun (init f, []) ops) as [s0 g] eqn:Eg.
  assert (s0 = s) by (rewrite <- Hr, <- (grun_fst ops (init f) []), Eg; reflexivity). subst s0.
  destruct (grun_inv2 _ _ _ _ _ (init_inv f) (init_inv2 f) Eg) as [Hinv [[_ [K _]] _]].
  simpl in Hs. destruct (start_duty_shape _ _ _ Hs) as [_ Hn].
  apply start_duty_spec in Hs; [|apply Hinv]. destruct Hs as [_ [_ [_ [Hok _]]]].
  destruct (Hok eq_refl) as [_ [H2 [H3 _]]].
  destruct Hinv as [[_ I2] _]. destruct (I2 rec Hrec) as [Hle _].
  destruct H3 as [Hlt|Hz]; [lia|].
  destruct (N.eq_dec slot 0) as [->|Hnz]; [|lia].
  exfalso. apply Hn. assert (E : st_height rec = height (ct s)) by lia.
  rewrite <- Hz. apply (K rec); auto.
Qed.
