(* Executable model of the height bookkeeping of one duty runner:
     protocol/v2/qbft/controller/{controller.go, decided.go, highest_instance.go, types.go}
     protocol/v2/ssv/runner/{runner.go (ShouldProcessDuty, baseStartNewDuty, decide,
                              baseConsensusMsgProcessing), compact.go}
     protocol/v2/ssv/validator/startup.go (Start -> LoadHighestInstance)
     ibft/storage/store.go (highest record, historical records, CompactCopy on save)
     protocol/v2/qbft/instance/compact.go (commit container only)
   What happens INSIDE an instance (message validity, signatures, proposals, prepares) is not
   modelled here: a decided message arrives with the verdict of the real ValidateDecided /
   IsDecidedMsg attached (C01/C02/C06 areas model the instance).  One value per height.
   Definitions only; proofs are in Ctrl/Proofs.v. *)
From Coq Require Import List NArith Bool Arith.
From SSV Require Import Gen.CtrlConsts.
Import ListNotations.
Local Open Scope N_scope.

(* InstanceContainerDefaultCapacity (types.go), regenerated from the repository on every run. *)
Definition capacity : nat := instance_container_default_capacity.

(* ---- data ------------------------------------------------------------------------------------- *)

(* A commit-type SignedMessage of a given height: round and signers (one value per height). *)
Record cert := { c_round : N; c_signers : list N }.

(* instance.Instance, as far as the controller and the store look at it.
   i_commits is State.CommitContainer: all rounds in one list, insertion order (only the order
   within one round matters, and filtering by round preserves it). *)
Record inst := {
  i_height : N;
  i_round : N;           (* State.Round *)
  i_decided : bool;      (* State.Decided *)
  i_started : bool;      (* StartValue set: created by StartNewInstance in this process life *)
  i_stopped : bool;      (* forceStop *)
  i_commits : list cert
}.

(* qbftstorage.StoredInstance: compacted state + DecidedMessage. *)
Record stored := { st_inst : inst; st_msg : cert }.
Definition st_height (r : stored) : N := i_height (st_inst r).

(* ibft/storage: the highest_instance record and the historical records (latest binding first). *)
Record db := { highest : option stored; history : list (N * stored) }.

(* full: exporter ("full node") or not; fixed: the tree carries work/fix-C15.diff (SaveInstance keeps
   a stored certificate of the same height unless the new one has more signers); quorum: Share.Quorum. *)
Record cfg := { full : bool; fixed : bool; quorum : nat }.

(* controller.Controller.  saved = highestSaved of the fix (never read when fixed = false). *)
Record ctrl := { height : N; insts : list inst; saved : option (N * nat) }.

(* BaseRunner.State: nil | set, RunningInstance nil | RunningInstance of height h *)
Inductive rstate := RNone | RNoInst | RRunning (h : N).

Record sys := { cf : cfg; ct : ctrl; rn : rstate; store : db }.

Definition set_ct (s : sys) (c : ctrl) : sys := {| cf := cf s; ct := c; rn := rn s; store := store s |}.
Definition set_rn (s : sys) (r : rstate) : sys := {| cf := cf s; ct := ct s; rn := r; store := store s |}.
Definition set_ct_db (s : sys) (c : ctrl) (d : db) : sys := {| cf := cf s; ct := c; rn := rn s; store := d |}.

Definition set_insts (c : ctrl) (l : list inst) : ctrl := {| height := height c; insts := l; saved := saved c |}.
Definition set_height (c : ctrl) (h : N) : ctrl := {| height := h; insts := insts c; saved := saved c |}.

(* ---- MsgContainer (ssv-spec qbft/message_container.go) ------------------------------------------- *)

Definition mem_n (x : N) (l : list N) : bool := existsb (N.eqb x) l.

(* SignedMessage.CommonSigners *)
Definition common (a b : list N) : bool := existsb (fun x => mem_n x b) a.

(* SignedMessage.MatchedSigners *)
Definition matched (a b : list N) : bool :=
  Nat.eqb (length a) (length b) && forallb (fun x => mem_n x b) a.

Definition round_msgs (cs : list cert) (r : N) : list (list N) :=
  map c_signers (filter (fun c => N.eqb (c_round c) r) cs).

(* inner loop of LongestUniqueSignersForRoundAndRoot *)
Fixpoint extend (cur : list N) (rest : list (list N)) : list N :=
  match rest with
  | [] => cur
  | m :: tl => if common m cur then extend cur tl else extend (cur ++ m) tl
  end.

(* outer loop *)
Fixpoint longest_from (msgs : list (list N)) (best : list N) : list N :=
  match msgs with
  | [] => best
  | m :: tl =>
      let cur := extend m tl in
      longest_from tl (if Nat.ltb (length best) (length cur) then cur else best)
  end.

Definition longest_unique (cs : list cert) (r : N) : list N := longest_from (round_msgs cs r) [].

(* ---- instance helpers ---------------------------------------------------------------------------- *)

Definition with_commits (i : inst) (cs : list cert) : inst :=
  {| i_height := i_height i; i_round := i_round i; i_decided := i_decided i;
     i_started := i_started i; i_stopped := i_stopped i; i_commits := cs |}.

(* instance.Compact / CompactCopy, commit container: rounds below State.Round are dropped. *)
Definition compact (i : inst) : inst :=
  with_commits i (filter (fun c => N.leb (i_round i) (c_round c)) (i_commits i)).

Definition add_commit (i : inst) (m : cert) : inst := with_commits i (i_commits i ++ [m]).

Definition decide_with (i : inst) (r : N) : inst :=
  {| i_height := i_height i; i_round := r; i_decided := true;
     i_started := i_started i; i_stopped := i_stopped i; i_commits := i_commits i |}.

Definition set_decided (i : inst) : inst :=
  {| i_height := i_height i; i_round := i_round i; i_decided := true;
     i_started := i_started i; i_stopped := i_stopped i; i_commits := i_commits i |}.

Definition stop (i : inst) : inst :=
  {| i_height := i_height i; i_round := i_round i; i_decided := i_decided i;
     i_started := i_started i; i_stopped := true; i_commits := i_commits i |}.

(* an instance rebuilt from a stored state (LoadHighestInstance / InstanceForHeight from storage) *)
Definition reloaded (i : inst) : inst :=
  {| i_height := i_height i; i_round := i_round i; i_decided := i_decided i;
     i_started := false; i_stopped := false; i_commits := i_commits i |}.

(* instance created by UponDecided for a height without one *)
Definition new_decided (h : N) (m : cert) : inst :=
  {| i_height := h; i_round := c_round m; i_decided := true;
     i_started := false; i_stopped := false; i_commits := [m] |}.

(* instance created and started by StartNewInstance *)
Definition new_started (h : N) : inst :=
  {| i_height := h; i_round := 1; i_decided := false;
     i_started := true; i_stopped := false; i_commits := [] |}.

(* ---- InstanceContainer (types.go) ------------------------------------------------------------------ *)

(* FindInstance *)
Fixpoint find_inst (l : list inst) (h : N) : option inst :=
  match l with
  | [] => None
  | x :: tl => if N.eqb (i_height x) h then Some x else find_inst tl h
  end.

(* addNewInstance: insert in front of the first instance with a smaller height; a full container
   drops its last element (or the new instance, if that would come last). *)
Fixpoint ins (l : list inst) (i : inst) : list inst :=
  match l with
  | [] => [i]
  | x :: tl => if N.ltb (i_height x) (i_height i) then i :: x :: tl else x :: ins tl i
  end.

Definition add_new (l : list inst) (i : inst) : list inst := firstn capacity (ins l i).

(* a mutation through the pointer FindInstance returned *)
Fixpoint update_first (l : list inst) (i' : inst) : list inst :=
  match l with
  | [] => []
  | x :: tl => if N.eqb (i_height x) (i_height i') then i' :: tl else x :: update_first tl i'
  end.

(* ---- storage ------------------------------------------------------------------------------------ *)

Fixpoint lookup (l : list (N * stored)) (h : N) : option stored :=
  match l with
  | [] => None
  | (k, v) :: tl => if N.eqb k h then Some v else lookup tl h
  end.

(* Controller.SaveInstance (highest_instance.go) with the storage calls it makes.  h is
   msg.Message.Height; at every call site i is FindInstance(h). *)
Definition weaker (c : ctrl) (h : N) (m : cert) : bool :=
  match saved c with
  | Some (sh, n) => N.eqb sh h && Nat.leb (length (c_signers m)) n
  | None => false
  end.

Definition is_highest (f : cfg) (c : ctrl) (h : N) (m : cert) : bool :=
  N.leb (height c) h && negb (fixed f && weaker c h m).

Definition save_instance (f : cfg) (c : ctrl) (d : db) (i : inst) (h : N) (m : cert) : ctrl * db :=
  let r := {| st_inst := compact i; st_msg := m |} in
  let hi := is_highest f c h m in
  let d1 := if hi then {| highest := Some r; history := history d |} else d in
  let d2 := if full f then {| highest := highest d1; history := (h, r) :: history d1 |} else d1 in
  let c' := if hi then {| height := height c; insts := insts c; saved := Some (h, length (c_signers m)) |} else c in
  (c', d2).

(* ---- controller ----------------------------------------------------------------------------------- *)

(* InstanceForHeight: memory first, then (full nodes) the historical record.  The boolean says
   whether the instance is the one held in StoredInstances. *)
Definition instance_for_height (f : cfg) (c : ctrl) (d : db) (h : N) : option (inst * bool) :=
  match find_inst (insts c) h with
  | Some i => Some (i, true)
  | None =>
      if full f then
        match lookup (history d) h with
        | Some r => Some (reloaded (st_inst r), false)
        | None => None
        end
      else None
  end.

(* UponDecided for a message ValidateDecided accepted.  Returns whether a decided message is
   returned to the caller (first decision of that instance). *)
Definition upon_decided (f : cfg) (c : ctrl) (d : db) (h : N) (m : cert) : ctrl * db * bool :=
  let found := instance_for_height f c d h in
  let prev := match found with Some (i, _) => i_decided i | None => false end in
  let fut := N.ltb (height c) h in
  let upd (mem : bool) (i' : inst) := if mem then update_first (insts c) i' else insts c in
  let '(l', save) :=
    match found with
    | None => (add_new (insts c) (new_decided h m), true)
    | Some (i, mem) =>
        if negb (i_decided i) then (upd mem (add_commit (decide_with i (c_round m)) m), true)
        else if Nat.ltb (length (longest_unique (i_commits i) (c_round m))) (length (c_signers m))
             then (upd mem (add_commit i m), true)
             else (insts c, false)
    end in
  let c1 := set_insts c l' in
  let '(c2, d2) :=
    if save then
      match find_inst l' h with
      | Some i => save_instance f c1 d i h m
      | None => (c1, d)
      end
    else (c1, d) in
  let c3 := if fut then set_height c2 h else c2 in
  (c3, d2, negb prev).

Inductive res :=
| SOk | SPassed | SPast | SExists            (* StartNewDuty: nil | ShouldProcessDuty | past height | already running *)
| DOk | DRejected | DWrongInst               (* ProcessConsensus on a decided-looking message *)
| LSkip | LDone (decided : bool)             (* local run of the instance *)
| RDone.                                     (* restart *)

(* StartNewInstance (the value check is assumed to pass: the runner checked the same value) *)
Definition start_new_instance (c : ctrl) (h : N) : ctrl * res :=
  if N.ltb h (height c) then (c, SPast)
  else match find_inst (insts c) h with
       | Some _ => (c, SExists)
       | None =>
           let l := add_new (insts c) (new_started h) in
           (* forceStopAllInstanceExceptCurrent *)
           let l' := map (fun x => if N.eqb (i_height x) h then x else stop x) l in
           ({| height := h; insts := l'; saved := saved c |}, SOk)
       end.

(* ---- runner ------------------------------------------------------------------------------------------ *)

(* ShouldProcessDuty *)
Definition should_process_duty (c : ctrl) (slot : N) : bool :=
  negb (N.leb slot (height c) && negb (N.eqb (height c) 0)).

(* baseStartNewDuty -> executeDuty -> decide *)
Definition start_duty (s : sys) (slot : N) : sys * res :=
  if negb (should_process_duty (ct s) slot) then (s, SPassed)
  else
    (* baseSetupForNewDuty: a fresh State, RunningInstance nil *)
    match start_new_instance (ct s) slot with
    | (c', SOk) => (set_rn (set_ct s c') (RRunning slot), SOk)
    | (_, e) => (set_rn s RNoInst, e)
    end.

(* compactInstanceIfNeeded for a message with IsDecidedMsg *)
Definition compact_at (c : ctrl) (h : N) : ctrl :=
  match find_inst (insts c) h with
  | Some i => set_insts c (update_first (insts c) (compact i))
  | None => c
  end.

(* the save in baseConsensusMsgProcessing after didDecideCorrectly *)
Definition runner_save (s : sys) (h : N) (m : cert) : sys :=
  match find_inst (insts (ct s)) h with
  | Some i => let '(c', d') := save_instance (cf s) (ct s) (store s) i h m in set_ct_db s c' d'
  | None => s
  end.

(* what the runner does with a decided message the controller returned *)
Definition runner_decided (s : sys) (h : N) (m : cert) : sys * res :=
  match rn s with
  | RNone => (s, DOk)                               (* no running duty *)
  | RNoInst => (s, DWrongInst)                      (* RunningInstance == nil *)
  | RRunning rh => if N.eqb rh h then (runner_save s h m, DOk) else (s, DWrongInst)
  end.

(* ProcessConsensus for a commit message.  valid = the real BaseMsgValidation / IsDecidedMsg /
   ValidateDecided all accepted it; looks = IsDecidedMsg (a quorum of listed signers), which alone
   triggers compactInstanceIfNeeded, before the error of ProcessMsg is looked at. *)
Definition process_decided (s : sys) (h : N) (m : cert) (valid looks : bool) : sys * res :=
  if negb valid then
    ((if looks then set_ct s (compact_at (ct s) h) else s), DRejected)
  else
    let '(c1, d1, ret) := upon_decided (cf s) (ct s) (store s) h m in
    let s1 := set_ct_db s (compact_at c1 h) d1 in
    if ret then runner_decided s1 h m else (s1, DOk).

(* One commit message of signer x for round 1 reaching the running instance of height h through
   ProcessConsensus -> UponExistingInstanceMsg -> Instance.UponCommit. *)
Definition commit_step (s : sys) (h x : N) : sys :=
  match find_inst (insts (ct s)) h with
  | None => s
  | Some i =>
      if existsb (fun m => matched m [x]) (round_msgs (i_commits i) 1) then s   (* AddFirstMsgForSignerAndRound *)
      else
        let i1 := add_commit i {| c_round := 1; c_signers := [x] |} in
        let sg := longest_unique (i_commits i1) 1 in
        let q := Nat.leb (quorum (cf s)) (length sg) in
        let i2 := if q then set_decided i1 else i1 in
        let s1 := set_ct s (set_insts (ct s) (update_first (insts (ct s)) i2)) in
        if q && negb (i_decided i) then fst (runner_decided s1 h {| c_round := 1; c_signers := sg |})
        else s1
  end.

(* The instance of height h can be driven to a decision by the harness: started in this life, not
   stopped, no decided message seen, still in round 1, no commit received. *)
Definition local_ready (i : inst) : bool :=
  i_started i && negb (i_stopped i) && negb (i_decided i) && N.eqb (i_round i) 1
  && match i_commits i with [] => true | _ => false end.

Definition is_decided_at (s : sys) (h : N) : bool :=
  match find_inst (insts (ct s)) h with Some i => i_decided i | None => false end.

(* proposal + prepare quorum (no effect on anything modelled here), then the listed commits *)
Definition process_local (s : sys) (h : N) (signers : list N) : sys * res :=
  match find_inst (insts (ct s)) h with
  | Some i =>
      if local_ready i then
        let s' := fold_left (fun a x => commit_step a h x) signers s in
        (s', LDone (is_decided_at s' h))
      else (s, LSkip)
  | None => (s, LSkip)
  end.

(* ---- process start --------------------------------------------------------------------------------- *)

Definition fresh_ctrl : ctrl := {| height := 0; insts := []; saved := None |}.

(* NewController + Validator.Start -> LoadHighestInstance over the same database *)
Definition restart (s : sys) : sys :=
  let c :=
    match highest (store s) with
    | None => fresh_ctrl
    | Some r =>
        let i := reloaded (compact (st_inst r)) in
        {| height := i_height i; insts := add_new [] i;
           saved := Some (i_height i, length (c_signers (st_msg r))) |}
    end in
  {| cf := cf s; ct := c; rn := RNone; store := store s |}.

Definition init (f : cfg) : sys :=
  {| cf := f; ct := fresh_ctrl; rn := RNone; store := {| highest := None; history := [] |} |}.

(* ---- histories --------------------------------------------------------------------------------------- *)

Inductive op :=
| OStart (slot : N)
| ODecided (h : N) (m : cert) (valid looks : bool)
| OLocal (h : N) (signers : list N)
| ORestart.

Definition step (s : sys) (o : op) : sys * res :=
  match o with
  | OStart slot => start_duty s slot
  | ODecided h m v l => process_decided s h m v l
  | OLocal h sg => process_local s h sg
  | ORestart => (restart s, RDone)
  end.

Fixpoint run (s : sys) (ops : list op) : sys :=
  match ops with
  | [] => s
  | o :: tl => run (fst (step s o)) tl
  end.

(* ---- instrumentation used by the statements (not by the model) --------------------------------------- *)

(* the height an operation makes known as started or decided, given its result *)
Definition learned (o : op) (r : res) : option N :=
  match o, r with
  | OStart slot, SOk => Some slot
  | ODecided h _ true _, _ => Some h
  | OLocal h _, LDone true => Some h
  | _, _ => None
  end.

(* heights started or learned decided since the process started, plus what the process loaded *)
Definition gstep (sg : sys * list N) (o : op) : sys * list N :=
  let '(s, g) := sg in
  let '(s', r) := step s o in
  match o with
  | ORestart => (s', match highest (store s) with Some rec => [st_height rec] | None => [] end)
  | _ => (s', match learned o r with Some h => h :: g | None => g end)
  end.

Definition grun (sg : sys * list N) (ops : list op) : sys * list N := fold_left gstep ops sg.

(* "better certificate": higher height, or the same height and strictly more signers *)
Definition better (old new : stored) : Prop :=
  st_height old < st_height new \/
  (st_height old = st_height new /\ (length (c_signers (st_msg old)) < length (c_signers (st_msg new)))%nat).

Definition mono (old new : stored) : Prop := new = old \/ better old new.

(* the stored highest instance before and after: never lost, and only replaced by a better one *)
Definition omono (a b : option stored) : Prop :=
  match a with
  | None => True
  | Some old => exists new, b = Some new /\ mono old new
  end.

(* clause (c) of C15 as a statement about one configuration *)
Definition store_monotone_statement (f : cfg) : Prop :=
  forall ops s o s' r, run (init f) ops = s -> step s o = (s', r) ->
  omono (highest (store s)) (highest (store s')).

(* valid certificates of one height all carry one round (the hypothesis outside of which finding F5 lives) *)
Definition op_cert (o : op) : option (N * N) :=
  match o with
  | ODecided h m true _ => Some (h, c_round m)
  | OLocal h _ => Some (h, 1)
  | _ => None
  end.
