(* C15, extension: decided messages that arrive while the database refuses writes.

   Controller.SaveInstance and the runner's save only log a failing write (and savedAsHighest leaves
   highestSaved alone), so such a message does to the memory state exactly what it does otherwise and
   leaves the store and the controller's memory of it as they were: [unsave].  The histories of
   Ctrl/Model.v (and the persistence theorems about them) are histories in which the database accepts
   every write; here the in-process half of C15 is shown for histories that also contain refused
   writes: what was started or learned as decided in this process life is never started again, the
   store is never weakened, and a restart still resumes from the store. *)
From Coq Require Import List NArith Bool Arith Lia.
From SSV Require Import Gen.CtrlConsts Ctrl.Model Ctrl.Proofs.
Import ListNotations.
Local Open Scope N_scope.

Definition unsave (s0 s1 : sys) : sys :=
  {| cf := cf s1;
     ct := {| height := height (ct s1); insts := insts (ct s1); saved := saved (ct s0) |};
     rn := rn s1;
     store := store s0 |}.

Inductive xop :=
| XOp (o : op)
| XDecidedRefused (h : N) (m : cert) (valid looks : bool).

Definition xstep (s : sys) (x : xop) : sys * res :=
  match x with
  | XOp o => step s o
  | XDecidedRefused h m v l => let '(s', r) := process_decided s h m v l in (unsave s s', r)
  end.

Fixpoint xrun (s : sys) (xs : list xop) : sys :=
  match xs with
  | [] => s
  | x :: tl => xrun (fst (xstep s x)) tl
  end.

Definition xgstep (sg : sys * list N) (x : xop) : sys * list N :=
  match x with
  | XOp o => gstep sg o
  | XDecidedRefused h m v l =>
      let '(s, g) := sg in
      let '(s', _) := xstep s x in
      (s', if v then h :: g else g)
  end.

Definition xgrun (sg : sys * list N) (xs : list xop) : sys * list N := fold_left xgstep xs sg.

Lemma xgstep_inv : forall s g x s' g',
  inv s g -> xgstep (s, g) x = (s', g') ->
  inv s' g' /\ cf s' = cf s /\
  (fixed (cf s) = true -> omono (highest (store s)) (highest (store s'))).
Proof.
  intros s g x s' g' Hinv Hx. destruct x as [o|h m v l].
  - simpl in Hx. eapply gstep_inv; eauto.
  - simpl in Hx. destruct (process_decided s h m v l) as [s1 r] eqn:Ep.
    inversion Hx; subst s' g'; clear Hx.
    destruct Hinv as [Hc Hg].
    destruct (process_decided_spec _ _ _ _ _ _ _ Hc Ep) as [[I1 _] [Hcf [Hh _]]].
    destruct Hc as [_ I2].
    assert (Hle : height (ct s) <= height (ct s1)) by (rewrite Hh; destruct v; lia).
    split; [split|split].
    + unfold cinv, cinvb, unsave. simpl. split.
      * exact I1.
      * intros rec Hr. destruct (I2 rec Hr) as [A B0]. split; [lia|exact B0].
    + unfold unsave. simpl. destruct v.
      * intros x [<-|Hx]; [rewrite Hh; lia|]. specialize (Hg x Hx). lia.
      * intros x Hx. specialize (Hg x Hx). lia.
    + exact Hcf.
    + intros _. unfold unsave. simpl. apply omono_refl.
Qed.

Lemma xgrun_inv : forall xs s g s' g',
  inv s g -> xgrun (s, g) xs = (s', g') -> inv s' g' /\ cf s' = cf s.
Proof.
  induction xs as [|x tl IH]; intros s g s' g' Hinv Hr.
  - inversion Hr; subst. auto.
  - unfold xgrun in Hr. simpl in Hr. destruct (xgstep (s, g) x) as [s1 g1] eqn:Eg.
    destruct (xgstep_inv _ _ _ _ _ Hinv Eg) as [H1 [H2 _]].
    destruct (IH _ _ _ _ H1 Hr) as [H3 H4]. split; auto. congruence.
Qed.

(* (a) with refused writes in the history: never started again in this process life *)
Lemma no_rerun_refused : forall f xs s g slot s',
  xgrun (init f, []) xs = (s, g) ->
  step s (OStart slot) = (s', SOk) ->
  forall h, In h g -> h < slot \/ slot = 0.
Proof.
  intros f xs s g slot s' Hr Hs. destruct (xgrun_inv _ _ _ _ _ (init_inv f) Hr) as [Hinv _].
  eapply no_rerun_step; eauto.
Qed.

(* a decided message whose writes are refused raises the controller height like any other, and
   leaves the store untouched *)
Lemma refused_decided_effect : forall s h m l s' r,
  cinv (ct s) (store s) ->
  xstep s (XDecidedRefused h m true l) = (s', r) ->
  height (ct s') = N.max (height (ct s)) h /\ store s' = store s /\ saved (ct s') = saved (ct s).
Proof.
  intros s h m l s' r Hc Hx. simpl in Hx.
  destruct (process_decided s h m true l) as [s1 r1] eqn:Ep. inversion Hx; subst s' r; clear Hx.
  destruct (process_decided_spec _ _ _ _ _ _ _ Hc Ep) as [_ [_ [Hh _]]].
  unfold unsave. simpl. auto.
Qed.

(* (c) with refused writes: the stored highest instance only gets better *)
Lemma store_monotone_refused : forall f xs s x s' r,
  fixed f = true -> xrun (init f) xs = s -> xstep s x = (s', r) ->
  omono (highest (store s)) (highest (store s')).
Proof.
  intros f xs s x s' r Hfix Hr Hs.
  assert (Hfst : forall ys s0 g0, fst (xgrun (s0, g0) ys) = xrun s0 ys).
  { induction ys as [|y tl IH]; intros s0 g0; [reflexivity|].
    unfold xgrun. simpl. destruct (xgstep (s0, g0) y) as [s1 g1] eqn:E.
    fold (xgrun (s1, g1) tl). rewrite IH.
    assert (s1 = fst (xstep s0 y)).
    { destruct y as [o|h m v l].
      - change (xgstep (s0, g0) (XOp o)) with (gstep (s0, g0) o) in E.
        change (xstep s0 (XOp o)) with (step s0 o).
        rewrite <- (gstep_fst s0 g0 o), E. reflexivity.
      - simpl in E. simpl. destruct (process_decided s0 h m v l) as [s2 r2]. inversion E; reflexivity. }
    subst s1. reflexivity. }
  destruct (xgrun (init f, []) xs) as [s0 g] eqn:Eg.
  assert (s0 = s) by (rewrite <- Hr, <- (Hfst xs (init f) []), Eg; reflexivity). subst s0.
  destruct (xgrun_inv _ _ _ _ _ (init_inv f) Eg) as [Hinv Hcf].
  destruct (xgstep (s, g) x) as [s1 g1] eqn:E1.
  assert (s1 = s').
  { destruct x as [o|h m v l].
    - change (xgstep (s, g) (XOp o)) with (gstep (s, g) o) in E1.
      change (xstep s (XOp o)) with (step s o) in Hs.
      unfold gstep in E1. rewrite Hs in E1. destruct o; inversion E1; reflexivity.
    - simpl in E1, Hs. destruct (process_decided s h m v l) as [s2 r2]. inversion E1; inversion Hs; subst; reflexivity. }
  subst s1. destruct (xgstep_inv _ _ _ _ _ Hinv E1) as [_ [_ Hm]]. apply Hm. rewrite Hcf. exact Hfix.
Qed.

(* the histories of the model are the refusal-free ones *)
Lemma xrun_embeds : forall ops s, xrun s (map XOp ops) = run s ops.
Proof. induction ops as [|o tl IH]; intros s; simpl; [reflexivity|apply IH]. Qed.
