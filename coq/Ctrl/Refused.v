(* C15, extension: decided messages that arrive while the database refuses writes.

   Controller.SaveInstance and the runner's save only log a failing write (and savedAsHighest leaves
   highestSaved alone), so such a message does to the memory state exactly what it does otherwise and
   leaves the store and the controller's memory of it as they were: [unsave].  The histories of
   Ctrl/Model.v (and the persistence theorems about them) are histories in which the database accepts
   every write; here the in-process half of C15 is shown for histories that also contain refused
   writes: what was started or learned as decided in this process life is never started again, the
   store is never weakened, and a restart still resumes from the store. *)
From Coq Require Import List NArith Bool Arith Lia.
From SSV Require Import Gen.CtrlConsts Ctrl.Model Ctrl.Proofs Ctrl.Proofs3.
Import ListNotations.
Local Open Scope N_scope.

Definition unsave (s0 s1 : sys) : sys :=
  {| cf := cf s1;
     ct := {| height := height (ct s1); insts := insts (ct s1); saved := saved (ct s0) |};
     rn := rn s1;
     store := store s0 |}.

(* A TRANSIENT failure: only the first storage call that writes is refused (saveInstance returns at its
   first failing Set, so that call stores nothing).  The controller saves in UponDecided and the runner
   saves the same decided message again after didDecideCorrectly (baseConsensusMsgProcessing), so:
   - when UponDecided's own save reaches the database ([ctrl_writes]) it is the refused one: the memory
     state moves on, the store and highestSaved stay ([unsave]), and the runner's save - if the message
     decided the runner's running instance - then runs as always and stores the certificate after all;
   - otherwise the runner's save (if any) is the refused one, which leaves everything as it is. *)
Definition ctrl_writes (f : cfg) (c : ctrl) (d : db) (h : N) (m : cert) : bool :=
  let found := instance_for_height f c d h in
  let upd (mem : bool) (i' : inst) := if mem then update_first (insts c) i' else insts c in
  let '(l', save) :=
    match found with
    | None => (add_new (insts c) (new_decided h m), true)
    | Some (i, mem) =>
        if negb (i_decided i) then (upd mem (add_commit (decide_with i (c_round m)) m), true)
        else if Nat.ltb (length (longest_unique (i_commits i) (c_round m))) (length (c_signers m))
             then (upd mem (add_commit i m), true)
             else (insts c, false)
    end in
  save && match find_inst l' h with
          | Some _ => is_highest f (set_insts c l') h m || full f
          | None => false
          end.

Definition process_decided_once (s : sys) (h : N) (m : cert) (valid looks : bool) : sys * res :=
  if negb valid then process_decided s h m valid looks
  else
    let '(c1, d1, ret) := upon_decided (cf s) (ct s) (store s) h m in
    let s1 := set_ct_db s (compact_at c1 h) d1 in
    if ctrl_writes (cf s) (ct s) (store s) h m then
      let s1' := unsave s s1 in
      if ret then runner_decided s1' h m else (s1', DOk)
    else (s1, if ret then snd (runner_decided s1 h m) else DOk).

Inductive xop :=
| XOp (o : op)
| XDecidedRefused (h : N) (m : cert) (valid looks : bool)
| XDecidedRefusedOnce (h : N) (m : cert) (valid looks : bool).

Definition xstep (s : sys) (x : xop) : sys * res :=
  match x with
  | XOp o => step s o
  | XDecidedRefused h m v l => let '(s', r) := process_decided s h m v l in (unsave s s', r)
  | XDecidedRefusedOnce h m v l => process_decided_once s h m v l
  end.

Fixpoint xrun (s : sys) (xs : list xop) : sys :=
  match xs with
  | [] => s
  | x :: tl => xrun (fst (xstep s x)) tl
  end.

Definition xgstep (sg : sys * list N) (x : xop) : sys * list N :=
  match x with
  | XOp o => gstep sg o
  | XDecidedRefused h m v l | XDecidedRefusedOnce h m v l =>
      let '(s, g) := sg in
      let '(s', _) := xstep s x in
      (s', if v then h :: g else g)
  end.

Definition xgrun (sg : sys * list N) (xs : list xop) : sys * list N := fold_left xgstep xs sg.

Lemma unsave_cinv : forall s s1,
  cinv (ct s) (store s) -> cinv (ct s1) (store s1) -> height (ct s) <= height (ct s1) ->
  cinv (ct (unsave s s1)) (store (unsave s s1)).
Proof.
  intros s s1 [_ I2] [I1 _] Hle. unfold cinv, cinvb, unsave. simpl. split.
  - exact I1.
  - intros rec Hr. destruct (I2 rec Hr) as [A B0]. split; [lia|exact B0].
Qed.

Lemma process_decided_once_spec : forall s h m v l s' r,
  cinv (ct s) (store s) -> process_decided_once s h m v l = (s', r) ->
  cinv (ct s') (store s') /\ cf s' = cf s /\
  height (ct s') = (if v then N.max (height (ct s)) h else height (ct s)) /\
  (fixed (cf s) = true -> omono (highest (store s)) (highest (store s'))).
Proof.
  intros s h m v l s' r Hinv Hp. unfold process_decided_once in Hp.
  destruct v; cbn [negb] in Hp.
  2:{ eapply process_decided_spec in Hp; eauto. }
  destruct (upon_decided (cf s) (ct s) (store s) h m) as [[c1 d1] ret] eqn:Eu.
  apply upon_decided_spec in Eu; auto. destruct Eu as [Hc1 [Hh1 Hm1]].
  destruct (compact_at_spec (height c1) c1 d1 h Hc1) as [Hc2 Hh2].
  set (s1 := set_ct_db s (compact_at c1 h) d1) in *.
  assert (Hs1 : cinv (ct s1) (store s1)) by (unfold cinv; simpl; rewrite Hh2; exact Hc2).
  assert (Hhs1 : height (ct s1) = N.max (height (ct s)) h) by (simpl; rewrite Hh2; exact Hh1).
  destruct (ctrl_writes (cf s) (ct s) (store s) h m).
  - assert (Hu : cinv (ct (unsave s s1)) (store (unsave s s1))) by (apply unsave_cinv; auto; lia).
    destruct ret.
    + apply runner_decided_spec in Hp; auto. destruct Hp as [Ha [Hb [Hc Hd]]].
      split; [exact Ha|]. split; [rewrite Hc; reflexivity|]. split.
      * rewrite Hb. exact Hhs1.
      * intros Hfix. apply Hd. exact Hfix.
    + inversion Hp; subst s' r. split; [exact Hu|]. split; [reflexivity|]. split; [exact Hhs1|].
      intros _. apply omono_refl.
  - inversion Hp; subst s' r. split; [exact Hs1|]. split; [reflexivity|]. split; [exact Hhs1|]. exact Hm1.
Qed.

Lemma xgstep_inv : forall s g x s' g',
  inv s g -> xgstep (s, g) x = (s', g') ->
  inv s' g' /\ cf s' = cf s /\
  (fixed (cf s) = true -> omono (highest (store s)) (highest (store s'))).
Proof.
  intros s g x s' g' Hinv Hx. destruct x as [o|h m v l|h m v l].
  - simpl in Hx. eapply gstep_inv; eauto.
  - simpl in Hx. destruct (process_decided s h m v l) as [s1 r] eqn:Ep.
    inversion Hx; subst s' g'; clear Hx.
    destruct Hinv as [Hc Hg].
    destruct (process_decided_spec _ _ _ _ _ _ _ Hc Ep) as [[I1 _] [Hcf [Hh _]]].
    destruct Hc as [_ I2].
    assert (Hle : height (ct s) <= height (ct s1)) by (rewrite Hh; destruct v; lia).
    split; [split|split].
    + unfold cinv, cinvb, unsave. simpl. split.
      * exact I1.
      * intros rec Hr. destruct (I2 rec Hr) as [A B0]. split; [lia|exact B0].
    + unfold unsave. simpl. destruct v.
      * intros x [<-|Hx]; [rewrite Hh; lia|]. specialize (Hg x Hx). lia.
      * intros x Hx. specialize (Hg x Hx). lia.
    + exact Hcf.
    + intros _. unfold unsave. simpl. apply omono_refl.
  - simpl in Hx. destruct (process_decided_once s h m v l) as [s1 r] eqn:Ep.
    inversion Hx; subst s' g'; clear Hx.
    destruct Hinv as [Hc Hg].
    destruct (process_decided_once_spec _ _ _ _ _ _ _ Hc Ep) as [I1 [Hcf [Hh Hm]]].
    split; [split|split]; auto.
    destruct v.
    + intros x [<-|Hx]; [rewrite Hh; lia|]. specialize (Hg x Hx). lia.
    + intros x Hx. specialize (Hg x Hx). lia.
Qed.

Lemma xgrun_inv : forall xs s g s' g',
  inv s g -> xgrun (s, g) xs = (s', g') -> inv s' g' /\ cf s' = cf s.
Proof.
  induction xs as [|x tl IH]; intros s g s' g' Hinv Hr.
  - inversion Hr; subst. auto.
  - unfold xgrun in Hr. simpl in Hr. destruct (xgstep (s, g) x) as [s1 g1] eqn:Eg.
    destruct (xgstep_inv _ _ _ _ _ Hinv Eg) as [H1 [H2 _]].
    destruct (IH _ _ _ _ H1 Hr) as [H3 H4]. split; auto. congruence.
Qed.

(* (a) with refused writes in the history: never started again in this process life *)
Lemma no_rerun_refused : forall f xs s g slot s',
  xgrun (init f, []) xs = (s, g) ->
  step s (OStart slot) = (s', SOk) ->
  forall h, In h g -> h < slot \/ slot = 0.
Proof.
  intros f xs s g slot s' Hr Hs. destruct (xgrun_inv _ _ _ _ _ (init_inv f) Hr) as [Hinv _].
  eapply no_rerun_step; eauto.
Qed.

(* a decided message whose writes are refused raises the controller height like any other, and
   leaves the store untouched *)
Lemma refused_decided_effect : forall s h m l s' r,
  cinv (ct s) (store s) ->
  xstep s (XDecidedRefused h m true l) = (s', r) ->
  height (ct s') = N.max (height (ct s)) h /\ store s' = store s /\ saved (ct s') = saved (ct s).
Proof.
  intros s h m l s' r Hc Hx. simpl in Hx.
  destruct (process_decided s h m true l) as [s1 r1] eqn:Ep. inversion Hx; subst s' r; clear Hx.
  destruct (process_decided_spec _ _ _ _ _ _ _ Hc Ep) as [_ [_ [Hh _]]].
  unfold unsave. simpl. auto.
Qed.

(* (c) with refused writes: the stored highest instance only gets better *)
Lemma store_monotone_refused : forall f xs s x s' r,
  fixed f = true -> xrun (init f) xs = s -> xstep s x = (s', r) ->
  omono (highest (store s)) (highest (store s')).
Proof.
  intros f xs s x s' r Hfix Hr Hs.
  assert (Hfst : forall ys s0 g0, fst (xgrun (s0, g0) ys) = xrun s0 ys).
  { induction ys as [|y tl IH]; intros s0 g0; [reflexivity|].
    unfold xgrun. simpl. destruct (xgstep (s0, g0) y) as [s1 g1] eqn:E.
    fold (xgrun (s1, g1) tl). rewrite IH.
    assert (s1 = fst (xstep s0 y)).
    { destruct y as [o|h m v l|h m v l].
      - change (xgstep (s0, g0) (XOp o)) with (gstep (s0, g0) o) in E.
        change (xstep s0 (XOp o)) with (step s0 o).
        rewrite <- (gstep_fst s0 g0 o), E. reflexivity.
      - simpl in E. simpl. destruct (process_decided s0 h m v l) as [s2 r2]. inversion E; reflexivity.
      - simpl in E. simpl. destruct (process_decided_once s0 h m v l) as [s2 r2]. inversion E; reflexivity. }
    subst s1. reflexivity. }
  destruct (xgrun (init f, []) xs) as [s0 g] eqn:Eg.
  assert (s0 = s) by (rewrite <- Hr, <- (Hfst xs (init f) []), Eg; reflexivity). subst s0.
  destruct (xgrun_inv _ _ _ _ _ (init_inv f) Eg) as [Hinv Hcf].
  destruct (xgstep (s, g) x) as [s1 g1] eqn:E1.
  assert (s1 = s').
  { destruct x as [o|h m v l|h m v l].
    - change (xgstep (s, g) (XOp o)) with (gstep (s, g) o) in E1.
      change (xstep s (XOp o)) with (step s o) in Hs.
      unfold gstep in E1. rewrite Hs in E1. destruct o; inversion E1; reflexivity.
    - simpl in E1, Hs. destruct (process_decided s h m v l) as [s2 r2]. inversion E1; inversion Hs; subst; reflexivity.
    - simpl in E1, Hs. destruct (process_decided_once s h m v l) as [s2 r2]. inversion E1; inversion Hs; subst; reflexivity. }
  subst s1. destruct (xgstep_inv _ _ _ _ _ Hinv E1) as [_ [_ Hm]]. apply Hm. rewrite Hcf. exact Hfix.
Qed.

(* the histories of the model are the refusal-free ones *)
Lemma xrun_embeds : forall ops s, xrun s (map XOp ops) = run s ops.
Proof. induction ops as [|o tl IH]; intros s; simpl; [reflexivity|apply IH]. Qed.

(* ---- a transient failure does not lose the decision of the running instance ------------------------- *)

Lemma save_instance_keeps : forall f c d i h m c' d',
  save_instance f c d i h m = (c', d') -> height c' = height c /\ insts c' = insts c.
Proof.
  intros f c d i h m c' d' Hs. unfold save_instance in Hs.
  destruct (is_highest f c h m); destruct (full f); inversion Hs; subst; simpl; auto.
Qed.

Lemma upon_decided_running : forall f c d h m i,
  find_inst (insts c) h = Some i -> i_decided i = false ->
  let i2 := add_commit (decide_with i (c_round m)) m in
  let c1 := set_insts c (update_first (insts c) i2) in
  upon_decided f c d h m =
    (let '(c2, d2) := save_instance f c1 d i2 h m in
     (if N.ltb (height c) h then set_height c2 h else c2, d2, true)).
Proof.
  intros f c d h m i Hf Hd i2 c1. unfold upon_decided, instance_for_height. rewrite Hf. cbn iota beta.
  rewrite Hd. cbn [negb].
  assert (Hh : i_height i2 = h) by (unfold i2; simpl; eapply find_inst_height; eauto).
  fold i2. rewrite (find_update_first _ _ _ _ Hf Hh).
  fold c1. destruct (save_instance f c1 d i2 h m) as [c2 d2]. reflexivity.
Qed.

Lemma once_refused_running_is_persisted : forall s h m l i s' r,
  vinv (ct s) (store s) ->
  rn s = RRunning h -> height (ct s) <= h ->
  find_inst (insts (ct s)) h = Some i -> i_decided i = false ->
  process_decided_once s h m true l = (s', r) ->
  r = DOk /\ exists rec, highest (store s') = Some rec /\ st_height rec = h.
Proof.
  intros s h m l i s' r V Hrn Hle Hf Hd Hp. unfold process_decided_once in Hp. cbn [negb] in Hp.
  rewrite (upon_decided_running _ _ _ _ _ _ Hf Hd) in Hp.
  set (i2 := add_commit (decide_with i (c_round m)) m) in *.
  set (c1 := set_insts (ct s) (update_first (insts (ct s)) i2)) in *.
  assert (Hh2 : i_height i2 = h) by (unfold i2; simpl; eapply find_inst_height; eauto).
  assert (Hf1 : find_inst (insts c1) h = Some i2) by (unfold c1; simpl; eapply find_update_first; eauto).
  destruct (save_instance (cf s) c1 (store s) i2 h m) as [c2 d2] eqn:Es.
  destruct (save_instance_keeps _ _ _ _ _ _ _ _ Es) as [Hk1 Hk2].
  assert (V1 : vinv c1 (store s)) by exact V.
  destruct (save_instance_stores _ _ _ _ _ _ _ _ V1 Hh2 Es) as [_ Hst].
  set (c3 := if N.ltb (height (ct s)) h then set_height c2 h else c2) in *.
  assert (Hi3 : insts c3 = insts c1) by (unfold c3; destruct (N.ltb (height (ct s)) h); simpl; exact Hk2).
  assert (Hh3 : height c3 = h).
  { unfold c3. destruct (N.ltb_spec (height (ct s)) h); simpl; [reflexivity|].
    rewrite Hk1. unfold c1. simpl. lia. }
  assert (Hf3 : find_inst (insts (compact_at c3 h)) h = Some (compact i2)).
  { apply find_compact_at. rewrite Hi3. exact Hf1. }
  assert (Hhc : height (compact_at c3 h) = h).
  { unfold compact_at. destruct (find_inst (insts c3) h); simpl; exact Hh3. }
  destruct (ctrl_writes (cf s) (ct s) (store s) h m).
  - (* the controller's save was refused; the runner's save stores the certificate *)
    unfold runner_decided in Hp. cbn [unsave rn set_ct_db] in Hp. rewrite Hrn, N.eqb_refl in Hp.
    unfold runner_save in Hp.
    set (su := unsave s (set_ct_db s (compact_at c3 h) d2)) in *.
    assert (E1 : insts (ct su) = insts (compact_at c3 h)) by reflexivity.
    rewrite E1, Hf3 in Hp.
    destruct (save_instance (cf su) (ct su) (store su) (compact i2) h m) as [c' d'] eqn:Er.
    inversion Hp; subst s' r. split; [reflexivity|]. cbn [set_ct_db store].
    assert (V2 : vinv (ct su) (store su)) by exact V.
    destruct (save_instance_stores _ _ _ _ _ _ _ _ V2 (eq_trans (compact_height i2) Hh2) Er) as [_ Hst2].
    apply Hst2. change (height (ct su)) with (height (compact_at c3 h)). rewrite Hhc. lia.
  - (* the controller's save went through (or had nothing to write because the record is there) *)
    assert (Hr : snd (runner_decided (set_ct_db s (compact_at c3 h) d2) h m) = DOk).
    { unfold runner_decided. cbn [set_ct_db rn]. rewrite Hrn, N.eqb_refl. reflexivity. }
    rewrite Hr in Hp. inversion Hp; subst s' r. split; [reflexivity|]. cbn [set_ct_db store].
    apply Hst. unfold c1. simpl. exact Hle.
Qed.

(* the same for every state the refusal-free histories reach *)
Lemma transient_failure_keeps_running_decision : forall f ops s h m l i s' r,
  run (init f) ops = s ->
  rn s = RRunning h -> height (ct s) <= h ->
  find_inst (insts (ct s)) h = Some i -> i_decided i = false ->
  xstep s (XDecidedRefusedOnce h m true l) = (s', r) ->
  r = DOk /\ exists rec, highest (store s') = Some rec /\ st_height rec = h.
Proof.
  intros f ops s h m l i s' r Hr Hrn Hle Hf Hd Hx.
  destruct (reach_inv3 f ops) as [g [_ [V _]]]. rewrite Hr in V.
  eapply once_refused_running_is_persisted; eauto.
Qed.
