(* Regression witness for finding F5 (C15): on the tree WITHOUT work/fix-C15.diff (fixed = false)
   clause (c) is false.  UponDecided compares the signer count of an incoming decided message only
   with the commit messages it holds for the SAME round, so a 3-signer certificate of round 2
   replaces the stored 4-signer certificate of round 1 of the same height
   (corpus/C15/f5-other-round-fewer-signers.ops replays this on the real code). *)
From Coq Require Import List NArith Bool Arith Lia.
From SSV Require Import Ctrl.Model.
Import ListNotations.
Local Open Scope N_scope.

Definition old_light : cfg := {| full := false; fixed := false; quorum := 3 |}.
Definition old_full : cfg := {| full := true; fixed := false; quorum := 3 |}.

Definition f5_first : op := ODecided 10 {| c_round := 1; c_signers := [1; 2; 3; 4] |} true true.
Definition f5_second : op := ODecided 10 {| c_round := 2; c_signers := [1; 2; 3] |} true true.

Lemma f5_witness : forall f, f = old_light \/ f = old_full ->
  let s := run (init f) [f5_first] in
  let s' := fst (step s f5_second) in
  option_map (fun r => (st_height r, c_round (st_msg r), c_signers (st_msg r))) (highest (store s))
    = Some (10, 1, [1; 2; 3; 4]) /\
  option_map (fun r => (st_height r, c_round (st_msg r), c_signers (st_msg r))) (highest (store s'))
    = Some (10, 2, [1; 2; 3]).
Proof. intros f [->| ->]; vm_compute; split; reflexivity. Qed.

Lemma store_monotone_refuted_old : forall f, f = old_light \/ f = old_full ->
  ~ store_monotone_statement f.
Proof.
  intros f Hf H.
  assert (K : omono (highest (store (run (init f) [f5_first])))
                    (highest (store (fst (step (run (init f) [f5_first]) f5_second))))).
  { eapply H; [reflexivity|apply surjective_pairing]. }
  destruct Hf as [-> | ->]; vm_compute in K;
    destruct K as [new [Hn [Hm|[Hm|[_ Hm]]]]]; inversion Hn; subst new;
    try discriminate; try lia.
Qed.

(* the same two messages on the tree with the fix keep the 4-signer certificate *)
Example f5_fixed_keeps_certificate :
  let f := {| full := false; fixed := true; quorum := 3 |} in
  option_map (fun r => (st_height r, c_round (st_msg r), c_signers (st_msg r)))
    (highest (store (run (init f) [f5_first; f5_second]))) = Some (10, 1, [1; 2; 3; 4]).
Proof. vm_compute. reflexivity. Qed.

(* The shape outside of which (c) is expected to hold for the code before the fix too: valid
   certificates of one height all carry one round.  STATEMENT ONLY - not proved, because the tree now
   carries the fix and Props/C15.v proves (c) in full for it.  It is the signature lib/props/c15.py
   (matches_known) uses to recognise F5 on a tree without the fix: on such a tree every one of the
   1121 violating histories of a quick run had certificates of two different rounds for the height
   whose certificate was replaced. *)
Definition certs (ops : list op) : list (N * N) :=
  flat_map (fun o => match op_cert o with Some p => [p] | None => [] end) ops.

Definition single_round (ops : list op) : Prop :=
  forall h r1 r2, In (h, r1) (certs ops) -> In (h, r2) (certs ops) -> r1 = r2.

Definition store_monotone_outside_F5_statement (f : cfg) : Prop :=
  forall ops s o s' r, single_round (ops ++ [o]) ->
  run (init f) ops = s -> step s o = (s', r) ->
  match highest (store s) with
  | None => True
  | Some old => exists new, highest (store s') = Some new /\
      ((st_height new = st_height old /\ st_msg new = st_msg old) \/ better old new)
  end.

(* the F5 witness is outside that shape *)
Example f5_witness_has_two_rounds : ~ single_round [f5_first; f5_second].
Proof. intros H. specialize (H 10 1 2). simpl in H. assert (1 = 2) by (apply H; auto). discriminate. Qed.
