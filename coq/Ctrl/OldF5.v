(* Regression witness for finding F5 (C15): on the tree WITHOUT work/fix-C15.diff (fixed = false)
   clause (c) is false.  UponDecided compares the signer count of an incoming decided message only
   with the commit messages it holds for the SAME round, so a 3-signer certificate of round 2
   replaces the stored 4-signer certificate of round 1 of the same height
   (corpus/C15/f5-other-round-fewer-signers.ops replays this on the real code). *)
From Coq Require Import List NArith Bool Arith Lia.
From SSV Require Import Ctrl.Model.
Import ListNotations.
Local Open Scope N_scope.

Definition old_light : cfg := {| full := false; fixed := false; quorum := 3 |}.
Definition old_full : cfg := {| full := true; fixed := false; quorum := 3 |}.

Definition f5_first : op := ODecided 10 {| c_round := 1; c_signers := [1; 2; 3; 4] |} true true.
Definition f5_second : op := ODecided 10 {| c_round := 2; c_signers := [1; 2; 3] |} true true.

Lemma f5_witness : forall f, f = old_light \/ f = old_full ->
  let s := run (init f) [f5_first] in
  let s' := fst (step s f5_second) in
  option_map (fun r => (st_height r, c_round (st_msg r), c_signers (st_msg r))) (highest (store s))
    = Some (10, 1, [1; 2; 3; 4]) /\
  option_map (fun r => (st_height r, c_round (st_msg r), c_signers (st_msg r))) (highest (store s'))
    = Some (10, 2, [1; 2; 3]).
Proof. intros f [->| ->]; vm_compute; split; reflexivity. Qed.

Lemma store_monotone_refuted_old : forall f, f = old_light \/ f = old_full ->
  ~ store_monotone_statement f.
Proof.
  intros f Hf H.
  assert (K : omono (highest (store (run (init f) [f5_first])))
                    (highest (store (fst (step (run (init f) [f5_first]) f5_second))))).
  { eapply H; [reflexivity|apply surjective_pairing]. }
  destruct Hf as [-> | ->]; vm_compute in K;
    destruct K as [new [Hn [Hm|[Hm|[_ Hm]]]]]; inversion Hn; subst new;
    try discriminate; try lia.
Qed.

(* the same two messages on the tree with the fix keep the 4-signer certificate *)
Example f5_fixed_keeps_certificate :
  let f := {| full := false; fixed := true; quorum := 3 |} in
  option_map (fun r => (st_height r, c_round (st_msg r), c_signers (st_msg r)))
    (highest (store (run (init f) [f5_first; f5_second]))) = Some (10, 1, [1; 2; 3; 4]).
Proof. vm_compute. reflexivity. Qed.
