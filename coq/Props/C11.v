(* C11 - Registry state is a deterministic function of the contract event log.
   This file contains only statements, each closed by [exact], Print Assumptions, and Examples.

   Spec.v  = the registration rules ([apply], [spec_run]: the events in log order, whatever the batching).
   Impl.v  = the event handler as coded: database, block transaction, in-memory share map, in-memory
             operator id, key-manager side effects ([process_block], [run_impl]).
   [abs]   = the registry a node state stands for: its committed tables and its operator id.
   Histories are lists of [op]: blocks of events, metadata updates, restarts.

   Hypotheses, and why:
     [increasing]  block numbers strictly increase (a block that is not newer is refused: C12);
     [wf_op]       operator ids are non-zero, and - AS CODED, i.e. while
                   Gen.RegistryConsts.ops_read_committed = true - no block carries two OperatorAdded
                   events with the same id.  The last theorem shows the second one is necessary as coded. *)
From Coq Require Import List NArith Bool.
From SSV Require Import Gen.RegistryConsts Registry.Types Registry.Spec Registry.Impl Registry.Proofs.
Import ListNotations.
Local Open Scope N_scope.

(* The handler refines the rules: after any history the node's persisted shares, operators, fee
   recipients, nonces, liquidation flags, own operator id and last processed block are what the
   rules prescribe for the flattened event log. *)
Theorem C11_impl_refines_spec : forall ops,
  Forall wf_op ops -> increasing 0 ops ->
  abs (run_impl istate_init ops) = spec_run reg_init ops.
Proof. exact (fun ops W I => proj1 (run_refines ops istate_init inv_init W I)). Qed.
Print Assumptions C11_impl_refines_spec.

(* ... from every state the invariant holds in (so: from every reachable state), and the invariant
   is kept. *)
Theorem C11_refines_from_any_state : forall ops st,
  inv st -> Forall wf_op ops -> increasing (x_last (db st)) ops ->
  abs (run_impl st ops) = spec_run (abs st) ops /\ inv (run_impl st ops).
Proof. exact run_refines. Qed.
Print Assumptions C11_refines_from_any_state.

(* Per block, the tasks handed to the task executor are the rules' tasks, in order. *)
Theorem C11_block_tasks : forall st b,
  inv st -> wf_block b -> x_last (db st) < bnum b ->
  exists tasks steps,
    snd (process_block st b) = BDone tasks steps /\
    abs (fst (process_block st b)) = with_last (fst (spec_block (abs st) (bevents b))) (bnum b) /\
    tasks = snd (spec_block (abs st) (bevents b)) /\
    inv (fst (process_block st b)).
Proof. exact block_refines. Qed.
Print Assumptions C11_block_tasks.

(* The result does not depend on how the events are batched into blocks: two histories with the same
   flattened log (and the same final block number) end in the same registry. *)
Theorem C11_batching_irrelevant : forall st ops1 ops2,
  inv st -> Forall wf_op ops1 -> Forall wf_op ops2 ->
  increasing (x_last (db st)) ops1 -> increasing (x_last (db st)) ops2 ->
  flat ops1 = flat ops2 ->
  last_block_num ops1 (x_last (db st)) = last_block_num ops2 (x_last (db st)) ->
  abs (run_impl st ops1) = abs (run_impl st ops2).
Proof. exact batching_irrelevant. Qed.
Print Assumptions C11_batching_irrelevant.

(* The in-memory view equals the database after every committed block / update: the share map is the
   shares table, the operator id is the one a lookup by public key finds. *)
Theorem C11_mem_equals_db : forall st ops,
  inv st -> Forall wf_op ops -> increasing (x_last (db st)) ops ->
  mem (run_impl st ops) = x_shares (db (run_impl st ops)) /\
  self (run_impl st ops) = find_self (x_ops (db (run_impl st ops))).
Proof. exact mem_equals_db. Qed.
Print Assumptions C11_mem_equals_db.

(* A restart (every in-memory structure dropped and rebuilt from the database) anywhere in a history is
   invisible: the whole node state, key manager included, is reproduced. *)
Theorem C11_restart : forall st ops1 ops2,
  inv st -> Forall wf_op ops1 -> increasing (x_last (db st)) ops1 ->
  run_impl st (ops1 ++ ORestart :: ops2) = run_impl st (ops1 ++ ops2).
Proof. exact restart_invisible. Qed.
Print Assumptions C11_restart.

(* ---- the rules themselves (on Spec; they transfer to the handler by the theorems above) ----------- *)

(* A validator is added only by a ValidatorAdded event with a valid owner signature over the expected
   nonce, an existing distinct committee of valid size, correctly sized share data and - when the
   node's operator is in the committee - a decryptable key matching its public share. *)
Theorem C11_rule_add : forall g e v s,
  aget v (g_shares g) = None -> aget v (g_shares (fst (apply g e))) = Some s ->
  exists a, e = EValidatorAdded a /\ va_v a = v /\ s_owner s = va_owner a /\
            sig_valid a (expected_nonce (g_rcp g) (va_owner a)) = true /\
            valid_committee g (va_ops a) = true /\
            va_len a = expected_len (lenN (va_ops a)) /\
            own_key_valid (g_self g) a = true.
Proof. exact rule_add. Qed.
Print Assumptions C11_rule_add.

(* Only the owner can remove it ... *)
Theorem C11_rule_remove : forall g e v s,
  aget v (g_shares g) = Some s -> aget v (g_shares (fst (apply g e))) = None ->
  exists ops, e = EValidatorRemoved (s_owner s) ops v.
Proof. exact rule_remove. Qed.
Print Assumptions C11_rule_remove.

(* ... or exit it. *)
Theorem C11_rule_exit : forall g e v blk idx,
  snd (apply g e) = Some (TExit v blk idx) ->
  exists s ops, e = EValidatorExited (s_owner s) ops v blk /\ aget v (g_shares g) = Some s /\
                belongs (g_self g) s = true /\ s_meta s = Some idx.
Proof. exact rule_exit. Qed.
Print Assumptions C11_rule_exit.

(* The nonce counts every add attempt exactly once - valid or malformed - MODULO 2^16: the nonce the
   next ValidatorAdded of an owner must be signed over advances by the number of that owner's
   ValidatorAdded events in the log, reduced mod 2^nonce_bits (Nonce is a uint16 and wraps). *)
Theorem C11_nonce_counts_mod_2_16 : forall l g o,
  expected_nonce (g_rcp (fold_left apply_atom l g)) o =
  (expected_nonce (g_rcp g) o + attempts o l) mod nonce_mod.
Proof. exact nonce_counts. Qed.
Print Assumptions C11_nonce_counts_mod_2_16.

(* ---- as coded, the no-duplicate-id hypothesis cannot be dropped (finding; see the report) --------- *)
Theorem C11_dup_operator_id_refuted :
  ops_read_committed = true ->
  flat dup_one_block = flat dup_two_blocks /\
  last_block_num dup_one_block 0 = last_block_num dup_two_blocks 0 /\
  abs (run_impl istate_init dup_one_block) <> abs (run_impl istate_init dup_two_blocks) /\
  abs (run_impl istate_init dup_one_block) <> spec_run reg_init dup_one_block /\
  mem_eq_db (run_impl istate_init dup_one_block) = false /\
  self (run_impl istate_init (dup_one_block ++ [ORestart])) <> self (run_impl istate_init dup_one_block).
Proof. exact dup_operator_id_refuted. Qed.
Print Assumptions C11_dup_operator_id_refuted.

(* ---- non-vacuity ------------------------------------------------------------------------------------ *)

(* A history inside the hypotheses: four operators (the node is operator 2), a valid add of validator 1
   for nonce 0, a replayed signature (rejected, counted), a removal by a stranger (ignored), a metadata
   update, a restart, liquidation, a valid add for nonce 2, removal by the owner. *)
Definition ex_add (v owner nonce : N) : vadd :=
  {| va_owner := owner; va_ops := [1; 2; 3; 4]; va_v := v; va_len := expected_len 4;
     va_sig := Some (v, owner, nonce); va_shares := [(v * 16 + 1, false); (v * 16 + 2, true); (v * 16 + 3, false); (v * 16 + 4, false)] |}.
Definition ex_ops : list op :=
  [ OBlock {| bnum := 10; bevents := [EOperatorAdded 1 7 2; EOperatorAdded 2 7 own_pk; EOperatorAdded 3 7 4; EOperatorAdded 4 7 5] |};
    OBlock {| bnum := 20; bevents := [EValidatorAdded (ex_add 1 7 0); EValidatorAdded (ex_add 2 7 0);
                                      EValidatorRemoved 8 [1; 2; 3; 4] 1] |};
    OMeta 1 55; ORestart;
    OBlock {| bnum := 30; bevents := [EClusterLiquidated 7 [4; 3; 2; 1]; EValidatorAdded (ex_add 3 7 2);
                                      EValidatorExited 7 [1; 2; 3; 4] 1 30; EValidatorRemoved 7 [1; 2; 3; 4] 3;
                                      EFeeRecipientUpdated 7 9] |} ].

Example C11_example_hypotheses : Forall wf_op ex_ops /\ increasing 0 ex_ops.
Proof.
  split.
  - repeat (apply Forall_cons; [|]); try apply Forall_nil; try exact I;
      (split; [repeat (apply Forall_cons; [simpl; first [exact I | discriminate]|]); apply Forall_nil
              |intros _; simpl; repeat (constructor; [simpl; intuition discriminate|]); constructor]).
  - simpl. repeat split; reflexivity.
Qed.

Example C11_example_result :
  let st := run_impl istate_init ex_ops in
  map fst (x_shares (db st)) = [1] /\                                   (* 2: replayed nonce; 3: removed *)
  option_map s_liq (aget 1 (x_shares (db st))) = Some true /\
  aget 7 (x_rcp (db st)) = Some {| r_fee := 9; r_nonce := Some 2 |} /\  (* three attempts *)
  self st = 2 /\ x_last (db st) = 30 /\ km_use (km st) = [18] /\
  snd (process_block (run_impl istate_init (firstn 4 ex_ops)) {| bnum := 30; bevents := [EValidatorExited 7 [] 1 30] |})
    = BDone [TExit 1 30 55] [STxn; SCommit].
Proof. vm_compute. repeat split; reflexivity. Qed.
