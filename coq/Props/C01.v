(* C01 — Consensus agreement: honest operators never decide different values.  Statements only.

   The system (Qbft/System.v): the operators of one committee run the node's controller and the
   runner's compaction for one validator, role and height; up to f of the 3f+1 are Byzantine; the
   network delivers ANY message whose verifying signatures are genuine (honest signers really sent
   that content), in any order, any number of times, to any subset; timeouts fire at any time. *)
From Coq Require Import List NArith ZArith Bool.
From SSV Require Import Qbft.Model Qbft.Controller Qbft.System Qbft.Safety Qbft.SystemWitness.
Import ListNotations.
Local Open Scope N_scope.

(* The committee is well-formed: distinct operators, 3f+1 of them with f >= 1, at most f Byzantine,
   quorum 2f+1, signature verification on (the production setting). *)
Definition wf_committee (c0 : cfg) (byz : N -> bool) (f : nat) : Prop :=
  NoDup (committee c0) /\ length (committee c0) = (3 * f + 1)%nat /\
  (length (filter byz (committee c0)) <= f)%nat /\ quorum c0 = N.of_nat (2 * f + 1) /\
  (1 <= f)%nat /\ v_verify (var c0) = true.

(* Agreement, for every committee size, every assignment of start values, every interleaving and
   every behaviour of the Byzantine operators, along every execution in which no decided message
   moves the round of a not-yet-decided instance BACKWARDS: any two decisions reported by honest
   operators carry the same value. *)
Theorem C01_agreement_outside_F6 : forall c0 byz h f vs tr,
  wf_committee c0 byz f ->
  valid_trace c0 byz (no_rewind c0) (init c0 h vs) tr ->
  forall i d j d', In (i, d) (reports c0 (init c0 h vs) tr) -> In (j, d') (reports c0 (init c0 h vs) tr) ->
    c_full (co d) = c_full (co d').
Proof.
  intros c0 byz h f vs tr (A & B & C & D & E & F). exact (agreement c0 byz h f A B C D E F vs tr).
Qed.
Print Assumptions C01_agreement_outside_F6.

(* The property as stated - the same without the no-rewind hypothesis - is FALSE of the code: *)
Definition C01_agreement_statement : Prop := forall c0 byz h f vs tr,
  wf_committee c0 byz f ->
  valid_trace c0 byz (fun _ _ => True) (init c0 h vs) tr ->
  forall i d j d', In (i, d) (reports c0 (init c0 h vs) tr) -> In (j, d') (reports c0 (init c0 h vs) tr) ->
    c_full (co d) = c_full (co d').

Lemma f6_wf : wf_committee f6_cfg f6_byz 1.
Proof.
  unfold wf_committee, f6_cfg; cbn. repeat split; auto.
  repeat constructor; cbn; intuition discriminate.
Qed.

(* finding F6: four operators, operator 1 Byzantine and leader of round 1; operators 3 and 2 report
   value 1, operator 4 reports value 2 *)
Theorem C01_refuted : ~ C01_agreement_statement.
Proof.
  intros H.
  assert (Hv : valid_trace f6_cfg f6_byz (fun _ _ => True) g0 f6_trace)
    by (apply check_trace_ok; exact f6_trace_enabled).
  pose proof f6_reports as Hr.
  remember (reports f6_cfg g0 f6_trace) as rs eqn:Ers.
  destruct rs as [|[i1 d1] [|[i2 d2] [|[i3 d3] [|]]]]; try discriminate Hr.
  cbn in Hr. injection Hr as E1 F1 E2 F2 E3 F3.
  assert (Hq : c_full (co d1) = c_full (co d3)).
  { apply (H f6_cfg f6_byz f6_h 1%nat (fun _ => Some 5) f6_trace f6_wf Hv i1 d1 i3 d3);
      change (init f6_cfg f6_h (fun _ => Some 5)) with g0; rewrite <- Ers.
    - left. reflexivity.
    - right. right. left. reflexivity. }
  rewrite F1, F3 in Hq. discriminate Hq.
Qed.
Print Assumptions C01_refuted.

(* One height at a time is no restriction: an instance refuses every message of another height and is
   left untouched by it, so the executions of different heights are independent. *)
Theorem C01_other_heights_are_refused : forall c s m,
  can_process s = true -> c_height (co m) <> s_height s -> c_type (co m) <= T_ROUNDCHANGE ->
  process_msg c s m = (s, [], PErr).
Proof. exact other_height_refused. Qed.
Print Assumptions C01_other_heights_are_refused.

(* Non-vacuity of the theorem: the first part of the same execution is rewind-free and contains a
   reported decision. *)
Definition no_rewindb (c0 : cfg) (g : sys) (l : label) : bool :=
  match l with LDeliver i m => negb (rewinds (cfg_of c0 i) (st g i) m) | LTimeout _ => true end.

Fixpoint check_nr (c0 : cfg) (byz : N -> bool) (g : sys) (tr : list label) : bool :=
  match tr with
  | [] => true
  | l :: tl => enabledb c0 byz g l && no_rewindb c0 g l && check_nr c0 byz (sys_step c0 g l) tl
  end.

Lemma check_nr_ok c0 byz : forall tr g, check_nr c0 byz g tr = true -> valid_trace c0 byz (no_rewind c0) g tr.
Proof.
  induction tr as [|l tl IH]; intros g H; cbn in *; [exact I|].
  apply andb_prop in H. destruct H as [H H3]. apply andb_prop in H. destruct H as [H1 H2].
  split; [apply enabledb_ok; exact H1|]. split; [|auto].
  destruct l; cbn in *; [|exact I]. destruct (rewinds _ _ _); [discriminate|reflexivity].
Qed.

Example C01_example :
  valid_trace f6_cfg f6_byz (no_rewind f6_cfg) g0 (t_a ++ t_b ++ t_c ++ t_d) /\
  report_values (reports f6_cfg g0 (t_a ++ t_b ++ t_c ++ t_d)) = [(3, Some 1)].
Proof. split; [apply check_nr_ok; vm_compute; reflexivity|vm_compute; reflexivity]. Qed.
