(* C15 — A duty height once started or decided is never run again, even after restart; the stored
   highest decided instance is only replaced by a higher height or, at equal height, more signers.
   This file contains only statements, each closed by [exact], Print Assumptions, and Examples.

   Vocabulary (Ctrl/Model.v): [init f] is a first process start on an empty database for a full or
   light node; [step] runs one operation of a history: a duty start (the runner's StartNewDuty down to
   Controller.StartNewInstance), a decided-looking commit message with the verdict of the real
   ValidateDecided attached, a local decision of the running instance, or a restart (new controller
   and runner, LoadHighestInstance over the same database).  [grun] additionally collects the
   heights started (successfully) or learned decided since the process started, beginning with the
   height the process loaded from the store. *)
From Coq Require Import List NArith Bool.
From SSV Require Import Ctrl.Model Ctrl.Proofs Ctrl.Proofs2 Ctrl.Proofs3 Ctrl.OldF5 Ctrl.Refused.
Import ListNotations.
Local Open Scope N_scope.

(* (a) No re-run.  After ANY history (restarts at any point, full or light node), a duty start that
   succeeds is for a slot strictly above every height started or learned decided in this process
   life and above the height the process loaded.  The one exception the code makes is slot 0:
   ShouldProcessDuty lets every slot pass while the controller height is 0, and then only an instance
   of height 0 held in memory refuses it. *)
Theorem C15_no_rerun : forall f ops s g slot s',
  grun (init f, []) ops = (s, g) ->
  step s (OStart slot) = (s', SOk) ->
  forall h, In h g -> h < slot \/ slot = 0.
Proof. exact no_rerun. Qed.
Print Assumptions C15_no_rerun.

(* On a light node there is no exception: an instance of height 0 is always in the container once
   height 0 has been started or learned decided (the full node's exception comes from
   InstanceForHeight finding a historical record instead; see C15_height0_exception_is_real). *)
Theorem C15_no_rerun_light : forall f ops s g slot s',
  full f = false ->
  grun (init f, []) ops = (s, g) ->
  step s (OStart slot) = (s', SOk) ->
  forall h, In h g -> h < slot.
Proof. exact no_rerun_light. Qed.
Print Assumptions C15_no_rerun_light.

(* (b) Restart.  From ANY state, a restart leaves the store untouched, resumes with exactly the
   height of the stored highest decided instance (0 if there is none), and refuses every duty at or
   below it - slot 0 included, because the loaded instance is put back into the container. *)
Theorem C15_restart : forall s,
  store (restart s) = store s /\
  match highest (store s) with
  | Some rec =>
      height (ct (restart s)) = st_height rec /\
      forall slot, slot <= st_height rec -> snd (step (restart s) (OStart slot)) <> SOk
  | None => height (ct (restart s)) = 0
  end.
Proof. exact restart_resumes. Qed.
Print Assumptions C15_restart.

(* ... and it stays refused, without exception: in whatever later life, after whatever history, no
   duty at or below the height of the stored highest decided instance starts (the instance of the
   controller's own height is never evicted from the sorted container). *)
Theorem C15_stored_height_not_restarted : forall f ops s slot s' rec,
  run (init f) ops = s ->
  step s (OStart slot) = (s', SOk) ->
  highest (store s) = Some rec -> st_height rec < slot.
Proof. exact stored_not_restarted_strict. Qed.
Print Assumptions C15_stored_height_not_restarted.

(* (b), what makes the highest decided instance survive a restart.  Over ALL histories: whenever the
   controller holds a decided instance of its own height (other than 0), the stored highest instance
   is of exactly that height ... *)
Theorem C15_decided_current_is_stored : forall f ops s i,
  run (init f) ops = s ->
  find_inst (insts (ct s)) (height (ct s)) = Some i -> i_decided i = true -> height (ct s) <> 0 ->
  exists rec, highest (store s) = Some rec /\ st_height rec = height (ct s).
Proof. exact decided_current_is_stored. Qed.
Print Assumptions C15_decided_current_is_stored.

(* ... so every valid decided message for a height that is not below the controller height leaves
   that height in the highest record, with the two exceptions the code makes: height 0, and a full
   node that holds no instance of that height but finds a historical record of it (InstanceForHeight
   then returns a throw-away instance and UponDecided saves nothing) ... *)
Theorem C15_decided_is_persisted : forall f ops s h m l s' r,
  run (init f) ops = s -> step s (ODecided h m true l) = (s', r) ->
  height (ct s) <= h -> h <> 0 ->
  (full f = false \/ find_inst (insts (ct s)) h <> None \/ lookup (history (store s)) h = None) ->
  exists rec, highest (store s') = Some rec /\ st_height rec = h.
Proof. exact decided_is_persisted. Qed.
Print Assumptions C15_decided_is_persisted.

(* ... and so does every local decision of an instance that is not below the controller height. *)
Theorem C15_local_decision_is_persisted : forall f ops s h sg s',
  run (init f) ops = s -> step s (OLocal h sg) = (s', LDone true) ->
  height (ct s) <= h -> h <> 0 ->
  exists rec, highest (store s') = Some rec /\ st_height rec = h.
Proof. exact local_is_persisted. Qed.
Print Assumptions C15_local_decision_is_persisted.

(* (c) Store monotonicity, for the tree that carries work/fix-C15.diff: over all histories, every
   operation leaves the stored highest instance in place or replaces it by one of a higher height
   or of the same height with strictly more signers; it is never lost. *)
Theorem C15_store_monotone : forall f, fixed f = true ->
  forall ops s o s' r, run (init f) ops = s -> step s o = (s', r) ->
  match highest (store s) with
  | None => True
  | Some old => exists new, highest (store s') = Some new /\ (new = old \/ better old new)
  end.
Proof. exact store_monotone. Qed.
Print Assumptions C15_store_monotone.

(* (c) is FALSE for the code before the fix (finding F5): regression witness, full and light. *)
Theorem C15_store_monotone_refuted_old : forall f, f = old_light \/ f = old_full ->
  ~ store_monotone_statement f.
Proof. exact store_monotone_refuted_old. Qed.
Print Assumptions C15_store_monotone_refuted_old.

(* The container capacity read from types.go is at least 1 (LoadHighestInstance relies on it to
   keep the instance it loads; (b) is proved through this). *)
Theorem C15_capacity_pos : (1 <= capacity)%nat.
Proof. exact capacity_pos. Qed.
Print Assumptions C15_capacity_pos.

(* ---- non-vacuity ------------------------------------------------------------------------------------ *)

Definition c (r : N) (l : list N) : cert := {| c_round := r; c_signers := l |}.
Definition fx_full : cfg := {| full := true; fixed := true; quorum := 3 |}.
Definition fx_light : cfg := {| full := false; fixed := true; quorum := 3 |}.

Fixpoint results (s : sys) (ops : list op) : list res :=
  match ops with [] => [] | o :: tl => snd (step s o) :: results (fst (step s o)) tl end.

Definition view (s : sys) :=
  (height (ct s), map (fun i => (i_height i, i_decided i)) (insts (ct s)),
   option_map (fun r => (st_height r, c_round (st_msg r), c_signers (st_msg r))) (highest (store s))).

(* start, refused repeats, a local decision, a better and a weaker certificate of the same height, a
   future decided message, an invalid one, a restart that forgets the started height 9, refused old
   duties after the restart, a weaker certificate of another round after the restart. *)
Definition ex_ops : list op :=
  [ OStart 5; OStart 5; OStart 4; OLocal 5 [2; 3; 1; 4]; ODecided 5 (c 1 [1; 2; 3; 4]) true true;
    ODecided 5 (c 2 [1; 2; 3]) true true; ODecided 8 (c 1 [2; 3; 4]) true true; OStart 7; OStart 9;
    ODecided 9 (c 1 [1; 2; 3]) false true; ORestart; OStart 8; OStart 3;
    ODecided 8 (c 3 [1; 2; 4]) true true; OStart 9 ].

Example C15_example :
  results (init fx_light) ex_ops =
    [ SOk; SPassed; SPassed; LDone true; DOk; DOk; DWrongInst; SPassed; SOk; DRejected; RDone;
      SPassed; SPassed; DOk; SOk ] /\
  view (run (init fx_light) ex_ops) = (9, [(9, false); (8, true)], Some (8, 1, [2; 3; 4])) /\
  snd (grun (init fx_light, []) ex_ops) = [9; 8; 8].
Proof. vm_compute. repeat split; reflexivity. Qed.

(* The slot-0 exception of (a) is real, on a full node: height 0 is learned decided while height 3 is
   running (stored as a historical record only), the process restarts with an empty highest record,
   learns height 0 again from a decided message (found in the historical records, so no instance is
   put into the container) - and a duty for slot 0 starts.  The light node refuses it. *)
Definition ex0 : list op :=
  [ OStart 3; ODecided 0 (c 1 [1; 2; 3]) true true; ORestart; ODecided 0 (c 1 [1; 2; 3]) true true ].

Example C15_height0_exception_is_real :
  snd (grun (init fx_full, []) ex0) = [0] /\
  snd (step (run (init fx_full) ex0) (OStart 0)) = SOk /\
  snd (step (run (init fx_light) ex0) (OStart 0)) = SExists.
Proof. vm_compute. repeat split; reflexivity. Qed.

(* The hypotheses of (c): a reachable state with a stored certificate that an operation improves. *)
Example C15_store_monotone_nontrivial :
  let s := run (init fx_full) [ODecided 10 (c 2 [1; 2; 3]) true true] in
  let s' := fst (step s (ODecided 10 (c 1 [1; 2; 3; 4]) true true)) in
  view s = (10, [(10, true)], Some (10, 2, [1; 2; 3])) /\
  view s' = (10, [(10, true)], Some (10, 1, [1; 2; 3; 4])).
Proof. vm_compute. split; reflexivity. Qed.

(* Both exceptions of the persistence theorems are real.  Full node: height 9 is learned decided below
   the started height 10 (historical record only), learned again after a restart - nothing is stored, and
   after the next restart slot 9 starts; the light node stores it and keeps refusing.  Height 0: a
   refused second start of slot 0 clears the runner's running instance, the local decision of height 0
   is not stored, and after a restart slot 0 starts again. *)
Definition ex9 : list op :=
  [ OStart 10; ODecided 9 (c 1 [1; 2; 3]) true true; ORestart; ODecided 9 (c 1 [1; 2; 3]) true true; ORestart ].

Example C15_persistence_exceptions_are_real :
  view (run (init fx_full) ex9) = (0, [], None) /\
  snd (step (run (init fx_full) ex9) (OStart 9)) = SOk /\
  view (run (init fx_light) ex9) = (9, [(9, true)], Some (9, 1, [1; 2; 3])) /\
  snd (step (run (init fx_light) ex9) (OStart 9)) = SPassed /\
  results (init fx_light) [OStart 0; OStart 0; OLocal 0 [1; 2; 3]; ORestart; OStart 0]
    = [SOk; SExists; LDone true; RDone; SOk].
Proof. vm_compute. repeat split; reflexivity. Qed.

(* Histories in which the database refuses the writes of some decided messages (XDecidedRefused: the
   failing SaveInstance is only logged).  The in-process half of the property does not depend on the
   store: the message still raises the controller height, nothing started or learned as decided in this
   process life is started again, the store is untouched by the refused message and never weakened. *)
Theorem C15_no_rerun_with_refused_writes : forall f xs s g slot s',
  xgrun (init f, []) xs = (s, g) ->
  step s (OStart slot) = (s', SOk) ->
  forall h, In h g -> h < slot \/ slot = 0.
Proof. exact no_rerun_refused. Qed.
Print Assumptions C15_no_rerun_with_refused_writes.

Theorem C15_refused_decided_still_raises_height : forall s h m l s' r,
  cinv (ct s) (store s) ->
  xstep s (XDecidedRefused h m true l) = (s', r) ->
  height (ct s') = N.max (height (ct s)) h /\ store s' = store s /\ saved (ct s') = saved (ct s).
Proof. exact refused_decided_effect. Qed.
Print Assumptions C15_refused_decided_still_raises_height.

Theorem C15_store_monotone_with_refused_writes : forall f xs s x s' r,
  fixed f = true -> xrun (init f) xs = s -> xstep s x = (s', r) ->
  omono (highest (store s)) (highest (store s')).
Proof. exact store_monotone_refused. Qed.
Print Assumptions C15_store_monotone_with_refused_writes.

Theorem C15_refusal_free_histories_are_the_model : forall ops s, xrun s (map XOp ops) = run s ops.
Proof. exact xrun_embeds. Qed.
Print Assumptions C15_refusal_free_histories_are_the_model.

(* A TRANSIENT write failure (XDecidedRefusedOnce: only the first storage call that writes is refused): the
   runner saves the decided message of its running instance a second time after the controller did, so the
   decision of the running duty is in the highest record afterwards all the same. *)
Theorem C15_transient_failure_keeps_running_decision : forall f ops s h m l i s' r,
  run (init f) ops = s ->
  rn s = RRunning h -> height (ct s) <= h ->
  find_inst (insts (ct s)) h = Some i -> i_decided i = false ->
  xstep s (XDecidedRefusedOnce h m true l) = (s', r) ->
  r = DOk /\ exists rec, highest (store s') = Some rec /\ st_height rec = h.
Proof. exact transient_failure_keeps_running_decision. Qed.
Print Assumptions C15_transient_failure_keeps_running_decision.

(* duty 10 running and decided by an aggregated message whose first write fails: stored all the same; the same
   message for a duty that is NOT running (12) is saved once only and the transient failure loses the record *)
Example C15_transient_failure_example :
  let s := xrun (init fx_light) [XOp (OStart 10); XDecidedRefusedOnce 10 (c 1 [1; 2; 3]) true true] in
  let s2 := xrun (init fx_light) [XOp (OStart 10); XDecidedRefusedOnce 12 (c 1 [1; 2; 3]) true true] in
  (exists rec, highest (store s) = Some rec /\ st_height rec = 10) /\
  highest (store s2) = None /\ height (ct s2) = 12.
Proof. vm_compute. split; [eexists; split; reflexivity|split; reflexivity]. Qed.

(* duty 10 running, decided(12) arrives while writes are refused: height 12, nothing stored, duty 11 refused *)
Example C15_refused_write_example :
  let s := xrun (init fx_light) [XOp (OStart 10); XDecidedRefused 12 (c 1 [1; 2; 3]) true true] in
  height (ct s) = 12 /\ highest (store s) = None /\ snd (step s (OStart 11)) = SPassed.
Proof. vm_compute. repeat split; reflexivity. Qed.
