(* C09 - Message validation never accepts a message that breaks a gossip rule.
   This file contains only statements, each closed by [exact], Print Assumptions, and Examples.
   Reading of the two ambiguous clauses as fixed in DESIGN.md: slot and round windows are stated for
   consensus messages; "attached full data" for proposals, round changes and decided messages. *)
From Coq Require Import List NArith ZArith Bool.
From SSV Require Import Gen.ValidationConsts Validation.Model Validation.Rules Validation.ProofsPanic
     Validation.ProofsRules Validation.ProofsTime Validation.ProofsAccept Validation.ProofsHist.
Import ListNotations.

(* Accept implies every rule: known, active, non-liquidated validator; own domain; the validator's
   topic; once signed envelopes are active a registered operator's valid RSA signature over exactly
   the payload; for a consensus message: known type, well-formed signature, signers sorted, distinct,
   non-zero committee members, one signer unless a quorum-sized commit, proposal from the leader
   committee[(height+round-1) mod n], attached full data hashing to the root, slot window and round
   window of the role in unbounded integer arithmetic (no wrap-around), well-formed justifications, duty
   present; for a partial signature message: type known and matching the role, signer a committee
   member, all inner messages from that signer with distinct roots and well-formed signatures. *)
Theorem C09_accept_implies_rules : forall c vs now env vs',
  wf_cfg c -> wf_time c now -> validate c vs now env = (Accept, vs') -> accept_rules c now env.
Proof. exact accept_implies_rules. Qed.
Print Assumptions C09_accept_implies_rules.

(* Per-signer limits over ALL histories of validations from a fresh validator: for every message id
   and signer, the accepted consensus messages listing that signer never go back in (slot, round),
   number at most limit-many per (slot, round, kind) - 1 proposal, prepare, commit, round change,
   n(f+1) decided - and contain no second proposal for the same (slot, round) at all. *)
Theorem C09_per_signer_limits : forall c h, wf_cfg c ->
  let acc := accepted_consensus h (snd (run c [] h)) in
  forall k s,
    nondecreasing (map slot_round (by_signer k s acc)) /\
    (forall sl r kind, (count_at (by_signer k s acc) sl r kind <= limit_of (committee_size c k) kind)%Z) /\
    no_second_proposal_with_other_data (by_signer k s acc).
Proof. exact per_signer_limits. Qed.
Print Assumptions C09_per_signer_limits.

(* The invariant behind it is preserved by every single validation from every state satisfying it
   (the SignerState is exactly the summary of the accepted messages of its current round). *)
Theorem C09_signer_state_invariant : forall c vs now env r vs' acc,
  wf_cfg c -> hist_inv c vs acc -> validate c vs now env = (r, vs') ->
  hist_inv c vs' (acc ++ accepted_of env r).
Proof. exact validate_preserves_hist_inv. Qed.
Print Assumptions C09_signer_state_invariant.

(* Frame: validating a message of id A leaves the state of every other id untouched, and its
   verdict and effect on A's state depend on the state of A only. *)
Theorem C09_frame : forall c vs now env,
  (forall k, key_eqb (env_key env) k = false -> get_cs k (snd (validate c vs now env)) = get_cs k vs) /\
  (forall vs2, get_cs (env_key env) vs2 = get_cs (env_key env) vs ->
     fst (validate c vs2 now env) = fst (validate c vs now env) /\
     get_cs (env_key env) (snd (validate c vs2 now env)) = get_cs (env_key env) (snd (validate c vs now env))).
Proof. exact validate_frame. Qed.
Print Assumptions C09_frame.

(* The class of every error in errors.go (generated table): everything rejects except the fourteen
   clock / registry / history dependent errors. *)
Theorem C09_reject_classes : forall e, err_reject e = negb (expected_ignore e).
Proof. exact reject_classes. Qed.
Print Assumptions C09_reject_classes.

(* The windows and limits are the documented ones (generated constants and tables). *)
Theorem C09_windows_as_documented :
  allowedRoundsInFuture = 1%N /\ lateSlotAllowance = 2%N /\
  clockErrorTolerance_ns = 50000000%Z /\ lateMessageMargin_ns = 3000000000%Z /\
  quickTimeoutThreshold = 8%N /\ quickTimeout_ns = 2000000000%Z /\ slowTimeout_ns = 120000000000%Z /\
  max_round_table = [(0, 12); (1, 12); (2, 6); (3, 6); (4, 6); (5, 0); (6, 0)]%N /\
  ttl_table = [(2, Some 3); (3, Some 3); (4, Some 3); (0, Some 34); (1, Some 34); (5, None); (6, None)]%N /\
  limitProposal = 1%Z /\ limitPrepare = 1%Z /\ limitCommit = 1%Z /\ limitRoundChange = 1%Z /\
  signatureSize = 96%N /\ subnetsCount = 128%N /\ messageOffset = 264%N.
Proof. exact windows_as_documented. Qed.
Print Assumptions C09_windows_as_documented.

(* Go's time arithmetic, the part the slot window rests on: Sub is exact when the difference fits a
   Duration and saturates with the right sign otherwise. *)
Theorem C09_time_sub_sign : forall t u, tokb big t -> tokb big u ->
  (time_sub t u >? 0)%Z = (ns_of u <? ns_of t)%Z.
Proof. exact time_sub_pos. Qed.
Print Assumptions C09_time_sub_sign.

(* Non-vacuity and regression witnesses. *)
Definition ex_share : share :=
  {| s_liquidated := false; s_has_meta := true; s_attesting := true; s_quorum := 3; s_committee := [1; 2; 3; 4]%N |}.
Definition ex_cfg : cfg :=
  {| c_genesis := 1616508000; c_slot_dur := 12; c_spe := 32; c_perm_epoch := 10100; c_domain := 770;
     c_shares := [ex_share] |}.
Definition ex_msg (ty h r : N) (signers : list N) (fd : N) : cmsg :=
  {| c_sig_len := 96; c_sig_zero := false; c_type := ty; c_height := h; c_round := r; c_signers := signers;
     c_fd_len := (if N.eqb fd 0 then 0 else 30)%N; c_fd_id := fd; c_root_ok := true; c_pj_ok := true; c_pj_len := 0;
     c_rcj_ok := true; c_rcj_len := 0; c_just_ok := true; c_duty_ok := true |}.
Definition ex_env (m : cmsg) : envelope :=
  {| e_p2p := true; e_raw_len := 400; e_topic := Some 81%N; e_op_found := false; e_op_key_ok := false;
     e_rsa_ok := false; e_ssv_decode_ok := true; e_data_len := 200; e_domain := 770; e_pk_prefix := 612033258833;
     e_role := 0; e_pk_deser_ok := true; e_vid := 1; e_msg_type := 0; e_body := BConsensus m |}.
Definition ex_now : Z * Z := (1620348000, 300000000)%Z.   (* 0.3 s into slot 320000 *)

Example C09_example_wf : wf_cfg ex_cfg /\ wf_time ex_cfg ex_now.
Proof.
  split; [|vm_compute; repeat split; try reflexivity; intro H; discriminate H].
  split; [reflexivity|]. split; [reflexivity|]. constructor; [|constructor]. unfold wf_share. simpl. repeat constructor.
Qed.

Example C09_example_invariant_initially : hist_inv ex_cfg [] [].
Proof. exact (hist_inv_init ex_cfg). Qed.

(* a history: proposal (accepted), the same proposal again (ignored: limit), a second proposal with
   other data (rejected), a prepare and a decided message (accepted), a prepare of round 2 one slot
   later, then one of round 1 (ignored: round already advanced) *)
Definition ex_history : list ((Z * Z) * envelope) :=
  [ (ex_now, ex_env (ex_msg 0 320000 1 [1%N] 1));
    (ex_now, ex_env (ex_msg 0 320000 1 [1%N] 1));
    (ex_now, ex_env (ex_msg 0 320000 1 [1%N] 2));
    (ex_now, ex_env (ex_msg 1 320000 1 [2%N] 0));
    (ex_now, ex_env (ex_msg 2 320000 1 [1; 2; 3]%N 1));
    ((1620348014, 0)%Z, ex_env (ex_msg 1 320001 2 [2%N] 0));
    ((1620348014, 0)%Z, ex_env (ex_msg 1 320001 1 [2%N] 0)) ].
Example C09_example_history :
  snd (run ex_cfg [] ex_history) =
  [Accept; Ignore ErrTooManySameTypeMessagesPerRound; Reject ErrDuplicatedProposalWithDifferentData;
   Accept; Accept; Accept; Ignore ErrRoundAlreadyAdvanced].
Proof. vm_compute. reflexivity. Qed.

(* regression witness of finding F8 (repaired): without the slot guard the same prepare with
   height + 2^62 passes the slot-time check through the uint64 wrap-around; with it, it is early *)
Example C09_f8_slot_wrap_regression :
  validate_slot_time_unguarded ex_cfg (320000 + 4611686018427387904) 0 (time_unix 1620348000 300000000) = None /\
  validate_slot_time ex_cfg (320000 + 4611686018427387904) 0 (time_unix 1620348000 300000000) = Some (Ignore ErrEarlyMessage).
Proof. vm_compute. split; reflexivity. Qed.
