(* C07 — Consensus can always still terminate while at most f operators are faulty.
   Statements only.  What is proved: the timeout rule (third sentence of the property) in full; the
   fault-free synchronous case (second sentence) for the admitted committee sizes by evaluation of
   the whole committee's execution; leader rotation.  The recovery claim from every reachable state
   (first sentence) is kept visible as a statement; it is explored, not proved (DESIGN.md). *)
From Coq Require Import List NArith ZArith Bool.
From SSV Require Import Qbft.Model Qbft.Controller Qbft.Liveness Qbft.SyncRound Qbft.SyncGeneric Qbft.RecoverGeneric Qbft.RecoverPrepared.
Import ListNotations.
Local Open Scope N_scope.

(* Before the cut-off (CanProcessMessages) a round timeout always moves an operator to the next round,
   forgets the accepted proposal, re-arms the timer for the new round and makes the operator announce
   that round with a round-change that carries its prepared round and value iff it had prepared. *)
Theorem C07_timeout_progress : forall c s, can_process s = true ->
  let '(s', outs, ok) := upon_timeout c s in
  ok = true /\ s_round s' = s_round s + 1 /\ s_acc s' = None /\ s_height s' = s_height s /\
  s_decided s' = s_decided s /\
  exists rc, outs = [OBcast rc; OTimer (s_height s) (s_round s + 1)] /\
    c_type (co rc) = T_ROUNDCHANGE /\ c_round (co rc) = s_round s + 1 /\ c_height (co rc) = s_height s /\
    c_signers (co rc) = [me c] /\
    ((s_lpr s <> NO_ROUND /\ s_lpv s <> None) ->
       c_data_round (co rc) = s_lpr s /\ c_full (co rc) = s_lpv s /\ c_root (co rc) = hash (s_lpv s)) /\
    ((s_lpr s = NO_ROUND \/ s_lpv s = None) -> c_data_round (co rc) = NO_ROUND /\ c_full (co rc) = None).
Proof. exact timeout_progress. Qed.
Print Assumptions C07_timeout_progress.

(* The controller hands a timeout of the current round of an undecided instance to that rule. *)
Theorem C07_controller_forwards_timeout : forall c s, s_decided s = false ->
  on_timeout c s (s_height s) (s_round s) = upon_timeout c s.
Proof. exact on_timeout_forwards. Qed.
Print Assumptions C07_controller_forwards_timeout.

(* The cut-off is the only thing that stops the rule: rounds below 15 (as a Go int) can time out. *)
Theorem C07_cutoff : forall s, s_stopped s = false -> s_round s < 15 -> can_process s = true.
Proof.
  intros s Hs Hr. unfold can_process, to_int. rewrite Hs. cbn [negb andb].
  destruct (N.ltb_spec (s_round s) 9223372036854775808); [|exfalso; Lia.lia].
  apply Z.ltb_lt. unfold CUTOFF_ROUND. Lia.lia.
Qed.
Print Assumptions C07_cutoff.

(* Round-robin leader: position (height mod n + round - 1) mod n, so within n consecutive rounds of
   any height every committee member leads. *)
Theorem C07_leader_index : forall c h r,
  committee c <> [] -> (length (committee c) < 1000)%nat ->
  h < 4611686018427387904 -> 1 <= r -> r < 4611686018427387904 ->
  proposer c h r = nth_error (committee c) (N.to_nat ((h mod N.of_nat (length (committee c)) + r - 1)
                                                     mod N.of_nat (length (committee c)))).
Proof. exact proposer_index. Qed.
Print Assumptions C07_leader_index.

Theorem C07_leader_rotation : forall c h k,
  committee c <> [] -> (length (committee c) < 1000)%nat -> h < 4611686018427387904 ->
  (k < length (committee c))%nat ->
  exists r, 1 <= r <= N.of_nat (length (committee c)) /\ proposer c h r = nth_error (committee c) k.
Proof. exact leader_rotation. Qed.
Print Assumptions C07_leader_rotation.

(* Fault-free synchronous case: for committee sizes 4, 7, 10, 13 (ids 1..n, quorum 2f+1) and every
   height below n (so every operator is the leader once), in the execution where every operator
   starts with its own value, the leader's proposal, then all prepares, then all commits are delivered
   to everybody, every operator broadcasts exactly one prepare and one commit (the leader also its
   proposal), stays in round 1 and decides the LEADER's value.  The bound is part of the statement;
   the proof is a complete evaluation of these 34 whole-committee executions. *)
Theorem C07_sync_fault_free_bounded : forall n h,
  In n [4; 7; 10; 13]%nat -> (h < n)%nat -> sync_ok n (N.of_nat h) = true.
Proof. exact sync_fault_free_bounded. Qed.
Print Assumptions C07_sync_fault_free_bounded.

(* The same for arbitrary committees - any distinct non-zero operator ids, any f, any height whose leader
   computation succeeds (Go int range), any leader start value that passes the value check: *)
Definition C07_sync_fault_free_statement : Prop := sync_fault_free_statement.

Theorem C07_sync_fault_free : C07_sync_fault_free_statement.
Proof. exact sync_fault_free_statement_holds. Qed.
Print Assumptions C07_sync_fault_free.

(* ... and for every quorum between 1 and the committee size, not only 2f+1 of 3f+1 *)
Theorem C07_sync_fault_free_generic : forall (c : cfg) (h ld : N),
  NoDup (committee c) -> ~ In 0 (committee c) ->
  1 <= quorum c -> quorum c <= N.of_nat (length (committee c)) ->
  proposer c h FIRST_ROUND = Some ld ->
  value_check c (start_value ld) = true ->
  forall i, In i (committee c) -> sync_node_ok c h ld i = true.
Proof. exact sync_fault_free_generic. Qed.
Print Assumptions C07_sync_fault_free_generic.

(* the hypotheses are satisfiable: the 13-operator committee at height 1000 *)
Example C07_sync_fault_free_example :
  let c := sync_cfg 13 in
  NoDup (committee c) /\ ~ In 0 (committee c) /\ length (committee c) = (3 * 4 + 1)%nat /\
  quorum c = N.of_nat (2 * 4 + 1) /\ proposer c 1000 FIRST_ROUND = Some 13 /\
  value_check c (start_value 13) = true.
Proof.
  cbv zeta. split; [|split; [|split; [|split; [|split]]]]; try (vm_compute; reflexivity).
  - vm_compute.
    repeat (constructor; [intros H; simpl in H; repeat (destruct H as [H|H]; [discriminate H|]); exact H|]).
    constructor.
  - vm_compute. intros H. repeat (destruct H as [H|H]; [discriminate H|]). exact H.
Qed.

(* First sentence, one continuation proved for every committee: recovery from a silent first round.
   Nothing of round 1 was delivered (the leader is silent, or its proposal is lost); the operators of
   [live] - at least a quorum, the leader of round 2 among them, everybody else silent - time out,
   exchange round changes, the leader proposes its own start value justified by the first quorum of
   round changes, and with timely delivery of prepares and commits every live operator decides that
   value in round 2, i.e. within ONE further round.  [recover_bcasts] says that what each operator
   broadcasts is exactly what the schedule [recover_ops] delivers. *)
Theorem C07_recovery_from_silent_round : forall (c : cfg) (h ld1 ld2 : N) (live : list N),
  ~ In 0 (committee c) -> NoDup live -> (forall y, In y live -> In y (committee c)) ->
  proposer c h FIRST_ROUND = Some ld1 -> proposer c h R2 = Some ld2 -> In ld2 live ->
  value_check c (start_value ld2) = true ->
  1 <= quorum c -> quorum c <= N.of_nat (length live) -> 1 <= partial_quorum c ->
  forall i, In i live ->
  exists s bs,
    run (with_me c i) (new_instance h) (recover_ops c h ld2 live i) = (s, bs) /\
    s_decided s = true /\ s_dvalue s = start_value ld2 /\ s_round s = R2 /\
    bcasts bs = recover_bcasts c h ld1 ld2 live i.
Proof. exact recover_silent_round. Qed.
Print Assumptions C07_recovery_from_silent_round.

(* the hypotheses are satisfiable: 4 operators at height 0, operator 1 (leader of round 1) silent *)
Example C07_recovery_example :
  let c := sync_cfg 4 in
  ~ In 0 (committee c) /\ NoDup [2; 3; 4] /\ (forall y, In y [2; 3; 4] -> In y (committee c)) /\
  proposer c 0 FIRST_ROUND = Some 1 /\ proposer c 0 R2 = Some 2 /\
  value_check c (start_value 2) = true /\ quorum c = 3 /\ partial_quorum c = 2.
Proof.
  cbv zeta. repeat split; try (vm_compute; reflexivity).
  - vm_compute. intros H. repeat (destruct H as [H|H]; [discriminate H|]). exact H.
  - repeat (constructor; [intros H; simpl in H; repeat (destruct H as [H|H]; [discriminate H|]); exact H|]).
    constructor.
  - intros y Hy. vm_compute. simpl in Hy. tauto.
Qed.

(* A second continuation, also for every committee: round 1 PREPARED the leader's value at every live
   operator and then stalled (no commit delivered).  The round changes carry the preparation with its
   prepare quorum, the leader of round 2 has to re-propose that value, and with timely delivery every
   live operator decides it in round 2 - the value that may already have been decided elsewhere. *)
Theorem C07_recovery_from_prepared_round : forall (c : cfg) (h ld1 ld2 : N) (live : list N),
  NoDup (committee c) -> ~ In 0 (committee c) -> NoDup live -> (forall y, In y live -> In y (committee c)) ->
  proposer c h FIRST_ROUND = Some ld1 -> In ld1 live ->
  proposer c h R2 = Some ld2 -> In ld2 live ->
  value_check c (start_value ld1) = true ->
  1 <= quorum c -> quorum c <= N.of_nat (length live) -> 1 <= partial_quorum c ->
  forall i, In i live ->
  exists s bs,
    run (with_me c i) (new_instance h) (prepared_ops c h ld1 ld2 live i) = (s, bs) /\
    s_decided s = true /\ s_dvalue s = start_value ld1 /\ s_round s = R2 /\
    bcasts bs = prepared_bcasts c h ld1 ld2 live i.
Proof. exact recover_prepared_round. Qed.
Print Assumptions C07_recovery_from_prepared_round.

(* the hypotheses are satisfiable: 4 operators at height 0, operator 4 silent, leaders 1 and 2 live *)
Example C07_recovery_prepared_example :
  let c := sync_cfg 4 in
  NoDup [1; 2; 3] /\ (forall y, In y [1; 2; 3] -> In y (committee c)) /\
  proposer c 0 FIRST_ROUND = Some 1 /\ proposer c 0 R2 = Some 2 /\
  value_check c (start_value 1) = true /\ quorum c = 3 /\ partial_quorum c = 2.
Proof.
  cbv zeta. repeat split; try (vm_compute; reflexivity).
  - repeat (constructor; [intros H; simpl in H; repeat (destruct H as [H|H]; [discriminate H|]); exact H|]).
    constructor.
  - intros y Hy. vm_compute. simpl in Hy. tauto.
Qed.

(* Recovery from every reachable state within f+3 rounds: stated in DESIGN.md (C07_recovery); it needs
   the system model of Qbft/System.v and is explored by the driver's `recover` mode, not proved. *)
