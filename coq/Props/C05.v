(* C05 — Only validly threshold-signed duty objects reach the beacon node, once.
   This file contains only statements, each closed by [exact], Print Assumptions, and Examples.
   The model (Runner/PartialSig.v) is the runner in the state "duty running, value decided";
   [hist] ranges over ALL sequences of partial-signature messages (any signer, slot, roots, shares,
   any order, any repetition) together with the beacon node's answer during each call. *)
From Coq Require Import List NArith Bool Arith.
From SSV Require Import Runner.PartialSig Runner.PartialSigProofs.
Import ListNotations.

(* Every Submit* call carries a signature that verifies under the validator key, over one of the
   signing roots expected from the decided value. *)
Theorem C05_submissions_are_valid : forall g hist st' os,
  run g init_state hist = (st', os) ->
  forall s, In s (submits os) ->
    verify_reconstructed (sub_sig s) = true /\ In (sub_root s) (expected g).
Proof. exact (fun g hist => run_submits_valid g hist init_state). Qed.
Print Assumptions C05_submissions_are_valid.

(* Each decided object is handed to the beacon node at most once (attempts that the beacon node
   refused are counted too).  The decided objects have pairwise different signing roots. *)
Theorem C05_at_most_once : forall g hist st' os,
  NoDup (expected g) ->
  run g init_state hist = (st', os) ->
  forall r, count_root r (submits os) <= 1.
Proof. exact run_at_most_once. Qed.
Print Assumptions C05_at_most_once.

(* Single-root duties (attestation, block, aggregate, sync message, exit, registration): as soon as
   the correct messages of [quorum] distinct committee members are among the first k inputs - in any
   order, among any other traffic from anybody - the object has been submitted within those k
   inputs.  No bound on the number of faulty senders is needed. *)
Theorem C05_bad_shares_cannot_block : forall g r0 hist k,
  expected g = [r0] -> 1 <= quorum g -> bn_always_ok hist = true ->
  live_at g hist k = true.
Proof. exact single_root_live_at. Qed.
Print Assumptions C05_bad_shares_cannot_block.

Theorem C05_quorum_of_correct_shares_submits : forall g r0 hist st' os,
  expected g = [r0] -> 1 <= quorum g -> bn_always_ok hist = true ->
  run g init_state hist = (st', os) ->
  quorum g <= length (correct_senders g hist) ->
  submitted r0 os = true.
Proof. exact single_root_liveness. Qed.
Print Assumptions C05_quorum_of_correct_shares_submits.

(* The committee form: n = 3f+1 members, quorum 2f+1, at most f of them faulty (what the faulty
   ones, or anybody else, send is unconstrained): once every non-faulty member's correct message has
   been delivered the object has been submitted.  Sizes 4, 7, 10, 13 are f = 1, 2, 3, 4. *)
Theorem C05_f_faulty_cannot_block : forall f g r0 hist faulty st' os,
  expected g = [r0] ->
  NoDup (committee g) -> length (committee g) = 3 * f + 1 -> quorum g = 2 * f + 1 ->
  length faulty <= f ->
  bn_always_ok hist = true ->
  (forall s, In s (committee g) -> ~ In s faulty ->
     exists i, In i hist /\ s_signer (fst i) = s /\ correct_msg g (fst i) = true) ->
  run g init_state hist = (st', os) ->
  submitted r0 os = true.
Proof. exact faulty_cannot_block. Qed.
Print Assumptions C05_f_faulty_cannot_block.

(* Multi-root duties (sync-committee contribution: every message carries one share per root).  The
   same liveness clause, for every decided object, for the runner without ([false]) / with ([true])
   the repair of finding P3 ([fix_multi], read from the source on every run): *)
Definition C05_multi_root_liveness_statement (repaired : bool) : Prop :=
  forall g hist k,
    fix_multi g = repaired ->
    NoDup (expected g) -> 1 <= quorum g -> bn_always_ok hist = true ->
    live_at g hist k = true.

(* Unrepaired it does not hold (DESIGN 5.2, P3): n = 4, two roots, member 4 sends a wrong share for
   the first root only; after the correct messages of 1, 2, 3 only the first object has been
   submitted and the duty is finished. *)
Theorem C05_multi_root_liveness_refuted : ~ C05_multi_root_liveness_statement false.
Proof. exact multi_root_liveness_refuted. Qed.
Print Assumptions C05_multi_root_liveness_refuted.

(* Repaired (the loop goes on after a failed reconstruction, Finished only when every root has its
   quorum) it holds for any number of roots, any committee, any traffic. *)
Theorem C05_multi_root_liveness_repaired : C05_multi_root_liveness_statement true.
Proof. exact multi_root_liveness_repaired. Qed.
Print Assumptions C05_multi_root_liveness_repaired.

(* The two failing shapes, evaluated. *)
Example C05_P3_witness :
  map (fun o => map sub_root (o_subs o)) (snd (run cfg4_2roots init_state p3_witness))
    = [ []; []; []; [0%N] ]
  /\ map o_err (snd (run cfg4_2roots init_state p3_witness)) = [EOk; EOk; EBadQuorum; EOk]
  /\ finished (fst (run cfg4_2roots init_state p3_witness)) = true
  /\ correct_senders cfg4_2roots p3_witness = [1; 2; 3]%N.
Proof. vm_compute. repeat split. Qed.

Example C05_early_finish_witness :
  map (fun o => map sub_root (o_subs o)) (snd (run cfg4_2roots init_state early_finish_witness))
    = [ []; []; []; [0%N]; [] ]
  /\ map o_err (snd (run cfg4_2roots init_state early_finish_witness)) = [EOk; EOk; EOk; EOk; ENoDuty]
  /\ correct_senders cfg4_2roots early_finish_witness = [2; 3; 4]%N
  /\ live_at cfg4_2roots early_finish_witness 5 = false.
Proof. vm_compute. repeat split. Qed.

(* the same two histories on the repaired runner: both objects are submitted *)
Example C05_witnesses_repaired :
  map (fun o => map sub_root (o_subs o)) (snd (run cfg4_2roots_repaired init_state p3_witness))
    = [ []; []; [1%N]; [0%N] ]
  /\ map (fun o => map sub_root (o_subs o)) (snd (run cfg4_2roots_repaired init_state early_finish_witness))
    = [ []; []; []; [0%N]; [1%N] ]
  /\ finished (fst (run cfg4_2roots_repaired init_state p3_witness)) = true
  /\ finished (fst (run cfg4_2roots_repaired init_state early_finish_witness)) = true.
Proof. vm_compute. repeat split. Qed.

(* ---- non-vacuity: committees of 4, 7, 10, 13 ------------------------------------------------- *)

Fixpoint ids (n : nat) : list N :=
  match n with O => [] | S k => ids k ++ [N.of_nat (S k)] end.

Definition cfg_n (f : nat) : cfg :=
  {| committee := ids (3 * f + 1); quorum := 2 * f + 1; duty_slot := 12%N; expected := [7%N]; fix_multi := false |}.

Definition msg1 (s slot root : N) (x : share) : input :=
  ({| s_signer := s; s_slot := slot;
      s_msgs := [ {| p_signer := s; p_root := root; p_share := x |} ] |}, true).

(* the first f members send wrong shares, a stranger, a wrong slot and a wrong root are interleaved,
   the other 2f+1 members send correct shares in descending order; before the last of them member 1
   tries another wrong share (a second failed quorum), afterwards its correct one (duty finished) *)
Definition hist_n (f : nat) : list input :=
  let good := map (fun s => msg1 s 12 7 Good) (skipn f (ids (3 * f + 1))) in
  map (fun s => msg1 s 12 7 (Bad (2 * s + 1))) (ids f)
  ++ [ msg1 99 12 7 Good; msg1 (N.of_nat (3 * f + 1)) 13 7 Good; msg1 (N.of_nat (3 * f + 1)) 12 8 Good ]
  ++ rev (tl good)
  ++ [ msg1 1 12 7 (Bad 2) ]
  ++ firstn 1 good
  ++ [ msg1 1 12 7 Good ].

Definition faulty_n (f : nat) : list N := ids f.

Definition meets_hypotheses (f : nat) : bool :=
  Nat.eqb (length (committee (cfg_n f))) (3 * f + 1)
  && bn_always_ok (hist_n f)
  && forallb (fun s => existsb (N.eqb s) (faulty_n f)
                       || existsb (fun i : input => N.eqb (s_signer (fst i)) s && correct_msg (cfg_n f) (fst i)) (hist_n f))
             (committee (cfg_n f))
  && Nat.leb (quorum (cfg_n f)) (length (correct_senders (cfg_n f) (hist_n f))).

Definition outcome (f : nat) : list errc * list (N * recsig) :=
  let os := snd (run (cfg_n f) init_state (hist_n f)) in
  (filter (fun e => match e with EOk => false | _ => true end) (map o_err os),
   map (fun s => (sub_root s, sub_sig s)) (submits os)).

Example C05_example_4 :
  meets_hypotheses 1 = true /\
  outcome 1 = ([ESigner; ESlot; ERoot; EBadQuorum; EBadQuorum; ENoDuty], [(7%N, RValid)]).
Proof. vm_compute. split; reflexivity. Qed.

Example C05_example_7 :
  meets_hypotheses 2 = true /\
  outcome 2 = ([ESigner; ESlot; ERoot; EBadQuorum; EBadQuorum; ENoDuty], [(7%N, RValid)]).
Proof. vm_compute. split; reflexivity. Qed.

Example C05_example_10 :
  meets_hypotheses 3 = true /\
  outcome 3 = ([ESigner; ESlot; ERoot; EBadQuorum; EBadQuorum; ENoDuty], [(7%N, RValid)]).
Proof. vm_compute. split; reflexivity. Qed.

Example C05_example_13 :
  meets_hypotheses 4 = true /\
  outcome 4 = ([ESigner; ESlot; ERoot; EBadQuorum; EBadQuorum; ENoDuty], [(7%N, RValid)]).
Proof. vm_compute. split; reflexivity. Qed.
