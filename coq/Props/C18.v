(* C18 — Publisher, subscriber and validator agree on topic and envelope for every key.
   This file contains only statements, each closed by [exact], Print Assumptions and Examples.
   [bytes l] says every element of l is < 256; keys, payloads and signatures are such lists. *)
From Coq Require Import List NArith ZArith Bool.
From SSV Require Import Gen.TopicsConsts Topics.Model Topics.Proofs.
Import ListNotations.
Local Open Scope N_scope.

(* For every key of at least 5 bytes (in particular every 48-byte validator key): the topics handed
   to the topics controller by Broadcast, Subscribe, Unsubscribe and Peers are the same single topic,
   the decimal name of s = (first five key bytes, big endian) mod subnets_count; the validator's topic
   check accepts a name on the wire exactly when it is the name of that topic; s is below the subnet
   count, the wire name is one of the advertised Topics(), and s is the index UpdateSubnets sets in the
   advertised subnet vector. *)
Theorem C18_topic_agreement : forall pk, bytes pk -> (5 <= length pk)%nat ->
  let s := be_value (firstn 5 pk) mod subnets_count in
  publish_topics pk = [decimal s] /\ subscribe_topics pk = [decimal s] /\
  unsubscribe_topics pk = [decimal s] /\ peers_topics pk = [decimal s] /\
  (forall x, validator_accepts (wire_topic x) pk = true <-> x = decimal s) /\
  s < subnets_count /\ In (wire_topic (decimal s)) all_topics /\
  advertised_subnet pk = Z.of_N s.
Proof. exact topic_agreement. Qed.
Print Assumptions C18_topic_agreement.

(* Malformed keys shorter than 5 bytes: everybody uses the "unknown" topic, which is not an
   advertised one. *)
Theorem C18_short_key : forall pk, (length pk < 5)%nat ->
  publish_topics pk = [unknown_subnet] /\ subscribe_topics pk = [unknown_subnet] /\
  (forall x, validator_accepts (wire_topic x) pk = true <-> x = unknown_subnet) /\
  ~ In (wire_topic unknown_subnet) all_topics /\ advertised_subnet pk = (-1)%Z.
Proof. exact short_key. Qed.
Print Assumptions C18_short_key.

(* For every key whatsoever the validator accepts, among wire names, exactly the published ones. *)
Theorem C18_validator_accepts_published : forall pk x,
  validator_accepts (wire_topic x) pk = true <-> In x (publish_topics pk).
Proof. exact validator_accepts_full. Qed.
Print Assumptions C18_validator_accepts_published.

(* The name algebra: stripping the prefix undoes adding it (for every base name: the leftmost
   occurrence of the prefix is the added one), different subnets have different wire names. *)
Theorem C18_base_of_full : forall x, base_name (full_name x) = x.
Proof. exact base_of_full. Qed.
Print Assumptions C18_base_of_full.

Theorem C18_decimal_injective : forall a b, decimal a = decimal b -> a = b.
Proof. exact decimal_inj. Qed.
Print Assumptions C18_decimal_injective.

Theorem C18_distinct_subnets_distinct_topics : forall a b,
  wire_topic (decimal a) = wire_topic (decimal b) -> a = b.
Proof. exact distinct_subnets_distinct_topics. Qed.
Print Assumptions C18_distinct_subnets_distinct_topics.

(* Envelope: wrapping a payload with operator id and a signature of the fixed size and unwrapping
   returns the same three parts; too-short input is refused; decoding never reads out of bounds. *)
Theorem C18_envelope_roundtrip : forall msg op sig,
  length sig = signature_size -> op < 2 ^ 64 ->
  decode (encode msg op sig) = DOk msg op sig.
Proof. exact envelope_roundtrip. Qed.
Print Assumptions C18_envelope_roundtrip.

Theorem C18_envelope_injective : forall m1 o1 s1 m2 o2 s2,
  length s1 = signature_size -> length s2 = signature_size -> o1 < 2 ^ 64 -> o2 < 2 ^ 64 ->
  encode m1 o1 s1 = encode m2 o2 s2 -> m1 = m2 /\ o1 = o2 /\ s1 = s2.
Proof. exact encode_injective. Qed.
Print Assumptions C18_envelope_injective.

Theorem C18_decode_rejects_short : forall enc, (length enc < message_offset)%nat -> decode enc = DErr.
Proof. exact decode_short. Qed.
Print Assumptions C18_decode_rejects_short.

Theorem C18_decode_total : forall enc, (message_offset <= length enc)%nat ->
  exists msg op sig, decode enc = DOk msg op sig /\
    length msg = (length enc - message_offset)%nat /\ length sig = signature_size.
Proof. exact decode_long. Qed.
Print Assumptions C18_decode_total.

Theorem C18_decode_never_panics : forall enc, decode enc <> DPanic.
Proof. exact decode_never_panics. Qed.
Print Assumptions C18_decode_never_panics.

(* Subnet bitmap: a vector with one entry per bit of the bitmap survives String / FromString up to
   the normalisation "non-zero -> 1", hence exactly when it is a 0/1 vector; the vector has one entry
   per subnet; the advertised entry of a key is still set after the round trip. *)
Theorem C18_subnets_roundtrip : forall s, length s = bitvector_bits ->
  subnets_from_string (subnets_to_string s) = Some (normalize_subnets s).
Proof. exact subnets_roundtrip. Qed.
Print Assumptions C18_subnets_roundtrip.

Theorem C18_subnets_roundtrip_bits : forall s, length s = bitvector_bits -> bit_vector s ->
  subnets_from_string (subnets_to_string s) = Some s.
Proof. exact subnets_roundtrip_bits. Qed.
Print Assumptions C18_subnets_roundtrip_bits.

Theorem C18_bitmap_covers_subnets : N.to_nat subnets_count = bitvector_bits.
Proof. exact bitmap_covers_subnets. Qed.
Print Assumptions C18_bitmap_covers_subnets.

Theorem C18_advertised_bit_survives : forall pk vec, bytes pk -> (5 <= length pk)%nat ->
  length vec = N.to_nat subnets_count ->
  exists i back, advertised_subnet pk = Z.of_nat i /\ (i < length vec)%nat /\
    subnets_from_string (subnets_to_string (set_nth i 1 vec)) = Some back /\
    length back = length vec /\ nth i back 0 = 1.
Proof. exact advertised_bit_survives. Qed.
Print Assumptions C18_advertised_bit_survives.

Theorem C18_zero_all_strings :
  subnets_to_string (repeat 0 bitvector_bits) = zero_subnets_str /\
  subnets_to_string (repeat 1 bitvector_bits) = all_subnets_str.
Proof. exact zero_all_strings. Qed.
Print Assumptions C18_zero_all_strings.

(* Non-vacuity.  A 48-byte key whose first five bytes are ff ff ff ff ff: 2^40 - 1 = 127 mod 128. *)
Definition ex_key : list N := [255; 255; 255; 255; 255] ++ repeat 7 43.
Example C18_example_key :
  bytes ex_key /\ length ex_key = 48%nat /\
  publish_topics ex_key = [[49; 50; 55]] (* "127" *) /\
  map wire_topic (subscribe_topics ex_key) = [[115; 115; 118; 46; 118; 50; 46; 49; 50; 55]] (* "ssv.v2.127" *) /\
  validator_accepts [115; 115; 118; 46; 118; 50; 46; 49; 50; 55] ex_key = true /\
  validator_accepts [115; 115; 118; 46; 118; 50; 46; 49; 50; 54] ex_key = false.
Proof.
  split; [|vm_compute; repeat split; reflexivity].
  unfold bytes, ex_key. repeat constructor.
Qed.

(* An envelope with a 3-byte payload, operator id 2^64-1 and a signature of the fixed size. *)
Example C18_example_envelope :
  let sig := repeat 171 signature_size in
  length sig = signature_size /\ 18446744073709551615 < 2 ^ 64 /\
  decode (encode [1; 2; 3] 18446744073709551615 sig) = DOk [1; 2; 3] 18446744073709551615 sig /\
  decode (repeat 9 (message_offset - 1)) = DErr.
Proof. vm_compute. repeat split; reflexivity. Qed.

(* A one-hot subnet vector (subnet 9): "00020000..." and back. *)
Example C18_example_subnets :
  let v := set_nth 9 1 (repeat 0 bitvector_bits) in
  length v = bitvector_bits /\ bit_vector v /\
  firstn 4 (subnets_to_string v) = [48; 48; 48; 50] /\
  subnets_from_string (subnets_to_string v) = Some v.
Proof.
  split; [vm_compute; reflexivity|]. split; [|vm_compute; split; reflexivity].
  unfold bit_vector. vm_compute.
  repeat (constructor; [(left; reflexivity) || (right; reflexivity)|]). constructor.
Qed.
