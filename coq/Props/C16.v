(* C16 — Each assigned beacon duty is dispatched exactly once, at its slot.
   This file contains only statements, each closed by [exact], Print Assumptions, and Examples.

   Model: Scheduler/Model.v — the attester, proposer and sync-committee duty handlers as sequential
   machines over the events Tick / Reorg / Indices; the beacon node is an oracle carried by the schedule.
   Vocabulary (Scheduler/Spec.v): a run is a list of records (event, (pre, disp, post)): fetch attempts
   before the execution point, dispatched duties, fetch attempts after it.
     record_shape window r      only ticks produce output; every dispatch of a tick is for the tick's
                                slot and happens with the handler's clock inside the window
     in_latest_assignment ...   every dispatched duty is in the most recently (successfully) fetched
                                assignment of its epoch / period
     dispatches_all_due ...     if the LAST fetch attempt of the tick's epoch / period before the
                                execution point succeeded, every (in-committee) duty of that assignment due
                                at the tick's slot is dispatched, in every role
     honest by_slot now0 evs    consecutive ticks, reorg / indices events carry the slot of the last or
                                the next tick, assignments name each duty once
   [boundary_fix c = true] selects the handlers with the epoch / period boundary repair (finding F7). *)
From Coq Require Import List NArith Bool.
From SSV Require Import Scheduler.Proofs Scheduler.OldRefuted.
Import ListNotations.
Local Open Scope N_scope.

(* ---- (a) at most once: all schedules with increasing ticks, every configuration --------------------------- *)

Theorem C16_attester_at_most_once : forall c evs st' recs,
  ticks_increasing evs -> run (att_step c) att_init evs = (st', recs) ->
  NoDup (dispatch_keys (trace_of recs)).
Proof. exact att_run_at_most_once. Qed.
Print Assumptions C16_attester_at_most_once.

Theorem C16_proposer_at_most_once : forall c now0 a0 st0 io evs st' recs,
  prop_init c now0 a0 = (st0, io) -> ticks_increasing evs ->
  run (prop_step c) st0 evs = (st', recs) ->
  NoDup (dispatch_keys (io ++ trace_of recs)).
Proof. exact prop_run_at_most_once. Qed.
Print Assumptions C16_proposer_at_most_once.

Theorem C16_sync_at_most_once : forall c now0 a0 st0 io evs st' recs,
  sync_init c now0 a0 = (st0, io) -> ticks_increasing evs ->
  run (sync_step c) st0 evs = (st', recs) ->
  NoDup (dispatch_keys (io ++ trace_of recs)).
Proof. exact sync_run_at_most_once. Qed.
Print Assumptions C16_sync_at_most_once.

(* ---- (b1, b2) only at the tick of the duty's slot, inside the window: all schedules, all states ----------- *)

Theorem C16_attester_at_its_slot : forall c st evs st' recs,
  run (att_step c) st evs = (st', recs) -> Forall (record_shape (att_window c)) recs.
Proof. exact att_run_shape. Qed.
Print Assumptions C16_attester_at_its_slot.

Theorem C16_proposer_at_its_slot : forall c st evs st' recs,
  run (prop_step c) st evs = (st', recs) -> Forall (record_shape strict_window) recs.
Proof. exact prop_run_shape. Qed.
Print Assumptions C16_proposer_at_its_slot.

Theorem C16_sync_at_its_slot : forall c st evs st' recs,
  run (sync_step c) st evs = (st', recs) -> Forall (record_shape strict_window) recs.
Proof. exact sync_run_shape. Qed.
Print Assumptions C16_sync_at_its_slot.

(* ---- (b3) + (c) most recent assignment, exactly once: honest schedules ------------------------------------ *)

Theorem C16_attester_exactly_once : forall c evs st' recs,
  cfg_ok c -> boundary_fix c = true -> honest true 0 evs ->
  run (att_step c) att_init evs = (st', recs) ->
  for_all_ticks [] recs (fun hist s now pre disp =>
    in_latest_assignment (epoch_of c) true false hist s pre disp /\
    (att_window c now s = true ->
     dispatches_all_due (epoch_of c) true false att_owes hist s pre disp)).
Proof. exact att_run_honest. Qed.
Print Assumptions C16_attester_exactly_once.

(* the proposer handler needs no repair *)
Theorem C16_proposer_exactly_once : forall c now0 a0 st0 io evs st' recs,
  cfg_ok c -> prop_init c now0 a0 = (st0, io) -> honest true now0 evs ->
  run (prop_step c) st0 evs = (st', recs) ->
  for_all_ticks io recs (fun hist s now pre disp =>
    in_latest_assignment (epoch_of c) true true hist s pre disp /\
    (strict_window now s = true ->
     dispatches_all_due (epoch_of c) true true prop_owes hist s pre disp)).
Proof. exact prop_run_honest. Qed.
Print Assumptions C16_proposer_exactly_once.

Theorem C16_sync_exactly_once : forall c now0 a0 st0 io evs st' recs,
  cfg_ok c -> boundary_fix c = true -> answer_ok false a0 ->
  sync_init c now0 a0 = (st0, io) -> honest false now0 evs ->
  run (sync_step c) st0 evs = (st', recs) ->
  for_all_ticks io recs (fun hist s now pre disp =>
    in_latest_assignment (speriod c) false true hist s pre disp /\
    (strict_window now s = true ->
     dispatches_all_due (speriod c) false true sync_owes hist s pre disp)).
Proof. exact sync_run_honest. Qed.
Print Assumptions C16_sync_exactly_once.

(* ---- the property in full --------------------------------------------------------------------------------- *)

Theorem C16_dispatch : forall c, cfg_ok c -> boundary_fix c = true -> C16_statement c.
Proof. exact c16_holds_with_fix. Qed.
Print Assumptions C16_dispatch.

(* ---- regression witnesses: without the repair, part (c) is false (finding F7) ------------------------------ *)

Theorem C16_exactly_once_refuted_before_fix_attester :
  exists evs st' recs,
    honest true 0 evs /\ run (att_step old_mainnet) att_init evs = (st', recs) /\
    ~ for_all_ticks [] recs (att_tick_ok old_mainnet).
Proof. exact att_exactly_once_refuted_old. Qed.
Print Assumptions C16_exactly_once_refuted_before_fix_attester.

Theorem C16_exactly_once_refuted_before_fix_sync :
  exists evs st0 io st' recs,
    sync_init old_small 4 (AOk (f7_sync_asg 0)) = (st0, io) /\
    honest false 4 evs /\ run (sync_step old_small) st0 evs = (st', recs) /\
    ~ for_all_ticks io recs (sync_tick_ok old_small).
Proof. exact sync_exactly_once_refuted_old. Qed.
Print Assumptions C16_exactly_once_refuted_before_fix_sync.

(* ---- non-vacuity ----------------------------------------------------------------------------------------------- *)

(* mainnet sizes satisfy cfg_ok; the F7 history is an honest schedule with a reorg at the epoch boundary *)
Example C16_cfg_example : cfg_ok new_mainnet /\ boundary_fix new_mainnet = true /\ honest true 0 f7_att.
Proof. split; [split; vm_compute; discriminate|split; [reflexivity|exact f7_att_honest]]. Qed.

(* on it, the repaired attester handler re-fetches epoch 2 at slot 64 and dispatches the duty of slot 64 *)
Example C16_example_attester :
  nth_error (snd (run (att_step new_mainnet) att_init f7_att)) 18 =
  Some (Tick 64 64 (AOk f7_epoch2) (AOk []),
        ([OFetch 2 2 (AOk f7_epoch2)],
         [ODispatch RAttester 64 1 7; ODispatch RAggregator 64 1 7], [])).
Proof. exact att_f7_repaired. Qed.

Example C16_example_sync :
  honest false 4 f7_sync /\
  nth_error (snd (run (sync_step new_small) (fst (sync_init new_small 4 (AOk (f7_sync_asg 0)))) f7_sync)) 9 =
  Some (Tick 12 12 (AOk (f7_sync_asg 1)) (AOk (f7_sync_asg 2)),
        ([OFetch 1 3 (AOk (f7_sync_asg 1))],
         [ODispatch RSyncCommittee 12 1 11; ODispatch RContribution 12 1 11;
          ODispatch RSyncCommittee 12 2 21; ODispatch RContribution 12 2 21], [])).
Proof. split; [exact f7_sync_honest|exact sync_f7_repaired]. Qed.

(* a proposer run: fetch at start, execute at the duty's slot, indices change, re-fetch after executing *)
Definition ex_d5 : duty := {| d_slot := 5; d_vidx := 3; d_tag := 9; d_inc := true |}.
Definition ex_prop_evs : list event :=
  [Tick 4 4 (AOk [ex_d5]) AFail; Indices 4; Tick 5 5 (AOk [ex_d5]) AFail].
Example C16_example_proposer :
  cfg_ok new_small /\ honest true 4 ex_prop_evs /\
  map snd (snd (run (prop_step new_small) (fst (prop_init new_small 4 (AOk [ex_d5]))) ex_prop_evs)) =
  [ ([OFetch 1 1 (AOk [ex_d5])], [], []);
    ([], [], []);
    ([], [ODispatch RProposer 5 3 9], [OFetch 1 1 (AOk [ex_d5])]) ].
Proof.
  split; [split; vm_compute; discriminate|]. split; [|vm_compute; reflexivity].
  unfold honest, ex_prop_evs. simpl.
  repeat split; auto; try (vm_compute; discriminate); repeat constructor; simpl; tauto.
Qed.
