(* C13 - placeholder while the proofs are being written *)
From Coq Require Import List NArith Bool.
From SSV Require Import ExecClient.Model.
Import ListNotations.
