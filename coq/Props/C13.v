(* C13 - Every finalized-enough block's events are delivered once, in order.
   This file contains only statements, each closed by [exact], Print Assumptions, and Examples.

   Model: ExecClient/Model.v (StreamLogs / streamLogsToChan / fetchLogsInBatches / PackLogs /
   FetchHistoricalLogs as coded after commit dfd84eefb, plus SyncHistory -> SyncOngoing as glued by
   cli/operator/node.go).  Vocabulary: ExecClient/Spec.v.
     visible ch b   the non-removed logs of block b, in node order
     shown ch b     the same after PackLogs' (stable) sort by transaction index
     covered ch a c the entries (b, shown ch b) for the blocks a <= b < c with visible ch b <> []
     stream_ok ch from cur es :=
        from <= cur /\ block numbers of es strictly increasing /\
        every entry e of es has from <= e_block e < cur and e_logs e = shown ch (e_block e) /\
        es without its empty entries = covered ch from cur
   All statements hold for every chain, start block, follow distance, batch size >= 1 and every
   environment schedule (list of events: subscribe ok/fail, head with a scripted failure of its
   k-th eth_getLogs call, subscription error, connection drop, cancellation).
   Numbers are unbounded N; Go's uint64 arithmetic agrees as long as head - follow + batch < 2^64
   for every head (C13_nothing_beyond_heads bounds every block number the client computes with). *)
From Coq Require Import List NArith Bool Sorted Permutation.
From SSV Require Import ExecClient.Model ExecClient.Spec ExecClient.Proofs
                        ExecClient.OldModel ExecClient.OldProofs.
Import ListNotations.
Local Open Scope N_scope.

(* The delivered stream, with the empty batch markers taken out, is exactly the chain's blocks with
   non-removed logs from the start block up to the client's cursor, each once, in block order, each
   with exactly its logs; block numbers (markers included) increase strictly; nothing lies outside
   [from, cursor). *)
Theorem C13_stream : forall c ch from evs s out,
  1 <= batch c -> stream c ch from evs = (s, out) ->
  stream_ok ch from (s_cur s) (entries_of out).
Proof. exact stream_final. Qed.
Print Assumptions C13_stream.

(* The same in the words of the property: for every block between the start and the cursor that
   emitted non-removed logs there is exactly one entry, and it carries exactly those logs. *)
Theorem C13_exactly_once : forall c ch from evs s out,
  1 <= batch c -> stream c ch from evs = (s, out) ->
  forall b, from <= b < s_cur s -> visible ch b <> [] ->
  exists! e, In e (entries_of out) /\ e_block e = b /\ e_logs e = shown ch b.
Proof. exact stream_exactly_once. Qed.
Print Assumptions C13_exactly_once.

(* "in order": on a chain as execution nodes present it (a block's logs listed by log index, so
   transaction indices do not decrease) the entry carries the logs in the node's order. *)
Theorem C13_in_order : forall ch b, chain_ordered ch -> shown ch b = visible ch b.
Proof. exact shown_ordered. Qed.
Print Assumptions C13_in_order.

(* How far the cursor is: whenever the client is idle again after a head h >= follow, every block
   up to h - follow is below the cursor (hence delivered, by C13_stream); a head whose fetch meets
   no failure always ends idle; the cursor never moves back. *)
Theorem C13_coverage : forall c ch s h fs s' o,
  1 <= batch c -> s_mode s = MIdle -> step c ch s (EHead h fs) = (s', o) -> s_mode s' = MIdle ->
  follow c <= h -> h - follow c < s_cur s'.
Proof. exact head_idle_covers. Qed.
Print Assumptions C13_coverage.

Theorem C13_head_without_failure_ends_idle : forall c ch s h s' o,
  1 <= batch c -> s_mode s = MIdle -> step c ch s (EHead h None) = (s', o) -> s_mode s' = MIdle.
Proof. exact head_ok_idle. Qed.
Print Assumptions C13_head_without_failure_ends_idle.

Theorem C13_cursor_monotone : forall c ch, 1 <= batch c ->
  forall evs s s' o, run c ch s evs = (s', o) -> s_cur s <= s_cur s'.
Proof. exact run_cur_mono. Qed.
Print Assumptions C13_cursor_monotone.

(* No entry for a block outside: the cursor (which bounds every entry, C13_stream) and every
   eth_getLogs call stay at or below the highest head - follow of the schedule. *)
Theorem C13_nothing_beyond_heads : forall c ch from evs s out,
  1 <= batch c -> stream c ch from evs = (s, out) ->
  from <= s_cur s /\ s_cur s <= N.max from (reach c evs) /\
  Forall (fun q => snd q < N.max from (reach c evs)) (queries_of out).
Proof. exact stream_reach. Qed.
Print Assumptions C13_nothing_beyond_heads.

(* Entries with no logs occur only as batch-end markers: such an entry is the upper end of an
   eth_getLogs call made by the client whose whole range has no non-removed log. *)
Theorem C13_markers : forall c ch from evs s out,
  1 <= batch c -> stream c ch from evs = (s, out) ->
  Forall (marker_ok ch (queries_of out)) (entries_of out) /\
  Forall (fun q => from <= fst q /\ fst q <= snd q) (queries_of out).
Proof. exact stream_markers. Qed.
Print Assumptions C13_markers.

(* "regardless of how logs are batched and of failures": what is delivered up to a cursor does
   not depend on the batch size, the follow distance or the schedule that led there. *)
Theorem C13_batching_irrelevant : forall c1 c2 ch from evs1 evs2 s1 out1 s2 out2,
  1 <= batch c1 -> 1 <= batch c2 ->
  stream c1 ch from evs1 = (s1, out1) -> stream c2 ch from evs2 = (s2, out2) ->
  s_cur s1 = s_cur s2 ->
  filter nonempty (entries_of out1) = filter nonempty (entries_of out2).
Proof. exact batching_irrelevant. Qed.
Print Assumptions C13_batching_irrelevant.

(* Once the stream has ended (gracefully, or by logger.Fatal after the third consecutive failure)
   nothing more is delivered. *)
Theorem C13_silent_after_end : forall c ch evs s,
  s_mode s = MDone \/ s_mode s = MFatal -> entries_of (snd (run c ch s evs)) = [].
Proof. exact ended_silent. Qed.
Print Assumptions C13_silent_after_end.

(* logger.Fatal is an explicit outcome: a failure (error return of streamLogsToChan) ends in Fatal
   exactly when two failures are already on the count; a failure of an invocation that moved the
   cursor resets the count; the count never exceeds 2 while the stream lives.  (As coded, the third
   counted failure is fatal even if its own invocation made progress.) *)
Theorem C13_fatal_on_third_counted_failure : forall s next,
  s_mode (fail_step s next) = MFatal <-> 2 <= s_tries s.
Proof. exact fail_step_fatal_iff. Qed.
Print Assumptions C13_fatal_on_third_counted_failure.

Theorem C13_tries_reset_on_progress : forall s next, s_tries s < 2 ->
  s_tries (fail_step s next) = if s_inv s <? next then 0 else s_tries s + 1.
Proof. exact fail_step_tries. Qed.
Print Assumptions C13_tries_reset_on_progress.

Theorem C13_tries_bounded : forall c ch from evs s out, stream c ch from evs = (s, out) ->
  s_mode s = MFatal \/ s_tries s <= 2.
Proof. exact stream_tries. Qed.
Print Assumptions C13_tries_bounded.

(* FetchHistoricalLogs (through SyncHistory): whatever happens, what the handler received is a
   correct prefix ending at the last delivered block; on success it reaches the node's block
   number minus the follow distance. *)
Theorem C13_history : forall c ch from bn fs o r,
  1 <= batch c -> history c ch from bn fs = (o, r) ->
  stream_ok ch from (advance from (entries_of o)) (entries_of o) /\
  Forall (marker_ok ch (queries_of o)) (entries_of o).
Proof. exact history_final. Qed.
Print Assumptions C13_history.

Theorem C13_history_complete : forall c ch from bn fs o last,
  1 <= batch c -> history c ch from bn fs = (o, HOk last) ->
  exists cur, bn = Some cur /\ follow c <= cur /\
    advance from (entries_of o) = last + 1 /\ last <= cur - follow c /\
    covered ch from (last + 1) = covered ch from (cur - follow c + 1).
Proof. exact history_ok. Qed.
Print Assumptions C13_history_complete.

(* SyncHistory(from) followed by SyncOngoing where cli/operator/node.go resumes: one stream from
   the original start block. *)
Theorem C13_sync : forall c ch from bn fs evs s out,
  1 <= batch c -> sync c ch from bn fs evs = (Some s, out) ->
  stream_ok ch from (s_cur s) (entries_of out).
Proof. exact sync_final. Qed.
Print Assumptions C13_sync.

Theorem C13_sync_exactly_once : forall c ch from bn fs evs s out,
  1 <= batch c -> sync c ch from bn fs evs = (Some s, out) ->
  forall b, from <= b < s_cur s -> visible ch b <> [] ->
  exists! e, In e (entries_of out) /\ e_block e = b /\ e_logs e = shown ch b.
Proof. exact sync_exactly_once. Qed.
Print Assumptions C13_sync_exactly_once.

(* PackLogs on any list: strictly increasing block numbers, every entry non-empty and of one
   block, nothing lost or invented, sorted stably by (block, transaction index). *)
Theorem C13_pack_logs : forall l,
  StronglySorted N.lt (map e_block (pack_logs l)) /\
  flat_map e_logs (pack_logs l) = sort l /\
  Permutation l (sort l) /\
  (forall k, filter (same_key k) (sort l) = filter (same_key k) l) /\
  (forall e, In e (pack_logs l) ->
     e_logs e <> [] /\ forall x, In x (e_logs e) -> l_block x = e_block e).
Proof. exact pack_logs_spec. Qed.
Print Assumptions C13_pack_logs.

(* A slice that is already in (block, transaction index) order - everything an execution node
   returns - is left alone by the sort, so no reliance on stability there. *)
Theorem C13_sorted_input_untouched : forall l, ksorted l -> sort l = l.
Proof. exact sort_sorted_id. Qed.
Print Assumptions C13_sorted_input_untouched.

(* The fuel of the batch loop is its exact number of iterations. *)
Theorem C13_batch_loop_fuel_exact : forall bsz start end_, 1 <= bsz -> start <= end_ ->
  exists n, iterations bsz start end_ = S n /\
            start + N.of_nat n * bsz <= end_ /\ end_ < start + (N.of_nat n + 1) * bsz.
Proof. exact iterations_exact. Qed.
Print Assumptions C13_batch_loop_fuel_exact.

(* Regression witness (finding F2): the cursor logic before commit dfd84eefb refutes C13_stream. *)
Theorem C13_prefix_code_refuted : exists c ch from evs,
  1 <= batch c /\
  let '(s, out) := old_stream c ch from evs in ~ stream_ok ch from (o_cur s) (entries_of out).
Proof. exact old_refuted. Qed.
Print Assumptions C13_prefix_code_refuted.

Theorem C13_prefix_code_restarts_at_block_1 :
  let '(s, out) := old_stream w_cfg w_chain 2 w_restart in
  exists e, In e (entries_of out) /\ e_block e < 2.
Proof. exact old_restarts_at_block_1. Qed.
Print Assumptions C13_prefix_code_restarts_at_block_1.

(* Non-vacuity: follow distance 1, batches of 2; block 3 has two logs, block 5 a removed one,
   block 6 three (one removed), block 9 one.  The schedule has a failed subscribe, a fetch error
   in the second batch, a subscription error, a connection drop during a fetch, an old head and a
   head below the follow distance; the F2 histories are sub-histories of it. *)
Definition ex_cfg : cfg := {| follow := 1; batch := 2 |}.
Definition lg (tx idx : N) (rm : bool) : clog := {| c_tx := tx; c_idx := idx; c_removed := rm |}.
Definition ex_chain : chain := fun b =>
  if b =? 3 then [lg 0 0 false; lg 1 1 false]
  else if b =? 5 then [lg 0 0 true]
  else if b =? 6 then [lg 0 0 false; lg 0 1 true; lg 2 2 false]
  else if b =? 9 then [lg 4 7 false]
  else [].
Definition ex_evs : list event :=
  [ ESubFail; ESubOk; EHead 0 None; EHead 6 (Some (1%nat, FErr)); ESubOk; ESubErr; ESubOk;
    EHead 5 None; EHead 9 (Some (1%nat, FDrop)); ESubOk; EHead 11 None ].

Definition mk (b : N) (l : list (N * N)) : entry :=
  {| e_block := b;
     e_logs := map (fun p => {| l_block := b; l_tx := fst p; l_idx := snd p; l_removed := false |}) l |}.

Example C13_example :
  entries_of (snd (stream ex_cfg ex_chain 2 ex_evs)) =
    [ mk 3 [(0, 0); (1, 1)]; mk 4 []; mk 6 [(0, 0); (2, 2)]; mk 8 []; mk 9 [(4, 7)] ]
  /\ queries_of (snd (stream ex_cfg ex_chain 2 ex_evs)) =
    [ (2, 3); (4, 5); (4, 4); (5, 6); (7, 8); (7, 8); (9, 10) ]
  /\ s_cur (fst (stream ex_cfg ex_chain 2 ex_evs)) = 11
  /\ s_mode (fst (stream ex_cfg ex_chain 2 ex_evs)) = MIdle
  /\ 1 <= batch ex_cfg.
Proof. vm_compute. repeat split; try reflexivity. discriminate. Qed.

Example C13_example_chain_ordered : chain_ordered ex_chain.
Proof.
  intros b. unfold ex_chain.
  destruct (b =? 3); [repeat constructor; discriminate|].
  destruct (b =? 5); [repeat constructor|].
  destruct (b =? 6); [repeat constructor; discriminate|].
  destruct (b =? 9); repeat constructor.
Qed.

(* three consecutive failures without progress end in logger.Fatal *)
Example C13_example_fatal :
  s_mode (fst (stream ex_cfg ex_chain 2 [ESubFail; ESubOk; ESubErr; ESubOk; EDrop])) = MFatal.
Proof. vm_compute. reflexivity. Qed.

(* history up to block 9 - 1, then the stream resumes after the last processed block *)
Example C13_example_sync :
  let r := sync ex_cfg ex_chain 2 (Some 9) None [ESubOk; EHead 11 None] in
  map e_block (entries_of (snd r)) = [3; 5; 6; 8; 9] /\
  option_map s_cur (fst r) = Some 11.
Proof. vm_compute. split; reflexivity. Qed.
