(* C14 — The validator message queue neither loses nor duplicates messages.
   This file contains only statements, each closed by [exact], and Print Assumptions. *)
From Coq Require Import List NArith ZArith Bool Permutation.
From SSV Require Import Queue.Model Queue.Proofs.
Import ListNotations.

(* Conservation, over every operation sequence from every queue state: the messages queued at the
   start plus the successfully pushed ones are, as a multiset, exactly the popped ones plus those
   still queued.  Nothing is lost, nothing is duplicated, nothing is discarded by a pop. *)
Theorem C14_conservation : forall ops q q' rs,
  run q ops = (q', rs) ->
  Permutation (contents q ++ pushed_ok ops rs) (popped rs ++ contents q').
Proof. exact run_conservation. Qed.
Print Assumptions C14_conservation.

(* A pop only returns a message its own filter admits, and one that was queued. *)
Theorem C14_pop_passes_filter : forall q o q' m n,
  step q o = (q', RPop (Some m) n) -> op_filter o m = true /\ In m (contents q).
Proof. exact step_pop_passes_filter. Qed.
Print Assumptions C14_pop_passes_filter.

(* A pop returns a message whenever an admissible one is queued (inbox or list). *)
Theorem C14_pop_finds_admissible : forall q o q' n,
  step q o = (q', RPop None n) -> forall x, In x (contents q) -> op_filter o x = false.
Proof. exact step_pop_none. Qed.
Print Assumptions C14_pop_finds_admissible.

(* The message returned by TryPop (and by Pop once the inbox has been read) is maximal among the
   admissible queued messages in the order Prior defines ... *)
Theorem C14_pop_is_maximal : forall q p f q' m,
  try_pop q p f = (q', Some m) ->
  f m = true /\ In m (contents q) /\
  forall x, In x (contents q) -> f x = true -> prior p m x = true.
Proof. exact try_pop_some. Qed.
Print Assumptions C14_pop_is_maximal.

Theorem C14_pop_done_is_maximal : forall q p f q' m,
  pop_done q true p f = (q', Some m) ->
  forall x, In x (contents q) -> f x = true -> prior p m x = true.
Proof. exact pop_done_rd_max. Qed.
Print Assumptions C14_pop_done_is_maximal.

(* ... which is a total preorder: the lexicographic order on [key] ... *)
Theorem C14_prior_is_lex : forall p a b, prior_body p a b = lex_le (key p b) (key p a).
Proof. exact prior_is_lex. Qed.
Print Assumptions C14_prior_is_lex.

Theorem C14_prior_total_preorder : forall p,
  (forall a, prior p a a = true) /\
  (forall a b, prior p a b = false -> prior p b a = true) /\
  (forall a b c, prior p a b = true -> prior p b c = true -> prior p a c = true).
Proof. intros p. exact (conj (prior_refl p) (conj (prior_total p) (prior_trans p))). Qed.
Print Assumptions C14_prior_total_preorder.

(* ... and refines the documented coarse order: duty start, then timeout, then current-height
   consensus traffic before other heights. *)
Theorem C14_execute_duty_first : forall p a b,
  is_execute_duty a = true -> is_execute_duty b = false ->
  prior_body p a b = true /\ prior_body p b a = false.
Proof. exact execute_duty_first. Qed.
Print Assumptions C14_execute_duty_first.

Theorem C14_timeout_before_non_events : forall p a b,
  is_timeout a = true -> is_event b = false ->
  prior_body p a b = true /\ prior_body p b a = false.
Proof. exact timeout_before_non_events. Qed.
Print Assumptions C14_timeout_before_non_events.

Theorem C14_current_height_first : forall p h1 r1 t1 n1 h2 r2 t2 n2,
  h1 = p_height p -> h2 <> p_height p ->
  prior_body p (BCons h1 r1 t1 n1) (BCons h2 r2 t2 n2) = true /\
  prior_body p (BCons h2 r2 t2 n2) (BCons h1 r1 t1 n1) = false.
Proof. exact current_height_first. Qed.
Print Assumptions C14_current_height_first.

(* Non-vacuity: a history with a full inbox, a reject-all pop, the idle consumer filter in front
   of a non-admissible head, and a drain. *)
Definition ex_p := {| has_running := true; p_height := 5; p_round := 1; p_slot := 5; p_quorum := 3 |}.
Definition ex_ops : list op :=
  [ OPush {| mid := 1; mbody := BCons 5 1 1 1 |};
    OPush {| mid := 2; mbody := BEvent 0 |};
    OPush {| mid := 3; mbody := BCons 4 1 2 4 |};
    OPush {| mid := 4; mbody := BEvent 1 |};
    OTryPop ex_p FNone;
    OTryPop ex_p (FIds [1%N]);
    OTryPop ex_p FExecuteDutyOnly;
    OPopDone false ex_p FAny;
    OTryPop ex_p FAny; OTryPop ex_p FAny ].
Example C14_example :
  snd (run (new_queue 3) ex_ops) =
  [ RPush true 1; RPush true 2; RPush true 3; RPush false 3;
    RPop None 3;
    RPop (Some {| mid := 1; mbody := BCons 5 1 1 1 |}) 2;
    RPop None 2;
    RPop (Some {| mid := 2; mbody := BEvent 0 |}) 1;
    RPop (Some {| mid := 3; mbody := BCons 4 1 2 4 |}) 0;
    RPop None 0 ].
Proof. vm_compute. reflexivity. Qed.
