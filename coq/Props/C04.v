(* C04 - An operator never signs a slashable attestation or block, across restarts.
   This file contains only statements, each closed by [exact], Print Assumptions, and Examples.

   Vocabulary (Slashing/Model.v): a history is a list of operations
     OAdd | ORemove | OReact (BumpSlashingProtection) | OSignAtt src tgt | OSignBlk slot |
     OCheckAtt | OCheckBlk | OTick d | ORestart | OCorrupt kind
   each call carrying an environment (crash after k database writes; protection-record reads fail).
   [run x ops] returns the final state and one observation per operation; [released] keeps the
   signatures that left the signer, oldest first.  [conflict] is: same target epoch, surrounding /
   surrounded pair, or same block slot. *)
From Coq Require Import List NArith Bool.
From SSV Require Import Slashing.Model Slashing.Proofs.
Import ListNotations.
Local Open Scope N_scope.

(* Safety, over every history inside the property's quantifier, from every persisted state in
   which nothing has been released yet (in particular a fresh database), for every crash point and
   read failure, every far-future horizon, and every configuration whose gap constants do not wrap:
   no two released signatures conflict.
   Hypotheses, all part of the property's own quantifier:
     wf:  the clock only moves forward and stays below 2^63 slots; each attestation request has
          source < target and target <= epoch(clock); each block request has slot <= clock;
     damage_is_detectable:  OCorrupt is not an operation of the property; damaged records are
          allowed anyway as long as the code reports them as unreadable (see below). *)
Theorem C04_never_slashable : forall g, cfg_ok g ->
  forall ops x x' rs,
    conf x = g -> clock x < clock_max ->
    wf (clock x) ops -> damage_is_detectable g ops ->
    run x ops = (x', rs) ->
    forall i j a b, i <> j ->
      nth_error (released rs) i = Some a -> nth_error (released rs) j = Some b -> ~ conflict a b.
Proof. exact never_slashable_full. Qed.
Print Assumptions C04_never_slashable.

(* The constants read from the source today satisfy the side condition. *)
Theorem C04_source_configuration_ok : cfg_ok source_cfg.
Proof. exact source_cfg_ok. Qed.
Print Assumptions C04_source_configuration_ok.

(* Why it holds: after every such history the persisted records (when they hold a value) and the
   clock are upper bounds of everything released. *)
Theorem C04_records_bound_released : forall g, cfg_ok g ->
  forall ops x x' rs,
    conf x = g -> clock x < clock_max -> wf (clock x) ops -> damage_is_detectable g ops ->
    run x ops = (x', rs) ->
    (forall hs ht, att (st x') = RVal (hs, ht) ->
       forall s t, In (SAtt s t) (released rs) -> s <= hs /\ t <= ht) /\
    (forall p, prop (st x') = RVal p -> forall sl, In (SBlk sl) (released rs) -> sl <= p) /\
    (forall s t, In (SAtt s t) (released rs) -> s < t /\ t <= epoch_of (clock x')) /\
    (forall sl, In (SBlk sl) (released rs) -> sl <= clock x').
Proof. exact records_bound_released. Qed.
Print Assumptions C04_records_bound_released.

(* "When the protection record cannot be read or is missing the signer refuses to sign":
   missing, undecodable, zero-length-without-data, or a failing read. *)
Theorem C04_attestation_refused_without_record : forall x s t e,
  att_unreadable (att (st x)) \/ rfail e = true ->
  forall g, o_out (snd (step x (OSignAtt s t e))) <> Released g.
Proof. exact sign_att_refused. Qed.
Print Assumptions C04_attestation_refused_without_record.

Theorem C04_block_refused_without_record : forall x sl e,
  prop_unreadable (prop (st x)) \/ rfail e = true ->
  forall g, o_out (snd (step x (OSignBlk sl e))) <> Released g.
Proof. exact sign_blk_refused. Qed.
Print Assumptions C04_block_refused_without_record.

Theorem C04_check_reports_unreadable_record : forall x s t e,
  att_unreadable (att (st x)) \/ rfail e = true ->
  exists r, o_out (snd (step x (OCheckAtt s t e))) = Refused r.
Proof. exact check_att_refused. Qed.
Print Assumptions C04_check_reports_unreadable_record.

(* The high-water mark is persisted before the signature is produced: when the database refuses the
   write the call releases nothing and the records stay as they were. *)
Theorem C04_attestation_refused_when_write_refused : forall x s t e,
  wfail e = true ->
  (forall g, o_out (snd (step x (OSignAtt s t e))) <> Released g) /\
  st (fst (step x (OSignAtt s t e))) = st x.
Proof. exact write_refused_sign_att. Qed.
Print Assumptions C04_attestation_refused_when_write_refused.

Theorem C04_block_refused_when_write_refused : forall x sl e,
  wfail e = true ->
  (forall g, o_out (snd (step x (OSignBlk sl e))) <> Released g) /\
  st (fst (step x (OSignBlk sl e))) = st x.
Proof. exact write_refused_sign_blk. Qed.
Print Assumptions C04_block_refused_when_write_refused.

(* A record damaged in the database (undecodable or zero-length value): the next sign call for that
   kind of object must refuse.  Full statement: *)
Definition C04_damaged_record_refuses_statement := damaged_record_refuses_statement.

(* proved for every damage except a zero-length proposal record ... *)
Theorem C04_damaged_record_refuses_partial : forall g k x s t sl e,
  conf x = g -> (k = CPropEmpty -> prop_empty_err g = true) ->
  forall sig, sign_after_damage k x s t sl e <> Released sig.
Proof. exact damaged_record_refuses_partial. Qed.
Print Assumptions C04_damaged_record_refuses_partial.

(* ... for which it holds exactly when RetrieveHighestProposal reports the zero-length value as an
   error.  In the source today it does not (errors.Wrap(nil, ..) is nil): the record reads as
   slot 0 and the signer signs. *)
Theorem C04_damaged_record_refuses_if_error : forall g,
  prop_empty_err g = true -> C04_damaged_record_refuses_statement g.
Proof. exact damaged_record_refuses_if_error. Qed.
Print Assumptions C04_damaged_record_refuses_if_error.

Theorem C04_damaged_record_refuses_refuted : forall g,
  prop_empty_err g = false -> ~ C04_damaged_record_refuses_statement g.
Proof. exact damaged_record_refuses_refuted. Qed.
Print Assumptions C04_damaged_record_refuses_refuted.

(* The same two facts at the level of histories: with the error in place every damage is inside
   the safety theorem; without it the slot signed before the damage is signed again. *)
Theorem C04_never_slashable_any_damage : forall g,
  cfg_ok g -> prop_empty_err g = true -> never_slashable_statement g true true false.
Proof. exact never_slashable_any_damage. Qed.
Print Assumptions C04_never_slashable_any_damage.

Theorem C04_undetected_damage_refuted : forall ae,
  ~ never_slashable_statement (cfg0 ae false) true true false.
Proof. exact undetected_damage_breaks_safety. Qed.
Print Assumptions C04_undetected_damage_refuted.

(* A call that dies at a crash point releases nothing, whatever it had already persisted; a
   restart changes nothing that is persisted. *)
Theorem C04_crash_releases_nothing : forall x o x' r,
  step x o = (x', r) -> o_out r = Crashed -> rel1 r = [].
Proof. exact crash_releases_nothing. Qed.
Print Assumptions C04_crash_releases_nothing.

Theorem C04_restart_is_identity : forall x, fst (step x ORestart) = x.
Proof. exact restart_identity. Qed.
Print Assumptions C04_restart_is_identity.

(* Companion observations (NOT findings: both histories are outside the property's quantifier).
   The safety statement with one bound of the quantifier dropped is false:
   (1) without "target <= epoch(clock)": at epoch E sign target E+1 - which the duty value check
       (target <= current+1) accepts -, remove, re-add, sign target E+1 again;
   (2) without "source < target": (100,6), remove + re-add, then (50,7) surrounds it. *)
Theorem C04_clock_bound_is_needed_refuted :
  ~ (forall g, cfg_ok g -> never_slashable_statement g false true true).
Proof. exact clock_bound_is_needed. Qed.
Print Assumptions C04_clock_bound_is_needed_refuted.

Theorem C04_source_lt_target_is_needed_refuted :
  ~ (forall g, cfg_ok g -> never_slashable_statement g true false true).
Proof. exact source_lt_target_is_needed. Qed.
Print Assumptions C04_source_lt_target_is_needed_refuted.

(* Non-vacuity: a history inside the quantifier with restart, a crash between persist and release,
   a crash inside AddShare, remove + re-add, reactivation, a refused database write and an unreadable
   record; five signatures are released. *)
Example C04_example :
  wfb_gen true true 160 example_history = true /\
  damage_is_detectable (cfg0 false false) example_history /\
  released (snd (run (init (cfg0 false false) 160 400000) example_history)) =
    [SAtt 4 6; SBlk 192; SAtt 6 8; SBlk 256; SAtt 7 9] /\
  map o_out (snd (run (init (cfg0 false false) 160 400000) example_history)) =
    [ Done; Refused ESlashable; Done; Released (SAtt 4 6); Released (SBlk 192); Done;
      Refused ESlashable; Done; Crashed; Refused ESlashable; Done; Refused ENoAccount;
      Crashed; Done; Refused ESlashable; Done; Released (SAtt 6 8); Refused ESlashable;
      Released (SBlk 256); Done; Done; Refused EWriteErr; Released (SAtt 7 9); Done; Refused EReadErr ].
Proof.
  split; [vm_compute; reflexivity|]. split.
  - unfold damage_is_detectable. vm_compute. intros H.
    repeat (destruct H as [H|H]; [discriminate H|]). destruct H.
  - split; vm_compute; reflexivity.
Qed.

(* the states an unreadable-record hypothesis speaks about exist *)
Example C04_unreadable_states :
  att_unreadable (@RMissing (N * N)) /\ att_unreadable (@RBad (N * N)) /\ att_unreadable (@REmpty (N * N)) /\
  prop_unreadable (@RMissing N) /\ prop_unreadable (@RBad N).
Proof. unfold att_unreadable, prop_unreadable. repeat split; auto. Qed.
