(* C06 — The node's QBFT instance is observationally equal to the reference spec.
   Statements only.  One Gallina step function (Qbft/Model.v) models both the node's instance and
   the pinned reference instance it is a port of; that the two real implementations and the model
   agree step by step is the correspondence check (harness/cmd/hx-qbft).  What is proved here is
   the part of the property that is about the node alone: compaction. *)
From Coq Require Import List NArith ZArith Bool.
From SSV Require Import Qbft.Model Qbft.Compact Qbft.CompactSim Qbft.Witness.
Import ListNotations.

(* "State compaction performed by the node between messages does not change any later output":
   for every history of messages and timeouts with compactions inserted anywhere while the
   instance is undecided, from every well-formed started state, the observations (error/nil,
   decided flag and value, aggregated commit, broadcasts, timer armings) are those of the history
   without the compactions, and the final state is the uncompacted final state with containers
   restricted to rounds the code can still read. *)
Theorem C06_compaction_simulation : forall c ops s k,
  wfs s -> bounds_ok k s -> no_start ops ->
  undecided_compactions c (restrict k s) ops = true ->
  exists k',
    fst (run c (restrict k s) ops) = restrict k' (fst (run c s (erase ops))) /\
    bounds_ok k' (fst (run c s (erase ops))) /\
    erase_obs (snd (run c (restrict k s) ops)) = snd (run c s (erase ops)).
Proof. exact compaction_simulation. Qed.
Print Assumptions C06_compaction_simulation.

Theorem C06_compaction_preserves_outputs : forall c s ops,
  wfs s -> no_start ops -> undecided_compactions c s ops = true ->
  erase_obs (snd (run c s ops)) = snd (run c s (erase ops)).
Proof. exact compaction_preserves_outputs. Qed.
Print Assumptions C06_compaction_preserves_outputs.

(* The unrestricted statement — compaction at ANY point, also after the decision — is what the
   property text says.  It is false of the code: *)
Definition C06_compaction_any_point_statement : Prop := forall c s ops,
  wfs s -> no_start ops -> erase_obs (snd (run c s ops)) = snd (run c s (erase ops)).

Theorem C06_compaction_any_point_refuted : ~ C06_compaction_any_point_statement.
Proof.
  intros H. apply f4_outputs_differ. apply H.
  - exact (proj1 ok_ops_hypotheses).
  - intros v Hin. cbn in Hin. repeat (destruct Hin as [Hin|Hin]; [discriminate Hin|]). exact Hin.
Qed.
Print Assumptions C06_compaction_any_point_refuted.

(* Non-vacuity of the hypotheses of the simulation theorem. *)
Example C06_example : wfs (new_instance 0) /\ no_start ok_ops /\
  undecided_compactions w_cfg (new_instance 0) ok_ops = true /\
  s_round (fst (run w_cfg (new_instance 0) ok_ops)) = 3%N.
Proof. exact ok_ops_hypotheses. Qed.
