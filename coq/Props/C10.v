(* C10 — Messages produced by correct operators are never rejected by correct peers.
   Statements only.  PARTIAL: what is proved are the protocol-side rule lemmas - for the reject rules
   of consensus-message validation that look INSIDE the message (leader, justifications, full data,
   sorted signers) the messages a correct operator emits satisfy what the validator demands.  The
   composition over whole timed executions with the validation model (Validation/Model.v), the
   per-signer limits and the partial-signature rules are covered by the correspondence check
   (harness/cmd/hx-c10: real instances, real validators), not by a theorem. *)
From Coq Require Import List NArith ZArith Bool.
From SSV Require Import Qbft.Model Qbft.Compact Qbft.Honest Qbft.Bridge.
Import ListNotations.
Local Open Scope N_scope.

(* validateJustifications calls instance.IsProposalJustification with signature verification off and
   a value check that accepts everything.  Whatever the instance's own configuration accepts, that
   call accepts: a proposal a correct operator accepted or built is never ErrInvalidJustifications. *)
Theorem C10_validator_justification_is_weaker : forall c vc sh rcs prs h r full,
  proposal_justified c vc sh rcs prs h r full = true ->
  proposal_justified (noverify c) (fun _ => true) sh rcs prs h r full = true.
Proof. exact justification_weaker. Qed.
Print Assumptions C10_validator_justification_is_weaker.

(* Justifications are marshalled without their full data; the predicate does not notice. *)
Theorem C10_justification_without_full_data : forall c vc sh rcs prs h r full,
  proposal_justified c vc sh (map without_full rcs) (map without_full prs) h r full
  = proposal_justified c vc sh rcs prs h r full.
Proof. exact justification_without_full. Qed.
Print Assumptions C10_justification_without_full_data.

(* The proposal a correct operator broadcasts upon a round-change quorum for the round it is in
   (from EVERY instance state, for EVERY triggering message): signed by itself alone, for its round
   and height, it IS that round's round-robin leader (not ErrSignerNotLeader), the full data hashes
   to the root (not ErrInvalidHash), and the attached justifications pass the instance's predicate -
   hence, by the first theorem, the validator's (not ErrInvalidJustifications). *)
Theorem C10_leader_proposal_valid : forall c s m s' o ok pr,
  wfc (s_rc s) -> c_round (co m) = s_round s ->
  upon_round_change c s m = Some (s', o, ok) -> In (OBcast pr) o -> c_type (co pr) = T_PROPOSAL ->
  c_signers (co pr) = [me c] /\ c_round (co pr) = s_round s /\ c_height (co pr) = s_height s /\
  proposer c (s_height s) (c_round (co pr)) = Some (me c) /\
  hash (c_full (co pr)) = c_root (co pr) /\
  proposal_justified c (value_check c) (s_height s) (rcj pr) (pj pr) (s_height s) (c_round (co pr)) (c_full (co pr)) = true.
Proof. exact honest_proposal_valid. Qed.
Print Assumptions C10_leader_proposal_valid.

Theorem C10_first_round_proposal_valid : forall c s v hh s' o pr,
  start c s v hh = Some (s', o) -> In (OBcast pr) o -> value_check c v = true ->
  c_signers (co pr) = [me c] /\ c_round (co pr) = FIRST_ROUND /\ c_height (co pr) = hh /\
  proposer c hh FIRST_ROUND = Some (me c) /\ hash (c_full (co pr)) = c_root (co pr) /\
  proposal_justified c (value_check c) hh (rcj pr) (pj pr) hh (c_round (co pr)) (c_full (co pr)) = true.
Proof. exact start_proposal_valid. Qed.
Print Assumptions C10_first_round_proposal_valid.

(* The aggregated decided message of the node lists its signers sorted (not ErrSignersNotSorted). *)
Theorem C10_decided_signers_sorted : forall c msgs full agg,
  v_sort_agg (var c) = true -> aggregate_commits c msgs full = Some agg -> sorted_le (c_signers (co agg)) = true.
Proof. exact aggregate_signers_sorted. Qed.
Print Assumptions C10_decided_signers_sorted.

(* The validation model (Validation/Model.v, the subject of C08/C09) and the protocol model carry two
   independently written transcriptions of specqbft.RoundRobinProposer; they compute the same leader and
   panic on the same inputs for ALL uint64 heights and rounds and all committees.  Hence the proposal
   of C10_leader_proposal_valid passes the validator's leader rule (not ErrSignerNotLeader), and the
   range guard in front of it (the F1 repair) never excludes a reachable round. *)
Theorem C10_leader_models_agree : forall c h r,
  (h < 18446744073709551616)%N -> (r < 18446744073709551616)%N ->
  match V.round_robin (committee c) h r with
  | V.LeaderIs x => proposer c h r = Some x
  | V.LeaderPanic _ => proposer c h r = None
  end.
Proof. exact leader_models_agree. Qed.
Print Assumptions C10_leader_models_agree.

Theorem C10_leader_guard_admits_reachable_rounds : forall sh h r,
  V.s_committee sh <> [] -> (1 <= r)%N -> (r <= 4611686018427387903)%N -> (h <= 9223372036854775807)%N ->
  V.rr_defined sh h r = true.
Proof. exact rr_defined_in_range. Qed.
Print Assumptions C10_leader_guard_admits_reachable_rounds.

(* The complete statement (not proved; see DESIGN.md C10): in every execution of the system of
   Qbft/System.v that respects the timing assumptions, every message emitted by a correct operator,
   validated by a correct peer whose validator state was built from any sub-sequence of the earlier
   broadcasts, at a reception time inside the message's round window, is not classified Reject. *)

(* Observed while building (DESIGN.md): upon a round-change quorum for a round ABOVE its own, a
   leader builds its proposal with its CURRENT round and that round's round changes; the hypothesis
   [c_round (co m) = s_round s] of C10_leader_proposal_valid is exactly what the timing assumptions
   provide (operators are at most one round apart), and is needed. *)
