(* C10 — Messages produced by correct operators are never rejected by correct peers.
   Statements only.  PARTIAL: what is proved are the protocol-side rule lemmas - for the reject rules
   of consensus-message validation that look INSIDE the message (leader, justifications, full data,
   sorted signers) the messages a correct operator emits satisfy what the validator demands.  The
   composition over whole timed executions with the validation model (Validation/Model.v), the
   per-signer limits and the partial-signature rules are covered by the correspondence check
   (harness/cmd/hx-c10: real instances, real validators), not by a theorem. *)
From Coq Require Import List NArith ZArith Bool.
From SSV Require Import Qbft.Model Qbft.Compact Qbft.Honest Qbft.Bridge Qbft.SyncRound Qbft.SyncGeneric
     Qbft.RecoverGeneric Qbft.RecoverPrepared Qbft.HonestGate Qbft.HonestGateRound.
From SSV Require Validation.Model Gen.ValidationConsts Validation.ProofsPanic Validation.ProofsTime Validation.Rules
     Validation.HonestRound Validation.HonestTime Validation.HonestEnvelope.
Import ListNotations.
Local Open Scope N_scope.
Module VT := SSV.Validation.ProofsTime.
Module VR := SSV.Validation.Rules.
Module HT := SSV.Validation.HonestTime.

(* validateJustifications calls instance.IsProposalJustification with signature verification off and
   a value check that accepts everything.  Whatever the instance's own configuration accepts, that
   call accepts: a proposal a correct operator accepted or built is never ErrInvalidJustifications. *)
Theorem C10_validator_justification_is_weaker : forall c vc sh rcs prs h r full,
  proposal_justified c vc sh rcs prs h r full = true ->
  proposal_justified (noverify c) (fun _ => true) sh rcs prs h r full = true.
Proof. exact justification_weaker. Qed.
Print Assumptions C10_validator_justification_is_weaker.

(* Justifications are marshalled without their full data; the predicate does not notice. *)
Theorem C10_justification_without_full_data : forall c vc sh rcs prs h r full,
  proposal_justified c vc sh (map without_full rcs) (map without_full prs) h r full
  = proposal_justified c vc sh rcs prs h r full.
Proof. exact justification_without_full. Qed.
Print Assumptions C10_justification_without_full_data.

(* The proposal a correct operator broadcasts upon a round-change quorum for the round it is in
   (from EVERY instance state, for EVERY triggering message): signed by itself alone, for its round
   and height, it IS that round's round-robin leader (not ErrSignerNotLeader), the full data hashes
   to the root (not ErrInvalidHash), and the attached justifications pass the instance's predicate -
   hence, by the first theorem, the validator's (not ErrInvalidJustifications). *)
Theorem C10_leader_proposal_valid : forall c s m s' o ok pr,
  wfc (s_rc s) -> c_round (co m) = s_round s ->
  upon_round_change c s m = Some (s', o, ok) -> In (OBcast pr) o -> c_type (co pr) = T_PROPOSAL ->
  c_signers (co pr) = [me c] /\ c_round (co pr) = s_round s /\ c_height (co pr) = s_height s /\
  proposer c (s_height s) (c_round (co pr)) = Some (me c) /\
  hash (c_full (co pr)) = c_root (co pr) /\
  proposal_justified c (value_check c) (s_height s) (rcj pr) (pj pr) (s_height s) (c_round (co pr)) (c_full (co pr)) = true.
Proof. exact honest_proposal_valid. Qed.
Print Assumptions C10_leader_proposal_valid.

Theorem C10_first_round_proposal_valid : forall c s v hh s' o pr,
  start c s v hh = Some (s', o) -> In (OBcast pr) o -> value_check c v = true ->
  c_signers (co pr) = [me c] /\ c_round (co pr) = FIRST_ROUND /\ c_height (co pr) = hh /\
  proposer c hh FIRST_ROUND = Some (me c) /\ hash (c_full (co pr)) = c_root (co pr) /\
  proposal_justified c (value_check c) hh (rcj pr) (pj pr) hh (c_round (co pr)) (c_full (co pr)) = true.
Proof. exact start_proposal_valid. Qed.
Print Assumptions C10_first_round_proposal_valid.

(* The aggregated decided message of the node lists its signers sorted (not ErrSignersNotSorted). *)
Theorem C10_decided_signers_sorted : forall c msgs full agg,
  v_sort_agg (var c) = true -> aggregate_commits c msgs full = Some agg -> sorted_le (c_signers (co agg)) = true.
Proof. exact aggregate_signers_sorted. Qed.
Print Assumptions C10_decided_signers_sorted.

(* The validation model (Validation/Model.v, the subject of C08/C09) and the protocol model carry two
   independently written transcriptions of specqbft.RoundRobinProposer; they compute the same leader and
   panic on the same inputs for ALL uint64 heights and rounds and all committees.  Hence the proposal
   of C10_leader_proposal_valid passes the validator's leader rule (not ErrSignerNotLeader), and the
   range guard in front of it (the F1 repair) never excludes a reachable round. *)
Theorem C10_leader_models_agree : forall c h r,
  (h < 18446744073709551616)%N -> (r < 18446744073709551616)%N ->
  match V.round_robin (committee c) h r with
  | V.LeaderIs x => proposer c h r = Some x
  | V.LeaderPanic _ => proposer c h r = None
  end.
Proof. exact leader_models_agree. Qed.
Print Assumptions C10_leader_models_agree.

Theorem C10_leader_guard_admits_reachable_rounds : forall sh h r,
  V.s_committee sh <> [] -> (1 <= r)%N -> (r <= 4611686018427387903)%N -> (h <= 9223372036854775807)%N ->
  V.rr_defined sh h r = true.
Proof. exact rr_defined_in_range. Qed.
Print Assumptions C10_leader_guard_admits_reachable_rounds.

(* The complete statement (not proved; see DESIGN.md C10): in every execution of the system of
   Qbft/System.v that respects the timing assumptions, every message emitted by a correct operator,
   validated by a correct peer whose validator state was built from any sub-sequence of the earlier
   broadcasts, at a reception time inside the message's round window, is not classified Reject. *)

(* Observed while building (DESIGN.md): upon a round-change quorum for a round ABOVE its own, a
   leader builds its proposal with its CURRENT round and that round's round changes; the hypothesis
   [c_round (co m) = s_round s] of C10_leader_proposal_valid is exactly what the timing assumptions
   provide (operators are at most one round apart), and is needed. *)

(* ---- the composition with the gate ---------------------------------------------------------------------------
   Second sentence of the property ("in a fault-free run with in-order timely delivery every such message is
   accepted") for the consensus messages of a round, proved for EVERY committee of distinct non-zero ids, every
   quorum in 1..n, every height < 2^63, every leader, every consensus role, both entry points, and for ANY arrival
   order (stronger than in-order) - each message at most once, each validated while the peer's beacon clock is in
   the duty's slot (any second and nanosecond of it) - for three rounds of the protocol model:
     the fault-free first round                                   (C07_sync_fault_free_generic),
     round 2 of the recovery from a silent first round            (C07_recovery_from_silent_round),
     round 2 of the recovery from a prepared first round          (C07_recovery_from_prepared_round).
   The *_broadcasts theorems are the protocol side: the messages in question are (among) what every operator of the
   protocol model broadcasts.  The *_is_accepted theorems run them, wrapped in the envelope a peer receives
   ([envelope_of]: gate_msg is the validator's view of a protocol message), through the validation model's entry
   point [V.run] - the model hx-val ties to the real validator - from a validator state in which every signer has
   no state or a state of an earlier round of the duty ([before_round]): every result is Accept.  Rounds above 2,
   decided aggregates, partial-signature messages and delivery at other offsets of the window are explored by
   hx-c10 with real controllers and validators, not proved. *)
Theorem C10_fault_free_round_broadcasts : forall (qc : cfg) (h ld : N),
  NoDup (committee qc) -> ~ In 0 (committee qc) ->
  1 <= quorum qc -> quorum qc <= N.of_nat (length (committee qc)) ->
  proposer qc h FIRST_ROUND = Some ld -> value_check qc (start_value ld) = true ->
  forall i, In i (committee qc) ->
  exists s bs, run (with_me qc i) (new_instance h)
                   (OStart (start_value i)
                    :: OMsg (msg_of qc h T_PROPOSAL ld (hash (start_value ld)) (start_value ld))
                    :: map (fun j => OMsg (msg_of qc h T_PREPARE j (hash (start_value ld)) None)) (committee qc)
                    ++ map (fun j => OMsg (msg_of qc h T_COMMIT j (hash (start_value ld)) None)) (committee qc))
               = (s, bs) /\
              smsgs_eqb (bcasts bs) (round_broadcasts qc h ld i) = true.
Proof. exact every_operator_broadcasts_round_broadcasts. Qed.
Print Assumptions C10_fault_free_round_broadcasts.

(* the decided message: the aggregate of the first quorum of commits, signers sorted - what UponCommit builds and the
   controller broadcasts at every operator of the fault-free round *)
Theorem C10_decided_msg_is_the_aggregate : forall c h ld,
  v_sort_agg (var c) = true -> firstn (N.to_nat (quorum c)) (committee c) <> [] ->
  aggregate_commits c (map (fmsg h T_COMMIT (hash (start_value ld))) (firstn (N.to_nat (quorum c)) (committee c)))
                    (start_value ld) = Some (decided_msg c h ld).
Proof. exact decided_msg_is_the_aggregate. Qed.
Print Assumptions C10_decided_msg_is_the_aggregate.

Theorem C10_recovery_round_broadcasts : forall c h ld1 ld2 live i m,
  In m (round2_broadcasts c h ld2 live i) -> In m (recover_bcasts c h ld1 ld2 live i).
Proof. exact round2_in_recover_bcasts. Qed.
Print Assumptions C10_recovery_round_broadcasts.

Theorem C10_prepared_recovery_round_broadcasts : forall c h ld1 ld2 live i m,
  In m (round2p_broadcasts c h ld1 ld2 live i) -> In m (prepared_bcasts c h ld1 ld2 live i).
Proof. exact round2p_in_prepared_bcasts. Qed.
Print Assumptions C10_prepared_recovery_round_broadcasts.

Section Gate.
Variables (qc : cfg) (h : N).
Variables (vc : V.cfg) (sh : V.share) (vid role fdlen : N) (p2p : bool) (rawlen dlen pkprefix : N).

(* what is assumed of the peer: it knows the validator with this committee, the share is active, and the envelope
   and payload sizes are inside the limits *)
Definition peer_ok : Prop :=
  ~ In 0 (committee qc) /\ h <= 9223372036854775807 /\
  VP.wf_cfg vc /\ V.get_share vc vid = Some sh /\ V.s_committee sh = committee qc /\
  V.s_liquidated sh = false /\ V.s_has_meta sh = true /\ V.s_attesting sh = true /\
  dlen <> 0 /\ dlen <= VC.maxConsensusMsgSize /\ VC.messageOffset < rawlen /\ rawlen <= VC.maxEncodedMsgSize /\
  (N.eqb role VC.roleValidatorRegistration || N.eqb role VC.roleVoluntaryExit) = false /\
  V.valid_role role = true /\ fdlen <> 0.

Definition all_accepted (rho : N) (B : list smsg) : Prop :=
  forall (l : list ((Z * Z) * smsg)) (vs : V.vstate),
  HR.before_round h rho (V.get_cs (vid, role) vs) ->
  NoDup (map snd l) ->
  Forall (fun x => HE.in_slot vc h (fst x) /\ In (snd x) B) l ->
  Forall (eq V.Accept)
         (snd (V.run vc vs (map (fun x => (fst x, envelope_of vc vid role fdlen p2p rawlen dlen pkprefix (snd x))) l))).

Theorem C10_fault_free_round_is_accepted : forall ld,
  peer_ok -> proposer qc h FIRST_ROUND = Some ld -> all_accepted VC.firstRound (all_broadcasts qc h ld).
Proof.
  intros ld (A1 & A2 & A3 & A4 & A5 & A6 & A7 & A8 & A9 & A10 & A11 & A12 & A13 & A14 & A15) Hld.
  exact (fault_free_round_is_accepted qc h A1 A2 vc sh vid role fdlen p2p rawlen dlen pkprefix
           A3 A4 A5 A6 A7 A8 A9 A10 A11 A12 A13 A14 A15 ld Hld).
Qed.

Theorem C10_fault_free_round_with_decided_is_accepted : forall ld,
  peer_ok -> NoDup (committee qc) -> V.s_quorum sh = quorum qc -> 2 <= quorum qc ->
  quorum qc <= N.of_nat (length (committee qc)) -> proposer qc h FIRST_ROUND = Some ld ->
  all_accepted VC.firstRound (all_broadcasts_and_decided qc h ld).
Proof.
  intros ld (A1 & A2 & A3 & A4 & A5 & A6 & A7 & A8 & A9 & A10 & A11 & A12 & A13 & A14 & A15) Hnd Hquo Hq2 Hqn Hld.
  exact (fault_free_round_with_decided_is_accepted qc h A1 A2 vc sh vid role fdlen p2p rawlen dlen pkprefix
           A3 A4 A5 A6 A7 A8 A9 A10 A11 A12 A13 A14 A15 ld Hnd Hquo Hq2 Hqn Hld).
Qed.

Theorem C10_recovery_round_is_accepted : forall ld2 live,
  peer_ok -> (forall y, In y live -> In y (committee qc)) -> proposer qc h R2 = Some ld2 ->
  all_accepted 2 (all_broadcasts2 qc h ld2 live).
Proof.
  intros ld2 live (A1 & A2 & A3 & A4 & A5 & A6 & A7 & A8 & A9 & A10 & A11 & A12 & A13 & A14 & A15) Hlive Hld.
  exact (recovery_round_is_accepted qc h A1 A2 vc sh vid role fdlen p2p rawlen dlen pkprefix
           A3 A4 A5 A6 A7 A8 A9 A10 A11 A12 A13 A14 A15 ld2 live Hlive Hld).
Qed.

Theorem C10_prepared_recovery_round_is_accepted : forall ld1 ld2 live,
  peer_ok -> (forall y, In y live -> In y (committee qc)) -> proposer qc h R2 = Some ld2 ->
  all_accepted 2 (all_broadcasts2p qc h ld1 ld2 live).
Proof.
  intros ld1 ld2 live (A1 & A2 & A3 & A4 & A5 & A6 & A7 & A8 & A9 & A10 & A11 & A12 & A13 & A14 & A15) Hlive Hld.
  exact (prepared_recovery_round_is_accepted qc h A1 A2 vc sh vid role fdlen p2p rawlen dlen pkprefix
           A3 A4 A5 A6 A7 A8 A9 A10 A11 A12 A13 A14 A15 ld1 ld2 live Hlive Hld).
Qed.

End Gate.
Print Assumptions C10_fault_free_round_is_accepted.
Print Assumptions C10_fault_free_round_with_decided_is_accepted.
Print Assumptions C10_recovery_round_is_accepted.
Print Assumptions C10_prepared_recovery_round_is_accepted.

(* [before_round h rho cs]: every signer has no state, or a state of this duty from a round below rho;
   a validator that has seen nothing is before any round *)
Theorem C10_fresh_validator_is_before_any_round : forall h rho k, HR.before_round h rho (V.get_cs k []).
Proof. intros h rho k s. reflexivity. Qed.
Print Assumptions C10_fresh_validator_is_before_any_round.

(* the timing assumption is what it says: any instant of the duty's slot passes the slot window, and rounds 1 and 2
   are inside the round window *)
Theorem C10_own_slot_is_inside_the_windows : forall c now role h rho,
  VP.wf_cfg c -> VT.wf_time c now -> VR.true_slot c (fst now) = Z.of_N h -> rho <= 2 ->
  V.validate_slot_time c h role (V.time_unix (fst now) (snd now)) = None /\
  (V.addw (V.estimated_round c h (V.time_unix (fst now) (snd now))) VC.allowedRoundsInFuture <? rho) = false.
Proof. intros; split; [apply HT.own_slot_passes_slot_time|apply HT.own_slot_round_in_window]; assumption. Qed.
Print Assumptions C10_own_slot_is_inside_the_windows.

(* non-vacuity: four operators, height 1000 (leaders 1, 2), the mainnet clock, an attester duty, 3.5 s into slot 1000.
   (a) all nine broadcasts of the fault-free round in REVERSE order (commits first, the proposal last);
   (b) the ten round-2 messages of the recovery from a silent round (operator 1 silent), reversed, to a peer that has
       already seen a round-1 prepare of operator 3;
   (c) the ten round-2 messages of the recovery from a prepared round, reversed, after the whole first round. *)
Definition c10_share : V.share :=
  {| V.s_liquidated := false; V.s_has_meta := true; V.s_attesting := true; V.s_quorum := 3; V.s_committee := [1; 2; 3; 4] |}.
Definition c10_vcfg : V.cfg :=
  {| V.c_genesis := 1606824023; V.c_slot_dur := 12; V.c_spe := 32; V.c_perm_epoch := 0; V.c_domain := 3;
     V.c_shares := [c10_share] |}.
Definition c10_now : Z * Z := (1606836026%Z, 500000000%Z).
Definition c10_env := envelope_of c10_vcfg 1 0 8 true 400 200 77.
Definition c10_at_now (ms : list smsg) := map (fun m => (c10_now, c10_env m)) ms.

Example C10_peer_ok_example : peer_ok (sync_cfg 4) 1000 c10_vcfg c10_share 1 0 8 400 200.
Proof.
  unfold peer_ok. repeat split; try (vm_compute; congruence); try (vm_compute; reflexivity).
  - vm_compute. intros H. repeat (destruct H as [H|H]; [discriminate H|]). exact H.
  - vm_compute. repeat constructor.
Qed.

Example C10_fault_free_round_example :
  proposer (sync_cfg 4) 1000 FIRST_ROUND = Some 1 /\
  VR.true_slot c10_vcfg (fst c10_now) = 1000%Z /\ length (all_broadcasts (sync_cfg 4) 1000 1) = 9%nat /\
  snd (V.run c10_vcfg [] (c10_at_now (rev (all_broadcasts (sync_cfg 4) 1000 1)))) = repeat V.Accept 9.
Proof. vm_compute. repeat split; reflexivity. Qed.

(* (a') the same with the decided message, which arrives FIRST *)
Example C10_fault_free_round_with_decided_example :
  v_sort_agg (var (sync_cfg 4)) = true /\ length (all_broadcasts_and_decided (sync_cfg 4) 1000 1) = 10%nat /\
  V.c_signers (gate_msg 8 true (decided_msg (sync_cfg 4) 1000 1)) = [1; 2; 3] /\
  snd (V.run c10_vcfg [] (c10_at_now (rev (all_broadcasts_and_decided (sync_cfg 4) 1000 1)))) = repeat V.Accept 10.
Proof. vm_compute. repeat split; reflexivity. Qed.

Example C10_recovery_round_example :
  proposer (sync_cfg 4) 1000 R2 = Some 2 /\ length (all_broadcasts2 (sync_cfg 4) 1000 2 [2; 3; 4]) = 10%nat /\
  let '(vs1, r1) := V.run c10_vcfg [] (c10_at_now [msg_of (sync_cfg 4) 1000 T_PREPARE 3 (hash (start_value 1)) None]) in
  r1 = [V.Accept] /\
  snd (V.run c10_vcfg vs1 (c10_at_now (rev (all_broadcasts2 (sync_cfg 4) 1000 2 [2; 3; 4])))) = repeat V.Accept 10.
Proof. vm_compute. repeat split; reflexivity. Qed.

Example C10_prepared_recovery_round_example :
  length (all_broadcasts2p (sync_cfg 4) 1000 1 2 [2; 3; 4]) = 10%nat /\
  let '(vs1, r1) := V.run c10_vcfg [] (c10_at_now (all_broadcasts (sync_cfg 4) 1000 1)) in
  r1 = repeat V.Accept 9 /\
  snd (V.run c10_vcfg vs1 (c10_at_now (rev (all_broadcasts2p (sync_cfg 4) 1000 1 2 [2; 3; 4])))) = repeat V.Accept 10.
Proof. vm_compute. repeat split; reflexivity. Qed.
