(* C03 — Duty signatures are released only over the decided, validated duty data.
   This file contains only statements, each closed by [exact], Print Assumptions, and Examples.
   The model (Runner/Model.v) is one validator with its seven duty runners; [hist] ranges over ALL
   sequences of start-duty events and pre-consensus / consensus / post-consensus messages, each
   labelled with the validator key it claims (matching or not) and a role; a consensus message
   carries what the real QBFT controller reported for it (the controller is an oracle, not
   re-modelled).  [vrun] returns one event per input: state before, input, outputs, state after. *)
From Coq Require Import List NArith Bool Arith.
From SSV Require Import Runner.PartialSig Runner.Model Runner.ModelProofs.
Import ListNotations.

(* Every validator-key signature (KeyManager.SignBeaconObject call) is
   - a pre-consensus proof made at the step where duty d starts (the start was accepted, d is the
     running duty afterwards), over one of d's slot-bound pre-objects, in the role's pre domain; or
   - a post-consensus signature made while a duty is running and not finished, its instance runs at
     the height of the duty's slot, the controller reports that instance's decision (same height)
     for the first time, the decided value decodes and passes the role's value check - over an
     object contained in that value, in the role's post domain. *)
Theorem C03_signing_discipline : forall g hist e r dom obj,
  In e (vrun g vinit hist) -> In (Sign r dom obj) (ev_outs e) ->
  (exists d ch ok, ev_in e = IStart r d ch ok /\ should_process r (ev_pre e r) d ch = true /\
                   dom = pre_domain r /\ In obj (du_pre d) /\ ev_post e r = Some (fresh d))
  \/
  (exists o ds dc, ev_in e = IMsg true r (BCons o) /\ has_consensus r = true /\
                   ev_pre e r = Some ds /\ ds_finished ds = false /\
                   ds_running ds = Some (du_slot (ds_duty ds)) /\
                   co_ret o = Some dc /\ dc_height dc = du_slot (ds_duty ds) /\ co_prev o = false /\
                   dc_decodes dc = true /\ dc_valid dc = true /\
                   dom = post_domain r /\ In obj (dc_objs dc)).
Proof. exact every_signature. Qed.
Print Assumptions C03_signing_discipline.

(* Per step: either nothing is signed, or exactly the pre-objects of the duty that starts, or exactly
   the objects of the decision acted upon (each as often as it is listed, i.e. once) - and only the
   addressed role's runner changes. *)
Theorem C03_signatures_of_a_step : forall g hist e,
  In e (vrun g vinit hist) ->
  signs (ev_outs e) = [] \/
  exists r, (pre_consensus_signing e r \/ post_consensus_signing e r) /\
            (forall r', r' <> r -> ev_post e r' = ev_pre e r').
Proof. exact signing_discipline. Qed.
Print Assumptions C03_signatures_of_a_step.

(* Messages of another validator, pre- and post-consensus messages, consensus messages when no duty
   runs or the duty is finished, that the controller rejects, that decide nothing, that decide
   another height than the running instance's, that are not its first decision, or whose value does
   not decode / fails the value check, and refused start-duty events cause no signature. *)
Theorem C03_no_signature_from_foreign_messages : forall g hist e,
  In e (vrun g vinit hist) -> cannot_sign (ev_pre e) (ev_in e) -> signs (ev_outs e) = [].
Proof. exact foreign_inputs_do_not_sign. Qed.
Print Assumptions C03_no_signature_from_foreign_messages.

(* A message is routed by role: the runners of the other roles are not touched. *)
Theorem C03_routed_by_role : forall g hist e pk r b r',
  In e (vrun g vinit hist) -> ev_in e = IMsg pk r b -> r' <> r -> ev_post e r' = ev_pre e r'.
Proof. exact other_roles_untouched. Qed.
Print Assumptions C03_routed_by_role.

(* At most once per decided object.  [ds_nsign] counts the steps in which the running duty signed
   post-consensus objects (a step signs each object of the decision once, see above).  The clause
   rests on a fact about the controller: after it has reported the running instance's decision to
   this duty, later calls see the running instance as decided ([oracle_consistent_at]). *)
Theorem C03_at_most_once_partial : forall g hist e,
  (forall e', In e' (vrun g vinit hist) -> oracle_consistent_at e' = true) ->
  In e (vrun g vinit hist) -> forall r, nsign_of (ev_post e) r <= 1.
Proof. exact at_most_once. Qed.
Print Assumptions C03_at_most_once_partial.

(* The clause without the controller fact, for the code without ([false]) / with ([true]) the repair
   of finding F-resign ([v_fix_resign], read from the source on every run): *)
Definition C03_at_most_once_statement (repaired : bool) : Prop :=
  forall g hist e, v_fix_resign g = repaired ->
    In e (vrun g vinit hist) -> forall r, nsign_of (ev_post e) r <= 1.

(* Unrepaired, the runner does not remember that it acted on a decision: if the controller reports
   the decision of the running instance again as a first decision, the runner signs again. *)
Theorem C03_at_most_once_refuted : ~ C03_at_most_once_statement false.
Proof. exact at_most_once_refuted. Qed.
Print Assumptions C03_at_most_once_refuted.

(* Repaired (didDecideCorrectly also refuses when State.DecidedValue is set), it holds for every
   history and every behaviour of the controller. *)
Theorem C03_at_most_once_repaired : C03_at_most_once_statement true.
Proof. exact at_most_once_fixed. Qed.
Print Assumptions C03_at_most_once_repaired.

Example C03_reported_again_witness :
  map (fun e => signs (ev_outs e)) (vrun cfg4 vinit reported_again)
  = [ []; [Sign RAtt DAttester 0%N]; [Sign RAtt DAttester 0%N] ]
  /\ map oracle_consistent_at (vrun cfg4 vinit reported_again) = [true; true; false]
  /\ map (fun e => signs (ev_outs e)) (vrun cfg4_fixed vinit reported_again)
  = [ []; [Sign RAtt DAttester 0%N]; [] ].
Proof. vm_compute. repeat split; reflexivity. Qed.

(* ---- non-vacuity: a proposer duty from start to finish with stale, future, foreign, replayed and
        invalid inputs -------------------------------------------------------------------------- *)

Definition pm (s slot root : N) : smsg :=
  {| s_signer := s; s_slot := slot; s_msgs := [ {| p_signer := s; p_root := root; p_share := Good |} ] |}.

Definition dec (h v : N) (valid : bool) : decision :=
  {| dc_height := h; dc_value := v; dc_decodes := true; dc_valid := valid; dc_objs := [5%N]; dc_slot := 12 |}.

Definition cons (prev : bool) (ret : option decision) : body :=
  BCons {| co_err := false; co_prev := prev; co_ret := ret |}.

Definition ex_hist : list rin :=
  [ IMsg true RProp (cons false (Some (dec 12 0 true)));       (* decision before any duty *)
    IStart RProp {| du_slot := 12; du_pre := [1%N] |} 0 false; (* signs the RANDAO reveal *)
    IMsg true RProp (cons false (Some (dec 12 0 true)));       (* no instance yet: wrong instance *)
    IMsg true RProp (BPre (pm 1 12 1) true);
    IMsg true RProp (BPre (pm 2 11 1) true);                   (* stale slot *)
    IMsg false RProp (BPre (pm 2 12 1) true);                  (* another validator *)
    IMsg true RProp (BPre (pm 2 12 1) true);
    IMsg true RProp (BPre (pm 3 12 1) true);                   (* quorum: instance starts at height 12 *)
    IMsg true RAgg (cons false (Some (dec 12 0 true)));        (* another role *)
    IMsg true RProp (cons false (Some (dec 13 0 true)));       (* future height *)
    IMsg true RProp (cons false None);                         (* ordinary consensus traffic *)
    IMsg true RProp (cons false (Some (dec 12 0 true)));       (* first decision: signs object 5 *)
    IMsg true RProp (cons true (Some (dec 12 0 true)));        (* replay *)
    IMsg true RProp (BPost (pm 1 12 5) true);
    IMsg true RProp (BPost (pm 2 12 5) true);
    IMsg true RProp (BPost (pm 3 12 5) true);                  (* quorum: submit, finished *)
    IMsg true RProp (cons false (Some (dec 12 0 true)));       (* finished duty *)
    IStart RProp {| du_slot := 12; du_pre := [1%N] |} 12 false;(* same slot again: refused *)
    IStart RProp {| du_slot := 13; du_pre := [2%N] |} 12 false;(* next duty *)
    IMsg true RProp (BPre (pm 1 13 2) true); IMsg true RProp (BPre (pm 2 13 2) true);
    IMsg true RProp (BPre (pm 3 13 2) true);
    IMsg true RProp (cons false (Some (dec 13 1 false))) ].    (* decided value fails the value check *)

Example C03_example :
  map (fun e => (ev_class e, signs (ev_outs e))) (vrun cfg4 vinit ex_hist) =
  [ (COk, []); (COk, [Sign RProp DRandao 1%N]); (CWrongInst, []); (COk, []); (CPart ESlot, []);
    (CForeign, []); (COk, []); (COk, []); (COk, []); (CWrongInst, []); (COk, []);
    (COk, [Sign RProp DProposer 5%N]); (COk, []); (COk, []); (COk, []); (COk, []); (COk, []);
    (CPassed, []); (COk, [Sign RProp DRandao 2%N]); (COk, []); (COk, []); (COk, []); (CInvalid, []) ]
  /\ forallb oracle_consistent_at (vrun cfg4 vinit ex_hist) = true.
Proof. vm_compute. split; reflexivity. Qed.
