(* C17 — Round timeouts fire once per armed round, never early, never for stale rounds.
   This file contains only statements, each closed by [exact], Print Assumptions and Examples.

   A schedule is a list of steps of the timer (Timer/Model.v): TimeoutForRound calls [OArm now h r],
   the delivery of an arming's expiry to its goroutine, either as one step [OExpire now id] or split
   into "read Round() and compare" [OWake now id] and "invoke the callback" [OCall now id] as the
   code does, and the cancellation of the parent context [OCancel now].  Time is an integer; a step
   that would deliver an expiry before its time.Timer can fire does nothing ([RNotDue]), which is the
   assumption "time.Timer never fires early".  [trace] pairs every observation with the state it
   was made from; [RCalled p t a l] = the callback ran at t for arming p while the timer was armed
   for round a by arming l. *)
From Coq Require Import List NArith ZArith Bool.
From SSV Require Import Gen.TimerConsts Timer.Model Timer.Proofs.
Import ListNotations.
Local Open Scope Z_scope.

(* At most once per arming: over EVERY schedule (any spacing, re-arming, cancellation, any order and
   lateness of deliveries, split or unsplit expiries, rounds not even required to increase). *)
Theorem C17_at_most_once : forall o b ro ops s' rs, run o b ro init ops = (s', rs) ->
  forall id, (called id rs <= 1)%nat.
Proof. exact at_most_once. Qed.
Print Assumptions C17_at_most_once.

(* Never early: over every schedule whose clock does not go back, a callback for the arming number
   [p_id p], made at [p_armed_at p] for (h, [p_round p]), does not run before the deadline of that
   round ... *)
Theorem C17_never_early : forall o b ro ops t0 s' rs,
  mono t0 ops -> run o b ro init ops = (s', rs) ->
  forall p t a l, In (RCalled p t a l) rs ->
  exists h, nth_error (arm_hist ops) (p_id p) = Some (p_armed_at p, h, p_round p) /\
            deadline o b ro (p_armed_at p) h (p_round p) <= t.
Proof. exact never_early. Qed.
Print Assumptions C17_never_early.

(* ... which for the attester, aggregator, sync-committee and contribution roles is measured from
   the duty's slot start, whenever the timer was armed: slot start + role base + cumulative
   allowance; and which for the proposer (and any other role value) is quick or slow counted from
   the moment of arming — the code does not anchor those at the slot start. *)
Theorem C17_deadline_from_slot_start : forall o b ro now h r, slot_based ro ->
  exists bd, base_duration b ro = Some bd /\
    deadline o b ro now h r = slot_start b h + bd + additional o r.
Proof. exact deadline_slot_based. Qed.
Print Assumptions C17_deadline_from_slot_start.

Theorem C17_deadline_relative_roles : forall o b ro now h r, ~ slot_based ro ->
  deadline o b ro now h r = now + (if (r <=? o_threshold o)%N then o_quick o else o_slow o).
Proof. exact deadline_relative. Qed.
Print Assumptions C17_deadline_relative_roles.

(* RoundTimeout is that deadline minus the time of the call. *)
Theorem C17_round_timeout : forall o b ro now h r,
  now + round_timeout o b ro now h r = deadline o b ro now h r.
Proof. exact round_timeout_deadline. Qed.
Print Assumptions C17_round_timeout.

(* The allowance is cumulative: each round adds one quick step up to the threshold and one slow step
   beyond it (round = threshold is still quick), so later rounds have later deadlines. *)
Theorem C17_allowance_step : forall o r,
  additional o (r + 1) = additional o r + (if (r + 1 <=? o_threshold o)%N then o_quick o else o_slow o).
Proof. exact additional_succ. Qed.
Print Assumptions C17_allowance_step.

Theorem C17_allowance_increasing : forall o r r', 0 < o_quick o -> 0 < o_slow o -> (r < r')%N ->
  additional o r < additional o r'.
Proof. exact additional_mono. Qed.
Print Assumptions C17_allowance_increasing.

Theorem C17_default_options_positive :
  0 < o_quick default_opts /\ 0 < o_slow default_opts /\ (0 < o_threshold default_opts)%N.
Proof. exact default_opts_positive. Qed.
Print Assumptions C17_default_options_positive.

(* Only the most recently armed round.  The statement over all schedules with strictly increasing
   rounds: *)
Definition C17_only_latest_statement : Prop :=
  forall o b ro ops, increasing 0%N ops -> mono 0 ops ->
  forall s p t a l, In (s, RCalled p t a l) (trace o b ro init ops) ->
  p_round p = armed s /\ last_id s = Some (p_id p).

(* The faithful model refutes it: waitForRound compares Round() and invokes the callback in two
   steps with no lock shared with TimeoutForRound, so a re-arming can fall in between
   ([race_ops]: arm 1, expiry of 1 passes the comparison, arm 2, callback for 1). *)
Theorem C17_only_latest_refuted : ~ C17_only_latest_statement.
Proof. exact only_latest_refuted. Qed.
Print Assumptions C17_only_latest_refuted.

Theorem C17_only_latest_witness :
  increasing 0%N race_ops /\ mono 0 race_ops /\
  exists s p t a l, In (s, RCalled p t a l) (trace default_opts ex_beacon RAttester init race_ops) /\
                    p_round p = 1%N /\ armed s = 2%N /\ p_id p = O /\ last_id s = Some 1%nat.
Proof. exact race_witness. Qed.
Print Assumptions C17_only_latest_witness.

(* What holds: when comparison and callback are one step (no TimeoutForRound in between), every
   callback is for the round the timer is armed for at that moment and belongs to the most recent
   arming ... *)
Theorem C17_only_latest_partial : forall o b ro ops,
  Forall atomic_op ops -> increasing 0%N ops ->
  forall s p t a l, In (s, RCalled p t a l) (trace o b ro init ops) ->
  a = armed s /\ l = last_id s /\ p_round p = armed s /\ last_id s = Some (p_id p).
Proof. exact only_latest. Qed.
Print Assumptions C17_only_latest_partial.

(* ... ([armed]/[last_id] are the round and ordinal of the last TimeoutForRound call) ... *)
Theorem C17_armed_is_last_arm : forall o b ro s x s1 r, step o b ro s x = (s1, r) ->
  match x with
  | OArm _ _ rd => armed s1 = rd /\ last_id s1 = Some (next_id s) /\ next_id s1 = S (next_id s)
  | _ => armed s1 = armed s /\ last_id s1 = last_id s /\ next_id s1 = next_id s
  end.
Proof. exact last_id_is_last_arm. Qed.
Print Assumptions C17_armed_is_last_arm.

(* ... and re-arming supersedes: after a further TimeoutForRound no arming made before it (they
   all have smaller ordinals) ever calls back. *)
Theorem C17_rearming_supersedes_partial : forall o b ro pre now h r post,
  Forall atomic_op (pre ++ OArm now h r :: post) -> increasing 0%N (pre ++ OArm now h r :: post) ->
  let s1 := fst (run o b ro init pre) in
  (forall q, In q (pend s1 ++ woken s1) -> (p_id q < next_id s1)%nat) /\
  forall s p t a l, In (s, RCalled p t a l) (trace o b ro (fst (arm o b ro s1 now h r)) post) ->
    (next_id s1 <= p_id p)%nat.
Proof. exact supersede. Qed.
Print Assumptions C17_rearming_supersedes_partial.

(* Not vacuous: the most recent arming does call back when its expiry is delivered. *)
Theorem C17_latest_fires : forall o b ro s now id p,
  woken s = [] -> find_pending id (pend s) = Some p -> p_fire p <= now ->
  armed s = p_round p ->
  exists s1, step o b ro s (OExpire now id) = (s1, RCalled p now (armed s) (last_id s)).
Proof. exact fires_if_latest. Qed.
Print Assumptions C17_latest_fires.

(* The controller.  A timeout event for a height without an instance, for a round below the
   instance's, for a decided instance, or for one that no longer processes (force-stopped, cut-off
   round) changes nothing: same state, no broadcast, no timer call. *)
Theorem C17_stale_timeout_is_noop : forall c h r, stale c h r ->
  exists res, on_timeout c h r = (c, res, []) /\ forall n, res <> TBumped n.
Proof. exact stale_noop. Qed.
Print Assumptions C17_stale_timeout_is_noop.

(* A second delivery of an event the timer produced (its round is not ahead of the instance's). *)
Theorem C17_duplicate_timeout_is_noop : forall c h r i,
  find_inst h (c_insts c) = Some i -> (r <= i_round i)%N ->
  noop (fst (fst (on_timeout c h r))) h r.
Proof. exact duplicate_noop. Qed.
Print Assumptions C17_duplicate_timeout_is_noop.

(* Another height: after StartNewInstance(h) every other stored instance is force-stopped. *)
Theorem C17_other_height_is_noop : forall c h c', start_instance c h = (c', true) ->
  forall h' r, (h' <> h)%N -> noop c' h' r.
Proof. exact other_height_noop. Qed.
Print Assumptions C17_other_height_is_noop.

(* And a timeout that is none of these does act (so the above is not vacuous). *)
Theorem C17_fresh_timeout_bumps : forall c h r i, find_inst h (c_insts c) = Some i -> ~ stale c h r ->
  on_timeout c h r =
  ({| c_height := c_height c; c_insts := update_inst h bump (c_insts c) |}, TBumped (i_round i + 1),
   [EBroadcastRoundChange h (i_round i + 1); EArmTimer h (i_round i + 1)]).
Proof. exact not_stale_bumps. Qed.
Print Assumptions C17_fresh_timeout_bumps.

(* ---- non-vacuity ------------------------------------------------------------------------------- *)

(* Default options, 12 s slots: attester deadlines from the slot start for rounds 1, 8, 9 are
   4+2 s, 4+16 s, 4+16+120 s; aggregator round 1 is 8+2 s; the proposer gets 2 s / 2 min from arming. *)
Example C17_example_deadlines :
  deadline default_opts ex_beacon RAttester 777 0%N 1%N = 6000000000 /\
  deadline default_opts ex_beacon RAttester 777 0%N 8%N = 20000000000 /\
  deadline default_opts ex_beacon RAttester 777 0%N 9%N = 140000000000 /\
  deadline default_opts ex_beacon RAggregator 777 2%N 1%N = 24000000000 + 10000000000 /\
  deadline default_opts ex_beacon RProposer 777 0%N 8%N = 777 + 2000000000 /\
  deadline default_opts ex_beacon RProposer 777 0%N 9%N = 777 + 120000000000.
Proof. vm_compute. repeat split; reflexivity. Qed.

(* Re-arming before expiry, a late and an in-time delivery, a duplicate delivery, cancellation:
   round 1 armed at 0, round 2 at 1 s, round 1's expiry delivered at 6 s (suppressed), round 2's at
   8 s (callback), again (nothing left), round 3 armed, context cancelled, round 3's expiry
   delivered all the same (select may take the timer branch). *)
Definition ex_ops : list op :=
  [OArm 0 0%N 1%N; OArm 1000000000 0%N 2%N; OExpire 5999999999 0; OExpire 6000000000 0;
   OExpire 8000000000 1; OExpire 8000000001 1; OArm 8000000002 0%N 3%N; OCancel 9000000000;
   OExpire 10000000000 2].
Example C17_example_schedule :
  Forall atomic_op ex_ops /\ increasing 0%N ex_ops /\ mono 0 ex_ops /\
  map (fun r => match r with
                | RArmed p => (1, p_deadline p) | RCalled p t _ _ => (2, Z.of_N (p_round p))
                | RSuppressed p => (3, Z.of_N (p_round p))
                | RNotDue => (5, 0) | RNoSuch => (6, 0) | RCancel => (7, 0) | RGuard _ _ => (8, 0)
                end)
      (snd (run default_opts ex_beacon RAttester init ex_ops)) =
  [(1, 6000000000); (1, 8000000000); (5, 0); (3, 1); (2, 2); (6, 0); (1, 10000000000); (7, 0); (2, 3)].
Proof.
  split; [repeat constructor|]. split; [vm_compute; repeat split; reflexivity|].
  split; [vm_compute; repeat split; discriminate|]. vm_compute. reflexivity.
Qed.

(* The controller: instance 5 running; its round-1 timeout bumps it; the duplicate, an event for an
   unknown height and, after a decided message, any event are no-ops; starting 6 stops 5. *)
Example C17_example_controller :
  let c1 := fst (start_instance cinit 5%N) in
  let '(c2, r2, e2) := on_timeout c1 5%N 1%N in
  let '(c3, r3, e3) := on_timeout c2 5%N 1%N in
  let '(c4, r4, e4) := on_timeout c3 4%N 1%N in
  let c5 := fst (start_instance c4 6%N) in
  let '(c6, r6, e6) := on_timeout c5 5%N 2%N in
  let c7 := decided_msg c6 6%N 1%N in
  let '(c8, r8, e8) := on_timeout c7 6%N 1%N in
  r2 = TBumped 2%N /\ e2 = [EBroadcastRoundChange 5%N 2%N; EArmTimer 5%N 2%N] /\
  r3 = TOldRound /\ c3 = c2 /\ e3 = [] /\ r4 = TNoInstance /\ c4 = c3 /\
  r6 = TStopped /\ c6 = c5 /\ r8 = TDecided /\ c8 = c7 /\ ~ stale c1 5%N 1%N /\ stale c2 5%N 1%N.
Proof.
  vm_compute. repeat split; try reflexivity.
  - intros [H|[H|H]]; discriminate.
  - left. reflexivity.
Qed.
