(* C12 - Block event processing is atomic and exactly-once across crashes.
   This file contains only statements, each closed by [exact], Print Assumptions, and Examples.

   Crash.v: the processing of a block is its list of effects in program order ([trace]): every write
   call on the block transaction, every database write of a key-manager / decided-store call made
   outside the transaction, the marker write and the commit.  [crash_at st b k]: the node dies after
   the first k effects (k >= length of the trace: after the commit) and is started again - the
   transaction is lost, the outside writes made so far stay, every in-memory structure is rebuilt
   from the database.  An injected FAILURE of effect k+1 leads to the same state (the error is not a
   MalformedEventError, processBlockEvents returns it, the transaction is discarded, the node exits).
   [resume]: continue from the recorded marker + 1 (blocks not newer than the marker are not fetched).

   ASSUMPTION: a badger transaction is atomic (Commit = all writes, no Commit = none).

   [st_equiv]: same database (registry, nonces, marker), same in-memory view, same operator id, the
   same USABLE key shares (wallet index entry whose account object loads) and the same decided
   store.  Raw wallet storage and slashing records are not claimed equal - see the two theorems at the
   end. *)
From Coq Require Import List NArith Bool.
From SSV Require Import Gen.RegistryConsts Registry.Types Registry.Spec Registry.Impl Registry.Crash
  Registry.Proofs Registry.CrashProofs.
Import ListNotations.
Local Open Scope N_scope.

(* For every state the invariant of C11 holds in, every block, every crash point k and every
   continuation: crash + restart + resume ends in the state of the uninterrupted run.  No event is
   applied twice, half-applied or skipped. *)
Theorem C12_crash_equivalence : forall st b rest k,
  inv st -> wf_block b -> increasing (x_last (db st)) (OBlock b :: rest) ->
  st_equiv (resume (crash_at st b k) (OBlock b :: rest)) (run_impl st (OBlock b :: rest)).
Proof. exact crash_equivalence. Qed.
Print Assumptions C12_crash_equivalence.

(* ... in particular at any block of any history from the empty node. *)
Theorem C12_crash_equivalence_history : forall pre b rest k,
  Forall wf_op (pre ++ OBlock b :: rest) -> increasing 0 (pre ++ OBlock b :: rest) ->
  st_equiv (resume (crash_at (run_impl istate_init pre) b k) (OBlock b :: rest))
           (run_impl istate_init (pre ++ OBlock b :: rest)).
Proof. exact crash_equivalence_history. Qed.
Print Assumptions C12_crash_equivalence_history.

(* Until the commit nothing of the block is in the database: the marker is in the same transaction
   as the block's effects. *)
Theorem C12_nothing_before_commit : forall st b k,
  (k < length (trace st b))%nat -> db (crash_at st b k) = db st.
Proof. exact crash_db_unchanged. Qed.
Print Assumptions C12_nothing_before_commit.

(* A block that is not newer than the last processed block is refused (ErrInferiorBlock) and leaves
   the state unchanged. *)
Theorem C12_inferior_block_refused : forall st b,
  bnum b <= x_last (db st) -> process_block st b = (st, BRefused).
Proof. exact block_refused. Qed.
Print Assumptions C12_inferior_block_refused.

(* The side effects outside the transaction converge: after ANY prefix of the write calls of a list
   of key-manager / decided-store calls, running the whole list again leaves every key exactly as
   usable (and every decided history exactly as present) as running it once. *)
Theorem C12_outside_effects_replay : forall c x ops m j,
  smem x (cget c (fold_left km_apply ops (apply_kws (firstn j (expand_km ops m)) m))) =
  smem x (cget c (fold_left km_apply ops m)).
Proof. exact replay_after_prefix. Qed.
Print Assumptions C12_outside_effects_replay.

(* Equivalent states stay equivalent whatever follows. *)
Theorem C12_equivalence_is_stable : forall ops a b, st_equiv a b -> st_equiv (run_impl a ops) (run_impl b ops).
Proof. exact run_equiv. Qed.
Print Assumptions C12_equivalence_is_stable.

(* ---- the slashing-protection records ----------------------------------------------------------------- *)

(* Every usable key share keeps both of its slashing-protection records: in every uninterrupted run ... *)
Theorem C12_protection_invariant : forall ops st,
  km_covered (km st) -> km_covered (km (run_impl st ops)).
Proof. exact run_cov. Qed.
Print Assumptions C12_protection_invariant.

(* ... and after a crash at any point of any block, restart and resumption. *)
Theorem C12_crash_keeps_protection : forall st b rest k,
  inv st -> wf_block b -> increasing (x_last (db st)) (OBlock b :: rest) -> km_covered (km st) ->
  km_covered (km (resume (crash_at st b k) (OBlock b :: rest))).
Proof. exact crash_keeps_protection. Qed.
Print Assumptions C12_crash_keeps_protection.

(* What is NOT reproduced exactly: the set of slashing records.  Block = [ClusterReactivated;
   ValidatorRemoved] of the node's own validator; the node dies after RemoveShare has finished and
   before the commit.  On resumption the reactivation finds no record and writes one, RemoveShare
   finds no account and removes nothing: a highest-attestation / proposal record of a key share
   that is gone stays behind (harmless: more protection, no key).  This is why [st_equiv] compares
   usable key shares and [C12_crash_keeps_protection] states coverage, not equality. *)
Theorem C12_slashing_records_not_reproduced_refuted :
  let st := run_impl istate_init res_pre in
  km_att (km (run_impl st [OBlock res_block])) = [] /\
  km_att (km (resume (crash_at st res_block 8) [OBlock res_block])) = [17] /\
  km_use (km (resume (crash_at st res_block 8) [OBlock res_block])) = [].
Proof. exact slashing_record_residue. Qed.
Print Assumptions C12_slashing_records_not_reproduced_refuted.

(* ---- non-vacuity -------------------------------------------------------------------------------------- *)

Definition ex_add (v owner nonce : N) : vadd :=
  {| va_owner := owner; va_ops := [1; 2; 3; 4]; va_v := v; va_len := expected_len 4;
     va_sig := Some (v, owner, nonce);
     va_shares := [(v * 16 + 1, true); (v * 16 + 2, false); (v * 16 + 3, false); (v * 16 + 4, false)] |}.
Definition ex_pre : list op :=
  [ OBlock {| bnum := 10; bevents := [EOperatorAdded 1 7 own_pk; EOperatorAdded 2 7 3; EOperatorAdded 3 7 4; EOperatorAdded 4 7 5] |};
    OBlock {| bnum := 20; bevents := [EValidatorAdded (ex_add 1 7 0)] |} ].
(* reactivation, removal of validator 1, addition of validator 2: 16 effects *)
Definition ex_block : block :=
  {| bnum := 30; bevents := [EClusterReactivated 7 [1; 2; 3; 4]; EValidatorRemoved 7 [1; 2; 3; 4] 1;
                             EValidatorAdded (ex_add 2 7 1)] |}.
Definition ex_rest : list op := [OBlock {| bnum := 40; bevents := [EFeeRecipientUpdated 7 9] |}].

Example C12_example_hypotheses :
  Forall wf_op (ex_pre ++ OBlock ex_block :: ex_rest) /\ increasing 0 (ex_pre ++ OBlock ex_block :: ex_rest).
Proof.
  split.
  - repeat (apply Forall_cons; [|]); try apply Forall_nil; try exact I;
      (split; [repeat (apply Forall_cons; [simpl; first [exact I | discriminate]|]); apply Forall_nil
              |intros _; simpl; repeat (constructor; [simpl; intuition discriminate|]); constructor]).
  - simpl. repeat split; reflexivity.
Qed.

(* the trace of the example block, and what a crash after 8 of its 16 effects leaves behind: the
   database untouched, validator 1's key share already gone from the wallet *)
Example C12_example_trace :
  let st := run_impl istate_init ex_pre in
  trace st ex_block =
    [FTxn; FKw (DHist 1); FKw (DHi 1); FTxn; FKw (DAtt 17); FKw (DProp 17); FKw (DObj 17); FKw (DIdx 17);
     FTxn; FKw (WAtt 33); FKw (WProp 33); FKw (WObj 33); FKw (WIdx 33); FTxn; FTxn; FCommit] /\
  db (crash_at st ex_block 8) = db st /\ km_use (km st) = [17] /\ km_use (km (crash_at st ex_block 8)) = [] /\
  km_use (km (resume (crash_at st ex_block 8) (OBlock ex_block :: ex_rest))) = [33] /\
  db (resume (crash_at st ex_block 8) (OBlock ex_block :: ex_rest)) = db (run_impl st (OBlock ex_block :: ex_rest)).
Proof. vm_compute. repeat split; reflexivity. Qed.
