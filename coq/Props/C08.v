(* C08 - No network input can crash message validation or decoding.
   This file contains only statements, each closed by [exact], Print Assumptions, and Examples. *)
From Coq Require Import List NArith ZArith Bool.
From SSV Require Import Gen.ValidationConsts Validation.Model Validation.Rules Validation.ProofsPanic Validation.ProofsHist.
Import ListNotations.

(* One validation, from any state: whatever the field values (all of [0,2^64) and beyond), the
   types and roles, the signer lists, the oracle bits and the reception time, the result is
   accept, ignore or reject - none of the panic sites of the Go code is reached. *)
Theorem C08_validate_never_panics : forall c vs now env,
  wf_cfg c -> no_panic (fst (validate c vs now env)).
Proof. exact validate_np. Qed.
Print Assumptions C08_validate_never_panics.

(* ... and so for every history of validations, before and after any earlier messages. *)
Theorem C08_history_never_panics : forall c h vs,
  wf_cfg c -> Forall no_panic (snd (run c vs h)).
Proof. exact run_np. Qed.
Print Assumptions C08_history_never_panics.

(* State invariant on every state reachable by earlier validations: the per-signer message counters
   stay within their limits (so the Go ints they model can never overflow), whatever was received. *)
Theorem C08_counters_bounded_on_reachable_states : forall c h, wf_cfg c ->
  forall k s ss, get_signer s (get_cs k (fst (run c [] h))) = Some ss ->
  forall kind, (0 <= cnt_get (ss_counts ss) kind <= limit_of (committee_size c k) kind)%Z.
Proof. exact reachable_counts_bounded. Qed.
Print Assumptions C08_counters_bounded_on_reachable_states.

(* The leader computation, the site of finding F1: under the guard the code now evaluates first,
   RoundRobinProposer indexes inside the committee. *)
Theorem C08_leader_defined_under_guard : forall sh h r,
  wf_share sh -> rr_defined sh h r = true ->
  exists op, round_robin (s_committee sh) h r = LeaderIs op /\ In op (s_committee sh).
Proof. exact round_robin_defined. Qed.
Print Assumptions C08_leader_defined_under_guard.

(* Hand-written decoders are total. DecodeSignedSSVMessage: error below 264 bytes, otherwise the
   three slices partition the input. *)
Theorem C08_decode_signed_ssv_total : forall b,
  (length b < N.to_nat messageOffset)%nat /\ decode_signed_ssv b = None \/
  exists m o s, decode_signed_ssv b = Some (m, o, s) /\
    length s = N.to_nat rsaSignatureSize /\ length o = N.to_nat operatorIDSize /\
    b = s ++ o ++ m.
Proof. exact decode_signed_ssv_total. Qed.
Print Assumptions C08_decode_signed_ssv_total.

(* Subnets.FromString: 8 entries per pair of hex digits, for any input length. *)
Theorem C08_subnets_from_string_length : forall n l r,
  (length l <= n)%nat -> subnets_from_chars l = Some r -> length r = (8 * (length l / 2))%nat.
Proof. exact subnets_from_chars_length. Qed.
Print Assumptions C08_subnets_from_string_length.

(* The "domaintype" entry of a peer's node record (finding F12, repaired): short values are an error,
   not a failing slice-to-array conversion. *)
Theorem C08_domain_type_entry_total : forall bs, decode_domain_type true bs <> None.
Proof. exact decode_domain_type_total. Qed.
Print Assumptions C08_domain_type_entry_total.

Theorem C08_domain_type_entry_unchecked_refuted : decode_domain_type false [1; 2]%N = None.
Proof. exact decode_domain_type_unchecked_refuted. Qed.
Print Assumptions C08_domain_type_entry_unchecked_refuted.

(* SharedSubnets on a peer's subnets of any length (finding F9, repaired): no index out of range. *)
Theorem C08_shared_subnets_total : forall a b ml, shared_subnets true a b ml <> None.
Proof. exact shared_subnets_total. Qed.
Print Assumptions C08_shared_subnets_total.

(* ... and the function before the repair is refuted by the replayed input (regression witness). *)
Theorem C08_shared_subnets_unguarded_refuted :
  shared_subnets false [0; 0; 0; 0; 0; 0; 0; 0; 0; 1]%N [0; 0; 0; 0; 0; 0; 0; 0]%N 1 = None.
Proof. exact shared_subnets_unguarded_refuted. Qed.
Print Assumptions C08_shared_subnets_unguarded_refuted.

(* SignedNodeInfo.UnmarshalRecord after the JSON step: entries are indexed only below the length. *)
Theorem C08_signed_node_info_total : forall k a b c d e, signed_node_info_post_json k a b c d e <> None.
Proof. exact signed_node_info_post_json_total. Qed.
Print Assumptions C08_signed_node_info_total.

(* Non-vacuity: the F1 message (proposal, round 0, one signer, height divisible by the committee
   size) is rejected, and the unguarded leader computation does panic on it. *)
Definition ex_share : share :=
  {| s_liquidated := false; s_has_meta := true; s_attesting := true; s_quorum := 3; s_committee := [1; 2; 3; 4]%N |}.
Definition ex_cfg : cfg :=
  {| c_genesis := 1616508000; c_slot_dur := 12; c_spe := 32; c_perm_epoch := 10100; c_domain := 770;
     c_shares := [ex_share] |}.
Definition ex_f1_msg : cmsg :=
  {| c_sig_len := 96; c_sig_zero := false; c_type := 0; c_height := 320000; c_round := 0; c_signers := [1%N];
     c_fd_len := 4; c_fd_id := 1; c_root_ok := true; c_pj_ok := true; c_pj_len := 0; c_rcj_ok := true;
     c_rcj_len := 0; c_just_ok := true; c_duty_ok := true |}.
Definition ex_f1_env : envelope :=
  {| e_p2p := false; e_raw_len := 0; e_topic := None; e_op_found := false; e_op_key_ok := false;
     e_rsa_ok := false; e_ssv_decode_ok := true; e_data_len := 200; e_domain := 770; e_pk_prefix := 0;
     e_role := 0; e_pk_deser_ok := true; e_vid := 1; e_msg_type := 0; e_body := BConsensus ex_f1_msg |}.
Example C08_example_wf : wf_cfg ex_cfg.
Proof. repeat split; try reflexivity. repeat constructor. Qed.
Example C08_example_f1_rejected :
  fst (validate ex_cfg [] (1620348000, 300000000)%Z ex_f1_env) = Reject ErrSignerNotLeader /\
  round_robin (s_committee ex_share) 320000 0 = LeaderPanic PanicLeaderIndex.
Proof. vm_compute. split; reflexivity. Qed.
