(* C02 — Every reported decision is backed by a verifiable quorum certificate.  Statements only. *)
From Coq Require Import List NArith ZArith Bool.
From SSV Require Import Qbft.Model Qbft.Controller Qbft.DecidedProofs.
Import ListNotations.
Local Open Scope N_scope.

(* [certificate c d] (Qbft/DecidedProofs.v): d is a commit whose signers are distinct, non-zero and
   at least a quorum, whose aggregate signature verifies over exactly the listed signers, and whose
   value hashes to the certified root. *)

(* (1) A decision reported upon a decided message from the network is that message, and it is a
       certificate - from EVERY instance state and for EVERY message. *)
Theorem C02_network_decision_is_certificate : forall c s m s' o d,
  is_decided_msg c m = true -> ctl_process c s m = (s', o, CRDecided d) -> d = m /\ certificate c d.
Proof. exact decided_path_certificate. Qed.
Print Assumptions C02_network_decision_is_certificate.

(* (2) No message from fewer than 2f+1 members, with repeated or zero signers, with a bad aggregate
       signature, or whose value does not hash to the root can make an operator decide: such a
       decided-shaped message is refused and the instance is left exactly as it was. *)
Theorem C02_forged_decided_rejected : forall c s m,
  is_decided_msg c m = true -> validate_decided c m = false -> c_ident (co m) = 0 ->
  ctl_process c s m = (s, [], CRErr).
Proof. exact forged_decided_rejected. Qed.
Print Assumptions C02_forged_decided_rejected.

Theorem C02_sub_quorum_is_not_a_decided_message : forall c m,
  N.of_nat (length (c_signers (co m))) < quorum c -> is_decided_msg c m = false.
Proof. exact sub_quorum_not_decided. Qed.
Print Assumptions C02_sub_quorum_is_not_a_decided_message.

Theorem C02_foreign_identifier_rejected : forall c s m,
  c_ident (co m) <> 0 -> ctl_process c s m = (s, [], CRErr).
Proof. exact foreign_identifier_rejected. Qed.
Print Assumptions C02_foreign_identifier_rejected.

(* what validate_decided = true means, field by field *)
Theorem C02_validate_decided_sound : forall c m, validate_decided c m = true -> certificate c m.
Proof. exact validate_decided_certificate. Qed.
Print Assumptions C02_validate_decided_sound.

(* (3) Locally reached decisions.  For every history of messages and timeouts (runner level:
       controller + compaction) from a started instance, a decision reported for a message that is
       not itself a decided message is a certificate whose value is the full data of the accepted
       proposal; that proposal passed the operator's own value check, was signed by the legitimate
       leader of the decision's round, and every listed signer contributed a validated single-signer
       commit for exactly (height, round, root). *)
Theorem C02_local_decision_certified : forall c h v s0 o0 ops m s' o d,
  start c (new_instance h) v h = Some (s0, o0) -> no_cstart ops ->
  let s := fst (crun c s0 ops) in
  is_decided_msg c m = false -> runner_process c s m = (s', o, CRDecided d) ->
  certificate c d /\
  exists p, s_acc s = Some p /\ proposal_ok c (s_height s) p /\
    c_round (co p) = c_round (co d) /\ c_root (co p) = c_root (co d) /\ c_full (co p) = c_full (co d) /\
    c_height (co d) = s_height s /\
    forall x, In x (c_signers (co d)) ->
      exists cm, c_signers (co cm) = [x] /\ commit_ok c (s_height s) (c_round (co d)) (c_root (co d)) cm.
Proof.
  intros c h v s0 o0 ops m s' o d Hs Hns s Hnd Hr.
  destruct (runner_process_result _ _ _ _ _ _ Hr) as (s1 & Hc).
  eapply local_decision_certified; eauto.
  apply crun_ginv; [eapply started_instance_ginv; eauto|exact Hns].
Qed.
Print Assumptions C02_local_decision_certified.

(* (4) In the committee as a whole (Qbft/System.v: any committee of 3f+1 with f >= 1, <= f Byzantine
       operators, any schedule, any admissible forged messages): every decision any correct operator
       reports along a rewind-free execution is backed by a commit quorum - at least 2f+1 distinct
       committee members, every HONEST one of which has itself broadcast a commit for exactly that round
       and root - and the reported value hashes to that root. *)
From SSV Require Import Qbft.System Qbft.SafetyCore Qbft.Safety.
Theorem C02_reported_decisions_have_quorum : forall c0 byz h f vs tr,
  NoDup (committee c0) -> length (committee c0) = (3 * f + 1)%nat ->
  (length (filter byz (committee c0)) <= f)%nat -> quorum c0 = N.of_nat (2 * f + 1) -> (1 <= f)%nat ->
  v_verify (var c0) = true ->
  valid_trace c0 byz (no_rewind c0) (init c0 h vs) tr ->
  forall i d, In (i, d) (reports c0 (init c0 h vs) tr) ->
    exists rr, CQ (committee c0) byz (quorum c0) (sent (run_sys c0 (init c0 h vs) tr)) rr (c_root (co d)) /\
               hash (c_full (co d)) = c_root (co d).
Proof. intros c0 byz h f vs tr A B C D E F. intros Hv. eapply reported_decisions_have_quorum; eauto. Qed.
Print Assumptions C02_reported_decisions_have_quorum.

(* Non-vacuity: the 4-operator history of Qbft/Witness.v reaches a local decision. *)
From SSV Require Import Qbft.Witness.
Example C02_example :
  exists s' o d, runner_process w_cfg
      (fst (crun w_cfg (new_instance 0)
              [CMsg w_proposal; CMsg (w_prepare 1); CMsg (w_prepare 3); CMsg (w_prepare 4);
               CMsg (w_commit 1); CMsg (w_commit 3)])) (w_commit 4) = (s', o, CRDecided d)
    /\ c_signers (co d) = [1; 3; 4] /\ c_full (co d) = Some 5.
Proof. vm_compute. eexists _, _, _. split; [reflexivity|split; reflexivity]. Qed.
