(* Compiled from ocaml/queue/ so that model.ml lands there.  ExtrOcamlBasic only. *)
From Coq Require Import Extraction ExtrOcamlBasic.
From SSV Require Import Queue.Model.
Extraction "model.ml" run new_queue prior.
