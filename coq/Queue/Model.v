(* Executable model of protocol/v2/ssv/queue: queue.go, message_prioritizer.go, messages.go.
   Definitions only; proofs are in Queue/Proofs.v. *)
From Coq Require Import List NArith ZArith Bool.
Import ListNotations.
Local Open Scope Z_scope.

(* ---- messages, as far as the prioritizer looks at them --------------------------------------- *)

(* Body of a DecodedSSVMessage:
   BEvent ty            *EventMsg, ty = EventMsg.Type (0 = Timeout, 1 = ExecuteDuty, other = unknown)
   BCons h r ty ns      *specqbft.SignedMessage: Height, Round, MsgType (0..3 known), len(Signers)
   BPartial slot ty     *SignedPartialSignatureMessage: Slot, Type (0 = PostConsensusPartialSig)
   BOther               nil / any other dynamic type *)
Inductive body :=
| BEvent (ty : N)
| BCons (height round ty nsigners : N)
| BPartial (slot ty : N)
| BOther.

Record msg := { mid : N; mbody : body }.

(* queue.State *)
Record pstate := { has_running : bool; p_height : N; p_round : N; p_slot : N; p_quorum : N }.

Definition is_cons (b : body) : bool := match b with BCons _ _ _ _ => true | _ => false end.
Definition is_pre (b : body) : bool :=
  match b with BPartial _ ty => negb (N.eqb ty 0) | _ => false end.
Definition is_post (b : body) : bool :=
  match b with BPartial _ ty => N.eqb ty 0 | _ => false end.

(* compareHeightOrSlot *)
Definition rel_height (p : pstate) (b : body) : Z :=
  match b with
  | BCons h _ _ _ => if N.eqb h (p_height p) then 0 else if N.ltb (p_height p) h then 1 else -1
  | BPartial s _ => if N.eqb s (p_slot p) then 0 else if N.ltb (p_slot p) s then 1 else -1
  | _ => -1
  end.

(* scoreRound *)
Definition score_round (p : pstate) (b : body) : Z :=
  match b with
  | BCons _ r _ _ => if N.eqb r (p_round p) then 2 else if N.ltb (p_round p) r then 1 else -1
  | _ => 0
  end.

(* scoreMessageType *)
Definition score_type (b : body) : Z :=
  match b with
  | BEvent ty => if N.eqb ty 1 then 3 else if N.eqb ty 0 then 2 else 0
  | _ => 0
  end.

(* scoreHeight *)
Definition score_height (rel : Z) : Z :=
  if Z.eqb rel 0 then 2 else if Z.eqb rel 1 then 1 else 0.

(* isDecidedMesssage: commit with len(Signers) > int(Quorum)  [sic: strictly greater] *)
Definition is_decided (p : pstate) (b : body) : bool :=
  match b with
  | BCons _ _ ty ns => N.eqb ty 2 && N.ltb (p_quorum p) ns
  | _ => false
  end.

Definition is_commit (b : body) : bool :=
  match b with BCons _ _ ty _ => N.eqb ty 2 | _ => false end.

(* scoreMessageSubtype *)
Definition score_subtype (p : pstate) (b : body) (rel : Z) : Z :=
  if Z.eqb rel 0 then
    if has_running p then
      if is_cons b then 3 else if is_pre b then 2 else if is_post b then 1 else 0
    else
      if is_pre b then 3 else if is_post b then 2 else if is_cons b then 1 else 0
  else if Z.eqb rel 1 then
    if is_decided p b then 4 else if is_pre b then 3 else if is_cons b then 2
    else if is_post b then 1 else 0
  else
    if is_decided p b then 2 else if is_commit b then 1 else 0.

(* scoreConsensusType *)
Definition score_ctype (b : body) : Z :=
  match b with
  | BCons _ _ ty _ =>
      if N.eqb ty 0 then 4 else if N.eqb ty 1 then 3 else if N.eqb ty 2 then 2
      else if N.eqb ty 3 then 1 else 0
  | _ => 0
  end.

(* standardPrioritizer.Prior, statement by statement *)
Definition prior_body (p : pstate) (a b : body) : bool :=
  let ta := score_type a in let tb := score_type b in
  if negb (Z.eqb ta tb) then Z.ltb tb ta else
  let ra := rel_height p a in let rb := rel_height p b in
  if negb (Z.eqb ra rb) then Z.ltb (score_height rb) (score_height ra) else
  let sa := score_subtype p a ra in let sb := score_subtype p b rb in
  if negb (Z.eqb sa sb) then Z.ltb sb sa else
  let oa := score_round p a in let ob := score_round p b in
  if negb (Z.eqb oa ob) then Z.ltb ob oa else
  let ca := score_ctype a in let cb := score_ctype b in
  if negb (Z.eqb ca cb) then Z.ltb cb ca else
  true.

Definition prior (p : pstate) (a b : msg) : bool := prior_body p (mbody a) (mbody b).

(* The sort key Prior compares lexicographically. *)
Definition key (p : pstate) (b : body) : list Z :=
  let r := rel_height p b in
  [score_type b; score_height r; score_subtype p b r; score_round p b; score_ctype b].

Fixpoint lex_le (x y : list Z) : bool :=
  match x, y with
  | [], _ => true
  | _ :: _, [] => false
  | a :: x', b :: y' => if Z.ltb a b then true else if Z.eqb a b then lex_le x' y' else false
  end.

(* ---- the queue ------------------------------------------------------------------------------- *)

(* inbox: the buffered channel, oldest first.  items: the linked list, head first. *)
Record queue := { cap : nat; inbox : list msg; items : list msg }.

Definition new_queue (c : nat) : queue := {| cap := c; inbox := []; items := [] |}.

Definition qlen (q : queue) : nat := length (inbox q) + length (items q).
Definition contents (q : queue) : list msg := inbox q ++ items q.

(* TryPush; a blocking Push that returns is the same step with result true. *)
Definition try_push (q : queue) (m : msg) : queue * bool :=
  if Nat.ltb (length (inbox q)) (cap q)
  then ({| cap := cap q; inbox := inbox q ++ [m]; items := items q |}, true)
  else (q, false).

(* readInbox: every received message becomes the new head. *)
Definition read_inbox (q : queue) : queue :=
  {| cap := cap q; inbox := []; items := rev (inbox q) ++ items q |}.

(* priorityQueue.pop: scan head to tail; the candidate is the first admissible item, replaced by
   any later admissible item that is Prior to it (Prior is reflexive, so later wins ties). *)
Fixpoint select (p : pstate) (f : msg -> bool) (l : list msg) (i : nat)
         (best : option (nat * msg)) : option (nat * msg) :=
  match l with
  | [] => best
  | m :: tl =>
      let best' :=
        if f m then
          match best with
          | None => Some (i, m)
          | Some (_, b) => if prior p m b then Some (i, m) else best
          end
        else best in
      select p f tl (S i) best'
  end.

Fixpoint remove_nth (i : nat) (l : list msg) : list msg :=
  match l, i with
  | [], _ => []
  | _ :: tl, O => tl
  | x :: tl, S j => x :: remove_nth j tl
  end.

Definition pop_items (p : pstate) (f : msg -> bool) (l : list msg) : option msg * list msg :=
  match select p f l 0 None with
  | None => (None, l)
  | Some (i, m) => (Some m, remove_nth i l)
  end.

Definition with_items (q : queue) (l : list msg) : queue :=
  {| cap := cap q; inbox := inbox q; items := l |}.

(* TryPop *)
Definition try_pop (q : queue) (p : pstate) (f : msg -> bool) : queue * option msg :=
  let q1 := read_inbox q in
  let '(r, l) := pop_items p f (items q1) in (with_items q1 l, r).

(* Pop with a context that is already done.  rd = "more than inboxReadFrequency has passed since
   the last inbox read".  The wait loop then moves some prefix of the inbox to the list and the
   following readInbox moves the rest; the list that results is the same for every prefix. *)
Definition pop_done (q : queue) (rd : bool) (p : pstate) (f : msg -> bool) : queue * option msg :=
  let q1 := if rd then read_inbox q else q in
  match pop_items p f (items q1) with
  | (Some m, l) => (with_items q1 l, Some m)
  | (None, _) =>
      let q2 := read_inbox q1 in
      let '(r, l) := pop_items p f (items q2) in (with_items q2 l, r)
  end.

(* ---- operation sequences --------------------------------------------------------------------- *)

(* Filters used by the harness are data; theorems quantify over arbitrary functions. *)
Inductive filt :=
| FAny | FNone
| FIds (ids : list N)                     (* admits exactly the listed message ids *)
| FExecuteDutyOnly                        (* ConsumeQueue while no duty runs *)
| FHoldPrepareCommit (height round : N).  (* ConsumeQueue while no proposal is accepted *)

Definition fpass (f : filt) (m : msg) : bool :=
  match f with
  | FAny => true
  | FNone => false
  | FIds ids => existsb (N.eqb (mid m)) ids
  | FExecuteDutyOnly => match mbody m with BEvent ty => N.eqb ty 1 | _ => false end
  | FHoldPrepareCommit h r =>
      match mbody m with
      | BEvent _ => true
      | BCons mh mr ty _ =>
          negb (N.eqb mh h && N.eqb mr r && (N.eqb ty 1 || N.eqb ty 2))
      | _ => true
      end
  end.

Inductive op :=
| OPush (m : msg)
| OTryPop (p : pstate) (f : filt)
| OPopDone (rd : bool) (p : pstate) (f : filt).

Inductive obs :=
| RPush (ok : bool) (len : nat)
| RPop (r : option msg) (len : nat).

Definition step (q : queue) (o : op) : queue * obs :=
  match o with
  | OPush m => let '(q', ok) := try_push q m in (q', RPush ok (qlen q'))
  | OTryPop p f => let '(q', r) := try_pop q p (fpass f) in (q', RPop r (qlen q'))
  | OPopDone rd p f => let '(q', r) := pop_done q rd p (fpass f) in (q', RPop r (qlen q'))
  end.

Fixpoint run (q : queue) (ops : list op) : queue * list obs :=
  match ops with
  | [] => (q, [])
  | o :: tl => let '(q1, r) := step q o in let '(q2, rs) := run q1 tl in (q2, r :: rs)
  end.
