(* Lemmas about Queue/Model.v.  Property theorems are restated in Props/C14.v. *)
From Coq Require Import List NArith ZArith Bool Lia Permutation.
From SSV Require Import Queue.Model.
Import ListNotations.
Local Open Scope Z_scope.

(* ---- Prior is the lexicographic order on [key] ----------------------------------------------- *)

Lemma prior_chain (a1 b1 a2 b2 a3 b3 a4 b4 a5 b5 : Z) :
  (if negb (Z.eqb a1 b1) then Z.ltb b1 a1 else
   if negb (Z.eqb a2 b2) then Z.ltb b2 a2 else
   if negb (Z.eqb a3 b3) then Z.ltb b3 a3 else
   if negb (Z.eqb a4 b4) then Z.ltb b4 a4 else
   if negb (Z.eqb a5 b5) then Z.ltb b5 a5 else true)
  = lex_le [b1; b2; b3; b4; b5] [a1; a2; a3; a4; a5].
Proof.
  cbn [lex_le].
  destruct (Z.eqb_spec a1 b1) as [->|?]; cbn [negb];
    [rewrite Z.ltb_irrefl, Z.eqb_refl|
     destruct (Z.ltb_spec b1 a1); [reflexivity|destruct (Z.eqb_spec b1 a1); [lia|reflexivity]]].
  destruct (Z.eqb_spec a2 b2) as [->|?]; cbn [negb];
    [rewrite Z.ltb_irrefl, Z.eqb_refl|
     destruct (Z.ltb_spec b2 a2); [reflexivity|destruct (Z.eqb_spec b2 a2); [lia|reflexivity]]].
  destruct (Z.eqb_spec a3 b3) as [->|?]; cbn [negb];
    [rewrite Z.ltb_irrefl, Z.eqb_refl|
     destruct (Z.ltb_spec b3 a3); [reflexivity|destruct (Z.eqb_spec b3 a3); [lia|reflexivity]]].
  destruct (Z.eqb_spec a4 b4) as [->|?]; cbn [negb];
    [rewrite Z.ltb_irrefl, Z.eqb_refl|
     destruct (Z.ltb_spec b4 a4); [reflexivity|destruct (Z.eqb_spec b4 a4); [lia|reflexivity]]].
  destruct (Z.eqb_spec a5 b5) as [->|?]; cbn [negb];
    [rewrite Z.ltb_irrefl, Z.eqb_refl; reflexivity|
     destruct (Z.ltb_spec b5 a5); [reflexivity|destruct (Z.eqb_spec b5 a5); [lia|reflexivity]]].
Qed.

Lemma rel_height_cases p x : rel_height p x = 0 \/ rel_height p x = 1 \/ rel_height p x = -1.
Proof.
  destruct x as [ty|h r ty ns|s ty|]; cbn; auto;
    match goal with |- context [N.eqb ?u ?v] => destruct (N.eqb u v); auto end;
    match goal with |- context [N.ltb ?u ?v] => destruct (N.ltb u v); auto end.
Qed.

Lemma prior_is_lex p a b : prior_body p a b = lex_le (key p b) (key p a).
Proof.
  unfold prior_body, key.
  assert (Hs : Z.eqb (rel_height p a) (rel_height p b)
               = Z.eqb (score_height (rel_height p a)) (score_height (rel_height p b))).
  { destruct (rel_height_cases p a) as [Ha|[Ha|Ha]], (rel_height_cases p b) as [Hb|[Hb|Hb]];
      rewrite Ha, Hb; reflexivity. }
  rewrite Hs. apply prior_chain.
Qed.

Lemma lex_le_refl x : lex_le x x = true.
Proof.
  induction x as [|a x IH]; cbn; [reflexivity|].
  rewrite Z.ltb_irrefl, Z.eqb_refl. exact IH.
Qed.

Lemma lex_le_total x y : length x = length y -> lex_le x y = false -> lex_le y x = true.
Proof.
  revert y. induction x as [|a x IH]; intros [|b y] Hl H; cbn in *; try discriminate.
  destruct (Z.ltb_spec a b); [discriminate|].
  destruct (Z.eqb_spec a b) as [->|Hne].
  - rewrite Z.ltb_irrefl, Z.eqb_refl. apply IH; [lia|exact H].
  - destruct (Z.ltb_spec b a); [reflexivity|lia].
Qed.

Lemma lex_le_trans x y z :
  length x = length y -> length y = length z ->
  lex_le x y = true -> lex_le y z = true -> lex_le x z = true.
Proof.
  revert y z. induction x as [|a x IH]; intros [|b y] [|c z] H1 H2 Hxy Hyz; cbn in *;
    try discriminate; try reflexivity.
  destruct (Z.ltb_spec a b); destruct (Z.ltb_spec b c); destruct (Z.ltb_spec a c);
    try reflexivity; try lia;
    destruct (Z.eqb_spec a b); destruct (Z.eqb_spec b c); destruct (Z.eqb_spec a c);
    try discriminate; try lia.
  apply (IH y z); [lia|lia|assumption|assumption].
Qed.

Lemma key_length p b : length (key p b) = 5%nat.
Proof. reflexivity. Qed.

Lemma prior_refl p a : prior p a a = true.
Proof. unfold prior. rewrite prior_is_lex. apply lex_le_refl. Qed.

Lemma prior_total p a b : prior p a b = false -> prior p b a = true.
Proof.
  unfold prior. rewrite !prior_is_lex. apply lex_le_total. reflexivity.
Qed.

Lemma prior_trans p a b c : prior p a b = true -> prior p b c = true -> prior p a c = true.
Proof.
  unfold prior. rewrite !prior_is_lex. intros H1 H2.
  eapply lex_le_trans; [| |exact H2|exact H1]; reflexivity.
Qed.

(* ---- select / remove_nth --------------------------------------------------------------------- *)

Definition best_ok (f : msg -> bool) (l0 : list msg) (best : option (nat * msg)) : Prop :=
  match best with
  | None => True
  | Some (j, b) => nth_error l0 j = Some b /\ f b = true
  end.

(* select scans a suffix l of l0 starting at index i *)
Lemma select_sound p f l0 : forall l i best,
  (forall k, nth_error l k = nth_error l0 (i + k)) ->
  best_ok f l0 best ->
  best_ok f l0 (select p f l i best).
Proof.
  induction l as [|m tl IH]; intros i best Hsuf Hb; cbn [select]; [exact Hb|].
  apply IH.
  - intros k. specialize (Hsuf (S k)). cbn in Hsuf. rewrite Hsuf. f_equal. lia.
  - destruct (f m) eqn:Hf; [|exact Hb].
    assert (Hm : nth_error l0 i = Some m).
    { specialize (Hsuf 0%nat). cbn in Hsuf. rewrite Nat.add_0_r in Hsuf. auto. }
    destruct best as [[j b]|]; cbn.
    + destruct (prior p m b); cbn; auto.
    + auto.
Qed.

Lemma select_some p f : forall l i best,
  (best <> None \/ exists m, In m l /\ f m = true) -> select p f l i best <> None.
Proof.
  induction l as [|m tl IH]; intros i best H; cbn [select].
  - destruct H as [H|[m [[] _]]]; exact H.
  - apply IH. destruct (f m) eqn:Hf.
    + left. destruct best as [[j b]|]; [destruct (prior p m b)|]; discriminate.
    + destruct H as [H|[m' [[->|Hin] Hf']]]; [left; exact H|congruence|right; eauto].
Qed.

(* everything admissible that has been seen is dominated by the candidate *)
Definition dominates p (f : msg -> bool) (seen : list msg) (best : option (nat * msg)) : Prop :=
  match best with
  | None => forall x, In x seen -> f x = false
  | Some (_, b) => forall x, In x seen -> f x = true -> prior p b x = true
  end.

Lemma select_max p f : forall l i best seen,
  dominates p f seen best -> dominates p f (seen ++ l) (select p f l i best).
Proof.
  induction l as [|m tl IH]; intros i best seen Hd; cbn [select].
  - rewrite app_nil_r. exact Hd.
  - replace (seen ++ m :: tl) with ((seen ++ [m]) ++ tl) by (rewrite <- app_assoc; reflexivity).
    apply IH. destruct (f m) eqn:Hf.
    + destruct best as [[j b]|]; cbn in *.
      * destruct (prior p m b) eqn:Hp; cbn.
        -- intros x Hx Hfx. apply in_app_or in Hx. destruct Hx as [Hx|[->|[]]].
           ++ eapply prior_trans; [exact Hp|]. apply Hd; assumption.
           ++ apply prior_refl.
        -- intros x Hx Hfx. apply in_app_or in Hx. destruct Hx as [Hx|[->|[]]].
           ++ apply Hd; assumption.
           ++ apply prior_total. exact Hp.
      * intros x Hx Hfx. apply in_app_or in Hx. destruct Hx as [Hx|[->|[]]].
        -- rewrite Hd in Hfx by assumption. discriminate.
        -- apply prior_refl.
    + destruct best as [[j b]|]; cbn in *.
      * intros x Hx Hfx. apply in_app_or in Hx. destruct Hx as [Hx|[->|[]]];
          [apply Hd; assumption|congruence].
      * intros x Hx. apply in_app_or in Hx. destruct Hx as [Hx|[->|[]]]; auto.
Qed.

Lemma remove_nth_perm : forall l i m,
  nth_error l i = Some m -> Permutation l (m :: remove_nth i l).
Proof.
  induction l as [|x tl IH]; intros [|j] m H; cbn in *; try discriminate.
  - injection H as ->. apply Permutation_refl.
  - eapply perm_trans; [apply perm_skip, IH, H|apply perm_swap].
Qed.

(* ---- pop_items ------------------------------------------------------------------------------- *)

Lemma pop_items_some p f l m l' :
  pop_items p f l = (Some m, l') -> f m = true /\ In m l /\ Permutation l (m :: l').
Proof.
  unfold pop_items. intros H.
  pose proof (select_sound p f l l 0 None (fun k => eq_refl) I) as Hs.
  destruct (select p f l 0 None) as [[i b]|]; [|discriminate].
  injection H as <- <-. cbn in Hs. destruct Hs as [Hn Hf].
  split; [exact Hf|]. split; [eapply nth_error_In; eauto|].
  apply remove_nth_perm. exact Hn.
Qed.

Lemma pop_items_none p f l l' :
  pop_items p f l = (None, l') -> l' = l /\ forall m, In m l -> f m = false.
Proof.
  unfold pop_items. intros H.
  pose proof (select_some p f l 0 None) as Hs.
  destruct (select p f l 0 None) as [[i b]|] eqn:E; [discriminate|].
  injection H as <-. split; [reflexivity|]. intros m Hin.
  destruct (f m) eqn:Hf; [|reflexivity]. exfalso. apply Hs; [|reflexivity]. right. eauto.
Qed.

Lemma pop_items_max p f l m l' :
  pop_items p f l = (Some m, l') -> forall x, In x l -> f x = true -> prior p m x = true.
Proof.
  unfold pop_items. intros H.
  pose proof (select_max p f l 0 None [] (fun x (Hx : In x []) => match Hx with end)) as Hd.
  destruct (select p f l 0 None) as [[i b]|]; [|discriminate].
  injection H as <- <-. exact Hd.
Qed.

(* ---- queue operations ------------------------------------------------------------------------ *)

Lemma read_inbox_perm q : Permutation (contents q) (contents (read_inbox q)).
Proof.
  unfold contents, read_inbox; cbn. apply Permutation_app_tail, Permutation_rev.
Qed.

Lemma try_push_perm q m q' ok :
  try_push q m = (q', ok) ->
  Permutation (contents q ++ (if ok then [m] else [])) (contents q').
Proof.
  unfold try_push. destruct (Nat.ltb _ _); intros H; injection H as <- <-.
  - unfold contents; cbn. rewrite <- !app_assoc. apply Permutation_app_head, Permutation_app_comm.
  - rewrite app_nil_r. apply Permutation_refl.
Qed.

Definition opt_list (r : option msg) : list msg := match r with Some m => [m] | None => [] end.

Lemma pop_step_perm p f q1 r l :
  pop_items p f (items q1) = (r, l) ->
  Permutation (contents q1) (opt_list r ++ contents (with_items q1 l)).
Proof.
  intros H. destruct r as [m|].
  - apply pop_items_some in H. destruct H as (_ & _ & Hp). unfold contents; cbn.
    eapply perm_trans; [apply Permutation_app_head, Hp|]. apply Permutation_sym, Permutation_middle.
  - apply pop_items_none in H. destruct H as [-> _]. destruct q1; apply Permutation_refl.
Qed.

Lemma try_pop_perm q p f q' r :
  try_pop q p f = (q', r) -> Permutation (contents q) (opt_list r ++ contents q').
Proof.
  unfold try_pop. destruct (pop_items p f (items (read_inbox q))) as [r0 l] eqn:E.
  intros H; injection H as <- <-.
  eapply perm_trans; [apply read_inbox_perm|]. eapply pop_step_perm; exact E.
Qed.

Lemma pop_done_perm q rd p f q' r :
  pop_done q rd p f = (q', r) -> Permutation (contents q) (opt_list r ++ contents q').
Proof.
  unfold pop_done.
  set (q1 := if rd then read_inbox q else q).
  assert (H1 : Permutation (contents q) (contents q1)).
  { subst q1. destruct rd; [apply read_inbox_perm|apply Permutation_refl]. }
  destruct (pop_items p f (items q1)) as [[m|] l] eqn:E.
  - intros H; injection H as <- <-. eapply perm_trans; [exact H1|]. eapply pop_step_perm; exact E.
  - destruct (pop_items p f (items (read_inbox q1))) as [r0 l0] eqn:E2.
    intros H; injection H as <- <-.
    eapply perm_trans; [exact H1|]. eapply perm_trans; [apply read_inbox_perm|].
    eapply pop_step_perm; exact E2.
Qed.

Lemma contents_read_inbox_items q : forall m, In m (contents q) <-> In m (items (read_inbox q)).
Proof.
  intros m. unfold contents, read_inbox; cbn. rewrite !in_app_iff, <- in_rev. tauto.
Qed.

(* result of a pop: admissible, was queued, dominates every admissible queued message *)
Lemma try_pop_some q p f q' m :
  try_pop q p f = (q', Some m) ->
  f m = true /\ In m (contents q) /\
  forall x, In x (contents q) -> f x = true -> prior p m x = true.
Proof.
  unfold try_pop. destruct (pop_items p f (items (read_inbox q))) as [r0 l] eqn:E.
  intros H; injection H as <- ->.
  pose proof (pop_items_some _ _ _ _ _ E) as (Hf & Hin & _).
  split; [exact Hf|]. split; [apply contents_read_inbox_items; exact Hin|].
  intros x Hx. apply (pop_items_max _ _ _ _ _ E). apply contents_read_inbox_items. exact Hx.
Qed.

Lemma try_pop_none q p f q' :
  try_pop q p f = (q', None) -> forall x, In x (contents q) -> f x = false.
Proof.
  unfold try_pop. destruct (pop_items p f (items (read_inbox q))) as [r0 l] eqn:E.
  intros H; injection H as <- ->. intros x Hx.
  apply (proj2 (pop_items_none _ _ _ _ E)). apply contents_read_inbox_items. exact Hx.
Qed.

Lemma pop_done_some q rd p f q' m :
  pop_done q rd p f = (q', Some m) -> f m = true /\ In m (contents q).
Proof.
  unfold pop_done.
  set (q1 := if rd then read_inbox q else q).
  assert (H1 : forall x, In x (items q1) -> In x (contents q)).
  { subst q1. destruct rd; intros x Hx; [apply contents_read_inbox_items; exact Hx|].
    unfold contents. apply in_or_app. right. exact Hx. }
  assert (H2 : forall x, In x (contents q1) -> In x (contents q)).
  { subst q1. destruct rd; intros x Hx; [|exact Hx].
    apply contents_read_inbox_items. unfold contents in Hx; cbn in Hx. exact Hx. }
  destruct (pop_items p f (items q1)) as [[m0|] l] eqn:E.
  - intros H; injection H as <- ->. apply pop_items_some in E. destruct E as (Hf & Hin & _). auto.
  - destruct (pop_items p f (items (read_inbox q1))) as [r0 l0] eqn:E2.
    intros H; injection H as <- ->. apply pop_items_some in E2. destruct E2 as (Hf & Hin & _).
    split; [exact Hf|]. apply H2, contents_read_inbox_items. exact Hin.
Qed.

Lemma pop_done_none q rd p f q' :
  pop_done q rd p f = (q', None) -> forall x, In x (contents q) -> f x = false.
Proof.
  unfold pop_done.
  set (q1 := if rd then read_inbox q else q).
  assert (H2 : forall x, In x (contents q) -> In x (contents q1)).
  { subst q1. destruct rd; intros x Hx; [|exact Hx].
    apply contents_read_inbox_items in Hx. unfold contents; cbn. exact Hx. }
  destruct (pop_items p f (items q1)) as [[m0|] l] eqn:E; [discriminate|].
  destruct (pop_items p f (items (read_inbox q1))) as [r0 l0] eqn:E2.
  intros H; injection H as <- ->. intros x Hx.
  apply (proj2 (pop_items_none _ _ _ _ E2)). apply contents_read_inbox_items, H2, Hx.
Qed.

(* Pop after an inbox read (rd = true) also returns a maximal admissible message. *)
Lemma pop_done_rd_max q p f q' m :
  pop_done q true p f = (q', Some m) ->
  forall x, In x (contents q) -> f x = true -> prior p m x = true.
Proof.
  unfold pop_done.
  destruct (pop_items p f (items (read_inbox q))) as [[m0|] l] eqn:E.
  - intros H; injection H as <- ->. intros x Hx.
    apply (pop_items_max _ _ _ _ _ E). apply contents_read_inbox_items. exact Hx.
  - destruct (pop_items p f (items (read_inbox (read_inbox q)))) as [r0 l0] eqn:E2.
    intros H; injection H as <- ->. intros x Hx.
    apply (pop_items_max _ _ _ _ _ E2). apply contents_read_inbox_items.
    unfold contents; cbn. apply contents_read_inbox_items. exact Hx.
Qed.

(* ---- histories ------------------------------------------------------------------------------- *)

Definition pushed_of (o : op) (r : obs) : list msg :=
  match o, r with OPush m, RPush true _ => [m] | _, _ => [] end.
Definition popped_of (r : obs) : list msg :=
  match r with RPop (Some m) _ => [m] | _ => [] end.

Fixpoint pushed_ok (ops : list op) (rs : list obs) : list msg :=
  match ops, rs with
  | o :: ops', r :: rs' => pushed_of o r ++ pushed_ok ops' rs'
  | _, _ => []
  end.
Definition popped (rs : list obs) : list msg := flat_map popped_of rs.

Lemma step_perm q o q' r :
  step q o = (q', r) ->
  Permutation (contents q ++ pushed_of o r) (popped_of r ++ contents q').
Proof.
  destruct o as [m|p f|rd p f]; cbn [step].
  - destruct (try_push q m) as [q1 ok] eqn:E. intros H; injection H as <- <-.
    apply try_push_perm in E. destruct ok; exact E.
  - destruct (try_pop q p (fpass f)) as [q1 r1] eqn:E. intros H; injection H as <- <-.
    apply try_pop_perm in E. cbn [pushed_of]. rewrite app_nil_r.
    destruct r1; exact E.
  - destruct (pop_done q rd p (fpass f)) as [q1 r1] eqn:E. intros H; injection H as <- <-.
    apply pop_done_perm in E. cbn [pushed_of]. rewrite app_nil_r.
    destruct r1; exact E.
Qed.

Lemma run_conservation : forall ops q q' rs,
  run q ops = (q', rs) ->
  Permutation (contents q ++ pushed_ok ops rs) (popped rs ++ contents q').
Proof.
  induction ops as [|o ops IH]; intros q q' rs H; cbn [run] in H.
  - injection H as <- <-. cbn. rewrite app_nil_r. apply Permutation_refl.
  - destruct (step q o) as [q1 r] eqn:E1. destruct (run q1 ops) as [q2 rs1] eqn:E2.
    injection H as <- <-. apply step_perm in E1. apply IH in E2.
    cbn [pushed_ok popped flat_map]. fold (popped rs1).
    rewrite app_assoc. eapply perm_trans; [apply Permutation_app_tail, E1|].
    rewrite <- !app_assoc. apply Permutation_app_head. exact E2.
Qed.

(* every pop result is admitted by that pop's filter *)
Definition op_filter (o : op) : msg -> bool :=
  match o with OPush _ => fun _ => true | OTryPop _ f => fpass f | OPopDone _ _ f => fpass f end.

Lemma step_pop_passes_filter q o q' m n :
  step q o = (q', RPop (Some m) n) -> op_filter o m = true /\ In m (contents q).
Proof.
  destruct o as [m0|p f|rd p f]; cbn [step op_filter].
  - destruct (try_push q m0). discriminate.
  - destruct (try_pop q p (fpass f)) as [q1 r1] eqn:E. intros H; injection H as <- -> <-.
    apply try_pop_some in E. tauto.
  - destruct (pop_done q rd p (fpass f)) as [q1 r1] eqn:E. intros H; injection H as <- -> <-.
    apply pop_done_some in E. exact E.
Qed.

Lemma step_pop_none q o q' n :
  step q o = (q', RPop None n) -> forall x, In x (contents q) -> op_filter o x = false.
Proof.
  destruct o as [m0|p f|rd p f]; cbn [step op_filter].
  - destruct (try_push q m0). discriminate.
  - destruct (try_pop q p (fpass f)) as [q1 r1] eqn:E. intros H; injection H as <- -> <-.
    eapply try_pop_none; eauto.
  - destruct (pop_done q rd p (fpass f)) as [q1 r1] eqn:E. intros H; injection H as <- -> <-.
    eapply pop_done_none; eauto.
Qed.

(* ---- the documented coarse order ------------------------------------------------------------- *)

Definition is_execute_duty (b : body) := match b with BEvent ty => N.eqb ty 1 | _ => false end.
Definition is_timeout (b : body) := match b with BEvent ty => N.eqb ty 0 | _ => false end.
Definition is_event (b : body) := match b with BEvent _ => true | _ => false end.

Lemma score_type_cases b :
  (is_execute_duty b = true /\ score_type b = 3) \/
  (is_execute_duty b = false /\ is_timeout b = true /\ score_type b = 2) \/
  (is_execute_duty b = false /\ is_timeout b = false /\ score_type b = 0).
Proof.
  destruct b as [ty| | |]; cbn; auto.
  destruct (N.eqb_spec ty 1); auto. destruct (N.eqb_spec ty 0); auto.
Qed.

Lemma prior_by_type p a b : score_type b < score_type a ->
  prior_body p a b = true /\ prior_body p b a = false.
Proof.
  intros H. unfold prior_body.
  destruct (Z.eqb_spec (score_type a) (score_type b)); [lia|].
  destruct (Z.eqb_spec (score_type b) (score_type a)); [lia|]. cbn [negb].
  split; [apply Z.ltb_lt|apply Z.ltb_ge]; lia.
Qed.

Lemma execute_duty_first p a b :
  is_execute_duty a = true -> is_execute_duty b = false ->
  prior_body p a b = true /\ prior_body p b a = false.
Proof.
  intros Ha Hb. apply prior_by_type.
  destruct (score_type_cases a) as [[_ ->]|[[E _]|[E _]]]; try congruence.
  destruct (score_type_cases b) as [[E _]|[(_ & _ & ->)|(_ & _ & ->)]]; try congruence; lia.
Qed.

Lemma timeout_before_non_events p a b :
  is_timeout a = true -> is_event b = false ->
  prior_body p a b = true /\ prior_body p b a = false.
Proof.
  intros Ha Hb. apply prior_by_type.
  assert (Hsb : score_type b = 0) by (destruct b; try discriminate; reflexivity).
  assert (Hsa : score_type a = 2).
  { destruct a as [ta| | |]; try discriminate. cbn in Ha |- *.
    apply N.eqb_eq in Ha. subst ta. reflexivity. }
  lia.
Qed.

(* consensus traffic of the current height before consensus traffic of other heights *)
Lemma current_height_first p h1 r1 t1 n1 h2 r2 t2 n2 :
  h1 = p_height p -> h2 <> p_height p ->
  prior_body p (BCons h1 r1 t1 n1) (BCons h2 r2 t2 n2) = true /\
  prior_body p (BCons h2 r2 t2 n2) (BCons h1 r1 t1 n1) = false.
Proof.
  intros -> Hne. unfold prior_body. cbn [score_type]. cbn [Z.eqb negb].
  cbn [rel_height]. rewrite N.eqb_refl.
  destruct (N.eqb_spec h2 (p_height p)); [contradiction|].
  destruct (N.ltb (p_height p) h2); cbn; auto.
Qed.
