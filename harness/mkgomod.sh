#!/bin/sh
# Regenerates harness/go.mod (+go.sum) from $REPO/go.mod so the harness always builds against the
# repository's own dependency set.  usage: mkgomod.sh [repo-path] [out-go.mod]
REPO=${1:-/repo}
OUT=${2:-go.mod}
cd "$(dirname "$0")"
{
  echo "module verifharness"
  echo
  echo "go 1.20"
  echo
  sed -n '/^require (/,$p' "$REPO/go.mod"
  echo
  echo "require github.com/bloxapp/ssv v0.0.0"
  echo "replace github.com/bloxapp/ssv => $REPO"
} > "$OUT.tmp"
if ! cmp -s "$OUT.tmp" "$OUT"; then mv "$OUT.tmp" "$OUT"; else rm "$OUT.tmp"; fi
SUM="$(dirname "$OUT")/$(basename "$OUT" .mod).sum"
cmp -s "$REPO/go.sum" "$SUM" || cp "$REPO/go.sum" "$SUM"
