// Package hx holds what every harness driver shares: the PRNG every random choice is derived
// from, and the line writer for the CASE / op / OBS / MON protocol read by bin/check.
package hx

import (
	"bufio"
	"fmt"
	"os"
	"strings"
)

// Rand is splitmix64; one state per case, derived from (seed, stream, case number).
type Rand struct{ s uint64 }

func NewRand(seed uint64, stream string, n uint64) *Rand {
	r := &Rand{s: seed*0x9E3779B97F4A7C15 + 0x1234567}
	for _, c := range []byte(stream) {
		r.s = r.s*31 + uint64(c)
		r.Uint64()
	}
	r.s += n * 0xBF58476D1CE4E5B9
	r.Uint64()
	return r
}

func (r *Rand) Uint64() uint64 {
	r.s += 0x9E3779B97F4A7C15
	z := r.s
	z = (z ^ (z >> 30)) * 0xBF58476D1CE4E5B9
	z = (z ^ (z >> 27)) * 0x94D049BB133111EB
	return z ^ (z >> 31)
}

// Intn returns a value in [0, n).
func (r *Rand) Intn(n int) int {
	if n <= 0 {
		return 0
	}
	return int(r.Uint64() % uint64(n))
}

// Chance returns true with probability num/den.
func (r *Rand) Chance(num, den int) bool { return r.Intn(den) < num }

func (r *Rand) Bytes(n int) []byte {
	b := make([]byte, n)
	for i := range b {
		b[i] = byte(r.Uint64())
	}
	return b
}

// Pick returns one of the given values.
func Pick[T any](r *Rand, xs ...T) T { return xs[r.Intn(len(xs))] }

// Out is the protocol writer.
type Out struct {
	w     *bufio.Writer
	Cases int
	Ops   int
	Viol  int
	Dist  map[string]int
}

func NewOut() *Out {
	return &Out{w: bufio.NewWriterSize(os.Stdout, 1<<20), Dist: map[string]int{}}
}

func (o *Out) Case(format string, a ...any) {
	o.Cases++
	fmt.Fprintf(o.w, "CASE %d %s\n", o.Cases, fmt.Sprintf(format, a...))
}

// Op writes an abstract operation line; kind is counted in the distribution.
func (o *Out) Op(kind string, format string, a ...any) {
	o.Ops++
	o.Dist[kind]++
	s := fmt.Sprintf(format, a...)
	if s == "" {
		fmt.Fprintf(o.w, "%s\n", kind)
	} else {
		fmt.Fprintf(o.w, "%s %s\n", kind, s)
	}
}

// Obs writes what the implementation did.
func (o *Out) Obs(format string, a ...any) { fmt.Fprintf(o.w, "OBS %s\n", fmt.Sprintf(format, a...)) }

// Viol reports that the property monitor (independent of the model) saw a violation in this case.
func (o *Out) ViolF(format string, a ...any) {
	o.Viol++
	fmt.Fprintf(o.w, "MON viol %s\n", strings.ReplaceAll(fmt.Sprintf(format, a...), "\n", " "))
}

// Note writes a free-form line that the differ ignores but keeps in replay files.
func (o *Out) Note(format string, a ...any) { fmt.Fprintf(o.w, "# %s\n", fmt.Sprintf(format, a...)) }

// Count adds to a named distribution counter.
func (o *Out) Count(key string) { o.Dist[key]++ }

func (o *Out) End() { fmt.Fprintln(o.w, "END") }

// Close writes the distribution summary and flushes.
func (o *Out) Close() {
	for k, v := range o.Dist {
		fmt.Fprintf(o.w, "DIST %s %d\n", k, v)
	}
	fmt.Fprintf(o.w, "SUMMARY cases=%d ops=%d viol=%d\n", o.Cases, o.Ops, o.Viol)
	o.w.Flush()
}

func (o *Out) Flush() { o.w.Flush() }
