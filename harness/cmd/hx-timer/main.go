// hx-timer drives the real round timer and the real controller's OnTimeout (C17).
//
//	hx-timer deadlines              RoundTimeout of the real RoundTimer for every role x option set x slot
//	                                offset x height x round 1..24 (+ large rounds): deterministic, compared
//	                                with the model value for value
//	hx-timer live -seed S -n N      real-time sessions: the REAL RoundTimer (quick/slow scaled to ms through the
//	                                hook, fake BeaconNetwork) armed for strictly increasing rounds with random
//	                                spacing (after the callback / before expiry / around the deadline), parent
//	                                cancellation; callbacks recorded with their time and the Round() they saw
//	hx-timer race -n N              the interleaving "expiry passed the Round() check - TimeoutForRound - callback",
//	                                made reproducible by holding the callback mutex (hook VerifCallbackMutex)
//	hx-timer controller -seed S -n N stale / duplicate / fresh timeout events fed to the REAL controller
//	                                (spec test key set, recording timer and network); state root before/after
//	hx-timer replay FILE            re-run the input lines of a corpus / replay file
//
// Input lines (re-executed by replay): SETUP / DEFAULTS, RT, ARM, CANCEL, HOLD, RELEASE, CSTART, CDECIDED,
// CTIMEOUT.  Recorded lines (what the implementation did, written for the model to follow): CB (a callback
// that saw its own round in Round()), WAKE + CALL (a callback that saw a later round: its expiry passed the
// check before the re-arming, WAKE is placed there, and the callback ran after it, CALL).
//
// On real time only safety is asserted by the monitor (never before the deadline, never twice, never after
// a later TimeoutForRound has returned); a late machine only delays callbacks.  "The latest armed round
// eventually fires" is counted and reported (DIST lines), not asserted.  All times are nanoseconds on the
// monotonic clock relative to the start of the case; the fake beacon's slot starts carry the same
// monotonic reading, so RoundTimeout's time.Until is exact and no tolerance is needed.
package main

import (
	"bufio"
	"context"
	"encoding/json"
	"flag"
	"fmt"
	"os"
	"sort"
	"strconv"
	"strings"
	"sync"
	"sync/atomic"
	"time"

	"github.com/attestantio/go-eth2-client/spec/phase0"
	specqbft "github.com/bloxapp/ssv-spec/qbft"
	spectypes "github.com/bloxapp/ssv-spec/types"
	"github.com/bloxapp/ssv-spec/types/testingutils"
	"github.com/herumi/bls-eth-go-binary/bls"
	"go.uber.org/zap"

	"github.com/bloxapp/ssv/protocol/v2/qbft/controller"
	"github.com/bloxapp/ssv/protocol/v2/qbft/roundtimer"
	qbfttesting "github.com/bloxapp/ssv/protocol/v2/qbft/testing"
	ssvtypes "github.com/bloxapp/ssv/protocol/v2/types"

	"verifharness/hx"
)

// ---- roles, options, fake beacon ---------------------------------------------------------------------

var roleNames = []string{"attester", "aggregator", "proposer", "sync", "contribution", "other"}

func roleOf(name string) spectypes.BeaconRole {
	switch name {
	case "attester":
		return spectypes.BNRoleAttester
	case "aggregator":
		return spectypes.BNRoleAggregator
	case "proposer":
		return spectypes.BNRoleProposer
	case "sync":
		return spectypes.BNRoleSyncCommittee
	case "contribution":
		return spectypes.BNRoleSyncCommitteeContribution
	}
	return spectypes.BNRoleValidatorRegistration
}

func slotBased(name string) bool { return name != "proposer" && name != "other" }

type setup struct {
	role        string
	dur, g      time.Duration // slot duration, start of slot 0 relative to the start of the case
	defaults    bool          // the options New() installs
	th          uint64
	quick, slow time.Duration
}

func (s setup) line() (string, string) {
	if s.defaults {
		return "DEFAULTS", fmt.Sprintf("%s %d %d", s.role, int64(s.dur), int64(s.g))
	}
	return "SETUP", fmt.Sprintf("%s %d %d %d %d %d", s.role, int64(s.dur), int64(s.g), s.th, int64(s.quick), int64(s.slow))
}

type fakeBeacon struct {
	t0     time.Time
	g, dur time.Duration
}

func (b *fakeBeacon) GetSlotStartTime(slot phase0.Slot) time.Time {
	return b.t0.Add(b.g + time.Duration(slot)*b.dur)
}
func (b *fakeBeacon) SlotDurationSec() time.Duration { return b.dur }

func (s setup) build(ctx context.Context, t0 time.Time, done roundtimer.OnRoundTimeoutF) (*roundtimer.RoundTimer, *fakeBeacon) {
	b := &fakeBeacon{t0: t0, g: s.g, dur: s.dur}
	t := roundtimer.New(ctx, b, roleOf(s.role), done)
	if !s.defaults {
		t.VerifSetTimeoutOptions(specqbft.Round(s.th), s.quick, s.slow)
	}
	return t, b
}

// the deadline as the property states it, computed here independently of the model (monitor only)
func (s setup) expected(h, r uint64, armedAt time.Duration) time.Duration {
	th, q, sl := s.th, s.quick, s.slow
	if s.defaults {
		th, q, sl = uint64(roundtimer.QuickTimeoutThreshold), roundtimer.QuickTimeout, roundtimer.SlowTimeout
	}
	if !slotBased(s.role) {
		if r <= th {
			return armedAt + q
		}
		return armedAt + sl
	}
	base := s.dur / 3
	if s.role == "aggregator" || s.role == "contribution" {
		base = s.dur / 3 * 2
	}
	var add time.Duration
	for i := uint64(1); i <= r; i++ { // cumulative per-round allowance
		if i <= th {
			add += q
		} else {
			add += sl
		}
	}
	return s.g + time.Duration(h)*s.dur + base + add
}

// ---- deadlines: RoundTimeout, deterministically ------------------------------------------------------

const granule = time.Millisecond // every input duration is a multiple of it

// rt returns what RoundTimeout implies, freed from the time of the call: for slot based roles the
// deadline minus the slot start, read off a (t0, t1) bracket around the call that is narrower than the
// granule, so exactly one multiple of the granule fits; for the other roles the value itself.
func rt(s setup, t *roundtimer.RoundTimer, b *fakeBeacon, h, r uint64) string {
	if !slotBased(s.role) {
		return fmt.Sprintf("rt rel %d", int64(t.RoundTimeout(specqbft.Height(h), specqbft.Round(r))))
	}
	start := b.GetSlotStartTime(phase0.Slot(h))
	for try := 0; try < 1000; try++ {
		t0 := time.Now()
		d := t.RoundTimeout(specqbft.Height(h), specqbft.Round(r))
		t1 := time.Now()
		lo, hi := t0.Add(d).Sub(start), t1.Add(d).Sub(start)
		if hi-lo >= granule {
			continue
		}
		v := hi / granule * granule
		if hi < 0 && hi%granule != 0 {
			v -= granule
		}
		if v >= lo {
			return fmt.Sprintf("rt abs %d", int64(v))
		}
		return fmt.Sprintf("rt abs-not-on-grid %d..%d", int64(lo), int64(hi))
	}
	return "rt unmeasurable"
}

func deadlines(out *hx.Out) {
	var sets []setup
	for _, role := range roleNames {
		for _, g := range []time.Duration{0, -10 * time.Second, 5 * time.Second, -time.Hour} {
			sets = append(sets, setup{role: role, dur: 12 * time.Second, g: g, defaults: true})
		}
		for _, o := range []struct {
			th     uint64
			q, sl  time.Duration
			dur, g time.Duration
		}{
			{8, 20 * time.Millisecond, 200 * time.Millisecond, 120 * time.Millisecond, 0},
			{8, 20 * time.Millisecond, 200 * time.Millisecond, 60 * time.Millisecond, -45 * time.Millisecond},
			{1, 10 * time.Millisecond, 60 * time.Millisecond, 30 * time.Millisecond, 7 * time.Millisecond},
			{2, 20 * time.Millisecond, 100 * time.Millisecond, 90 * time.Millisecond, -time.Second},
			{3, 7 * time.Millisecond, 3 * time.Millisecond, 9 * time.Millisecond, 1 * time.Millisecond}, // slow < quick
			{12, 2 * time.Second, 2 * time.Minute, 12 * time.Second, -3 * time.Second},
			{0, 2 * time.Second, 2 * time.Minute, 12 * time.Second, 0}, // every round is slow
		} {
			sets = append(sets, setup{role: role, dur: o.dur, g: o.g, th: o.th, quick: o.q, slow: o.sl})
		}
	}
	rounds := []uint64{}
	for r := uint64(0); r <= 24; r++ {
		rounds = append(rounds, r)
	}
	rounds = append(rounds, 100, 1000, 100000)
	for _, s := range sets {
		kind, args := s.line()
		out.Case("deadlines %s %s", kind, args)
		out.Op(kind, "%s", args)
		t, b := s.build(context.Background(), time.Now(), nil)
		if s.defaults { // New() must have installed the exported constants
			th, q, sl := t.VerifTimeoutOptions()
			if th != roundtimer.QuickTimeoutThreshold || q != roundtimer.QuickTimeout || sl != roundtimer.SlowTimeout {
				out.ViolF("New() installs options (%d, %v, %v), the constants are (%d, %v, %v)", th, q, sl,
					roundtimer.QuickTimeoutThreshold, roundtimer.QuickTimeout, roundtimer.SlowTimeout)
			}
		}
		for _, h := range []uint64{0, 1, 7, 1000} {
			for _, r := range rounds {
				if !s.defaults && s.quick < time.Second && r > 1000 {
					continue
				}
				out.Op("RT", "%d %d", h, r)
				v := rt(s, t, b, h, r)
				out.Obs("%s", v)
				// monitor: the deadline the property states
				if slotBased(s.role) {
					want := s.expected(h, r, 0) - (s.g + time.Duration(h)*s.dur)
					if v != fmt.Sprintf("rt abs %d", int64(want)) {
						out.ViolF("%s h=%d r=%d: deadline - slot start is %s, base + cumulative allowance is %d", s.role, h, r, v, int64(want))
					}
				} else if v != fmt.Sprintf("rt rel %d", int64(s.expected(h, r, 0))) {
					out.ViolF("%s r=%d: timeout is %s, expected %d from arming", s.role, r, v, int64(s.expected(h, r, 0)))
				}
			}
		}
		out.End()
	}
}

// ---- live sessions -------------------------------------------------------------------------------------

type event struct {
	kind     string // ARM CB CANCEL HOLD RELEASE
	t        time.Duration
	ta       time.Duration // ARM: time after TimeoutForRound returned
	h, r     uint64
	sb, sa   int64  // sequence numbers: before / after the call (ARM, CANCEL), at entry (CB)
	sawRound uint64 // CB: Round() read at the entry of the callback
}

type session struct {
	s      setup
	t0     time.Time
	seq    int64
	mu     sync.Mutex
	events []event
	timer  *roundtimer.RoundTimer
	cancel context.CancelFunc
	fired  chan uint64
	held   *sync.RWMutex
}

func newSession(s setup) *session {
	ss := &session{s: s, t0: time.Now(), fired: make(chan uint64, 64)}
	ctx, cancel := context.WithCancel(context.Background())
	ss.cancel = cancel
	ss.timer, _ = s.build(ctx, ss.t0, ss.onTimeout)
	return ss
}

func (ss *session) now() time.Duration { return time.Since(ss.t0) }

func (ss *session) onTimeout(round specqbft.Round) {
	sq := atomic.AddInt64(&ss.seq, 1)
	saw := uint64(ss.timer.Round())
	t := ss.now()
	ss.mu.Lock()
	ss.events = append(ss.events, event{kind: "CB", t: t, r: uint64(round), sb: sq, sa: sq, sawRound: saw})
	ss.mu.Unlock()
	select {
	case ss.fired <- uint64(round):
	default:
	}
}

func (ss *session) sleepUntil(t time.Duration) {
	if d := t - ss.now(); d > 0 {
		time.Sleep(d)
	}
}

// arm calls TimeoutForRound.  While the callback mutex is held by the driver the call is made from
// a goroutine and awaited for a bounded time (a timer that takes that mutex in TimeoutForRound would
// otherwise block the driver).
func (ss *session) arm(h, r uint64) {
	ev := event{kind: "ARM", t: ss.now(), h: h, r: r, sb: atomic.AddInt64(&ss.seq, 1)}
	finished := make(chan int64, 1)
	var after time.Duration
	call := func() {
		ss.timer.TimeoutForRound(specqbft.Height(h), specqbft.Round(r))
		after = ss.now()
		finished <- atomic.AddInt64(&ss.seq, 1)
	}
	if ss.held == nil {
		call()
		ev.sa = <-finished
	} else {
		go call()
		select {
		case ev.sa = <-finished:
		case <-time.After(25 * time.Millisecond):
			ss.held.Unlock()
			ss.held = nil
			ss.mu.Lock()
			ss.events = append(ss.events, event{kind: "RELEASE", t: ss.now(), sb: atomic.LoadInt64(&ss.seq)})
			ss.mu.Unlock()
			ev.sa = <-finished
		}
	}
	ev.ta = after
	ss.mu.Lock()
	ss.events = append(ss.events, ev)
	ss.mu.Unlock()
}

func (ss *session) doCancel() {
	ev := event{kind: "CANCEL", sb: atomic.AddInt64(&ss.seq, 1)}
	ss.cancel()
	ev.t = ss.now()
	ev.sa = atomic.AddInt64(&ss.seq, 1)
	ss.mu.Lock()
	ss.events = append(ss.events, ev)
	ss.mu.Unlock()
}

func (ss *session) hold() {
	ss.held = ss.timer.VerifCallbackMutex()
	ss.held.Lock()
	ss.mu.Lock()
	ss.events = append(ss.events, event{kind: "HOLD", t: ss.now(), sb: atomic.AddInt64(&ss.seq, 1)})
	ss.mu.Unlock()
}

func (ss *session) release() {
	if ss.held == nil {
		return
	}
	ss.held.Unlock()
	ss.held = nil
	ss.mu.Lock()
	ss.events = append(ss.events, event{kind: "RELEASE", t: ss.now(), sb: atomic.AddInt64(&ss.seq, 1)})
	ss.mu.Unlock()
}

// emit writes the case: input and recorded lines in an order the model can follow, the
// implementation's observations, and the monitor's verdict.
func (ss *session) emit(out *hx.Out, header string, until time.Duration) {
	ss.sleepUntil(until)
	ss.release()
	ss.cancel()
	ss.mu.Lock()
	evs := append([]event{}, ss.events...)
	ss.mu.Unlock()
	s := ss.s

	out.Case("%s", header)
	kind, args := s.line()
	out.Op(kind, "%s", args)

	var arms []event
	for _, e := range evs {
		if e.kind == "ARM" {
			arms = append(arms, e)
		}
	}
	sort.Slice(arms, func(i, j int) bool { return arms[i].sb < arms[j].sb })
	armIdx := func(r uint64) int {
		for i, a := range arms {
			if a.r == r {
				return i
			}
		}
		return -1
	}
	type item struct {
		slot int
		key  int64
		f    func()
	}
	var items []item
	for i, a := range arms {
		a := a
		items = append(items, item{2 * i, 0, func() {
			out.Op("ARM", "%d %d %d", int64(a.t), a.h, a.r)
			out.Obs("armed %d", a.r)
		}})
	}
	slotOfSeq := func(sq int64) int { // between which TimeoutForRound calls an event of the driver's own goroutine falls
		k := -1
		for i, a := range arms {
			if a.sb < sq {
				k = i
			}
		}
		return 2*k + 1
	}
	count := map[uint64]int{}
	for _, e := range evs {
		e := e
		switch e.kind {
		case "CANCEL":
			items = append(items, item{slotOfSeq(e.sb), e.sb, func() { out.Op("CANCEL", "%d", int64(e.t)); out.Obs("cancelled") }})
		case "HOLD":
			items = append(items, item{slotOfSeq(e.sb), e.sb, func() { out.Op("HOLD", "%d", int64(e.t)) }})
		case "RELEASE":
			items = append(items, item{slotOfSeq(e.sb), e.sb, func() { out.Op("RELEASE", "%d", int64(e.t)) }})
		case "CB":
			count[e.r]++
			i := armIdx(e.r)
			if i < 0 {
				out.ViolF("callback for round %d, which was never armed", e.r)
				items = append(items, item{slotOfSeq(e.sb), e.sb, func() { out.Op("CB", "%d %d", int64(e.t), e.r); out.Obs("cb %d fired", e.r) }})
				continue
			}
			if count[e.r] > 1 {
				out.ViolF("callback for round %d invoked %d times", e.r, count[e.r])
			}
			if dl := s.expected(arms[i].h, e.r, arms[i].t); e.t < dl {
				out.ViolF("callback for round %d at %v, %v before its deadline %v", e.r, e.t, dl-e.t, dl)
			}
			j := armIdx(e.sawRound)
			if e.sawRound == e.r || j < 0 {
				// saw its own round: comparison and callback happened before any re-arming
				items = append(items, item{2*i + 1, e.sb, func() { out.Op("CB", "%d %d", int64(e.t), e.r); out.Obs("cb %d fired", e.r) }})
				out.Count("CB-own-round")
			} else {
				// saw a later round.  The only way the code allows: the expiry passed the Round() check
				// before the next TimeoutForRound stored its round (WAKE, no later than that call's
				// return), and the callback ran after TimeoutForRound(sawRound) (CALL).
				next := arms[i+1]
				items = append(items, item{2*i + 1, 1 << 62, func() { out.Op("WAKE", "%d %d", int64(next.ta), e.r); out.Obs("wake %d passed", e.r) }})
				items = append(items, item{2*j + 1, e.sb, func() {
					out.Op("CALL", "%d %d", int64(e.t), e.r)
					out.Obs("cb %d fired while armed for %d", e.r, e.sawRound)
				}})
				out.Count("CB-saw-later-round")
			}
			// stale: entered after a later TimeoutForRound had returned
			for _, a := range arms[i+1:] {
				if a.sa != 0 && a.sa < e.sb {
					if dl := s.expected(arms[i].h, e.r, arms[i].t); dl <= arms[i+1].ta {
						out.ViolF("stale callback: round %d invoked %v after TimeoutForRound(%d) had returned; its expiry was due before the re-arming (Round() read %d inside the callback)",
							e.r, e.t-a.ta, a.r, e.sawRound)
					} else {
						out.ViolF("superseded callback: round %d invoked although TimeoutForRound(%d) had returned %v before its deadline (Round() read %d inside the callback)",
							e.r, arms[i+1].r, dl-arms[i+1].ta, e.sawRound)
					}
					break
				}
			}
		}
	}
	sort.SliceStable(items, func(a, b int) bool {
		if items[a].slot != items[b].slot {
			return items[a].slot < items[b].slot
		}
		return items[a].key < items[b].key
	})
	for _, it := range items {
		it.f()
	}
	// observed, not asserted: the latest armed round fired
	cancelled := false
	for _, e := range evs {
		if e.kind == "CANCEL" {
			cancelled = true
		}
	}
	if len(arms) > 0 && !cancelled {
		last := arms[len(arms)-1]
		if count[last.r] == 0 {
			out.Count("latest-armed-round-did-not-fire-in-time")
			out.Note("round %d armed last did not fire within the observation window", last.r)
		} else {
			out.Count("latest-armed-round-fired")
		}
	}
	out.End()
}

type planStep struct {
	kind string // ARM CANCEL HOLD RELEASE
	t    time.Duration
	h, r uint64
	wait bool // ARM: wait for the previous round's callback first (then t is a delay after it)
}

func (ss *session) run(plan []planStep) time.Duration {
	var last time.Duration
	var prevRound uint64
	cancelled := false
	for _, p := range plan {
		switch p.kind {
		case "ARM":
			if p.wait && cancelled {
				time.Sleep(p.t)
			} else if p.wait && prevRound != 0 {
				deadline := time.After(600 * time.Millisecond)
			wait:
				for {
					select {
					case r := <-ss.fired:
						if r == prevRound {
							break wait
						}
					case <-deadline:
						break wait
					}
				}
				time.Sleep(p.t)
			} else {
				ss.sleepUntil(p.t)
			}
			ss.arm(p.h, p.r)
			prevRound = p.r
			if dl := ss.s.expected(p.h, p.r, ss.now()); dl > last {
				last = dl
			}
		case "CANCEL":
			ss.sleepUntil(p.t)
			ss.doCancel()
			cancelled = true
		case "HOLD":
			ss.sleepUntil(p.t)
			ss.hold()
		case "RELEASE":
			ss.sleepUntil(p.t)
			ss.release()
		}
	}
	if n := ss.now(); last < n {
		last = n
	}
	return last + 40*time.Millisecond
}

func genLive(r *hx.Rand) (setup, []planStep) {
	ms := time.Millisecond
	s := setup{
		role:  roleNames[r.Intn(len(roleNames))],
		dur:   hx.Pick(r, 30*ms, 60*ms, 90*ms),
		g:     time.Duration(r.Intn(60)-40) * ms,
		th:    uint64(hx.Pick(r, 1, 2, 3, 8)),
		quick: hx.Pick(r, 10*ms, 20*ms),
		slow:  hx.Pick(r, 60*ms, 100*ms),
	}
	h := uint64(r.Intn(2))
	n := 2 + r.Intn(4)
	round := uint64(1 + r.Intn(2))
	var plan []planStep
	at := time.Duration(r.Intn(5)) * ms
	for i := 0; i < n; i++ {
		st := planStep{kind: "ARM", h: h, r: round}
		dl := s.expected(h, round, at)
		switch r.Intn(4) {
		case 0, 1: // the protocol's way: re-arm after the callback
			st.wait, st.t = true, time.Duration(r.Intn(4))*ms
			at = dl + st.t
		case 2: // re-arm before the previous round expires
			st.t = at
		default: // around the previous deadline
			st.t = at
		}
		plan = append(plan, st)
		// when the next arming happens, relative to this one's deadline
		switch r.Intn(3) {
		case 0:
			if dl-at > 6*ms {
				at += time.Duration(r.Intn(int((dl-at)/ms-5))) * ms // well before expiry
			}
		case 1:
			at = dl + time.Duration(r.Intn(5)-2)*ms // around the deadline
			if at < 0 {
				at = 0
			}
		default:
			at = dl + time.Duration(3+r.Intn(10))*ms
		}
		round += uint64(hx.Pick(r, 1, 1, 1, 2))
		if r.Chance(1, 12) {
			plan = append(plan, planStep{kind: "CANCEL", t: at})
		}
	}
	return s, plan
}

func live(out *hx.Out, seed uint64, n, par int) {
	type job struct {
		ss    *session
		until time.Duration
		hdr   string
	}
	jobs := make([]job, n)
	sem := make(chan struct{}, par)
	var wg sync.WaitGroup
	for c := 0; c < n; c++ {
		c := c
		sem <- struct{}{}
		wg.Add(1)
		go func() {
			defer wg.Done()
			defer func() { <-sem }()
			r := hx.NewRand(seed, "timer-live", uint64(c))
			s, plan := genLive(r)
			ss := newSession(s)
			until := ss.run(plan)
			ss.sleepUntil(until)
			jobs[c] = job{ss, until, fmt.Sprintf("live seed=%d case=%d", seed, c)}
		}()
	}
	wg.Wait()
	for _, j := range jobs {
		j.ss.emit(out, j.hdr, j.until)
	}
}

// race: round 1 expires while the driver holds the callback mutex; its goroutine has read
// Round() == 1 and waits for the read lock; TimeoutForRound(2); the mutex is released.
func raceCase(s setup, margin time.Duration) (*session, time.Duration) {
	ss := newSession(s)
	until := ss.run([]planStep{
		{kind: "ARM", t: 0, h: 0, r: 1},
		{kind: "HOLD", t: time.Millisecond},
		{kind: "ARM", t: s.expected(0, 1, 0) + margin, h: 0, r: 2},
		{kind: "RELEASE", t: s.expected(0, 1, 0) + margin + 2*time.Millisecond},
	})
	return ss, until
}

func race(out *hx.Out, n int) {
	ms := time.Millisecond
	for c := 0; c < n; c++ {
		s := setup{role: roleNames[c%len(roleNames)], dur: 60 * ms, g: -10 * ms, th: 8, quick: 20 * ms, slow: 200 * ms}
		ss, until := raceCase(s, 15*ms)
		ss.emit(out, fmt.Sprintf("race case=%d role=%s", c, s.role), until)
	}
}

// ---- controller ----------------------------------------------------------------------------------------

type recTimer struct{ calls []string }

func (t *recTimer) TimeoutForRound(h specqbft.Height, r specqbft.Round) {
	t.calls = append(t.calls, fmt.Sprintf("arm:%d:%d", h, r))
}

type ctl struct {
	out   *hx.Out
	c     *controller.Controller
	timer *recTimer
	net   *testingutils.TestingNetwork
	ks    *testingutils.TestKeySet
}

func newCtl(out *hx.Out) *ctl {
	ks := testingutils.Testing4SharesSet()
	cfg := qbfttesting.TestingConfig(zap.NewNop(), ks, spectypes.BNRoleAttester)
	t := &recTimer{}
	net := testingutils.NewTestingNetwork()
	cfg.Timer, cfg.Network = t, net
	c := qbfttesting.NewTestingQBFTController(testingutils.TestingIdentifier, qbfttesting.TestingShare(ks), cfg, false)
	return &ctl{out: out, c: c, timer: t, net: net, ks: ks}
}

func (x *ctl) start(h uint64) {
	x.out.Op("CSTART", "%d", h)
	err := x.c.StartNewInstance(zap.NewNop(), specqbft.Height(h), []byte{1, 2, 3, 4})
	ok := 0
	if err == nil {
		ok = 1
	}
	x.out.Obs("cstart %d", ok)
}

func (x *ctl) decided(h, r uint64) {
	x.out.Op("CDECIDED", "%d %d", h, r)
	ids := []spectypes.OperatorID{1, 2, 3}
	msg := testingutils.TestingCommitMultiSignerMessageWithParams(
		[]*bls.SecretKey{x.ks.Shares[1], x.ks.Shares[2], x.ks.Shares[3]}, ids, specqbft.Round(r), specqbft.Height(h),
		testingutils.TestingIdentifier, testingutils.TestingQBFTRootData, testingutils.TestingQBFTFullData)
	if _, err := x.c.ProcessMsg(zap.NewNop(), msg); err != nil {
		x.out.Note("decided message refused: %v", err)
	}
	x.out.Obs("cdecided")
}

func (x *ctl) timeout(h, r uint64) {
	x.out.Op("CTIMEOUT", "%d %d", h, r)
	data, _ := json.Marshal(ssvtypes.TimeoutData{Height: specqbft.Height(h), Round: specqbft.Round(r)})
	msg := ssvtypes.EventMsg{Type: ssvtypes.Timeout, Data: data}
	// what the property calls stale, from the controller's observable state
	inst := x.c.StoredInstances.FindInstance(specqbft.Height(h))
	staleWhy := ""
	var roundBefore uint64
	switch {
	case inst == nil:
		staleWhy = "no instance for that height"
	case uint64(inst.State.Round) > r:
		staleWhy = "earlier round"
	case inst.State.Decided:
		staleWhy = "instance decided"
	case !inst.CanProcessMessages():
		staleWhy = "instance stopped"
	}
	if inst != nil {
		roundBefore = uint64(inst.State.Round)
	}
	before, _ := x.c.GetRoot()
	nb, nt := len(x.net.BroadcastedMsgs), len(x.timer.calls)
	err := x.c.OnTimeout(zap.NewNop(), msg)
	after, _ := x.c.GetRoot()
	changed := 0
	if before != after {
		changed = 1
	}
	var eff []string
	for _, m := range x.net.BroadcastedMsgs[nb:] {
		sm := &specqbft.SignedMessage{}
		if e := sm.Decode(m.Data); e == nil && sm.Message.MsgType == specqbft.RoundChangeMsgType {
			eff = append(eff, fmt.Sprintf("rc:%d:%d", sm.Message.Height, sm.Message.Round))
		} else {
			eff = append(eff, "other-broadcast")
		}
	}
	eff = append(eff, x.timer.calls[nt:]...)
	effs := "-"
	if len(eff) > 0 {
		effs = strings.Join(eff, ",")
	}
	class := "?"
	switch {
	case err != nil && strings.Contains(err.Error(), "instance is nil"):
		class = "noinstance"
	case err != nil && strings.Contains(err.Error(), "instance stopped processing timeouts"):
		class = "stopped"
	case err != nil:
		class = "error"
		x.out.Note("OnTimeout: %v", err)
	case changed == 1:
		class = fmt.Sprintf("bumped %d", inst.State.Round)
	case inst != nil && roundBefore > r:
		class = "oldround"
	case inst != nil && inst.State.Decided:
		class = "decided"
	}
	x.out.Obs("ctimeout %s changed=%d effects=%s", class, changed, effs)
	if staleWhy != "" && (changed == 1 || len(eff) > 0) {
		x.out.ViolF("timeout event (height %d, round %d) is stale (%s) but changed the controller: root changed=%d, effects %s", h, r, staleWhy, changed, effs)
	}
	if staleWhy == "" {
		x.out.Count("CTIMEOUT-fresh")
	} else {
		x.out.Count("CTIMEOUT-stale-" + strings.ReplaceAll(staleWhy, " ", "-"))
	}
}

func genController(out *hx.Out, seed uint64, n int) {
	for c := 0; c < n; c++ {
		r := hx.NewRand(seed, "timer-controller", uint64(c))
		out.Case("controller seed=%d case=%d", seed, c)
		x := newCtl(out)
		h := uint64(r.Intn(3))
		x.start(h)
		heights := []uint64{h}
		nops := 6 + r.Intn(14)
		for i := 0; i < nops; i++ {
			cur := uint64(x.c.Height)
			var round uint64 = 1
			if inst := x.c.StoredInstances.FindInstance(specqbft.Height(cur)); inst != nil {
				round = uint64(inst.State.Round)
			}
			switch r.Intn(12) {
			case 0: // next instance
				nh := cur + uint64(1+r.Intn(2))
				x.start(nh)
				heights = append(heights, nh)
			case 1: // a start that must be refused
				x.start(hx.Pick(r, cur, heights[r.Intn(len(heights))]))
			case 2: // decided message for the current, an old or a future height
				dh := hx.Pick(r, cur, cur, heights[r.Intn(len(heights))], cur+1)
				x.decided(dh, hx.Pick(r, uint64(1), round, round+1))
				heights = append(heights, dh)
			case 3, 4: // the timer's own event, then its duplicate
				x.timeout(cur, round)
				if r.Chance(2, 3) {
					x.timeout(cur, round)
				}
			case 5: // burst towards the cut-off round
				for k := 0; k < 4+r.Intn(14); k++ {
					if inst := x.c.StoredInstances.FindInstance(specqbft.Height(cur)); inst != nil {
						x.timeout(cur, uint64(inst.State.Round))
					}
				}
			case 6: // earlier rounds
				x.timeout(cur, hx.Pick(r, uint64(0), 1, round-1, round/2))
			case 7: // other heights: stored, never started, far away
				x.timeout(hx.Pick(r, heights[r.Intn(len(heights))], cur+1, cur+100, ^uint64(0)), hx.Pick(r, uint64(1), round, round+1))
			case 8: // a round ahead of the instance (not something the timer produces)
				x.timeout(cur, round+uint64(1+r.Intn(3)))
			default:
				x.timeout(hx.Pick(r, cur, heights[r.Intn(len(heights))]), hx.Pick(r, round, round, uint64(1), round+1))
			}
		}
		out.End()
	}
}

// ---- replay --------------------------------------------------------------------------------------------

func u(s string) uint64 { v, _ := strconv.ParseUint(s, 10, 64); return v }
func d(s string) time.Duration {
	v, _ := strconv.ParseInt(s, 10, 64)
	return time.Duration(v)
}

func parseSetup(w []string) setup {
	if w[0] == "DEFAULTS" {
		return setup{role: w[1], dur: d(w[2]), g: d(w[3]), defaults: true}
	}
	return setup{role: w[1], dur: d(w[2]), g: d(w[3]), th: u(w[4]), quick: d(w[5]), slow: d(w[6])}
}

func replay(out *hx.Out, path string) {
	fh, err := os.Open(path)
	if err != nil {
		fmt.Fprintln(os.Stderr, err)
		os.Exit(2)
	}
	defer fh.Close()
	var cases [][][]string
	sc := bufio.NewScanner(fh)
	for sc.Scan() {
		w := strings.Fields(sc.Text())
		if len(w) == 0 || strings.HasPrefix(w[0], "#") {
			continue
		}
		if w[0] == "CASE" {
			cases = append(cases, nil)
		}
		if len(cases) > 0 {
			cases[len(cases)-1] = append(cases[len(cases)-1], w)
		}
	}
	for _, lines := range cases {
		hdr := "replay " + strings.Join(lines[0][2:], " ")
		var s setup
		haveSetup, isLive, isRT, isCtl := false, false, false, false
		for _, w := range lines {
			switch w[0] {
			case "SETUP", "DEFAULTS":
				s, haveSetup = parseSetup(w), true
			case "ARM", "CANCEL", "HOLD", "RELEASE":
				isLive = true
			case "RT":
				isRT = true
			case "CSTART", "CDECIDED", "CTIMEOUT":
				isCtl = true
			}
		}
		switch {
		case isLive && haveSetup:
			var plan []planStep
			for _, w := range lines {
				switch w[0] {
				case "ARM":
					plan = append(plan, planStep{kind: "ARM", t: d(w[1]), h: u(w[2]), r: u(w[3])})
				case "CANCEL", "HOLD", "RELEASE":
					plan = append(plan, planStep{kind: w[0], t: d(w[1])})
				}
			}
			ss := newSession(s)
			until := ss.run(plan)
			ss.emit(out, hdr, until)
		case isRT && haveSetup:
			out.Case("%s", hdr)
			kind, args := s.line()
			out.Op(kind, "%s", args)
			t, b := s.build(context.Background(), time.Now(), nil)
			for _, w := range lines {
				if w[0] == "RT" {
					out.Op("RT", "%d %d", u(w[1]), u(w[2]))
					out.Obs("%s", rt(s, t, b, u(w[1]), u(w[2])))
				}
			}
			out.End()
		case isCtl:
			out.Case("%s", hdr)
			x := newCtl(out)
			for _, w := range lines {
				switch w[0] {
				case "CSTART":
					x.start(u(w[1]))
				case "CDECIDED":
					x.decided(u(w[1]), u(w[2]))
				case "CTIMEOUT":
					x.timeout(u(w[1]), u(w[2]))
				}
			}
			out.End()
		default:
			out.Case("%s", hdr)
			out.End()
		}
	}
}

func main() {
	if len(os.Args) < 2 {
		fmt.Fprintln(os.Stderr, "usage: hx-timer deadlines|live|race|controller|replay ...")
		os.Exit(2)
	}
	mode := os.Args[1]
	fs := flag.NewFlagSet(mode, flag.ExitOnError)
	seed := fs.Uint64("seed", 1, "seed")
	n := fs.Int("n", 100, "cases")
	par := fs.Int("par", 24, "live sessions running at the same time")
	_ = fs.Parse(os.Args[2:])
	out := hx.NewOut()
	defer out.Close()
	switch mode {
	case "deadlines":
		deadlines(out)
	case "live":
		live(out, *seed, *n, *par)
	case "race":
		race(out, *n)
	case "controller":
		genController(out, *seed, *n)
	case "replay":
		replay(out, fs.Arg(0))
	default:
		fmt.Fprintln(os.Stderr, "unknown mode", mode)
		os.Exit(2)
	}
}
