package main

import (
	"bytes"
	"encoding/hex"
	"errors"
	"strings"
	"sync"

	"github.com/attestantio/go-eth2-client/api"
	apiv1 "github.com/attestantio/go-eth2-client/api/v1"
	"github.com/attestantio/go-eth2-client/spec"
	"github.com/attestantio/go-eth2-client/spec/altair"
	"github.com/attestantio/go-eth2-client/spec/bellatrix"
	"github.com/attestantio/go-eth2-client/spec/phase0"
	specqbft "github.com/bloxapp/ssv-spec/qbft"
	specssv "github.com/bloxapp/ssv-spec/ssv"
	spectypes "github.com/bloxapp/ssv-spec/types"
	"github.com/bloxapp/ssv-spec/types/testingutils"
	ssz "github.com/ferranbt/fastssz"
	"github.com/herumi/bls-eth-go-binary/bls"
	"go.uber.org/zap"

	"github.com/bloxapp/ssv/protocol/v2/qbft/controller"
	qbfttesting "github.com/bloxapp/ssv/protocol/v2/qbft/testing"
	"github.com/bloxapp/ssv/protocol/v2/ssv/runner"
)

// ---- recording beacon node ---------------------------------------------------------------------------

// submission is one BeaconNode.Submit* call: the signing root of the object that was handed over
// (computed here from the object itself, not taken from the runner) and the signature it carries.
type submission struct {
	kind string
	root [32]byte
	sig  []byte
}

type recBN struct {
	*testingutils.TestingBeaconNode
	fail bool // Submit* returns an error (the call is still recorded)
	subs []submission
}

func newRecBN() *recBN { return &recBN{TestingBeaconNode: testingutils.NewTestingBeaconNode()} }

func (b *recBN) record(kind string, obj ssz.HashRoot, dom phase0.DomainType, sig phase0.BLSSignature) error {
	d, _ := b.DomainData(0, dom)
	r, err := spectypes.ComputeETHSigningRoot(obj, d)
	if err != nil {
		r = [32]byte{0xff}
	}
	b.subs = append(b.subs, submission{kind: kind, root: r, sig: append([]byte{}, sig[:]...)})
	if b.fail {
		return errors.New("beacon node unavailable")
	}
	return nil
}

func (b *recBN) SubmitAttestation(a *phase0.Attestation) error {
	return b.record("attestation", a.Data, spectypes.DomainAttester, a.Signature)
}

func (b *recBN) SubmitBeaconBlock(block *api.VersionedProposal, sig phase0.BLSSignature) error {
	var obj ssz.HashRoot
	switch block.Version {
	case spec.DataVersionCapella:
		obj = block.Capella
	case spec.DataVersionDeneb:
		obj = block.Deneb.Block
	default:
		return errors.New("unknown block version")
	}
	return b.record("block", obj, spectypes.DomainProposer, sig)
}

func (b *recBN) SubmitBlindedBeaconBlock(block *api.VersionedBlindedProposal, sig phase0.BLSSignature) error {
	var obj ssz.HashRoot
	switch block.Version {
	case spec.DataVersionCapella:
		obj = block.Capella
	case spec.DataVersionDeneb:
		obj = block.Deneb
	default:
		return errors.New("unknown block version")
	}
	return b.record("blinded-block", obj, spectypes.DomainProposer, sig)
}

func (b *recBN) SubmitSignedAggregateSelectionProof(m *phase0.SignedAggregateAndProof) error {
	return b.record("aggregate", m.Message, spectypes.DomainAggregateAndProof, m.Signature)
}

func (b *recBN) SubmitSyncMessage(m *altair.SyncCommitteeMessage) error {
	return b.record("sync-message", spectypes.SSZBytes(m.BeaconBlockRoot[:]), spectypes.DomainSyncCommittee, m.Signature)
}

func (b *recBN) SubmitSignedContributionAndProof(c *altair.SignedContributionAndProof) error {
	return b.record("contribution", c.Message, spectypes.DomainContributionAndProof, c.Signature)
}

func (b *recBN) SubmitVoluntaryExit(v *phase0.SignedVoluntaryExit) error {
	return b.record("voluntary-exit", v.Message, spectypes.DomainVoluntaryExit, v.Signature)
}

func (b *recBN) SubmitValidatorRegistration(pubkey []byte, feeRecipient bellatrix.ExecutionAddress, sig phase0.BLSSignature) error {
	pk := phase0.BLSPubKey{}
	copy(pk[:], pubkey)
	vr := &apiv1.ValidatorRegistration{
		FeeRecipient: feeRecipient,
		GasLimit:     testingutils.TestingValidatorRegistration.GasLimit,
		Timestamp:    testingutils.TestingValidatorRegistration.Timestamp,
		Pubkey:       pk,
	}
	return b.record("registration", vr, spectypes.DomainApplicationBuilder, sig)
}

// ---- recording key manager -----------------------------------------------------------------------------

type signCall struct {
	root   [32]byte
	domain phase0.DomainType
	pk     string
}

type recKM struct {
	spectypes.KeyManager
	mu    sync.Mutex
	calls []signCall
}

func newRecKM() *recKM { return &recKM{KeyManager: testingutils.NewTestingKeyManager()} }

func (k *recKM) SignBeaconObject(obj ssz.HashRoot, domain phase0.Domain, pk []byte, domainType phase0.DomainType) (spectypes.Signature, [32]byte, error) {
	sig, r, err := k.KeyManager.SignBeaconObject(obj, domain, pk, domainType)
	k.mu.Lock()
	k.calls = append(k.calls, signCall{root: r, domain: domainType, pk: hex.EncodeToString(pk)})
	k.mu.Unlock()
	return sig, r, err
}

// ---- recording network ---------------------------------------------------------------------------------

type recNet struct {
	*testingutils.TestingNetwork
	mu   sync.Mutex
	msgs []*spectypes.SSVMessage
}

func newRecNet() *recNet { return &recNet{TestingNetwork: testingutils.NewTestingNetwork()} }

func (n *recNet) Broadcast(m *spectypes.SSVMessage) error {
	n.mu.Lock()
	n.msgs = append(n.msgs, m)
	n.mu.Unlock()
	return nil
}

// ---- key sets -------------------------------------------------------------------------------------------

func keySet(n int) *testingutils.TestKeySet {
	switch n {
	case 4:
		return testingutils.Testing4SharesSet()
	case 7:
		return testingutils.Testing7SharesSet()
	case 10:
		return testingutils.Testing10SharesSet()
	case 13:
		return testingutils.Testing13SharesSet()
	}
	panic("committee size")
}

// ---- roles ----------------------------------------------------------------------------------------------

// roleSpec describes one duty type with the fixed test duty / decided value of the spec utilities.
type roleSpec struct {
	name   string
	role   spectypes.BeaconRole
	duty   *spectypes.Duty
	cd     *spectypes.ConsensusData // decided value; nil for the two duties without consensus
	honest func(ks *testingutils.TestKeySet, id spectypes.OperatorID) *spectypes.SignedPartialSignatureMessage
	// honest = the message a correct operator sends in the signature-collection phase that leads to
	// the beacon submission (post-consensus, or pre-consensus for exit / registration)
	blinded bool
}

func roleTable() []*roleSpec {
	att := testingutils.TestingAttesterDuty
	agg := testingutils.TestingAggregatorDuty
	sc := testingutils.TestingSyncCommitteeDuty
	scc := testingutils.TestingSyncCommitteeContributionDuty
	vex := testingutils.TestingVoluntaryExitDuty
	vreg := testingutils.TestingValidatorRegistrationDuty
	return []*roleSpec{
		{name: "att", role: spectypes.BNRoleAttester, duty: &att, cd: testingutils.TestAttesterConsensusData,
			honest: func(ks *testingutils.TestKeySet, id spectypes.OperatorID) *spectypes.SignedPartialSignatureMessage {
				return testingutils.PostConsensusAttestationMsg(ks.Shares[id], id, specqbft.FirstHeight)
			}},
		{name: "prop", role: spectypes.BNRoleProposer, duty: testingutils.TestingProposerDutyV(spec.DataVersionDeneb),
			cd: testingutils.TestProposerConsensusDataV(spec.DataVersionDeneb),
			honest: func(ks *testingutils.TestKeySet, id spectypes.OperatorID) *spectypes.SignedPartialSignatureMessage {
				return testingutils.PostConsensusProposerMsgV(ks.Shares[id], id, spec.DataVersionDeneb)
			}},
		{name: "propc", role: spectypes.BNRoleProposer, duty: testingutils.TestingProposerDutyV(spec.DataVersionCapella),
			cd: testingutils.TestProposerConsensusDataV(spec.DataVersionCapella),
			honest: func(ks *testingutils.TestKeySet, id spectypes.OperatorID) *spectypes.SignedPartialSignatureMessage {
				return testingutils.PostConsensusProposerMsgV(ks.Shares[id], id, spec.DataVersionCapella)
			}},
		{name: "propb", role: spectypes.BNRoleProposer, duty: testingutils.TestingProposerDutyV(spec.DataVersionCapella),
			cd: testingutils.TestProposerBlindedBlockConsensusDataV(spec.DataVersionCapella), blinded: true,
			honest: func(ks *testingutils.TestKeySet, id spectypes.OperatorID) *spectypes.SignedPartialSignatureMessage {
				return testingutils.PostConsensusProposerMsgV(ks.Shares[id], id, spec.DataVersionCapella)
			}},
		{name: "agg", role: spectypes.BNRoleAggregator, duty: &agg, cd: testingutils.TestAggregatorConsensusData,
			honest: func(ks *testingutils.TestKeySet, id spectypes.OperatorID) *spectypes.SignedPartialSignatureMessage {
				return testingutils.PostConsensusAggregatorMsg(ks.Shares[id], id)
			}},
		{name: "sc", role: spectypes.BNRoleSyncCommittee, duty: &sc, cd: testingutils.TestSyncCommitteeConsensusData,
			honest: func(ks *testingutils.TestKeySet, id spectypes.OperatorID) *spectypes.SignedPartialSignatureMessage {
				return testingutils.PostConsensusSyncCommitteeMsg(ks.Shares[id], id)
			}},
		{name: "scc", role: spectypes.BNRoleSyncCommitteeContribution, duty: &scc, cd: testingutils.TestSyncCommitteeContributionConsensusData,
			honest: func(ks *testingutils.TestKeySet, id spectypes.OperatorID) *spectypes.SignedPartialSignatureMessage {
				return testingutils.PostConsensusSyncCommitteeContributionMsg(ks.Shares[id], id, ks)
			}},
		{name: "vexit", role: spectypes.BNRoleVoluntaryExit, duty: &vex,
			honest: func(ks *testingutils.TestKeySet, id spectypes.OperatorID) *spectypes.SignedPartialSignatureMessage {
				return testingutils.PreConsensusVoluntaryExitMsg(ks.Shares[id], id)
			}},
		{name: "vreg", role: spectypes.BNRoleValidatorRegistration, duty: &vreg,
			honest: func(ks *testingutils.TestKeySet, id spectypes.OperatorID) *spectypes.SignedPartialSignatureMessage {
				return testingutils.PreConsensusValidatorRegistrationMsg(ks.Shares[id], id)
			}},
	}
}

func roleByName(name string) *roleSpec {
	for _, r := range roleTable() {
		if r.name == name {
			return r
		}
	}
	panic("unknown role " + name)
}

// valCheck returns the role's real value-check function (ssv-spec).
func (rs *roleSpec) valCheck(km spectypes.KeyManager) specqbft.ProposedValueCheckF {
	pk := testingutils.TestingValidatorPubKey[:]
	idx := phase0.ValidatorIndex(testingutils.TestingValidatorIndex)
	switch rs.role {
	case spectypes.BNRoleAttester:
		return specssv.AttesterValueCheckF(km, spectypes.BeaconTestNetwork, pk, idx, nil)
	case spectypes.BNRoleProposer:
		return specssv.ProposerValueCheckF(km, spectypes.BeaconTestNetwork, pk, idx, nil)
	case spectypes.BNRoleAggregator:
		return specssv.AggregatorValueCheckF(km, spectypes.BeaconTestNetwork, pk, idx)
	case spectypes.BNRoleSyncCommittee:
		return specssv.SyncCommitteeValueCheckF(km, spectypes.BeaconTestNetwork, pk, idx)
	case spectypes.BNRoleSyncCommitteeContribution:
		return specssv.SyncCommitteeContributionValueCheckF(km, spectypes.BeaconTestNetwork, pk, idx)
	}
	return nil
}

// env is one real runner with its recording collaborators.
type env struct {
	rs     *roleSpec
	ks     *testingutils.TestKeySet
	r      runner.Runner
	bn     *recBN
	km     *recKM
	net    *recNet
	share  *spectypes.Share
	logger *zap.Logger
}

// newEnv builds the real runner of the given role for operator opID, the way
// protocol/v2/ssv/testing.baseRunner does, but with recording beacon node / signer / network.
func newEnv(rs *roleSpec, n int, opID spectypes.OperatorID) *env {
	return newEnvWith(rs, n, opID, newRecKM(), newRecBN(), newRecNet(), false)
}

// newEnvWith: prod = the QBFT controller is built with controller.NewController as the operator
// does (instance container of the default capacity) instead of the test helper (capacity 1024).
func newEnvWith(rs *roleSpec, n int, opID spectypes.OperatorID, km *recKM, bn *recBN, net *recNet, prod bool) *env {
	ks := keySet(n)
	logger := zap.NewNop()
	share := testingutils.TestingShare(ks)
	share.OperatorID = opID
	share.SharePubKey = ks.Shares[opID].GetPublicKey().Serialize()
	e := &env{rs: rs, ks: ks, bn: bn, km: km, net: net, share: share, logger: logger}
	identifier := spectypes.NewMsgID(testingutils.TestingSSVDomainType, testingutils.TestingValidatorPubKey[:], rs.role)
	vc := rs.valCheck(e.km)
	config := qbfttesting.TestingConfig(logger, ks, identifier.GetRoleType())
	config.SigningPK = share.SharePubKey
	config.ValueCheckF = vc
	config.ProposerF = func(state *specqbft.State, round specqbft.Round) spectypes.OperatorID { return 1 }
	config.Network = e.net
	config.Signer = e.km
	var contr *controller.Controller
	if prod {
		contr = controller.NewController(identifier[:], share, config, false)
	} else {
		contr = qbfttesting.NewTestingQBFTController(identifier[:], share, config, false)
	}
	bnw := spectypes.BeaconTestNetwork
	switch rs.role {
	case spectypes.BNRoleAttester:
		e.r = runner.NewAttesterRunnner(bnw, share, contr, e.bn, e.net, e.km, vc, 0)
	case spectypes.BNRoleProposer:
		e.r = runner.NewProposerRunner(bnw, share, contr, e.bn, e.net, e.km, vc, 0)
		if rs.blinded {
			e.r.(*runner.ProposerRunner).ProducesBlindedBlocks = true
		}
	case spectypes.BNRoleAggregator:
		e.r = runner.NewAggregatorRunner(bnw, share, contr, e.bn, e.net, e.km, vc, 0)
	case spectypes.BNRoleSyncCommittee:
		e.r = runner.NewSyncCommitteeRunner(bnw, share, contr, e.bn, e.net, e.km, vc, 0)
	case spectypes.BNRoleSyncCommitteeContribution:
		e.r = runner.NewSyncCommitteeAggregatorRunner(bnw, share, contr, e.bn, e.net, e.km, vc, 0)
	case spectypes.BNRoleValidatorRegistration:
		e.r = runner.NewValidatorRegistrationRunner(bnw, share, contr, e.bn, e.net, e.km)
	case spectypes.BNRoleVoluntaryExit:
		e.r = runner.NewVoluntaryExitRunner(bnw, share, e.bn, e.net, e.km)
	default:
		panic("role")
	}
	return e
}

// ---- real BLS helpers -----------------------------------------------------------------------------------

var (
	verifyCache = map[string]bool{}
	verifyMu    sync.Mutex
)

// blsVerify is the real verifier, memoised on (pk, root, sig).
func blsVerify(pk *bls.PublicKey, root [32]byte, sig []byte) bool {
	key := string(pk.Serialize()) + string(root[:]) + string(sig)
	verifyMu.Lock()
	v, ok := verifyCache[key]
	verifyMu.Unlock()
	if ok {
		return v
	}
	s := &bls.Sign{}
	res := false
	if err := s.Deserialize(sig); err == nil {
		res = s.VerifyByte(pk, root[:])
	}
	verifyMu.Lock()
	verifyCache[key] = res
	verifyMu.Unlock()
	return res
}

func errText(err error) string {
	if err == nil {
		return ""
	}
	return err.Error()
}

// errClass maps the runner's error text to the model's error classes.
func errClass(err error) string {
	if err == nil {
		return "ok"
	}
	s := err.Error()
	switch {
	case strings.Contains(s, "no running duty"):
		return "noduty"
	case strings.Contains(s, "SignedPartialSignatureMessage invalid"):
		return "badmsg"
	case strings.Contains(s, "invalid partial sig slot"):
		return "slot"
	case strings.Contains(s, "unknown signer"):
		return "signer"
	case strings.Contains(s, "wrong expected roots count"):
		return "count"
	case strings.Contains(s, "wrong signing root"):
		return "root"
	case strings.Contains(s, "quorum but it has invalid signatures"):
		return "badquorum"
	case strings.Contains(s, "beacon node unavailable"):
		return "bn"
	}
	return "other:" + strings.ReplaceAll(s, " ", "_")
}

func rootIndex(roots [][32]byte, r [32]byte) int {
	for i := range roots {
		if bytes.Equal(roots[i][:], r[:]) {
			return i
		}
	}
	return -1
}
