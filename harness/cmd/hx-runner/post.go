package main

// Mode `post` (C05): real duty runners in the state "duty running, value decided" receive
// partial-signature messages; observed: every BeaconNode.Submit* call, Finished, the container.

import (
	"crypto/sha256"
	"encoding/hex"
	"fmt"
	"sort"
	"strconv"
	"strings"

	specqbft "github.com/bloxapp/ssv-spec/qbft"
	spectypes "github.com/bloxapp/ssv-spec/types"
	"github.com/herumi/bls-eth-go-binary/bls"

	"github.com/bloxapp/ssv/protocol/v2/qbft/instance"
	"github.com/bloxapp/ssv/protocol/v2/ssv/runner"

	"verifharness/hx"
)

// ---- abstract messages (exactly what is written on the op line) ---------------------------------------

type ainner struct {
	signer uint64
	root   int    // index into the expected roots; >= 100: a root that is not expected
	tag    string // "g" = the signer's correct share; "b<k>" = incorrect (k odd: a valid BLS point, k even: bytes that do not deserialize)
}

type amsg struct {
	signer uint64
	slot   uint64
	bnok   bool
	inner  []ainner
}

func (m amsg) String() string {
	b := 0
	if m.bnok {
		b = 1
	}
	s := fmt.Sprintf("%d %d %d %d", m.signer, m.slot, b, len(m.inner))
	for _, i := range m.inner {
		s += fmt.Sprintf(" %d %d %s", i.signer, i.root, i.tag)
	}
	return s
}

// ---- system under test -----------------------------------------------------------------------------------

type postSut struct {
	out    *hx.Out
	e      *env
	n      int
	q      int
	slot   uint64
	roots  [][32]byte // expected signing roots, in the order of the honest spec message
	pre    bool       // the submitting phase is ProcessPreConsensus (exit / registration)
	tags   map[string]string
	seen   int // submissions already reported
	count  map[int]int
	ok     map[uint64]bool // committee members whose fully correct message has arrived
	bnFail bool            // the beacon node has refused a submission in this case
	lvDone map[int]bool
	valPK  *bls.PublicKey
}

func newPostSut(out *hx.Out, role string, n int) *postSut {
	rs := roleByName(role)
	e := newEnv(rs, n, 1)
	s := &postSut{out: out, e: e, n: n, q: int(e.share.Quorum), tags: map[string]string{}, count: map[int]int{},
		ok: map[uint64]bool{}, lvDone: map[int]bool{}, valPK: e.ks.ValidatorPK}
	h := rs.honest(e.ks, 1)
	s.slot = uint64(h.Message.Slot)
	for _, m := range h.Message.Messages {
		s.roots = append(s.roots, m.SigningRoot)
	}
	br := e.r.GetBaseRunner()
	if rs.cd == nil {
		s.pre = true
		if err := e.r.StartNewDuty(e.logger, rs.duty); err != nil {
			panic("StartNewDuty: " + err.Error())
		}
	} else {
		// the spec tests' decideRunner, with the node's own instance type
		br.State = runner.NewRunnerState(e.share.Quorum, rs.duty)
		inst := instance.NewInstance(br.QBFTController.GetConfig(), e.share, br.QBFTController.Identifier, specqbft.FirstHeight)
		inst.State.Decided = true
		inst.State.DecidedValue, _ = rs.cd.Encode()
		br.State.RunningInstance = inst
		br.State.DecidedValue = rs.cd
		br.QBFTController.StoredInstances = append(br.QBFTController.StoredInstances, inst)
		br.QBFTController.Height = specqbft.FirstHeight
	}
	ids := make([]string, 0, n)
	for _, op := range e.share.Committee {
		ids = append(ids, strconv.FormatUint(op.OperatorID, 10))
	}
	out.Op("NEW", "%s %d %d %d %d %s", role, s.q, s.slot, len(s.roots), n, strings.Join(ids, " "))
	out.Count("role-" + role)
	out.Count(fmt.Sprintf("size-%d", n))
	return s
}

// followUp starts the NEXT duty (slot + 1) on the same real runner - the validator keeps one runner object per
// role for its whole life, and registrations / exits are started through their own start path.  The model begins
// afresh (NEW): whatever the runner keeps from the earlier duty must not matter.  Only for the duties without
// consensus (the decided state of the others is planted by newPostSut, not reached through StartNewDuty).
func (p *postSut) followUp() *postSut {
	if !p.pre {
		panic("followUp: only for the duties without consensus")
	}
	d := *p.e.rs.duty
	d.Slot = specSlot(p.slot + 1)
	s := &postSut{out: p.out, e: p.e, n: p.n, q: p.q, tags: map[string]string{}, count: map[int]int{},
		ok: map[uint64]bool{}, lvDone: map[int]bool{}, valPK: p.valPK, pre: true, slot: p.slot + 1}
	_, s.roots = preObjects(&d)
	p.out.Op("NEXT", "")
	if err := p.e.r.StartNewDuty(p.e.logger, &d); err != nil {
		panic("StartNewDuty (follow-up): " + err.Error())
	}
	s.seen = len(p.e.bn.subs)
	ids := make([]string, 0, p.n)
	for _, op := range p.e.share.Committee {
		ids = append(ids, strconv.FormatUint(op.OperatorID, 10))
	}
	p.out.Op("NEW", "%s %d %d %d %d %s", p.e.rs.name, s.q, s.slot, len(s.roots), p.n, strings.Join(ids, " "))
	p.out.Count("follow-up-duty-" + p.e.rs.name)
	return s
}

func fakeRoot(id int) [32]byte { return sha256.Sum256([]byte(fmt.Sprintf("unexpected-root-%d", id))) }

func (s *postSut) realRoot(id int) [32]byte {
	if id >= 0 && id < len(s.roots) {
		return s.roots[id]
	}
	return fakeRoot(id)
}

// shareBytes is a pure function of (signer, root, tag): replay rebuilds the same bytes.
func (s *postSut) shareBytes(signer uint64, root [32]byte, tag string) []byte {
	sk := s.e.ks.Shares[signer]
	if sk == nil {
		sk = s.e.ks.Shares[1]
	}
	var b []byte
	if tag == "g" {
		b = sk.SignByte(root[:]).Serialize()
	} else {
		k, _ := strconv.Atoi(tag[1:])
		if k%2 == 1 {
			other := sha256.Sum256([]byte(fmt.Sprintf("other-message-%d", k)))
			b = sk.SignByte(other[:]).Serialize()
		} else {
			b = make([]byte, 96)
			seed := sha256.Sum256([]byte(fmt.Sprintf("garbage-%d", k)))
			for i := range b {
				b[i] = seed[i%32] ^ byte(i)
			}
			b[0] |= 0xe0 // compression flags that no valid point carries
		}
	}
	s.tags[hex.EncodeToString(b)] = tag
	return b
}

func (s *postSut) build(m amsg) *spectypes.SignedPartialSignatureMessage {
	typ := spectypes.PostConsensusPartialSig
	if s.pre {
		typ = spectypes.VoluntaryExitPartialSig
		if s.e.rs.role == spectypes.BNRoleValidatorRegistration {
			typ = spectypes.ValidatorRegistrationPartialSig
		}
	}
	msgs := spectypes.PartialSignatureMessages{Type: typ, Slot: specSlot(m.slot)}
	for _, in := range m.inner {
		root := s.realRoot(in.root)
		msgs.Messages = append(msgs.Messages, &spectypes.PartialSignatureMessage{
			PartialSignature: s.shareBytes(in.signer, root, in.tag), SigningRoot: root, Signer: in.signer})
	}
	// the outer operator signature is checked by message validation, not by the runner
	return &spectypes.SignedPartialSignatureMessage{Message: msgs, Signature: make([]byte, 96), Signer: m.signer}
}

func (s *postSut) inCommittee(id uint64) bool {
	for _, op := range s.e.share.Committee {
		if op.OperatorID == id {
			return true
		}
	}
	return false
}

// fullyCorrect: a committee member's message for this duty carrying its correct share for exactly the
// expected roots (the monitor's own reading of "a correct partial signature has arrived").
func (s *postSut) fullyCorrect(m amsg, real *spectypes.SignedPartialSignatureMessage) bool {
	if !s.inCommittee(m.signer) || m.slot != s.slot || len(m.inner) != len(s.roots) {
		return false
	}
	used := map[int]bool{}
	pk := s.e.ks.Shares[m.signer].GetPublicKey()
	for _, pm := range real.Message.Messages {
		idx := rootIndex(s.roots, pm.SigningRoot)
		if pm.Signer != m.signer || idx < 0 || used[idx] {
			return false
		}
		used[idx] = true
		if !blsVerify(pk, pm.SigningRoot, pm.PartialSignature) {
			return false
		}
	}
	return true
}

func (s *postSut) container() string {
	st := s.e.r.GetBaseRunner().State
	c := st.PostConsensusContainer
	if s.pre {
		c = st.PreConsensusContainer
	}
	var parts []string
	for _, r := range s.roots {
		sigs := c.GetSignatures(r)
		ids := make([]uint64, 0, len(sigs))
		for id := range sigs {
			ids = append(ids, id)
		}
		sort.Slice(ids, func(i, j int) bool { return ids[i] < ids[j] })
		var es []string
		for _, id := range ids {
			tag, ok := s.tags[hex.EncodeToString(sigs[id])]
			if !ok {
				tag = "?"
			}
			es = append(es, fmt.Sprintf("%d%s", id, tag))
		}
		if len(es) == 0 {
			parts = append(parts, "-")
		} else {
			parts = append(parts, strings.Join(es, ","))
		}
	}
	return strings.Join(parts, "|")
}

func (s *postSut) post(m amsg) {
	real := s.build(m)
	// harness self-check: the abstract tag must be what the real verifier says
	for i, in := range m.inner {
		if sk := s.e.ks.Shares[in.signer]; sk != nil {
			pm := real.Message.Messages[i]
			if blsVerify(sk.GetPublicKey(), pm.SigningRoot, pm.PartialSignature) != (in.tag == "g") {
				panic("harness: share tag does not match the real verifier")
			}
		}
	}
	s.out.Op("POST", "%s", m)
	s.e.bn.fail = !m.bnok
	var err error
	if s.pre {
		err = s.e.r.ProcessPreConsensus(s.e.logger, real)
	} else {
		err = s.e.r.ProcessPostConsensus(s.e.logger, real)
	}
	cls := errClass(err)
	s.out.Count("err-" + cls)
	var subs []string
	for _, sub := range s.e.bn.subs[s.seen:] {
		idx := rootIndex(s.roots, sub.root)
		valid := blsVerify(s.valPK, sub.root, sub.sig)
		v := 0
		if valid {
			v = 1
		}
		subs = append(subs, fmt.Sprintf("%d:%d", idx, v))
		// ---- monitor: validity and uniqueness of what reaches the beacon node
		if idx < 0 {
			s.out.ViolF("invalid submission: %s over an object that is not a decided object of the duty", sub.kind)
		}
		if !valid {
			s.out.ViolF("invalid submission: the %s signature does not verify under the validator public key", sub.kind)
		}
		s.count[idx]++
		if s.count[idx] == 2 {
			s.out.ViolF("double submission of decided object %d (%s)", idx, sub.kind)
		}
		s.out.Count("submit")
	}
	s.seen = len(s.e.bn.subs)
	sl := "-"
	if len(subs) > 0 {
		sl = strings.Join(subs, ",")
	}
	fin := 0
	if s.e.r.GetBaseRunner().State.Finished {
		fin = 1
	}
	s.out.Obs("post %s subs=%s fin=%d cont=%s", cls, sl, fin, s.container())
	if strings.HasPrefix(cls, "other:") {
		s.out.ViolF("unclassified runner error: %s", errText(err))
	}
	// ---- monitor: 2f+1 correct partial signatures arrived => every decided object was submitted
	if !m.bnok {
		s.bnFail = true
	}
	if s.fullyCorrect(m, real) {
		s.ok[m.signer] = true
	}
	if len(s.ok) >= s.q && !s.bnFail {
		for idx := range s.roots {
			if s.count[idx] == 0 && !s.lvDone[idx] {
				s.lvDone[idx] = true
				s.out.ViolF("no submission of decided object %d of %d although %d correct partial signatures (quorum %d) have arrived", idx, len(s.roots), len(s.ok), s.q)
			}
		}
	}
}

// ---- generators -------------------------------------------------------------------------------------------

func (s *postSut) honest(id uint64) amsg {
	m := amsg{signer: id, slot: s.slot, bnok: true}
	for i := range s.roots {
		m.inner = append(m.inner, ainner{signer: id, root: i, tag: "g"})
	}
	return m
}

func (s *postSut) withTags(id uint64, tag func(i int) string) amsg {
	m := s.honest(id)
	for i := range m.inner {
		m.inner[i].tag = tag(i)
	}
	return m
}

var postKinds = []string{"none", "garbage", "wrongsig", "wrongroot", "dup", "badgood", "goodbad", "badbad",
	"slot", "stranger", "zero", "mixed", "partial0", "partialL", "fewroots", "manyroots", "silent", "bnfail"}

// scenario: the committee's messages in the given order; sender c misbehaves in the given way.
// Returns the message sequence (late = messages appended after everybody has sent).
func (s *postSut) scenario(order []uint64, c uint64, kind string, k0 int) []amsg {
	var seq, late []amsg
	last := len(s.roots) - 1
	for _, id := range order {
		if id != c {
			seq = append(seq, s.honest(id))
			continue
		}
		all := func(t string) func(int) string { return func(int) string { return t } }
		only := func(j int, t string) func(int) string {
			return func(i int) string {
				if i == j {
					return t
				}
				return "g"
			}
		}
		switch kind {
		case "none":
			seq = append(seq, s.honest(id))
		case "garbage":
			seq = append(seq, s.withTags(id, all(fmt.Sprintf("b%d", 2*k0))))
		case "wrongsig":
			seq = append(seq, s.withTags(id, all(fmt.Sprintf("b%d", 2*k0+1))))
		case "wrongroot":
			m := s.honest(id)
			m.inner[0].root = 100 + k0
			seq = append(seq, m)
		case "dup":
			seq = append(seq, s.honest(id), s.honest(id))
			late = append(late, s.honest(id))
		case "badgood":
			seq = append(seq, s.withTags(id, all(fmt.Sprintf("b%d", 2*k0+1))))
			late = append(late, s.honest(id))
		case "goodbad":
			seq = append(seq, s.honest(id))
			late = append(late, s.withTags(id, all(fmt.Sprintf("b%d", 2*k0))))
		case "badbad":
			seq = append(seq, s.withTags(id, all(fmt.Sprintf("b%d", 2*k0+1))), s.withTags(id, all(fmt.Sprintf("b%d", 2*k0+3))))
			late = append(late, s.withTags(id, all(fmt.Sprintf("b%d", 2*k0+2))))
		case "slot":
			m := s.honest(id)
			m.slot++
			seq = append(seq, m)
		case "stranger":
			m := s.honest(id)
			m.signer = uint64(s.n + 1)
			for i := range m.inner {
				m.inner[i].signer = m.signer
			}
			seq = append(seq, m)
		case "zero":
			m := s.honest(id)
			m.signer = 0
			for i := range m.inner {
				m.inner[i].signer = 0
			}
			seq = append(seq, m)
		case "mixed": // outer and inner signer differ
			m := s.honest(id)
			m.inner[last].signer = id%uint64(s.n) + 1
			seq = append(seq, m)
		case "partial0": // wrong share for the first root only
			seq = append(seq, s.withTags(id, only(0, fmt.Sprintf("b%d", 2*k0+1))))
		case "partialL": // wrong share for the last root only, sent twice
			seq = append(seq, s.withTags(id, only(last, fmt.Sprintf("b%d", 2*k0+1))), s.withTags(id, only(last, fmt.Sprintf("b%d", 2*k0+3))))
		case "fewroots":
			m := s.honest(id)
			m.inner = m.inner[:len(m.inner)-1]
			seq = append(seq, m)
		case "manyroots":
			m := s.honest(id)
			m.inner = append(m.inner, ainner{signer: id, root: 0, tag: "g"})
			seq = append(seq, m)
		case "silent":
		case "bnfail":
			m := s.honest(id)
			m.bnok = false
			seq = append(seq, m)
		}
	}
	return append(seq, late...)
}

func permutations(ids []uint64) [][]uint64 {
	if len(ids) <= 1 {
		return [][]uint64{append([]uint64{}, ids...)}
	}
	var res [][]uint64
	for i := range ids {
		rest := append(append([]uint64{}, ids[:i]...), ids[i+1:]...)
		for _, p := range permutations(rest) {
			res = append(res, append([]uint64{ids[i]}, p...))
		}
	}
	return res
}

// postExhaustive: n = 4, every arrival order x every corruption kind x every corrupted sender.
func postExhaustive(out *hx.Out, roles []string, part, parts int) {
	ids := []uint64{1, 2, 3, 4}
	for _, role := range roles {
		for oi, order := range permutations(ids) {
			if parts > 1 && oi%parts != part {
				continue
			}
			for ki, kind := range postKinds {
				for _, c := range ids {
					if kind == "none" && c != 1 {
						continue
					}
					out.Case("post exhaustive role=%s order=%v kind=%s sender=%d", role, order, kind, c)
					out.Count("kind-" + kind)
					s := newPostSut(out, role, 4)
					for _, m := range s.scenario(order, c, kind, ki) {
						s.post(m)
					}
					if s.pre && kind != "none" {
						// the next duty on the same runner: the next operator misbehaves in the same way
						s2 := s.followUp()
						for _, m := range s2.scenario(order, c%4+1, kind, ki+1) {
							s2.post(m)
						}
					}
					out.End()
				}
			}
		}
	}
}

// postRandom: committee sizes 4/7/10/13, random order, up to f corrupted senders each with a random
// kind, plus random extra traffic (replays of earlier messages, strangers).
func postRandom(out *hx.Out, seed uint64, cases int, roles []string, sizes []int) {
	for c := 0; c < cases; c++ {
		r := hx.NewRand(seed, "post", uint64(c))
		role := roles[r.Intn(len(roles))]
		n := sizes[r.Intn(len(sizes))]
		f := (n - 1) / 3
		out.Case("post random seed=%d case=%d role=%s n=%d", seed, c, role, n)
		s := newPostSut(out, role, n)
	again:
		ids := make([]uint64, n)
		for i := range ids {
			ids[i] = uint64(i + 1)
		}
		for i := n - 1; i > 0; i-- {
			j := r.Intn(i + 1)
			ids[i], ids[j] = ids[j], ids[i]
		}
		nbad := r.Intn(f + 1)
		bad := map[uint64]string{}
		for len(bad) < nbad {
			bad[ids[r.Intn(n)]] = postKinds[1+r.Intn(len(postKinds)-1)]
		}
		var seq, late []amsg
		k0 := 0
		for _, id := range ids {
			kind, isBad := bad[id]
			if !isBad {
				seq = append(seq, s.honest(id))
				continue
			}
			k0 += 4
			out.Count("kind-" + kind)
			part := s.scenario([]uint64{id}, id, kind, k0)
			if len(part) > 0 {
				seq = append(seq, part[0])
				late = append(late, part[1:]...)
			}
		}
		// late messages of faulty senders are interleaved at random positions after their first one
		for _, m := range late {
			pos := r.Intn(len(seq) + 1)
			seq = append(seq[:pos], append([]amsg{m}, seq[pos:]...)...)
		}
		if r.Chance(1, 3) && len(seq) > 0 { // replay of an earlier message
			seq = append(seq, seq[r.Intn(len(seq))])
		}
		for _, m := range seq {
			s.post(m)
		}
		if s.pre && r.Chance(3, 5) { // up to a few duties in a row on the same runner
			s = s.followUp()
			goto again
		}
		out.End()
	}
}

// postFree: unrestricted traffic (any number of faulty senders): only safety can be expected, the
// model is still compared step by step.
func postFree(out *hx.Out, seed uint64, cases int, roles []string, sizes []int) {
	for c := 0; c < cases; c++ {
		r := hx.NewRand(seed, "postfree", uint64(c))
		role := roles[r.Intn(len(roles))]
		n := sizes[r.Intn(len(sizes))]
		out.Case("post free seed=%d case=%d role=%s n=%d", seed, c, role, n)
		s := newPostSut(out, role, n)
		steps := n + r.Intn(2*n)
		for i := 0; i < steps; i++ {
			id := uint64(1 + r.Intn(n))
			var m amsg
			switch r.Intn(6) {
			case 0, 1, 2:
				m = s.honest(id)
			case 3:
				t := fmt.Sprintf("b%d", r.Intn(6))
				m = s.withTags(id, func(int) string { return t })
			case 4:
				m = s.withTags(id, func(int) string {
					if r.Chance(1, 2) {
						return "g"
					}
					return fmt.Sprintf("b%d", r.Intn(6))
				})
			default:
				part := s.scenario([]uint64{id}, id, postKinds[1+r.Intn(len(postKinds)-1)], r.Intn(3))
				if len(part) == 0 {
					continue
				}
				m = part[0]
			}
			if r.Chance(1, 25) {
				m.bnok = false
			}
			s.post(m)
		}
		out.End()
	}
}

// ---- replay ------------------------------------------------------------------------------------------------

func parseAmsg(w []string) amsg {
	m := amsg{signer: u(w[0]), slot: u(w[1]), bnok: w[2] == "1"}
	n := int(u(w[3]))
	for i := 0; i < n; i++ {
		m.inner = append(m.inner, ainner{signer: u(w[4+3*i]), root: int(u(w[5+3*i])), tag: w[6+3*i]})
	}
	return m
}
