package main

// Mode `runner` (C03) - filled in below.

import "verifharness/hx"

type runnerSut struct{}

func (r *runnerSut) finish()              {}
func (r *runnerSut) replayOp(w []string)  {}
func newRunnerSutFromLine(out *hx.Out, w []string) *runnerSut { return &runnerSut{} }
func runnerGen(out *hx.Out, seed uint64, n int, roles []string) {}
