package main

// Mode `runner` (C03): one real validator.Validator (operator 1, all seven duty runners, QBFT
// controllers built as the operator builds them) receives histories derived from honest 4-node runs
// of the real code: start-duty events, pre-consensus, consensus and post-consensus messages - valid,
// stale, future, replayed, re-labelled to another role or another validator - plus crafted decided
// messages (valid quorum signatures over a chosen value).  Observed: every SignBeaconObject call of
// the node's key manager, every broadcast of a partial-signature message, the runner's state.

import (
	"context"
	"crypto/sha256"
	"fmt"
	"sort"
	"strings"

	"github.com/attestantio/go-eth2-client/spec"
	"github.com/attestantio/go-eth2-client/spec/altair"
	"github.com/attestantio/go-eth2-client/spec/phase0"
	specqbft "github.com/bloxapp/ssv-spec/qbft"
	spectypes "github.com/bloxapp/ssv-spec/types"
	"github.com/bloxapp/ssv-spec/types/testingutils"
	ssz "github.com/ferranbt/fastssz"
	"github.com/herumi/bls-eth-go-binary/bls"
	"go.uber.org/zap"

	"github.com/bloxapp/ssv/networkconfig"
	qbfttesting "github.com/bloxapp/ssv/protocol/v2/qbft/testing"
	"github.com/bloxapp/ssv/protocol/v2/ssv/queue"
	"github.com/bloxapp/ssv/protocol/v2/ssv/runner"
	"github.com/bloxapp/ssv/protocol/v2/ssv/validator"
	ssvtypes "github.com/bloxapp/ssv/protocol/v2/types"

	"verifharness/hx"
)

// ---- roles of the validator ----------------------------------------------------------------------------

var nodeRoles = []string{"att", "propc", "agg", "sc", "scc", "vreg", "vexit"}

// model-side role names
var roleName = map[spectypes.BeaconRole]string{
	spectypes.BNRoleAttester: "att", spectypes.BNRoleProposer: "prop", spectypes.BNRoleAggregator: "agg",
	spectypes.BNRoleSyncCommittee: "sc", spectypes.BNRoleSyncCommitteeContribution: "scc",
	spectypes.BNRoleValidatorRegistration: "vreg", spectypes.BNRoleVoluntaryExit: "vexit",
}

func roleOf(name string) spectypes.BeaconRole {
	for r, n := range roleName {
		if n == name {
			return r
		}
	}
	panic("role " + name)
}

var domainName = map[phase0.DomainType]string{
	spectypes.DomainRandao: "randao", spectypes.DomainSelectionProof: "selproof",
	spectypes.DomainSyncCommitteeSelectionProof: "scselproof", spectypes.DomainAttester: "attester",
	spectypes.DomainProposer: "proposer", spectypes.DomainAggregateAndProof: "aggproof",
	spectypes.DomainSyncCommittee: "synccom", spectypes.DomainContributionAndProof: "contrib",
	spectypes.DomainApplicationBuilder: "appbuilder", spectypes.DomainVoluntaryExit: "volexit",
}

func baseSlot(role spectypes.BeaconRole) uint64 {
	if role == spectypes.BNRoleProposer {
		return uint64(testingutils.TestingDutySlotCapella)
	}
	return uint64(testingutils.TestingDutySlot)
}

func dutyFor(role spectypes.BeaconRole, slot uint64) *spectypes.Duty {
	var d spectypes.Duty
	switch role {
	case spectypes.BNRoleAttester:
		d = testingutils.TestingAttesterDuty
	case spectypes.BNRoleProposer:
		d = *testingutils.TestingProposerDutyV(spec.DataVersionCapella)
	case spectypes.BNRoleAggregator:
		d = testingutils.TestingAggregatorDuty
	case spectypes.BNRoleSyncCommittee:
		d = testingutils.TestingSyncCommitteeDuty
	case spectypes.BNRoleSyncCommitteeContribution:
		d = testingutils.TestingSyncCommitteeContributionDuty
	case spectypes.BNRoleValidatorRegistration:
		d = testingutils.TestingValidatorRegistrationDuty
	case spectypes.BNRoleVoluntaryExit:
		d = testingutils.TestingVoluntaryExitDuty
	}
	d.Slot = phase0.Slot(slot)
	return &d
}

func signingRoot(obj ssz.HashRoot, dom phase0.DomainType) [32]byte {
	d, _ := testingutils.NewTestingBeaconNode().DomainData(0, dom)
	r, err := spectypes.ComputeETHSigningRoot(obj, d)
	if err != nil {
		panic(err)
	}
	return r
}

// preObjects: the slot-bound pre-consensus objects a duty has to sign when it starts, computed here
// from the duty alone (independent of the runner).
func preObjects(d *spectypes.Duty) (phase0.DomainType, [][32]byte) {
	epoch := spectypes.BeaconTestNetwork.EstimatedEpochAtSlot(d.Slot)
	switch d.Type {
	case spectypes.BNRoleProposer:
		return spectypes.DomainRandao, [][32]byte{signingRoot(spectypes.SSZUint64(epoch), spectypes.DomainRandao)}
	case spectypes.BNRoleAggregator:
		return spectypes.DomainSelectionProof, [][32]byte{signingRoot(spectypes.SSZUint64(d.Slot), spectypes.DomainSelectionProof)}
	case spectypes.BNRoleSyncCommitteeContribution:
		var rs [][32]byte
		for _, idx := range d.ValidatorSyncCommitteeIndices {
			data := &altair.SyncAggregatorSelectionData{Slot: d.Slot, SubcommitteeIndex: idx}
			rs = append(rs, signingRoot(data, spectypes.DomainSyncCommitteeSelectionProof))
		}
		return spectypes.DomainSyncCommitteeSelectionProof, rs
	case spectypes.BNRoleValidatorRegistration:
		return spectypes.DomainApplicationBuilder, [][32]byte{signingRoot(testingutils.TestingValidatorRegistration, spectypes.DomainApplicationBuilder)}
	case spectypes.BNRoleVoluntaryExit:
		ve := &phase0.VoluntaryExit{Epoch: epoch, ValidatorIndex: d.ValidatorIndex}
		return spectypes.DomainVoluntaryExit, [][32]byte{signingRoot(ve, spectypes.DomainVoluntaryExit)}
	}
	return phase0.DomainType{}, nil
}

// valueObjects: the duty objects contained in a decided value, extracted with the spec's getters.
func valueObjects(role spectypes.BeaconRole, cd *spectypes.ConsensusData) ([][32]byte, error) {
	switch role {
	case spectypes.BNRoleAttester:
		a, err := cd.GetAttestationData()
		if err != nil {
			return nil, err
		}
		return [][32]byte{signingRoot(a, spectypes.DomainAttester)}, nil
	case spectypes.BNRoleProposer:
		if _, b, err := cd.GetBlindedBlockData(); err == nil {
			return [][32]byte{signingRoot(b, spectypes.DomainProposer)}, nil
		}
		_, b, err := cd.GetBlockData()
		if err != nil {
			return nil, err
		}
		return [][32]byte{signingRoot(b, spectypes.DomainProposer)}, nil
	case spectypes.BNRoleAggregator:
		a, err := cd.GetAggregateAndProof()
		if err != nil {
			return nil, err
		}
		return [][32]byte{signingRoot(a, spectypes.DomainAggregateAndProof)}, nil
	case spectypes.BNRoleSyncCommittee:
		r, err := cd.GetSyncCommitteeBlockRoot()
		if err != nil {
			return nil, err
		}
		return [][32]byte{signingRoot(spectypes.SSZBytes(r[:]), spectypes.DomainSyncCommittee)}, nil
	case spectypes.BNRoleSyncCommitteeContribution:
		cs, err := cd.GetSyncCommitteeContributions()
		if err != nil {
			return nil, err
		}
		var rs [][32]byte
		for _, c := range cs {
			contrib := c.Contribution
			cp := &altair.ContributionAndProof{AggregatorIndex: cd.Duty.ValidatorIndex, Contribution: &contrib, SelectionProof: c.SelectionProofSig}
			rs = append(rs, signingRoot(cp, spectypes.DomainContributionAndProof))
		}
		return rs, nil
	}
	return nil, fmt.Errorf("no consensus for role")
}

// ---- a node -----------------------------------------------------------------------------------------------

type node struct {
	id   spectypes.OperatorID
	v    *validator.Validator
	envs map[spectypes.BeaconRole]*env
	km   *recKM
	bn   *recBN
	net  *recNet
	// what the controllers reported through NewDecidedHandler during the current call
	handled []*specqbft.SignedMessage
}

func newNode(id spectypes.OperatorID) *node {
	nd := &node{id: id, envs: map[spectypes.BeaconRole]*env{}, km: newRecKM(), bn: newRecBN(), net: newRecNet()}
	runners := runner.DutyRunners{}
	for _, name := range nodeRoles {
		rs := roleByName(name)
		e := newEnvWith(rs, 4, id, nd.km, nd.bn, nd.net, true)
		nd.envs[rs.role] = e
		runners[rs.role] = e.r
		if c := e.r.GetBaseRunner().QBFTController; c != nil {
			c.NewDecidedHandler = func(m *specqbft.SignedMessage) { nd.handled = append(nd.handled, m) }
		}
	}
	ctx, cancel := context.WithCancel(context.Background())
	share := *testingutils.TestingShare(keySet(4))
	share.OperatorID = id
	share.SharePubKey = keySet(4).Shares[id].GetPublicKey().Serialize()
	nd.v = validator.NewValidator(ctx, cancel, validator.Options{
		Network:       nd.net,
		Beacon:        nd.bn,
		BeaconNetwork: networkconfig.TestNetwork.Beacon,
		Storage:       qbfttesting.TestingStores(zap.NewNop()),
		SSVShare:      &ssvtypes.SSVShare{Share: share},
		Signer:        nd.km,
		DutyRunners:   runners,
	})
	return nd
}

func (nd *node) process(m *spectypes.SSVMessage) error {
	dm, err := queue.DecodeSSVMessage(m)
	if err != nil {
		return err
	}
	return nd.v.ProcessMessage(zap.NewNop(), dm)
}

// ---- honest transcripts ---------------------------------------------------------------------------------

type trKey struct {
	role spectypes.BeaconRole
	slot uint64
}

var transcripts = map[trKey][]*spectypes.SSVMessage{}

// transcript: 4 real nodes execute the duty; every broadcast message is delivered to every node
// (sender included) in broadcast order.  Returns the messages in that order.
func transcript(role spectypes.BeaconRole, slot uint64) []*spectypes.SSVMessage {
	k := trKey{role, slot}
	if t, ok := transcripts[k]; ok {
		return t
	}
	nodes := []*node{newNode(1), newNode(2), newNode(3), newNode(4)}
	for _, nd := range nodes {
		if err := nd.v.StartDuty(zap.NewNop(), dutyFor(role, slot)); err != nil {
			panic(fmt.Sprintf("honest StartDuty %s %d: %v", roleName[role], slot, err))
		}
	}
	var tr []*spectypes.SSVMessage
	seen := make([]int, len(nodes))
	for progress := true; progress; {
		progress = false
		var batch []*spectypes.SSVMessage
		for i, nd := range nodes {
			batch = append(batch, nd.net.msgs[seen[i]:]...)
			seen[i] = len(nd.net.msgs)
		}
		for _, m := range batch {
			progress = true
			tr = append(tr, m)
			for _, nd := range nodes {
				_ = nd.process(m)
			}
		}
	}
	transcripts[k] = tr
	return tr
}

// ---- crafted decided messages -----------------------------------------------------------------------------

// craftedValue returns the bytes a crafted decided message carries.
//
//	good:S    the value the honest run for slot S decided
//	bad:S     that value with a duty of another validator index (fails every role's value check)
//	junk      bytes that are not a ConsensusData
func craftedValue(role spectypes.BeaconRole, kind string) []byte {
	if kind == "junk" {
		return []byte{1, 2, 3, 4, 5, 6, 7, 8}
	}
	parts := strings.SplitN(kind, ":", 2)
	slot := u(parts[1])
	var val []byte
	for _, m := range transcript(role, slot) {
		if m.MsgType != spectypes.SSVConsensusMsgType {
			continue
		}
		sm := &specqbft.SignedMessage{}
		if sm.Decode(m.Data) == nil && sm.Message.MsgType == specqbft.ProposalMsgType {
			val = sm.FullData
			break
		}
	}
	if val == nil {
		panic("no proposal in transcript")
	}
	if parts[0] == "good" {
		return val
	}
	cd := &spectypes.ConsensusData{}
	if err := cd.Decode(val); err != nil {
		panic(err)
	}
	cd.Duty.ValidatorIndex += 7
	b, _ := cd.Encode()
	return b
}

func craftedDecided(role spectypes.BeaconRole, height uint64, kind string, nsigners int) *spectypes.SSVMessage {
	ks := keySet(4)
	full := craftedValue(role, kind)
	id := spectypes.NewMsgID(testingutils.TestingSSVDomainType, testingutils.TestingValidatorPubKey[:], role)
	root := sha256.Sum256(full)
	msg := &specqbft.Message{MsgType: specqbft.CommitMsgType, Height: specqbft.Height(height), Round: specqbft.FirstRound, Identifier: id[:], Root: root}
	var sks []*bls.SecretKey
	var ids []spectypes.OperatorID
	for i := 1; i <= nsigners; i++ {
		sks = append(sks, ks.Shares[spectypes.OperatorID(i)])
		ids = append(ids, spectypes.OperatorID(i))
	}
	sm := testingutils.MultiSignQBFTMsg(sks, ids, msg)
	sm.FullData = full
	data, _ := sm.Encode()
	return &spectypes.SSVMessage{MsgType: spectypes.SSVConsensusMsgType, MsgID: id, Data: data}
}

// ---- system under test ------------------------------------------------------------------------------------

type runnerSut struct {
	out     *hx.Out
	nd      *node
	rootIDs map[[32]byte]int
	valIDs  map[string]int
	nsign   int
	nbcast  int
	// monitor
	duties   map[spectypes.BeaconRole]*dutyMon
	lastSubs int
}

// dutyMon: what the monitor knows about the duty currently running on one runner.
type dutyMon struct {
	slot     uint64
	pre      map[[32]byte]bool // slot-bound pre-consensus objects of this duty
	startOp  int               // op number of the StartDuty step
	decided  map[[32]byte]bool // objects of the value the running instance decided first (validated)
	decideOp int
	signed   map[[32]byte]int
}

func newRunnerSut(out *hx.Out) *runnerSut {
	out.Op("RNEW", "4")
	return &runnerSut{out: out, nd: newNode(1), rootIDs: map[[32]byte]int{}, valIDs: map[string]int{}, duties: map[spectypes.BeaconRole]*dutyMon{}}
}

func newRunnerSutFromLine(out *hx.Out, w []string) *runnerSut { return newRunnerSut(out) }

func (s *runnerSut) rid(r [32]byte) int {
	if id, ok := s.rootIDs[r]; ok {
		return id
	}
	id := len(s.rootIDs)
	s.rootIDs[r] = id
	return id
}

func (s *runnerSut) vid(v []byte) int {
	if id, ok := s.valIDs[string(v)]; ok {
		return id
	}
	id := len(s.valIDs)
	s.valIDs[string(v)] = id
	return id
}

func (s *runnerSut) ridList(rs [][32]byte) string {
	if len(rs) == 0 {
		return "0"
	}
	p := []string{fmt.Sprint(len(rs))}
	for _, r := range rs {
		p = append(p, fmt.Sprint(s.rid(r)))
	}
	return strings.Join(p, " ")
}

// observe prints what the node did during the last call: signing calls, partial-signature
// broadcasts, and the state of the runner the call was routed to.
func (s *runnerSut) observe(role spectypes.BeaconRole, cls string) (signs []signCall) {
	signs = append(signs, s.nd.km.calls[s.nsign:]...)
	s.nsign = len(s.nd.km.calls)
	var sl []string
	for _, c := range signs {
		sl = append(sl, fmt.Sprintf("%s:%d", domainName[c.domain], s.rid(c.root)))
	}
	var bl []string
	for _, m := range s.nd.net.msgs[s.nbcast:] {
		if m.MsgType != spectypes.SSVPartialSignatureMsgType {
			continue
		}
		pm := &spectypes.SignedPartialSignatureMessage{}
		if pm.Decode(m.Data) != nil {
			continue
		}
		kind := "pre"
		if pm.Message.Type == spectypes.PostConsensusPartialSig {
			kind = "post"
		}
		var ids []string
		for _, im := range pm.Message.Messages {
			ids = append(ids, fmt.Sprint(s.rid(im.SigningRoot)))
		}
		bl = append(bl, fmt.Sprintf("%s/%s/%d/%s", roleName[m.MsgID.GetRoleType()], kind, uint64(pm.Message.Slot), strings.Join(ids, ".")))
	}
	s.nbcast = len(s.nd.net.msgs)
	join := func(l []string) string {
		if len(l) == 0 {
			return "-"
		}
		return strings.Join(l, ",")
	}
	s.out.Obs("r %s sign=%s bcast=%s state=%s", cls, join(sl), join(bl), s.state(role))
	return signs
}

func (s *runnerSut) state(role spectypes.BeaconRole) string {
	e := s.nd.envs[role]
	if e == nil {
		return "none"
	}
	st := e.r.GetBaseRunner().State
	if st == nil {
		return "idle"
	}
	run, dec, fin := "-", "-", 0
	if st.RunningInstance != nil {
		run = fmt.Sprint(uint64(st.RunningInstance.GetHeight()))
	}
	if st.DecidedValue != nil {
		b, _ := st.DecidedValue.Encode()
		dec = fmt.Sprint(s.vid(b))
	}
	if st.Finished {
		fin = 1
	}
	return fmt.Sprintf("%d/%s/%s/%d", uint64(st.StartingDuty.Slot), run, dec, fin)
}

func b01(b bool) int {
	if b {
		return 1
	}
	return 0
}

// ---- StartDuty ---------------------------------------------------------------------------------------------

func (s *runnerSut) start(role spectypes.BeaconRole, slot uint64) {
	d := dutyFor(role, slot)
	e := s.nd.envs[role]
	br := e.r.GetBaseRunner()
	ctrlH := uint64(0)
	if br.QBFTController != nil {
		ctrlH = uint64(br.QBFTController.Height)
	}
	dom, pre := preObjects(d)
	err := s.nd.v.StartDuty(zap.NewNop(), d)
	instOK := br.State != nil && br.State.RunningInstance != nil && uint64(br.State.StartingDuty.Slot) == slot
	cls := "ok"
	if err != nil {
		switch {
		case strings.Contains(err.Error(), "already passed"):
			cls = "passed"
		case strings.Contains(err.Error(), "can't start new duty runner instance"):
			cls = "nostart"
		default:
			cls = "other:" + strings.ReplaceAll(err.Error(), " ", "_")
		}
	}
	s.out.Op("RSTART", "%s %d %s ; %d %d", roleName[role], slot, s.ridList(pre), ctrlH, b01(instOK))
	signs := s.observe(role, cls)
	// ---- monitor
	if cls == "ok" || cls == "nostart" {
		dm := &dutyMon{slot: slot, pre: map[[32]byte]bool{}, startOp: s.out.Ops, signed: map[[32]byte]int{}}
		for _, r := range pre {
			dm.pre[r] = true
		}
		s.duties[role] = dm
	}
	for _, c := range signs {
		dm := s.duties[role]
		if cls == "passed" || dm == nil || !dm.pre[c.root] || c.domain != dom {
			s.out.ViolF("signature at StartDuty(%s, %d) that is not a pre-consensus proof of that duty (domain %s)", roleName[role], slot, domainName[c.domain])
			continue
		}
		dm.signed[c.root]++
		if dm.signed[c.root] > 1 {
			s.out.ViolF("pre-consensus object of duty (%s, %d) signed twice", roleName[role], slot)
		}
	}
}

// ---- messages ----------------------------------------------------------------------------------------------

type msgRef struct {
	kind    string // "T" transcript message, "U" the same with every partial signature replaced by a wrong one, "D" crafted decided
	trRole  spectypes.BeaconRole
	trSlot  uint64
	k       int
	height  uint64
	valKind string
	signers int
	asRole  spectypes.BeaconRole // MsgID role the message is delivered under
	ownPK   bool                 // MsgID carries this validator's public key
}

func (r msgRef) String() string {
	if r.kind == "T" || r.kind == "U" {
		return fmt.Sprintf("%s %s %d %d %s %d", r.kind, roleName[r.trRole], r.trSlot, r.k, roleName[r.asRole], b01(r.ownPK))
	}
	return fmt.Sprintf("D %s %d %s %d %s %d", roleName[r.trRole], r.height, r.valKind, r.signers, roleName[r.asRole], b01(r.ownPK))
}

func (s *runnerSut) resolve(r msgRef) *spectypes.SSVMessage {
	var m *spectypes.SSVMessage
	if r.kind == "T" || r.kind == "U" {
		t := transcript(r.trRole, r.trSlot)
		if r.k >= len(t) {
			return nil
		}
		m = t[r.k]
		if r.kind == "U" && m.MsgType == spectypes.SSVPartialSignatureMsgType {
			pm := &spectypes.SignedPartialSignatureMessage{}
			if pm.Decode(m.Data) == nil {
				other := sha256.Sum256([]byte("another message"))
				for _, im := range pm.Message.Messages {
					if sk := keySet(4).Shares[im.Signer]; sk != nil {
						im.PartialSignature = sk.SignByte(other[:]).Serialize()
					}
				}
				data, _ := pm.Encode()
				m = &spectypes.SSVMessage{MsgType: m.MsgType, MsgID: m.MsgID, Data: data}
			}
		}
	} else {
		m = craftedDecided(r.trRole, r.height, r.valKind, r.signers)
	}
	pk := testingutils.TestingValidatorPubKey[:]
	if !r.ownPK {
		pk = testingutils.TestingWrongValidatorPubKey[:]
	}
	return &spectypes.SSVMessage{MsgType: m.MsgType, MsgID: spectypes.NewMsgID(testingutils.TestingSSVDomainType, pk, r.asRole), Data: m.Data}
}

func consClass(err error) string {
	if err == nil {
		return "ok"
	}
	t := err.Error()
	switch {
	case strings.Contains(t, "msg ID doesn't match validator ID"):
		return "foreign"
	case strings.Contains(t, "could not get duty runner"):
		return "norunner"
	case strings.Contains(t, "no consensus phase"):
		return "nocons"
	case strings.Contains(t, "decided wrong instance"):
		return "wronginst"
	case strings.Contains(t, "failed to parse decided value"):
		return "decode"
	case strings.Contains(t, "decided ConsensusData invalid"):
		return "invalid"
	}
	return "ctrl"
}

func partialClass(err error) string {
	if err == nil {
		return "ok"
	}
	t := err.Error()
	switch {
	case strings.Contains(t, "msg ID doesn't match validator ID"):
		return "foreign"
	case strings.Contains(t, "no pre consensus sigs required"), strings.Contains(t, "no post consensus phase"):
		return "nophase"
	case strings.Contains(t, "no decided value"):
		return "nodecided"
	case strings.Contains(t, "no running consensus instance"):
		return "noinst"
	case strings.Contains(t, "consensus instance not decided"):
		return "notdecided"
	case strings.Contains(t, "can't start new duty runner instance"):
		return "nostart"
	}
	return errClass(err)
}

func (s *runnerSut) deliver(ref msgRef) {
	m := s.resolve(ref)
	if m == nil {
		return
	}
	role := ref.asRole
	e := s.nd.envs[role]
	br := e.r.GetBaseRunner()
	s.nd.handled = nil
	running := br.State != nil && !br.State.Finished
	switch m.MsgType {
	case spectypes.SSVConsensusMsgType:
		sm := &specqbft.SignedMessage{}
		if err := sm.Decode(m.Data); err != nil {
			panic(err)
		}
		h := sm.Message.Height
		// ---- the oracle: what the real controller is about to report, reconstructed around the call
		prev := false
		if running && br.State.RunningInstance != nil {
			prev, _ = br.State.RunningInstance.IsDecided()
		}
		var before bool
		var inst0 interface{ IsDecided() (bool, []byte) }
		if br.QBFTController != nil {
			if in := br.QBFTController.StoredInstances.FindInstance(h); in != nil {
				before, _ = in.IsDecided()
				inst0 = in
			}
		}
		err := s.nd.process(m)
		cls := consClass(err)
		var ret []byte
		reported := false
		if ref.ownPK && br.QBFTController != nil && cls != "ctrl" {
			if len(s.nd.handled) > 0 { // UponDecided ran
				if !before {
					reported, ret = true, s.nd.handled[0].FullData
				}
			} else if inst0 != nil && !before {
				if after, v := inst0.IsDecided(); after {
					reported, ret = true, v
				}
			}
		}
		oracle := fmt.Sprintf("%d %d", b01(cls == "ctrl"), b01(prev))
		var objs [][32]byte
		valid := false
		if reported {
			cd := &spectypes.ConsensusData{}
			decodes := cd.Decode(ret) == nil
			if decodes {
				if vc := e.rs.valCheck(s.nd.km); vc != nil {
					valid = vc(ret) == nil
				}
				if valid {
					objs, _ = valueObjects(role, cd)
				}
			}
			dcSlot := uint64(0)
			if decodes {
				dcSlot = uint64(cd.Duty.Slot)
			}
			oracle += fmt.Sprintf(" 1 %d %d %d %d %d %s", uint64(h), s.vid(ret), b01(decodes), b01(valid), dcSlot, s.ridList(objs))
		} else {
			oracle += " 0"
		}
		s.out.Op("RMSG", "%s C ; %s", ref, oracle)
		s.out.Count("cons-" + cls)
		signs := s.observe(role, cls)
		s.monitorCons(role, ref, uint64(h), prev, reported, valid, objs, signs)
	case spectypes.SSVPartialSignatureMsgType:
		pm := &spectypes.SignedPartialSignatureMessage{}
		if err := pm.Decode(m.Data); err != nil {
			panic(err)
		}
		kind := "P"
		if pm.Message.Type == spectypes.PostConsensusPartialSig {
			kind = "O"
		}
		instDecided := false
		if running && br.State.RunningInstance != nil {
			instDecided, _ = br.State.RunningInstance.IsDecided()
		}
		am := amsg{signer: pm.Signer, slot: uint64(pm.Message.Slot), bnok: true}
		for _, im := range pm.Message.Messages {
			tag := "b1"
			if sk := keySet(4).Shares[im.Signer]; sk != nil && blsVerify(sk.GetPublicKey(), im.SigningRoot, im.PartialSignature) {
				tag = "g"
			}
			am.inner = append(am.inner, ainner{signer: im.Signer, root: s.rid(im.SigningRoot), tag: tag})
		}
		err := s.nd.process(m)
		cls := partialClass(err)
		instOK := br.State != nil && br.State.RunningInstance != nil
		s.out.Op("RMSG", "%s %s %s ; %d %d", ref, kind, am, b01(instDecided), b01(instOK))
		s.out.Count("partial-" + cls)
		signs := s.observe(role, cls)
		for range signs {
			s.out.ViolF("a %s-consensus partial-signature message caused a validator-key signature", map[string]string{"P": "pre", "O": "post"}[kind])
		}
	}
}

// monitorCons: the theorem body on the recorded calls.  A consensus message may cause signatures only
// if the controller reported the first decision of the running instance (height = duty slot), the
// value passed the role's check, and then exactly the objects of that value, each once.
func (s *runnerSut) monitorCons(role spectypes.BeaconRole, ref msgRef, h uint64, prev, reported, valid bool, objs [][32]byte, signs []signCall) {
	if len(signs) == 0 {
		return
	}
	dm := s.duties[role]
	e := s.nd.envs[role]
	st := e.r.GetBaseRunner().State
	why := ""
	switch {
	case !ref.ownPK:
		why = "a message of another validator"
	case dm == nil || st == nil:
		why = "a consensus message while no duty was started"
	case !reported:
		why = "a consensus message that did not make the consensus instance decide"
	case h != dm.slot:
		why = fmt.Sprintf("a decision for height %d while the running duty is for slot %d", h, dm.slot)
	case !valid:
		why = "a decided value that does not pass the duty's value check"
	}
	if why != "" {
		s.out.ViolF("validator-key signature caused by %s (role %s)", why, roleName[role])
		return
	}
	if dm.decided == nil {
		dm.decided = map[[32]byte]bool{}
		for _, r := range objs {
			dm.decided[r] = true
		}
		dm.decideOp = s.out.Ops
	}
	for _, c := range signs {
		if !dm.decided[c.root] {
			s.out.ViolF("post-consensus signature over an object that is not contained in the value the running instance decided first (role %s)", roleName[role])
			continue
		}
		dm.signed[c.root]++
		if dm.signed[c.root] > 1 {
			s.out.ViolF("decided object signed %d times (role %s, slot %d): the decision of the running instance was acted upon again", dm.signed[c.root], roleName[role], dm.slot)
		}
	}
}

func (s *runnerSut) finish() {}

// ---- replay --------------------------------------------------------------------------------------------------

func (s *runnerSut) replayOp(w []string) {
	switch w[0] {
	case "RSTART":
		s.start(roleOf(w[1]), u(w[2]))
	case "RMSG":
		if w[1] == "T" || w[1] == "U" {
			s.deliver(msgRef{kind: w[1], trRole: roleOf(w[2]), trSlot: u(w[3]), k: int(u(w[4])), asRole: roleOf(w[5]), ownPK: w[6] == "1"})
		} else {
			s.deliver(msgRef{kind: "D", trRole: roleOf(w[2]), height: u(w[3]), valKind: w[4], signers: int(u(w[5])), asRole: roleOf(w[6]), ownPK: w[7] == "1"})
		}
	}
}

// ---- generators -----------------------------------------------------------------------------------------------

var consensusRoles = []spectypes.BeaconRole{spectypes.BNRoleAttester, spectypes.BNRoleProposer, spectypes.BNRoleAggregator,
	spectypes.BNRoleSyncCommittee, spectypes.BNRoleSyncCommitteeContribution}

func isDecidedRef(role spectypes.BeaconRole, slot uint64, k int) bool {
	m := transcript(role, slot)[k]
	if m.MsgType != spectypes.SSVConsensusMsgType {
		return false
	}
	sm := &specqbft.SignedMessage{}
	return sm.Decode(m.Data) == nil && sm.Message.MsgType == specqbft.CommitMsgType && len(sm.Signers) >= 3
}

func decidedIndex(role spectypes.BeaconRole, slot uint64) int {
	for k := range transcript(role, slot) {
		if isDecidedRef(role, slot, k) {
			return k
		}
	}
	return -1
}

func runnerGen(out *hx.Out, seed uint64, n int, roles []string) {
	var rl []spectypes.BeaconRole
	for _, r := range roles {
		rl = append(rl, roleOf(r))
	}
	if len(rl) == 0 {
		rl = append(append([]spectypes.BeaconRole{}, consensusRoles...), spectypes.BNRoleValidatorRegistration, spectypes.BNRoleVoluntaryExit)
	}
	for c := 0; c < n; c++ {
		r := hx.NewRand(seed, "runner", uint64(c))
		role := rl[r.Intn(len(rl))]
		S := baseSlot(role)
		tmpl := r.Intn(8)
		out.Case("runner seed=%d case=%d role=%s template=%d", seed, c, roleName[role], tmpl)
		out.Count("role-" + roleName[role])
		out.Count(fmt.Sprintf("template-%d", tmpl))
		s := newRunnerSut(out)
		own := func(k int, slot uint64) msgRef {
			return msgRef{kind: "T", trRole: role, trSlot: slot, k: k, asRole: role, ownPK: true}
		}
		T := transcript(role, S)
		order := make([]int, len(T))
		for i := range order {
			order[i] = i
		}
		perturb := func() {
			for i := 0; i < 1+r.Intn(4) && len(order) > 1; i++ { // a few local swaps
				a := r.Intn(len(order) - 1)
				order[a], order[a+1] = order[a+1], order[a]
			}
		}
		cons := false
		for _, cr := range consensusRoles {
			cons = cons || cr == role
		}
		noise := func() { // one message that must not cause any signature
			switch r.Intn(8) {
			case 7: // a partial-signature message of this duty whose shares are wrong
				var ks []int
				for k := range T {
					if T[k].MsgType == spectypes.SSVPartialSignatureMsgType {
						ks = append(ks, k)
					}
				}
				if len(ks) > 0 {
					ref := own(ks[r.Intn(len(ks))], S)
					ref.kind = "U"
					s.deliver(ref)
				}
			case 0: // stale duty
				t := transcript(role, S-1)
				s.deliver(own(r.Intn(len(t)), S-1))
			case 1: // future duty
				t := transcript(role, S+1)
				s.deliver(own(r.Intn(len(t)), S+1))
			case 2: // another validator
				ref := own(r.Intn(len(T)), S)
				ref.ownPK = false
				s.deliver(ref)
			case 3: // re-labelled to another role
				other := consensusRoles[r.Intn(len(consensusRoles))]
				ref := own(r.Intn(len(T)), S)
				ref.asRole = other
				s.deliver(ref)
			case 4:
				if cons { // decided value that fails the value check, at the running height
					s.deliver(msgRef{kind: "D", trRole: role, height: S, valKind: fmt.Sprintf("bad:%d", S), signers: 3, asRole: role, ownPK: true})
				}
			case 5:
				if cons { // valid decided message for another height
					hh := S + uint64(1+r.Intn(2))
					s.deliver(msgRef{kind: "D", trRole: role, height: hh, valKind: fmt.Sprintf("good:%d", S), signers: 3 + r.Intn(2), asRole: role, ownPK: true})
				}
			case 6:
				if cons {
					s.deliver(msgRef{kind: "D", trRole: role, height: S, valKind: "junk", signers: 3, asRole: role, ownPK: true})
				}
			}
		}
		switch tmpl {
		case 0: // the honest schedule, then everything replayed
			s.start(role, S)
			for _, k := range order {
				s.deliver(own(k, S))
			}
			for _, k := range order {
				if r.Chance(1, 2) {
					s.deliver(own(k, S))
				}
			}
		case 1: // perturbed order with noise
			perturb()
			s.start(role, S)
			for _, k := range order {
				if r.Chance(1, 4) {
					noise()
				}
				s.deliver(own(k, S))
				if r.Chance(1, 6) {
					s.deliver(own(k, S))
				}
			}
		case 2: // messages before any duty, then the duty, then a second start of the same and the next duty
			for i := 0; i < 3; i++ {
				s.deliver(own(r.Intn(len(T)), S))
			}
			s.start(role, S)
			cut := r.Intn(len(order) + 1)
			for _, k := range order[:cut] {
				s.deliver(own(k, S))
			}
			s.start(role, S)
			s.start(role, S+1)
			for _, k := range order[cut:] {
				s.deliver(own(k, S))
			}
			t1 := transcript(role, S+1)
			for k := range t1 {
				s.deliver(own(k, S+1))
			}
		case 3: // only noise around a running duty, then the honest schedule
			s.start(role, S)
			for i := 0; i < 6; i++ {
				noise()
			}
			for _, k := range order {
				s.deliver(own(k, S))
			}
			for i := 0; i < 3; i++ {
				noise()
			}
		case 4: // decided messages only (the node lags: it sees certificates, not the rounds)
			s.start(role, S)
			if cons {
				kd := decidedIndex(role, S)
				if r.Chance(1, 2) {
					s.deliver(msgRef{kind: "D", trRole: role, height: S, valKind: fmt.Sprintf("bad:%d", S), signers: 3, asRole: role, ownPK: true})
				}
				if kd >= 0 {
					s.deliver(own(kd, S))
					s.deliver(own(kd, S))
				}
				s.deliver(msgRef{kind: "D", trRole: role, height: S, valKind: fmt.Sprintf("good:%d", S), signers: 4, asRole: role, ownPK: true})
			}
			for _, k := range order {
				if r.Chance(1, 2) {
					s.deliver(own(k, S))
				}
			}
		case 5: // a lagging node: certificates of later duties arrive while the duty is still running, then the duty's own certificate, repeatedly
			s.start(role, S)
			if cons {
				pre := r.Intn(3)
				for _, k := range order {
					if pre == 0 {
						break
					}
					if T[k].MsgType == spectypes.SSVPartialSignatureMsgType {
						s.deliver(own(k, S))
					}
				}
				if r.Chance(1, 2) { // the duty decides first (certificate or the full honest round)
					if r.Chance(1, 2) {
						for _, k := range order {
							if T[k].MsgType == spectypes.SSVConsensusMsgType {
								s.deliver(own(k, S))
							}
						}
					} else if kd := decidedIndex(role, S); kd >= 0 {
						s.deliver(own(kd, S))
					}
				}
				for j := uint64(1); j <= uint64(1+r.Intn(3)); j++ {
					s.deliver(msgRef{kind: "D", trRole: role, height: S + j, valKind: fmt.Sprintf("good:%d", S), signers: 3, asRole: role, ownPK: true})
				}
				for i := 0; i < 2+r.Intn(2); i++ {
					s.deliver(msgRef{kind: "D", trRole: role, height: S, valKind: fmt.Sprintf("good:%d", S), signers: 3 + r.Intn(2), asRole: role, ownPK: true})
				}
			}
		case 6: // two duties back to back, messages of both interleaved
			s.start(role, S)
			t1 := transcript(role, S+1)
			i, j := 0, 0
			started := false
			for i < len(order) || j < len(t1) {
				if j >= len(t1) || (i < len(order) && r.Chance(2, 3)) {
					s.deliver(own(order[i], S))
					i++
				} else {
					if !started && r.Chance(1, 2) {
						s.start(role, S+1)
						started = true
					}
					s.deliver(own(j, S+1))
					j++
				}
			}
		default: // free: random picks from three transcripts and the noise generators
			if r.Chance(3, 4) {
				s.start(role, S)
			}
			for i := 0; i < 10+r.Intn(25); i++ {
				switch r.Intn(6) {
				case 0:
					noise()
				case 1:
					s.start(role, S+uint64(r.Intn(2)))
				default:
					s.deliver(own(r.Intn(len(T)), S))
				}
			}
		}
		out.End()
	}
}

var _ = sort.Ints
