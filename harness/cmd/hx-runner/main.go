// hx-runner drives the real duty runners of protocol/v2/ssv/runner (C05, C03).
//
//	hx-runner post-exh   [-roles a,b] [-part i -parts k]    C05: n=4, all orders x corruption kinds x corrupted sender
//	hx-runner post-rnd   -seed S -n N [-roles ..] [-sizes 4,7,10,13]   C05: <= f corrupted senders, random orders
//	hx-runner post-free  -seed S -n N [-roles ..] [-sizes ..]          C05: unrestricted traffic
//	hx-runner runner     -seed S -n N [-roles ..]           C03: histories derived from honest 4-node runs
//	hx-runner replay FILE                                   re-run the op lines of a corpus / replay file
//
// Output: CASE / op / OBS / MON lines (see harness/hx).
package main

import (
	"bufio"
	"flag"
	"fmt"
	"os"
	"strconv"
	"strings"

	"github.com/attestantio/go-eth2-client/spec/phase0"
	"github.com/herumi/bls-eth-go-binary/bls"

	"verifharness/hx"
)

func u(s string) uint64 { v, _ := strconv.ParseUint(s, 10, 64); return v }

func specSlot(s uint64) phase0.Slot { return phase0.Slot(s) }

func splitList(s string) []string {
	var r []string
	for _, x := range strings.Split(s, ",") {
		if x != "" {
			r = append(r, x)
		}
	}
	return r
}

func replay(out *hx.Out, path string) {
	fh, err := os.Open(path)
	if err != nil {
		fmt.Fprintln(os.Stderr, err)
		os.Exit(2)
	}
	defer fh.Close()
	var ps *postSut
	var rs *runnerSut
	next := false
	sc := bufio.NewScanner(fh)
	sc.Buffer(make([]byte, 1<<20), 1<<26)
	for sc.Scan() {
		w := strings.Fields(sc.Text())
		if len(w) == 0 {
			continue
		}
		switch w[0] {
		case "CASE":
			out.Case("replay %s", strings.Join(w[2:], " "))
			ps, rs = nil, nil
		case "END":
			if rs != nil {
				rs.finish()
			}
			out.End()
		case "NEXT":
			next = ps != nil
		case "NEW":
			if next && ps != nil {
				ps = ps.followUp() // writes its own NEXT / NEW lines
			} else {
				ps = newPostSut(out, w[1], int(u(w[5])))
			}
			next = false
		case "POST":
			if ps != nil {
				ps.post(parseAmsg(w[1:]))
			}
		default:
			if strings.HasPrefix(w[0], "R") && w[0] != "RNEW" && rs != nil {
				rs.replayOp(w)
			} else if w[0] == "RNEW" {
				rs = newRunnerSutFromLine(out, w)
			}
		}
	}
}

func main() {
	if len(os.Args) < 2 {
		fmt.Fprintln(os.Stderr, "usage: hx-runner post-exh|post-rnd|post-free|runner|replay ...")
		os.Exit(2)
	}
	_ = bls.Init(bls.BLS12_381)
	_ = bls.SetETHmode(bls.EthModeDraft07)
	mode := os.Args[1]
	fs := flag.NewFlagSet(mode, flag.ExitOnError)
	seed := fs.Uint64("seed", 1, "seed")
	n := fs.Int("n", 100, "cases")
	rolesF := fs.String("roles", "", "comma separated role names")
	sizesF := fs.String("sizes", "4,7,10,13", "committee sizes")
	part := fs.Int("part", 0, "post-exh: which slice of the arrival orders")
	parts := fs.Int("parts", 1, "post-exh: number of slices")
	_ = fs.Parse(os.Args[2:])
	out := hx.NewOut()
	defer out.Close()
	roles := splitList(*rolesF)
	var sizes []int
	for _, s := range splitList(*sizesF) {
		sizes = append(sizes, int(u(s)))
	}
	allPost := []string{"att", "prop", "propc", "propb", "agg", "sc", "scc", "vexit", "vreg"}
	switch mode {
	case "post-exh":
		if len(roles) == 0 {
			roles = allPost
		}
		postExhaustive(out, roles, *part, *parts)
	case "post-rnd":
		if len(roles) == 0 {
			roles = allPost
		}
		postRandom(out, *seed, *n, roles, sizes)
	case "post-free":
		if len(roles) == 0 {
			roles = allPost
		}
		postFree(out, *seed, *n, roles, sizes)
	case "runner":
		runnerGen(out, *seed, *n, roles)
	case "replay":
		replay(out, fs.Arg(0))
	default:
		fmt.Fprintln(os.Stderr, "unknown mode", mode)
		os.Exit(2)
	}
}
