package main

// Scripted adversaries (mode "attack"). The random scheduler of mode "net" rarely completes an attack
// that needs four or five coordinated moves; these scripts play the textbook ones to the end on real
// controllers, with random parameters (height, committee size, who is Byzantine, how the correct
// operators are split, delivery order). Each script stays within the property's fault bound except
// "solo", which exercises C02 only (its claims do not depend on the number of faulty operators).
//
//   equivocate  the Byzantine leader of round 1 proposes V to some and W to the others; all Byzantine
//               operators prepare and commit both; everything is delivered to everyone.
//   forged-rc   a correct operator decides V in round 1 alone; the others time out (prepared V) and
//               exchange round changes; the Byzantine leader of round 2 proposes W with a justification
//               that names the correct operators with fabricated unprepared round changes.
//   ignore-lock as forged-rc, but the justification is genuine (prepared round changes with their prepares):
//               the Byzantine leader of round 2 attaches everything and proposes another value all the same.
//   stale-rc    round 1 yields nothing; round 2 (correct leader) prepares and commits A, one operator decides;
//               the Byzantine leader of round 3 justifies another value with the unprepared round changes the
//               correct operators sent for round 2.
//   early-prop  correct operators split between round 1 and round 2; the Byzantine leader of round 1
//               sends a justified round-2 proposal.
//   solo        one correct operator; every other key plays a proposal / prepares / commits sequence for a
//               round r in 1..3 signed by the right or the wrong leader, justified or not.

import (
	"crypto/sha256"
	"fmt"

	specqbft "github.com/bloxapp/ssv-spec/qbft"
	spectypes "github.com/bloxapp/ssv-spec/types"

	"verifharness/hx"
)

var attackKinds = []string{"equivocate", "forged-rc", "early-prop", "solo", "ignore-lock", "stale-rc", "relabel"}

// publish-error and solo-netfail are not in the rotation: the model has no failing publish, so it is run without the model

func ofType(ms []*specqbft.SignedMessage, t specqbft.MessageType) []*specqbft.SignedMessage {
	var out []*specqbft.SignedMessage
	for _, m := range ms {
		if m != nil && m.Message.MsgType == t && len(m.Signers) == 1 {
			out = append(out, m)
		}
	}
	return out
}

// all delivers every message to every listed operator in a random order and returns what they broadcast.
func (s *sim) all(to []spectypes.OperatorID, ms []*specqbft.SignedMessage) (out []*specqbft.SignedMessage) {
	type d struct {
		to spectypes.OperatorID
		m  *specqbft.SignedMessage
	}
	var ds []d
	for _, id := range to {
		for _, m := range ms {
			ds = append(ds, d{id, m})
		}
	}
	for i := len(ds) - 1; i > 0; i-- {
		j := s.r.Intn(i + 1)
		ds[i], ds[j] = ds[j], ds[i]
	}
	for _, x := range ds {
		out = append(out, s.nodes[x.to].deliver(x.m)...)
	}
	return out
}

func attackMode(out *hx.Out, seed uint64, n int, only string) {
	for c := 0; c < n; c++ {
		attackOne(out, seed, uint64(c), only)
	}
}

func attackOne(out *hx.Out, seed, c uint64, only string) {
	r := hx.NewRand(seed, "qbft-attack", c)
	kind := attackKinds[int(c)%len(attackKinds)]
	if only != "" {
		kind = only
	}
	size := 4
	if r.Chance(1, 4) {
		size = 7
	}
	w := newWorld(size)
	f := (size - 1) / 3
	q := 2*f + 1
	s := &sim{w: w, r: r, nodes: map[spectypes.OperatorID]*node{}, byz: map[spectypes.OperatorID]bool{},
		height: specqbft.Height(r.Intn(2 * size)), level: "ctrl", stats: map[string]int{}}
	// leaders do not depend on the share's content beyond the committee; use a throw-away node to ask
	probe := w.newNode(1, s.height, "ctrl")
	ld := func(round uint64) spectypes.OperatorID {
		return specqbft.RoundRobinProposer(&specqbft.State{Share: probe.share, Height: s.height}, specqbft.Round(round))
	}
	setup := func(byz ...spectypes.OperatorID) {
		for _, b := range byz {
			s.byz[b] = true
		}
		for id := 1; id <= size; id++ {
			oid := spectypes.OperatorID(id)
			if !s.byz[oid] {
				s.honest = append(s.honest, oid)
				s.nodes[oid] = w.newNode(oid, s.height, "ctrl")
			}
		}
	}
	fill := func(must ...spectypes.OperatorID) []spectypes.OperatorID { // f Byzantine operators including must
		in := map[spectypes.OperatorID]bool{}
		var out []spectypes.OperatorID
		for _, m := range must {
			if !in[m] {
				in[m] = true
				out = append(out, m)
			}
		}
		for len(out) < f {
			x := spectypes.OperatorID(1 + r.Intn(size))
			if !in[x] {
				in[x] = true
				out = append(out, x)
			}
		}
		return out
	}
	V, W := valueBytes(uint64(5*r.Intn(4)+1)), valueBytes(uint64(5*r.Intn(4)+2))
	rootV, rootW := sha256.Sum256(V), sha256.Sum256(W)
	var byzIDs []spectypes.OperatorID
	byzAll := func(t specqbft.MessageType, round uint64, roots ...[32]byte) (ms []*specqbft.SignedMessage) {
		for _, b := range byzIDs {
			for _, rt := range roots {
				ms = append(ms, s.sign(b, s.base(t, round, rt), nil))
			}
		}
		return ms
	}
	desc := ""
	switch kind {
	case "equivocate":
		byzIDs = fill(ld(1))
		setup(byzIDs...)
		var started []*specqbft.SignedMessage
		for _, id := range s.honest {
			started = append(started, s.nodes[id].start(uint64(5*r.Intn(4)))...)
		}
		_ = started
		var X, Y []spectypes.OperatorID
		for _, id := range s.honest {
			if r.Chance(1, 2) {
				X = append(X, id)
			} else {
				Y = append(Y, id)
			}
		}
		desc = fmt.Sprintf("leader=%d V-to=%v W-to=%v", ld(1), X, Y)
		b := s.all(X, []*specqbft.SignedMessage{s.sign(ld(1), s.base(specqbft.ProposalMsgType, 1, rootV), V)})
		b = append(b, s.all(Y, []*specqbft.SignedMessage{s.sign(ld(1), s.base(specqbft.ProposalMsgType, 1, rootW), W)})...)
		preps := append(ofType(b, specqbft.PrepareMsgType), byzAll(specqbft.PrepareMsgType, 1, rootV, rootW)...)
		b = s.all(s.honest, preps)
		coms := append(ofType(b, specqbft.CommitMsgType), byzAll(specqbft.CommitMsgType, 1, rootV, rootW)...)
		s.all(s.honest, coms)
	case "forged-rc", "ignore-lock":
		// Byzantine leader of round 2 that does not lead round 1
		if ld(1) == ld(2) {
			return
		}
		byzIDs = []spectypes.OperatorID{ld(2)}
		for len(byzIDs) < f {
			x := spectypes.OperatorID(1 + r.Intn(size))
			dup := x == ld(1)
			for _, y := range byzIDs {
				dup = dup || x == y
			}
			if !dup {
				byzIDs = append(byzIDs, x)
			}
		}
		setup(byzIDs...)
		var b []*specqbft.SignedMessage
		for _, id := range s.honest {
			b = append(b, s.nodes[id].start(uint64(5*int(id)))...)
		}
		props := ofType(b, specqbft.ProposalMsgType)
		b = s.all(s.honest, props)
		b = s.all(s.honest, append(ofType(b, specqbft.PrepareMsgType), byzAll(specqbft.PrepareMsgType, 1, props[0].Message.Root)...))
		lucky := s.honest[r.Intn(len(s.honest))]
		coms := append(ofType(b, specqbft.CommitMsgType), byzAll(specqbft.CommitMsgType, 1, props[0].Message.Root)...)
		s.all([]spectypes.OperatorID{lucky}, coms)
		var rest []spectypes.OperatorID
		var rcs []*specqbft.SignedMessage
		for _, id := range s.honest {
			if id != lucky {
				rest = append(rest, id)
				rcs = append(rcs, ofType(s.nodes[id].timeout(), specqbft.RoundChangeMsgType)...)
			}
		}
		s.all(rest, rcs)
		desc = fmt.Sprintf("decides-alone=%d leader2=%d others=%v", lucky, ld(2), rest)
		msg := s.base(specqbft.ProposalMsgType, 2, rootW)
		var just []*specqbft.SignedMessage
		if kind == "ignore-lock" {
			just = append(just, rcs...) // genuine, prepared
			for _, rc := range rcs {
				if rc.Message.RoundChangePrepared() {
					pj, _ := rc.Message.GetRoundChangeJustifications()
					msg.PrepareJustification, _ = specqbft.MarshalJustifications(pj)
					break
				}
			}
		} else {
			for _, id := range rest {
				rc := s.sign(ld(2), s.base(specqbft.RoundChangeMsgType, 2, [32]byte{}), nil) // not that operator's signature
				rc.Signers = []spectypes.OperatorID{id}
				just = append(just, rc)
			}
		}
		for _, bz := range byzIDs {
			just = append(just, s.sign(bz, s.base(specqbft.RoundChangeMsgType, 2, [32]byte{}), nil))
		}
		msg.RoundChangeJustification, _ = specqbft.MarshalJustifications(just)
		b = s.all(rest, []*specqbft.SignedMessage{s.sign(ld(2), msg, W)})
		b = s.all(rest, append(ofType(b, specqbft.PrepareMsgType), byzAll(specqbft.PrepareMsgType, 2, rootW)...))
		s.all(rest, append(ofType(b, specqbft.CommitMsgType), byzAll(specqbft.CommitMsgType, 2, rootW)...))
	case "stale-rc":
		if ld(3) == ld(2) {
			return
		}
		byzIDs = []spectypes.OperatorID{ld(3)}
		for len(byzIDs) < f {
			x := spectypes.OperatorID(1 + r.Intn(size))
			dup := x == ld(2)
			for _, y := range byzIDs {
				dup = dup || x == y
			}
			if !dup {
				byzIDs = append(byzIDs, x)
			}
		}
		setup(byzIDs...)
		for _, id := range s.honest {
			s.nodes[id].start(uint64(5*int(id) + 1)) // round-1 proposals are lost
		}
		var rc2 []*specqbft.SignedMessage
		for _, id := range s.honest {
			rc2 = append(rc2, ofType(s.nodes[id].timeout(), specqbft.RoundChangeMsgType)...)
		}
		b := s.all(s.honest, rc2) // the correct leader of round 2 proposes
		props := ofType(b, specqbft.ProposalMsgType)
		if len(props) == 0 {
			desc = "no-round-2-proposal"
			break
		}
		b = s.all(s.honest, props[:1])
		b = s.all(s.honest, append(ofType(b, specqbft.PrepareMsgType), byzAll(specqbft.PrepareMsgType, 2, props[0].Message.Root)...))
		lucky := s.honest[r.Intn(len(s.honest))]
		s.all([]spectypes.OperatorID{lucky}, append(ofType(b, specqbft.CommitMsgType), byzAll(specqbft.CommitMsgType, 2, props[0].Message.Root)...))
		var rest []spectypes.OperatorID
		for _, id := range s.honest {
			if id != lucky {
				rest = append(rest, id)
				s.nodes[id].timeout() // into round 3 (their prepared round changes are withheld)
			}
		}
		desc = fmt.Sprintf("decides-in-round-2=%d leader3=%d others=%v", lucky, ld(3), rest)
		msg := s.base(specqbft.ProposalMsgType, 3, rootW)
		just := append([]*specqbft.SignedMessage{}, rc2...) // signed for round 2, unprepared
		for _, bz := range byzIDs {
			just = append(just, s.sign(bz, s.base(specqbft.RoundChangeMsgType, 2, [32]byte{}), nil))
		}
		msg.RoundChangeJustification, _ = specqbft.MarshalJustifications(just)
		b = s.all(rest, []*specqbft.SignedMessage{s.sign(ld(3), msg, W)})
		b = s.all(rest, append(ofType(b, specqbft.PrepareMsgType), byzAll(specqbft.PrepareMsgType, 3, rootW)...))
		s.all(rest, append(ofType(b, specqbft.CommitMsgType), byzAll(specqbft.CommitMsgType, 3, rootW)...))
	case "early-prop":
		if ld(1) == ld(2) {
			return
		}
		byzIDs = fill(ld(1))
		for _, b := range byzIDs {
			if b == ld(2) {
				return
			}
		}
		setup(byzIDs...)
		for _, id := range s.honest {
			s.nodes[id].start(uint64(5 * int(id)))
		}
		// f+1 correct operators time out; with the Byzantine round changes that is a quorum for round 2
		var late, early []spectypes.OperatorID
		var rcs []*specqbft.SignedMessage
		for i, id := range s.honest {
			if i < f+1 {
				late = append(late, id)
				rcs = append(rcs, ofType(s.nodes[id].timeout(), specqbft.RoundChangeMsgType)...)
			} else {
				early = append(early, id)
			}
		}
		for _, bz := range byzIDs {
			rcs = append(rcs, s.sign(bz, s.base(specqbft.RoundChangeMsgType, 2, [32]byte{}), nil))
		}
		desc = fmt.Sprintf("round1=%v round2=%v leader1=%d leader2=%d", early, late, ld(1), ld(2))
		msg := s.base(specqbft.ProposalMsgType, 2, rootW)
		msg.RoundChangeJustification, _ = specqbft.MarshalJustifications(rcs)
		b := s.all(s.honest, []*specqbft.SignedMessage{s.sign(ld(1), msg, W)})
		b = s.all(s.honest, append(ofType(b, specqbft.PrepareMsgType), byzAll(specqbft.PrepareMsgType, 2, rootW)...))
		s.all(s.honest, append(ofType(b, specqbft.CommitMsgType), byzAll(specqbft.CommitMsgType, 2, rootW)...))
	case "relabel":
		// a Byzantine operator's own commit, then copies of it with the SAME signature under other operators' ids:
		// one member's word must not become a quorum at the operator that has already verified the genuine message
		byzIDs = fill()
		setup(byzIDs...)
		if s.byz[ld(1)] {
			return
		}
		var b []*specqbft.SignedMessage
		for _, id := range s.honest {
			b = append(b, s.nodes[id].start(uint64(5*int(id)+1))...)
		}
		props := ofType(b, specqbft.ProposalMsgType)
		if len(props) != 1 {
			return
		}
		root1 := props[0].Message.Root
		b = s.all(s.honest, props)
		victim := s.honest[r.Intn(len(s.honest))]
		s.all(s.honest, append(ofType(b, specqbft.PrepareMsgType), byzAll(specqbft.PrepareMsgType, 1, root1)...))
		for _, nd := range s.nodes {
			nd.net.take() // the correct operators' commits are lost
		}
		genuine := s.sign(byzIDs[0], s.base(specqbft.CommitMsgType, 1, root1), nil)
		msgs := []*specqbft.SignedMessage{genuine}
		for id := 1; id <= size && len(msgs) < q+1; id++ {
			if oid := spectypes.OperatorID(id); oid != byzIDs[0] && oid != victim {
				cp := genuine.DeepCopy()
				cp.Signers = []spectypes.OperatorID{oid}
				msgs = append(msgs, cp)
			}
		}
		desc = fmt.Sprintf("victim=%d signer=%d relabelled=%d", victim, byzIDs[0], len(msgs)-1)
		for _, m := range msgs { // in this order: the genuine one first
			s.nodes[victim].deliver(m)
		}
	case "publish-error":
		// The commit of some correct operators goes out but its publish reports an error (partial publish).  One
		// operator decides V with those commits; the others, who saw no commit quorum (and a few of them no prepare
		// quorum), time out.  Whoever sent a commit for V is prepared for V, whatever its publish call returned: round 2
		// must not decide anything but V.  Not in the rotation (the model has no failing publish): monitor only.
		byzIDs = fill()
		setup(byzIDs...)
		if s.byz[ld(1)] {
			return // keep the first round honest: the value everybody prepares is the honest leader's
		}
		var b []*specqbft.SignedMessage
		for _, id := range s.honest {
			b = append(b, s.nodes[id].start(uint64(5*int(id)+1))...)
		}
		props := ofType(b, specqbft.ProposalMsgType)
		if len(props) != 1 {
			return
		}
		root1 := props[0].Message.Root
		b = s.all(s.honest, props)
		// P: the correct operators that see the prepare quorum (q - f of them), X in P decides alone
		perm := append([]spectypes.OperatorID{}, s.honest...)
		for i := len(perm) - 1; i > 0; i-- {
			j := r.Intn(i + 1)
			perm[i], perm[j] = perm[j], perm[i]
		}
		P, Z := perm[:q-f], perm[q-f:]
		X := P[0]
		if ld(2) == X {
			return
		}
		for _, id := range P[1:] {
			s.nodes[id].net.failAfter = true
		}
		b = s.all(P, append(ofType(b, specqbft.PrepareMsgType), byzAll(specqbft.PrepareMsgType, 1, root1)...))
		for _, id := range P[1:] {
			s.nodes[id].net.failAfter = false
		}
		s.all([]spectypes.OperatorID{X}, append(ofType(b, specqbft.CommitMsgType), byzAll(specqbft.CommitMsgType, 1, root1)...))
		var rest []spectypes.OperatorID
		var rcs, rcsP []*specqbft.SignedMessage
		inP := map[spectypes.OperatorID]bool{}
		for _, id := range P {
			inP[id] = true
		}
		for _, id := range s.honest {
			if id != X {
				rest = append(rest, id)
				rc := ofType(s.nodes[id].timeout(), specqbft.RoundChangeMsgType)
				if inP[id] {
					rcsP = append(rcsP, rc...)
				} else {
					rcs = append(rcs, rc...)
				}
			}
		}
		rcs = append(rcs, byzAll(specqbft.RoundChangeMsgType, 2, [32]byte{})...)
		desc = fmt.Sprintf("decides-alone=%d commit-publish-error=%v no-prepare-quorum=%v leader1=%d leader2=%d", X, P[1:], Z, ld(1), ld(2))
		// the round changes of the operators that sent a commit arrive last (the leader justifies its proposal with the
		// round change that completes the quorum)
		b = s.all(rest, rcs)
		b = append(b, s.all(rest, rcsP)...)
		rcs = append(rcs, rcsP...)
		if s.byz[ld(2)] {
			// the Byzantine leader of round 2 proposes W if it can show a quorum of UNPREPARED round changes
			var un []*specqbft.SignedMessage
			for _, m := range rcs {
				if !m.Message.RoundChangePrepared() {
					un = append(un, m)
				}
			}
			if len(un) < q {
				break
			}
			msg := s.base(specqbft.ProposalMsgType, 2, rootW)
			msg.RoundChangeJustification, _ = specqbft.MarshalJustifications(un[:q])
			b = []*specqbft.SignedMessage{s.sign(ld(2), msg, W)}
		} else {
			b = ofType(b, specqbft.ProposalMsgType)
		}
		if len(b) == 0 {
			break
		}
		root2 := b[0].Message.Root
		b = s.all(rest, b)
		b = s.all(rest, append(ofType(b, specqbft.PrepareMsgType), byzAll(specqbft.PrepareMsgType, 2, root2)...))
		s.all(rest, append(ofType(b, specqbft.CommitMsgType), byzAll(specqbft.CommitMsgType, 2, root2)...))
	case "solo-netfail":
		// one correct operator accepts the round-r proposal, its timeout finds the network down (the publish of
		// the round change fails), then a quorum of commits for round r+1 over the OLD root arrives
		me := spectypes.OperatorID(1 + r.Intn(size))
		for id := 1; id <= size; id++ {
			if spectypes.OperatorID(id) != me {
				byzIDs = append(byzIDs, spectypes.OperatorID(id))
			}
		}
		setup(byzIDs...)
		nd := s.nodes[me]
		nd.start(uint64(5 * r.Intn(4)))
		if ld(1) == me {
			return
		}
		nd.deliver(s.sign(ld(1), s.base(specqbft.ProposalMsgType, 1, rootW), W))
		if r.Chance(1, 2) { // sometimes the operator is prepared as well
			for i := 0; i < q && i < len(byzIDs); i++ {
				nd.deliver(s.sign(byzIDs[i], s.base(specqbft.PrepareMsgType, 1, rootW), nil))
			}
		}
		// the round change cannot be published - or cannot even be signed (key manager outage)
		signFail := r.Chance(1, 2)
		nd.forceNetFail, nd.forceSignFail = !signFail, signFail
		nd.timeout()
		nd.forceNetFail, nd.forceSignFail = false, false
		desc = fmt.Sprintf("me=%d leader1=%d sign-fail=%v", me, ld(1), signFail)
		for i := 0; i < q && i < len(byzIDs); i++ {
			nd.deliver(s.sign(byzIDs[i], s.base(specqbft.PrepareMsgType, 2, rootW), nil))
		}
		for i := 0; i < q && i < len(byzIDs); i++ {
			nd.deliver(s.sign(byzIDs[len(byzIDs)-1-i], s.base(specqbft.CommitMsgType, 2, rootW), nil))
		}
	case "solo":
		me := spectypes.OperatorID(1 + r.Intn(size))
		for id := 1; id <= size; id++ {
			if spectypes.OperatorID(id) != me {
				byzIDs = append(byzIDs, spectypes.OperatorID(id))
			}
		}
		setup(byzIDs...)
		nd := s.nodes[me]
		nd.start(uint64(5 * r.Intn(4)))
		for rep := 0; rep < 1+r.Intn(3) && !nd.hasDec; rep++ {
			round := uint64(1 + r.Intn(3))
			signer := ld(round)
			switch r.Intn(4) {
			case 0:
				signer = ld(1)
			case 1:
				signer = byzIDs[r.Intn(len(byzIDs))]
			}
			val, root := W, rootW
			if r.Chance(1, 4) {
				val = valueBytes(uint64(5*r.Intn(4) + 4)) // fails the value check
				root = sha256.Sum256(val)
			}
			msg := s.base(specqbft.ProposalMsgType, round, root)
			nrc := hx.Pick(r, q, q, q, q-1, 0)
			// the round changes either are unprepared, or all claim that the value was prepared in round 1 and carry a
			// quorum of prepares for it (signed by the other keys): the re-proposal of a "prepared" value
			prepared := round > 1 && nrc > 0 && r.Chance(1, 2)
			if round > 1 && nrc > 0 {
				var just, preps []*specqbft.SignedMessage
				if prepared {
					for i := 0; i < q && i < len(byzIDs); i++ {
						preps = append(preps, s.sign(byzIDs[i], s.base(specqbft.PrepareMsgType, 1, root), nil))
					}
				}
				for i := 0; i < nrc && i < len(byzIDs); i++ {
					if prepared {
						rc := s.base(specqbft.RoundChangeMsgType, round, root)
						rc.DataRound = 1
						rc.RoundChangeJustification, _ = specqbft.MarshalJustifications(preps)
						just = append(just, s.sign(byzIDs[i], rc, val))
					} else {
						just = append(just, s.sign(byzIDs[i], s.base(specqbft.RoundChangeMsgType, round, [32]byte{}), nil))
					}
				}
				msg.RoundChangeJustification, _ = specqbft.MarshalJustifications(just)
				if prepared {
					msg.PrepareJustification, _ = specqbft.MarshalJustifications(preps)
				}
			}
			desc += fmt.Sprintf(" round=%d signer=%d leader=%d rcs=%d prepared=%v", round, signer, ld(round), nrc, prepared)
			b := nd.deliver(s.sign(signer, msg, val))
			np := hx.Pick(r, q, q, q, q-1, size-1)
			preps := ofType(b, specqbft.PrepareMsgType)
			for i := 0; i < np-1 && i < len(byzIDs); i++ {
				preps = append(preps, s.sign(byzIDs[i], s.base(specqbft.PrepareMsgType, round, root), nil))
			}
			b = s.all([]spectypes.OperatorID{me}, preps)
			coms := ofType(b, specqbft.CommitMsgType)
			nc := hx.Pick(r, q, q, q, q-1, size-1)
			for i := 0; i < nc-1 && i < len(byzIDs); i++ {
				coms = append(coms, s.sign(byzIDs[len(byzIDs)-1-i], s.base(specqbft.CommitMsgType, round, root), nil))
			}
			s.all([]spectypes.OperatorID{me}, coms)
		}
	}
	out.Count("attack-" + kind)
	s.finish(out, fmt.Sprintf("attack seed=%d case=%d kind=%s only=%s size=%d byz=%v %s", seed, c, kind, orDash(only), size, keys(s.byz), desc), kind != "solo" && kind != "solo-netfail")
}

func orDash(s string) string {
	if s == "" {
		return "-"
	}
	return s
}

// finish runs the agreement monitor (C01) over the correct operators and writes one case per operator.
func (s *sim) finish(out *hx.Out, header string, agreement bool) {
	var agree []string
	var first *node
	decs := 0
	for _, id := range s.honest {
		nd := s.nodes[id]
		if !nd.hasDec {
			continue
		}
		decs++
		if first == nil {
			first = nd
		} else if agreement && string(first.decVal) != string(nd.decVal) {
			agree = append(agree, fmt.Sprintf("c01 operators %d and %d reported different decisions %s and %s backward-rewind-at=%v",
				first.id, nd.id, valueID(first.decVal), valueID(nd.decVal), s.rewoundNodes()))
		}
	}
	out.Count(fmt.Sprintf("attack-decided-%d-of-%d", decs, len(s.honest)))
	for _, id := range s.honest {
		nd := s.nodes[id]
		out.Case("%s node=%d height=%d decided=%d", header, id, uint64(s.height), decs)
		for _, l := range nd.lines {
			writeLine(out, l)
		}
		for _, v := range nd.viol {
			out.ViolF("%s", v)
		}
		if id == s.honest[0] {
			for _, v := range agree {
				out.ViolF("%s", v)
			}
		}
		out.End()
	}
}
