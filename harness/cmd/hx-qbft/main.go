// hx-qbft drives the real QBFT instance / controller of bloxapp/ssv (protocol/v2/qbft) side by side
// with the pinned reference instance of ssv-spec, in a simulated network with an adversarial
// scheduler (C01, C02, C06, C07).
//
//	hx-qbft net   -seed S -n N [-size 4|7] [-level inst|ctrl] [-byz K]
//	hx-qbft replay FILE
//
// Every history is written per node as one CASE (CFG / START / MSG / TIMEOUT / COMPACT lines at
// instance level, CSTART / CMSG / CTIMEOUT at controller level) followed by the node's observations.
// Monitors: c06 (node vs reference instance on the same inputs), c01 (two honest nodes decide
// different values), c02 (a reported decision without a verifying quorum certificate).
package main

import (
	"bufio"
	"bytes"
	"crypto/sha256"
	"encoding/binary"
	"encoding/hex"
	"encoding/json"
	"flag"
	"fmt"
	"os"
	"sort"
	"strconv"
	"strings"

	specqbft "github.com/bloxapp/ssv-spec/qbft"
	spectypes "github.com/bloxapp/ssv-spec/types"
	"github.com/bloxapp/ssv-spec/types/testingutils"
	"github.com/herumi/bls-eth-go-binary/bls"
	"go.uber.org/zap"

	"github.com/bloxapp/ssv/protocol/v2/qbft"
	"github.com/bloxapp/ssv/protocol/v2/qbft/controller"
	"github.com/bloxapp/ssv/protocol/v2/qbft/instance"
	qbftstorage "github.com/bloxapp/ssv/protocol/v2/qbft/storage"
	ssvtypes "github.com/bloxapp/ssv/protocol/v2/types"

	"verifharness/hx"
)

var recoverMode, strictRecover, netFail bool

var (
	logger     = zap.NewNop()
	identifier = spectypes.NewMsgID(testingutils.TestingSSVDomainType, testingutils.TestingValidatorPubKey[:], spectypes.BNRoleAttester)
	domain     = testingutils.TestingSSVDomainType
)

const maxValue = 40

// ---- values, roots ---------------------------------------------------------------------------------

func valueBytes(v uint64) []byte {
	b := make([]byte, 8)
	binary.BigEndian.PutUint64(b, v)
	return b
}

func valueID(data []byte) string {
	if len(data) == 0 {
		return "-"
	}
	if len(data) == 8 {
		return strconv.FormatUint(binary.BigEndian.Uint64(data), 10)
	}
	h := sha256.Sum256(data)
	return strconv.FormatUint(1000000+uint64(binary.BigEndian.Uint32(h[:4])), 10)
}

func valueCheck(data []byte) error {
	if len(data) != 8 {
		return fmt.Errorf("bad value")
	}
	if binary.BigEndian.Uint64(data)%5 == 4 {
		return fmt.Errorf("bad value")
	}
	return nil
}

type rootTable struct {
	known   map[[32]byte]uint64
	foreign map[[32]byte]uint64
}

func newRootTable() *rootTable {
	t := &rootTable{known: map[[32]byte]uint64{}, foreign: map[[32]byte]uint64{}}
	t.known[sha256.Sum256(nil)] = 2
	for v := uint64(0); v < 2000; v++ {
		t.known[sha256.Sum256(valueBytes(v))] = 2*v + 4
	}
	return t
}

func (t *rootTable) id(r [32]byte) uint64 {
	if r == ([32]byte{}) {
		return 0
	}
	if v, ok := t.known[r]; ok {
		return v
	}
	if v, ok := t.foreign[r]; ok {
		return v
	}
	v := uint64(2*len(t.foreign) + 1)
	t.foreign[r] = v
	return v
}

// ---- abstraction of a message ------------------------------------------------------------------------

type world struct {
	ks        *testingutils.TestKeySet
	committee []*spectypes.Operator
	roots     *rootTable
	n         int
}

// sigOK is the driver's OWN verdict on the signature (the model reads it as the message's sig bit): every listed
// signer is a committee member and the signature verifies, as an aggregate, under exactly the listed members' keys.
// It does not go through the node's VerifyByOperators - a node that accepts what this refuses diverges from the model.
func (w *world) sigOK(m *specqbft.SignedMessage) bool {
	var sig bls.Sign
	if len(m.Signers) == 0 || sig.Deserialize(m.Signature) != nil {
		return false
	}
	pks := make([]bls.PublicKey, 0, len(m.Signers))
	for _, id := range m.Signers {
		var op *spectypes.Operator
		for _, o := range w.committee {
			if o.OperatorID == id {
				op = o
			}
		}
		if op == nil {
			return false
		}
		var pk bls.PublicKey
		if pk.Deserialize(op.PubKey) != nil {
			return false
		}
		pks = append(pks, pk)
	}
	root, err := spectypes.ComputeSigningRoot(m, spectypes.ComputeSignatureDomain(domain, spectypes.QBFTSignatureType))
	if err != nil {
		return false
	}
	return sig.FastAggregateVerify(pks, root[:])
}

// nodeSigOK: what the node's own signature check says about the message.
func (w *world) nodeSigOK(m *specqbft.SignedMessage) bool {
	return ssvtypes.VerifyByOperators(m.Signature, m, domain, spectypes.QBFTSignatureType, w.committee) == nil
}

func b2i(b bool) int {
	if b {
		return 1
	}
	return 0
}

// abs renders a message as the tree the model reads.
func (w *world) abs(m *specqbft.SignedMessage, depth int) string {
	var sb strings.Builder
	rcj, err1 := m.Message.GetRoundChangeJustifications()
	pj, err2 := m.Message.GetPrepareJustifications()
	fmtOK := len(m.Message.Identifier) > 0 && err1 == nil && err2 == nil
	ident := 0
	if !bytes.Equal(m.Message.Identifier, identifier[:]) {
		ident = 1
	}
	fmt.Fprintf(&sb, "M %d %d %d %d %d %s %d %d %d %d", uint64(m.Message.MsgType), uint64(m.Message.Height),
		uint64(m.Message.Round), w.roots.id(m.Message.Root), uint64(m.Message.DataRound), valueID(m.FullData),
		b2i(w.sigOK(m)), b2i(fmtOK), ident, len(m.Signers))
	for _, s := range m.Signers {
		fmt.Fprintf(&sb, " %d", s)
	}
	if depth <= 0 || err1 != nil {
		rcj = nil
	}
	if depth <= 0 || err2 != nil {
		pj = nil
	}
	fmt.Fprintf(&sb, " %d", len(rcj))
	for _, x := range rcj {
		sb.WriteString(" " + w.abs(x, depth-1))
	}
	fmt.Fprintf(&sb, " %d", len(pj))
	for _, x := range pj {
		sb.WriteString(" " + w.abs(x, depth-1))
	}
	return sb.String()
}

// ---- recording network / timer ----------------------------------------------------------------------

// failSigner: the node's signer, failing on demand (key manager outage).
type failSigner struct {
	inner spectypes.SSVSigner
	fail  bool
}

func (f *failSigner) SignRoot(data spectypes.Root, sigType spectypes.SignatureType, pk []byte) (spectypes.Signature, error) {
	if f.fail {
		return nil, fmt.Errorf("injected signing failure")
	}
	return f.inner.SignRoot(data, sigType, pk)
}

// forceNetFail (set by scripted attacks): the next timeout of the node finds the network down.
type recNet struct {
	msgs      []*specqbft.SignedMessage
	fail      bool // the next publishes fail (network down)
	failAfter bool // the next publishes go out and THEN report an error (a partial publish: p2p Broadcast returns at the
	// first failing topic after earlier topics were published)
}

func (r *recNet) Broadcast(m *spectypes.SSVMessage) error {
	if r.fail {
		return fmt.Errorf("injected publish failure")
	}
	sm := &specqbft.SignedMessage{}
	if err := sm.Decode(m.Data); err != nil {
		panic(err)
	}
	r.msgs = append(r.msgs, sm)
	if r.failAfter {
		return fmt.Errorf("injected publish failure after the message went out")
	}
	return nil
}
func (r *recNet) take() []*specqbft.SignedMessage { x := r.msgs; r.msgs = nil; return x }

type recTimer struct{ arms [][2]uint64 }

func (t *recTimer) TimeoutForRound(h specqbft.Height, r specqbft.Round) {
	t.arms = append(t.arms, [2]uint64{uint64(h), uint64(r)})
}
func (t *recTimer) take() [][2]uint64 { x := t.arms; t.arms = nil; return x }

type specTimer struct {
	h    specqbft.Height
	arms [][2]uint64
}

func (t *specTimer) TimeoutForRound(r specqbft.Round) {
	t.arms = append(t.arms, [2]uint64{uint64(t.h), uint64(r)})
}
func (t *specTimer) take() [][2]uint64 { x := t.arms; t.arms = nil; return x }

type nopStore struct{}

func (nopStore) GetHighestInstance([]byte) (*qbftstorage.StoredInstance, error) { return nil, nil }
func (nopStore) GetInstancesInRange([]byte, specqbft.Height, specqbft.Height) ([]*qbftstorage.StoredInstance, error) {
	return nil, nil
}
func (nopStore) SaveInstance(*qbftstorage.StoredInstance) error                     { return nil }
func (nopStore) SaveHighestInstance(*qbftstorage.StoredInstance) error              { return nil }
func (nopStore) SaveHighestAndHistoricalInstance(*qbftstorage.StoredInstance) error { return nil }
func (nopStore) GetInstance([]byte, specqbft.Height) (*qbftstorage.StoredInstance, error) {
	return nil, nil
}
func (nopStore) CleanAllInstances(*zap.Logger, []byte) error { return nil }

// ---- one operator ------------------------------------------------------------------------------------

type node struct {
	forceNetFail  bool // the next timeout finds the network down (scripted attacks)
	forceSignFail bool // the next timeout finds the signer failing (scripted attacks)
	signer        *failSigner
	w             *world
	id            spectypes.OperatorID
	share         *spectypes.Share
	height        specqbft.Height
	level         string
	net           *recNet
	timer         *recTimer
	inst          *instance.Instance // level inst
	ctrl          *controller.Controller
	ref           *specqbft.Instance // reference, level inst only
	refNet        *recNet
	refTmr        *specTimer
	diverge       bool     // node was compacted: state roots are no longer comparable
	lines         []string // CASE body
	viol          []string
	decided       *specqbft.SignedMessage // first reported decision (controller level) / agg commit
	decVal        []byte
	hasDec        bool
	started       bool
	armed         uint64 // the round the real timer was last armed for (what a real timeout event would carry)
	rewound       bool   // UponDecided moved the round of this (undecided) instance backwards (signature of F6)
	nops          int
}

func (w *world) newNode(id spectypes.OperatorID, height specqbft.Height, level string) *node {
	share := &spectypes.Share{
		OperatorID: id, ValidatorPubKey: w.ks.ValidatorPK.Serialize(), SharePubKey: w.ks.Shares[id].GetPublicKey().Serialize(),
		DomainType: domain, Quorum: w.ks.Threshold, PartialQuorum: w.ks.PartialThreshold, Committee: w.committee,
	}
	nd := &node{w: w, id: id, share: share, height: height, level: level, net: &recNet{}, timer: &recTimer{},
		signer: &failSigner{inner: testingutils.NewTestingKeyManager()}}
	cfg := &qbft.Config{
		Signer: nd.signer, SigningPK: share.SharePubKey, Domain: domain, ValueCheckF: valueCheck,
		ProposerF: func(state *specqbft.State, round specqbft.Round) spectypes.OperatorID {
			return specqbft.RoundRobinProposer(state, round)
		},
		Storage: nopStore{}, Network: nd.net, Timer: nd.timer, SignatureVerification: true,
	}
	if level == "ctrl" {
		nd.ctrl = controller.NewController(identifier[:], share, cfg, false)
		nd.ctrl.Height = height
		// what the controller hands to the decided stream (exporter, validator) is a reported decision too
		nd.ctrl.NewDecidedHandler = func(msg *specqbft.SignedMessage) {
			if msg != nil && msg.Message.Height == height {
				nd.checkCertificate(msg, false)
			}
		}
	} else {
		nd.inst = instance.NewInstance(cfg, share, identifier[:], height)
		nd.refNet = &recNet{}
		nd.refTmr = &specTimer{h: height}
		nd.ref = specqbft.NewInstance(&specqbft.Config{
			Signer: testingutils.NewTestingKeyManager(), SigningPK: share.SharePubKey, Domain: domain, ValueCheckF: valueCheck,
			ProposerF: func(state *specqbft.State, round specqbft.Round) spectypes.OperatorID {
				return specqbft.RoundRobinProposer(state, round)
			},
			Network: nd.refNet, Timer: nd.refTmr,
		}, share, identifier[:], height)
	}
	var bad []string
	for v := 4; v < maxValue+20; v += 5 {
		bad = append(bad, strconv.Itoa(v))
	}
	ids := make([]string, len(w.committee))
	for i, o := range w.committee {
		ids[i] = strconv.FormatUint(o.OperatorID, 10)
	}
	nd.lines = append(nd.lines, fmt.Sprintf("CFG %d %s %d %d %d %d %s %d", len(ids), strings.Join(ids, " "), id,
		share.Quorum, share.PartialQuorum, len(bad), strings.Join(bad, " "), uint64(height)))
	return nd
}

func (nd *node) state() *specqbft.State {
	if nd.level == "ctrl" {
		if i := nd.ctrl.StoredInstances.FindInstance(nd.height); i != nil {
			return i.State
		}
		return nil
	}
	return nd.inst.State
}

func containerString(w *world, c *specqbft.MsgContainer) string {
	var rounds []uint64
	for r, l := range c.Msgs {
		if len(l) > 0 {
			rounds = append(rounds, uint64(r))
		}
	}
	sort.Slice(rounds, func(i, j int) bool { return rounds[i] < rounds[j] })
	var parts []string
	for _, r := range rounds {
		var ms []string
		for _, m := range c.Msgs[specqbft.Round(r)] {
			var ss []string
			for _, s := range m.Signers {
				ss = append(ss, strconv.FormatUint(s, 10))
			}
			ms = append(ms, fmt.Sprintf("%d/%s", w.roots.id(m.Message.Root), strings.Join(ss, "+")))
		}
		parts = append(parts, fmt.Sprintf("%d:%s", r, strings.Join(ms, ",")))
	}
	return strings.Join(parts, ";")
}

func (nd *node) obsState() {
	s := nd.state()
	if s == nil {
		nd.lines = append(nd.lines, "OBS st none")
		return
	}
	acc := "-"
	if s.ProposalAcceptedForCurrentRound != nil {
		acc = strconv.FormatUint(nd.w.roots.id(s.ProposalAcceptedForCurrentRound.Message.Root), 10)
	}
	lpv := "-"
	if s.LastPreparedValue != nil {
		lpv = valueID(s.LastPreparedValue)
	}
	dv := "-"
	if s.DecidedValue != nil {
		dv = valueID(s.DecidedValue)
	}
	nd.lines = append(nd.lines, fmt.Sprintf("OBS st %d %d %s %s %d %s P[%s] R[%s] C[%s] X[%s]", uint64(s.Round), uint64(s.LastPreparedRound),
		lpv, acc, b2i(s.Decided), dv, containerString(nd.w, s.ProposeContainer), containerString(nd.w, s.PrepareContainer),
		containerString(nd.w, s.CommitContainer), containerString(nd.w, s.RoundChangeContainer)))
}

// obsOuts writes timers and broadcasts in the order the model produces them: the code arms the timer
// before it broadcasts in every rule except UponRoundTimeout (broadcast first, deferred bump + timer).
func (nd *node) obsOuts(timerFirst bool) (bcasts []*specqbft.SignedMessage) {
	bcasts = nd.net.take()
	arms := nd.timer.take()
	if len(arms) > 0 {
		nd.armed = arms[len(arms)-1][1]
	}
	pt := func() {
		for _, a := range arms {
			nd.lines = append(nd.lines, fmt.Sprintf("OBS out timer %d %d", a[0], a[1]))
		}
	}
	if timerFirst {
		pt()
	}
	for _, b := range bcasts {
		nd.lines = append(nd.lines, "OBS out bcast "+nd.w.abs(b, 3))
	}
	if !timerFirst {
		pt()
	}
	return bcasts
}

func (nd *node) violf(tag, format string, a ...any) {
	nd.lines = append(nd.lines, "MON viol "+tag+" "+fmt.Sprintf(format, a...))
}

func encodeAll(ms []*specqbft.SignedMessage) string {
	var sb strings.Builder
	for _, m := range ms {
		b, _ := m.Encode()
		sb.WriteString(hex.EncodeToString(b))
		sb.WriteByte('|')
	}
	return sb.String()
}

// compareRef checks the C06 observables against the reference instance after the same input.
func (nd *node) compareRef(what string, nodeErr, refErr error, nodeB []*specqbft.SignedMessage, nodeDec, refDec bool, nodeVal, refVal []byte) {
	refB := nd.refNet.take()
	nd.refTmr.take()
	if (nodeErr == nil) != (refErr == nil) {
		nd.violf("c06", "%s: node error=%v reference error=%v", what, nodeErr, refErr)
	}
	if encodeAll(nodeB) != encodeAll(refB) {
		nd.violf("c06", "%s: node broadcast %d messages, reference %d, or their encodings differ", what, len(nodeB), len(refB))
	}
	if nodeDec != refDec || !bytes.Equal(nodeVal, refVal) {
		nd.violf("c06", "%s: node decided=%v/%s reference decided=%v/%s", what, nodeDec, valueID(nodeVal), refDec, valueID(refVal))
	}
	if !nd.diverge {
		r1, _ := nd.inst.State.GetRoot()
		r2, _ := nd.ref.State.GetRoot()
		if r1 != r2 {
			nd.violf("c06", "%s: state roots differ without any compaction", what)
		}
	}
}

func recovered(f func()) (p any) {
	defer func() { p = recover() }()
	f()
	return nil
}

func (nd *node) start(v uint64) []*specqbft.SignedMessage {
	nd.nops++
	nd.started = true
	val := valueBytes(v)
	if nd.level == "ctrl" {
		nd.lines = append(nd.lines, fmt.Sprintf("CSTART %d", v))
		var err error
		p := recovered(func() { err = nd.ctrl.StartNewInstance(logger, nd.height, val) })
		if err != nil {
			nd.lines = append(nd.lines, "# StartNewInstance error: "+err.Error())
		}
		nd.lines = append(nd.lines, fmt.Sprintf("OBS start %d", b2i(p != nil)))
		out := nd.obsOuts(true)
		nd.obsState()
		return out
	}
	nd.lines = append(nd.lines, fmt.Sprintf("START %d", v))
	p := recovered(func() { nd.inst.Start(logger, val, nd.height) })
	nd.lines = append(nd.lines, fmt.Sprintf("OBS start %d", b2i(p != nil)))
	out := nd.obsOuts(true)
	nd.obsState()
	p2 := recovered(func() { nd.ref.Start(val, nd.height) })
	if (p != nil) != (p2 != nil) {
		nd.violf("c06", "start: node panic=%v reference panic=%v", p, p2)
	}
	nd.compareRef("start", nil, nil, out, nd.inst.State.Decided, nd.ref.State.Decided, nd.inst.State.DecidedValue, nd.ref.State.DecidedValue)
	return out
}

// checkCertificate is the C02 monitor: a reported decision must carry a verifying quorum certificate.
func (nd *node) checkCertificate(d *specqbft.SignedMessage, local bool) {
	uniq := map[spectypes.OperatorID]bool{}
	for _, s := range d.Signers {
		if s == 0 || uniq[s] {
			nd.violf("c02", "reported decision with zero or repeated signer %v", d.Signers)
		}
		uniq[s] = true
		found := false
		for _, o := range nd.w.committee {
			if o.OperatorID == s {
				found = true
			}
		}
		if !found {
			nd.violf("c02", "reported decision with non-committee signer %d", s)
		}
	}
	if uint64(len(uniq)) < nd.share.Quorum {
		nd.violf("c02", "reported decision with %d signers, quorum is %d", len(uniq), nd.share.Quorum)
	}
	if d.Message.MsgType != specqbft.CommitMsgType {
		nd.violf("c02", "reported decision is not a commit")
	}
	if !nd.w.sigOK(d) {
		nd.violf("c02", "reported decision whose aggregate signature does not verify over the listed signers")
	}
	if r := sha256.Sum256(d.FullData); r != d.Message.Root {
		nd.violf("c02", "reported decision whose value does not hash to the certified root")
	}
	if local {
		if valueCheck(d.FullData) != nil {
			nd.violf("c02", "locally reached decision on a value that fails the value check")
		}
		if st := nd.state(); st != nil && st.ProposalAcceptedForCurrentRound != nil {
			p := st.ProposalAcceptedForCurrentRound
			ld := specqbft.RoundRobinProposer(&specqbft.State{Share: nd.share, Height: nd.height}, d.Message.Round)
			if len(p.Signers) != 1 || p.Signers[0] != ld || p.Message.Round != d.Message.Round {
				nd.violf("c02", "locally reached decision of round %d rests on a proposal of round %d signed by %v; the leader of round %d is %d",
					uint64(d.Message.Round), uint64(p.Message.Round), p.Signers, uint64(d.Message.Round), ld)
			}
			if sha256.Sum256(p.FullData) != d.Message.Root {
				nd.violf("c02", "locally reached decision whose certified root is not the hash of the accepted proposal's value")
			}
		}
	}
}

func (nd *node) deliver(m *specqbft.SignedMessage) []*specqbft.SignedMessage {
	nd.nops++
	tree := nd.w.abs(m, 3)
	if nd.level == "ctrl" {
		nd.lines = append(nd.lines, "CMSG "+tree)
		var dec *specqbft.SignedMessage
		var err error
		roundBefore, undecidedBefore := uint64(0), false
		if st := nd.state(); st != nil {
			roundBefore, undecidedBefore = uint64(st.Round), !st.Decided
		}
		p := recovered(func() {
			dec, err = nd.ctrl.ProcessMsg(logger, m)
			// BaseRunner.compactInstanceIfNeeded
			if inst := nd.ctrl.StoredInstances.FindInstance(m.Message.Height); inst != nil {
				if controller.IsDecidedMsg(nd.share, m) || m.Message.MsgType == specqbft.RoundChangeMsgType {
					instance.Compact(inst.State, m)
				}
			}
		})
		if st := nd.state(); st != nil && undecidedBefore && st.Decided && controller.IsDecidedMsg(nd.share, m) &&
			m.Message.Height == nd.height && uint64(st.Round) < roundBefore {
			nd.rewound = true
			nd.lines = append(nd.lines, fmt.Sprintf("# backward rewind: a decided message of round %d moved the undecided instance from round %d back", uint64(st.Round), roundBefore))
		}
		switch {
		case p != nil:
			nd.lines = append(nd.lines, "OBS cmsg panic")
		case err != nil:
			nd.lines = append(nd.lines, "OBS cmsg err")
		case dec == nil:
			nd.lines = append(nd.lines, "OBS cmsg none")
		default:
			nd.lines = append(nd.lines, "OBS cmsg decided "+nd.w.abs(dec, 3))
			nd.checkCertificate(dec, !controller.IsDecidedMsg(nd.share, m))
			if !nd.hasDec {
				nd.hasDec, nd.decided, nd.decVal = true, dec, dec.FullData
			} else if !bytes.Equal(nd.decVal, dec.FullData) && nd.decided.Message.Height == dec.Message.Height {
				nd.violf("c01", "operator %d reported two different decisions %s and %s", nd.id, valueID(nd.decVal), valueID(dec.FullData))
			}
		}
		out := nd.obsOuts(true)
		nd.obsState()
		return out
	}
	nd.lines = append(nd.lines, "MSG "+tree)
	var (
		dec  bool
		val  []byte
		agg  *specqbft.SignedMessage
		err  error
		rdec bool
		rval []byte
		rerr error
	)
	p := recovered(func() { dec, val, agg, err = nd.inst.ProcessMsg(logger, m) })
	switch {
	case p != nil:
		nd.lines = append(nd.lines, "OBS msg panic")
	case err != nil:
		nd.lines = append(nd.lines, "OBS msg err")
	default:
		a := "-"
		if agg != nil {
			a = nd.w.abs(agg, 3)
			nd.checkCertificate(agg, true)
		}
		v := "-"
		if val != nil {
			v = valueID(val)
		}
		nd.lines = append(nd.lines, fmt.Sprintf("OBS msg ok %d %s %s", b2i(dec), v, a))
		if dec && !nd.hasDec {
			nd.hasDec, nd.decVal, nd.decided = true, val, agg
		}
	}
	out := nd.obsOuts(true)
	nd.obsState()
	p2 := recovered(func() { rdec, rval, _, rerr = nd.ref.ProcessMsg(m) })
	if (p != nil) != (p2 != nil) {
		nd.violf("c06", "msg: node panic=%v reference panic=%v", p, p2)
	} else if p == nil {
		nd.compareRef("msg", err, rerr, out, dec, rdec, val, rval)
	} else {
		nd.refNet.take()
	}
	return out
}

func (nd *node) timeout() []*specqbft.SignedMessage {
	nd.nops++
	s := nd.state()
	if s == nil {
		return nil
	}
	if nd.level == "ctrl" {
		// the timeout event carries the round the timer was armed for, as the real RoundTimer's callback does
		r := nd.armed
		if r == 0 {
			r = uint64(s.Round)
		}
		nd.lines = append(nd.lines, fmt.Sprintf("CTIMEOUT %d %d", uint64(nd.height), r))
		ev := &ssvtypes.EventMsg{Type: ssvtypes.Timeout}
		ev.Data, _ = json.Marshal(&ssvtypes.TimeoutData{Height: nd.height, Round: specqbft.Round(r)})
		could := !s.Decided && r >= uint64(s.Round) && nd.ctrl.StoredInstances.FindInstance(nd.height).CanProcessMessages()
		if r < uint64(s.Round) && !s.Decided {
			nd.violf("c07", "the round timer of operator %d is armed for round %d although the instance is in round %d: its timeout is discarded as old", nd.id, r, uint64(s.Round))
		}
		// -netfail: every third timeout of an operator finds the network down (the publish of the round change
		// fails); the timeout must move the operator on and re-arm the timer all the same
		down := (netFail && nd.nops%3 == 0) || nd.forceNetFail || nd.forceSignFail
		nd.net.fail = down && !nd.forceSignFail
		nd.signer.fail = nd.forceSignFail
		err := nd.ctrl.OnTimeout(logger, *ev)
		nd.net.fail = false
		nd.signer.fail = false
		nd.lines = append(nd.lines, fmt.Sprintf("OBS timeout %d", b2i(err == nil)))
		out := nd.obsOuts(false)
		nd.obsState()
		if down {
			if could {
				if s2 := nd.state(); uint64(s2.Round) != r+1 || s2.ProposalAcceptedForCurrentRound != nil || nd.armed != r+1 {
					nd.violf("c07", "the timeout of round %d found the network down or the signer failing (%v): the operator is in round %d with the timer armed for round %d, accepted proposal cleared: %v - it must be in round %d with the timer re-armed",
						r, err, uint64(s2.Round), nd.armed, s2.ProposalAcceptedForCurrentRound == nil, r+1)
				}
			}
			return out
		}
		nd.checkTimeout(could, r, err, out)
		return out
	}
	nd.lines = append(nd.lines, "TIMEOUT")
	before := uint64(nd.inst.State.Round)
	could := nd.inst.CanProcessMessages()
	err := nd.inst.UponRoundTimeout(logger)
	nd.lines = append(nd.lines, fmt.Sprintf("OBS timeout %d", b2i(err == nil)))
	out := nd.obsOuts(false)
	nd.obsState()
	nd.checkTimeout(could, before, err, out)
	rerr := nd.ref.UponRoundTimeout()
	nd.compareRef("timeout", err, rerr, out, nd.inst.State.Decided, nd.ref.State.Decided, nd.inst.State.DecidedValue, nd.ref.State.DecidedValue)
	return out
}

// checkTimeout is the C07 monitor for the timeout rule: before the cut-off a timeout moves the operator
// to the next round, clears the accepted proposal and announces the new round.
func (nd *node) checkTimeout(could bool, before uint64, err error, out []*specqbft.SignedMessage) {
	if !could {
		return
	}
	s := nd.state()
	if err != nil {
		nd.violf("c07", "timeout before the cut-off returned an error: %v", err)
		return
	}
	if uint64(s.Round) != before+1 || s.ProposalAcceptedForCurrentRound != nil {
		nd.violf("c07", "after a timeout in round %d the operator is in round %d (accepted proposal cleared: %v)", before, uint64(s.Round), s.ProposalAcceptedForCurrentRound == nil)
	}
	ok := false
	for _, m := range out {
		if m.Message.MsgType == specqbft.RoundChangeMsgType && uint64(m.Message.Round) == before+1 && len(m.Signers) == 1 && m.Signers[0] == nd.id {
			ok = true
		}
	}
	if !ok {
		nd.violf("c07", "no round-change for round %d was broadcast after the timeout", before+1)
	}
}

func (nd *node) compact() {
	if nd.level == "ctrl" || nd.state() == nil {
		return
	}
	nd.nops++
	nd.lines = append(nd.lines, "COMPACT")
	instance.Compact(nd.inst.State, nil)
	nd.diverge = true
	nd.obsState()
}

// ---- Byzantine message factory ------------------------------------------------------------------------

type pending struct {
	m  *specqbft.SignedMessage
	to spectypes.OperatorID
}

type sim struct {
	w          *world
	r          *hx.Rand
	nodes      map[spectypes.OperatorID]*node
	byz        map[spectypes.OperatorID]bool
	honest     []spectypes.OperatorID
	queue      []pending
	seen       []*specqbft.SignedMessage // everything broadcast so far, for replays / justifications
	honestSent []*specqbft.SignedMessage // what correct operators broadcast, in order
	height     specqbft.Height
	level      string
	mutAny     bool // mutate with any operator's key (single-instance conformance, C06) instead of byz keys only
	stats      map[string]int
}

func (s *sim) rewoundNodes() []int {
	var out []int
	for _, id := range s.honest {
		if s.nodes[id].rewound {
			out = append(out, int(id))
		}
	}
	return out
}

func (s *sim) sign(id spectypes.OperatorID, msg *specqbft.Message, full []byte) *specqbft.SignedMessage {
	sm := testingutils.SignQBFTMsg(s.w.ks.Shares[id], id, msg)
	sm.FullData = full
	return sm
}

func (s *sim) base(t specqbft.MessageType, round uint64, root [32]byte) *specqbft.Message {
	return &specqbft.Message{MsgType: t, Height: s.height, Round: specqbft.Round(round), Identifier: identifier[:], Root: root}
}

func (s *sim) pickValue() uint64 { return uint64(s.r.Intn(8)) }

func (s *sim) seenOf(t specqbft.MessageType) []*specqbft.SignedMessage {
	var out []*specqbft.SignedMessage
	for _, m := range s.seen {
		if m.Message.MsgType == t && len(m.Signers) == 1 {
			out = append(out, m)
		}
	}
	return out
}

// forge builds a message signed by operator id (a Byzantine one, or anyone in mutAny mode).
func (s *sim) forge(id spectypes.OperatorID) *specqbft.SignedMessage {
	r := s.r
	round := uint64(1 + r.Intn(4))
	v := s.pickValue()
	data := valueBytes(v)
	root := sha256.Sum256(data)
	// mostly support or contradict what is really going on: take round and value from a proposal seen so far
	if props := s.seenOf(specqbft.ProposalMsgType); len(props) > 0 && r.Chance(7, 10) {
		p := props[r.Intn(len(props))]
		if uint64(p.Message.Round) < 1<<20 {
			round = uint64(p.Message.Round)
		}
		if len(p.FullData) == 8 && r.Chance(3, 4) {
			data = p.FullData
			root = sha256.Sum256(data)
		}
	}
	switch r.Intn(9) {
	case 8: // prepared round change whose prepared round is not below its own round, with a fresh prepare quorum
		rcRound := round + 1
		dr := rcRound + uint64(r.Intn(2))
		msg := s.base(specqbft.RoundChangeMsgType, rcRound, root)
		msg.DataRound = specqbft.Round(dr)
		var pj []*specqbft.SignedMessage
		for op := 1; op <= s.w.n; op++ {
			oid := spectypes.OperatorID(op)
			if s.mutAny || s.byz[oid] {
				pj = append(pj, s.sign(oid, s.base(specqbft.PrepareMsgType, dr, root), nil))
			}
		}
		msg.RoundChangeJustification, _ = specqbft.MarshalJustifications(pj)
		s.stats["byz-rc-prepared-in-the-future"]++
		return s.sign(id, msg, data)
	case 0: // proposal (equivocation: a fresh value each time), round 1 or with justifications taken from the air
		msg := s.base(specqbft.ProposalMsgType, round, root)
		if round > 1 {
			var rcs []*specqbft.SignedMessage
			for _, m := range s.seenOf(specqbft.RoundChangeMsgType) {
				if uint64(m.Message.Round) == round {
					rcs = append(rcs, m)
				}
			}
			// add own round change to help reach quorum
			own := s.sign(id, s.base(specqbft.RoundChangeMsgType, round, [32]byte{}), nil)
			rcs = append(rcs, own)
			msg.RoundChangeJustification, _ = specqbft.MarshalJustifications(rcs)
			// if some round change is prepared, re-propose its value and attach its prepares
			// (or attach the prepares and propose another value all the same: the lock ignored)
			for _, rc := range rcs {
				if rc.Message.RoundChangePrepared() && r.Chance(3, 4) {
					pj, _ := rc.Message.GetRoundChangeJustifications()
					msg.PrepareJustification, _ = specqbft.MarshalJustifications(pj)
					if rc.FullData != nil && r.Chance(2, 3) {
						data = rc.FullData
						msg.Root = rc.Message.Root
					} else {
						s.stats["byz-proposal-lock-ignored"]++
					}
					break
				}
			}
		}
		s.stats["byz-proposal"]++
		return s.sign(id, msg, data)
	case 1:
		s.stats["byz-prepare"]++
		return s.sign(id, s.base(specqbft.PrepareMsgType, round, root), nil)
	case 2:
		s.stats["byz-commit"]++
		return s.sign(id, s.base(specqbft.CommitMsgType, round, root), nil)
	case 3: // unprepared round change
		s.stats["byz-rc"]++
		return s.sign(id, s.base(specqbft.RoundChangeMsgType, round+1, [32]byte{}), nil)
	case 4: // prepared round change with whatever prepares exist for (dataRound, root) plus own
		msg := s.base(specqbft.RoundChangeMsgType, round+1, root)
		msg.DataRound = specqbft.Round(round)
		var pj []*specqbft.SignedMessage
		for _, m := range s.seenOf(specqbft.PrepareMsgType) {
			if uint64(m.Message.Round) == round && m.Message.Root == root {
				pj = append(pj, m)
			}
		}
		pj = append(pj, s.sign(id, s.base(specqbft.PrepareMsgType, round, root), nil))
		msg.RoundChangeJustification, _ = specqbft.MarshalJustifications(pj)
		s.stats["byz-rc-prepared"]++
		return s.sign(id, msg, data)
	case 7: // proposal for a later round whose justification names correct operators with fabricated round changes
		if round < 2 {
			round = 2
		}
		msg := s.base(specqbft.ProposalMsgType, round, root)
		var rcs []*specqbft.SignedMessage
		for _, hid := range s.honest {
			rc := s.sign(id, s.base(specqbft.RoundChangeMsgType, round, [32]byte{}), nil) // signed with the WRONG key
			rc.Signers = []spectypes.OperatorID{hid}
			rcs = append(rcs, rc)
		}
		rcs = append(rcs, s.sign(id, s.base(specqbft.RoundChangeMsgType, round, [32]byte{}), nil))
		msg.RoundChangeJustification, _ = specqbft.MarshalJustifications(rcs)
		s.stats["byz-proposal-forged-rcs"]++
		return s.sign(id, msg, data)
	case 5: // decided-shaped: aggregate of Byzantine commits only (sub-quorum) or with replayed honest commits
		msg := s.base(specqbft.CommitMsgType, round, root)
		sm := s.sign(id, msg, data)
		for _, m := range s.seenOf(specqbft.CommitMsgType) {
			if m.Message.Root == root && uint64(m.Message.Round) == round && m.Signers[0] != id {
				c := m.DeepCopy()
				_ = sm.Aggregate(c)
			}
		}
		switch r.Intn(4) {
		case 0: // claim signers that did not sign
			sm.Signers = append(sm.Signers, spectypes.OperatorID(1+r.Intn(s.w.n)))
		case 1: // pad the signer list up to a quorum with ids that are in no committee (nobody's key is needed for them)
			q := 2*((s.w.n-1)/3) + 1
			for k := 1; len(sm.Signers) < q+r.Intn(2); k++ {
				sm.Signers = append(sm.Signers, spectypes.OperatorID(s.w.n+k))
			}
			s.stats["byz-decided-padded-with-foreign-ids"]++
		}
		s.stats["byz-decided"]++
		return sm
	}
	// mutation of something seen, re-signed with the Byzantine key if it claims that signer
	if len(s.seen) == 0 {
		return s.sign(id, s.base(specqbft.PrepareMsgType, round, root), nil)
	}
	return s.mutate(s.seen[r.Intn(len(s.seen))], id)
}

// mutate changes one field of a copy; re-signs when the (possibly new) single signer's key may be used.
func (s *sim) mutate(orig *specqbft.SignedMessage, byzID spectypes.OperatorID) *specqbft.SignedMessage {
	r := s.r
	m := orig.DeepCopy()
	m.FullData = append([]byte{}, orig.FullData...)
	if len(orig.FullData) == 0 {
		m.FullData = nil
	}
	kind := r.Intn(12)
	switch kind {
	case 0:
		m.Message.MsgType = specqbft.MessageType(r.Intn(6))
	case 1:
		m.Message.Height = hx.Pick(r, s.height+1, s.height-1, specqbft.Height(^uint64(0)))
	case 2:
		m.Message.Round = hx.Pick(r, m.Message.Round+1, m.Message.Round-1, 0, specqbft.Round(^uint64(0)), 15, 1<<63)
	case 3:
		m.Message.Root = sha256.Sum256(valueBytes(s.pickValue()))
	case 4:
		m.Signers = hx.Pick(r, []spectypes.OperatorID{}, []spectypes.OperatorID{0}, []spectypes.OperatorID{byzID, byzID},
			[]spectypes.OperatorID{spectypes.OperatorID(s.w.n + 1)}, []spectypes.OperatorID{byzID})
	case 5:
		m.Signature = append([]byte{}, m.Signature...)
		m.Signature[r.Intn(len(m.Signature))] ^= 1
	case 6:
		m.Message.RoundChangeJustification = [][]byte{{1, 2, 3}}
	case 7:
		m.Message.PrepareJustification, _ = specqbft.MarshalJustifications(s.seenOf(specqbft.PrepareMsgType))
	case 8:
		m.FullData = hx.Pick(r, nil, valueBytes(s.pickValue()), []byte{1, 2, 3})
	case 9:
		m.Message.Identifier = hx.Pick(r, []byte{}, []byte{9, 9, 9, 9})
	case 10:
		m.Message.DataRound = specqbft.Round(r.Intn(4))
	case 11:
		if j, err := m.Message.GetRoundChangeJustifications(); err == nil && len(j) > 0 {
			m.Message.RoundChangeJustification, _ = specqbft.MarshalJustifications(j[:len(j)-1])
		}
	}
	s.stats[fmt.Sprintf("mutation-%d", kind)]++
	// re-sign if a key we may use is the only signer
	if kind != 5 && len(m.Signers) == 1 && r.Chance(3, 4) {
		id := m.Signers[0]
		if sk, ok := s.w.ks.Shares[id]; ok && (s.mutAny || s.byz[id]) {
			full := m.FullData
			m = testingutils.SignQBFTMsg(sk, id, &m.Message)
			m.FullData = full
		}
	}
	return m
}

func (s *sim) broadcast(from spectypes.OperatorID, ms []*specqbft.SignedMessage) {
	for _, m := range ms {
		s.seen = append(s.seen, m)
		s.honestSent = append(s.honestSent, m)
		for _, id := range s.honest {
			if id != from {
				s.queue = append(s.queue, pending{m: m, to: id})
			}
		}
		// an operator also processes its own broadcasts
		s.queue = append(s.queue, pending{m: m, to: from})
	}
}

func (s *sim) run(steps int) {
	r := s.r
	// start values
	for _, id := range s.honest {
		v := s.pickValue()
		for v%5 == 4 {
			v = s.pickValue()
		}
		s.broadcast(id, s.nodes[id].start(v))
	}
	var byzIDs []spectypes.OperatorID
	for id := range s.byz {
		byzIDs = append(byzIDs, id)
	}
	sort.Slice(byzIDs, func(i, j int) bool { return byzIDs[i] < byzIDs[j] })
	forgers := byzIDs
	if s.mutAny {
		for id := range s.w.ks.Shares {
			forgers = append(forgers, id)
		}
		sort.Slice(forgers, func(i, j int) bool { return forgers[i] < forgers[j] })
	}
	// per-run profile: how eager the timeouts and the adversary are
	toRate := hx.Pick(r, 0, 1, 3, 9)
	for i := 0; i < steps; i++ {
		c := r.Intn(100)
		if c >= 73 && c < 82 && c-73 >= toRate {
			c = 0 // deliver instead of a timeout
		}
		switch {
		case c < 62 && len(s.queue) > 0: // deliver (mostly FIFO-ish, sometimes far out of order)
			k := 0
			if r.Chance(1, 3) {
				k = r.Intn(len(s.queue))
			} else if len(s.queue) > 4 {
				k = r.Intn(4)
			}
			p := s.queue[k]
			s.queue = append(s.queue[:k], s.queue[k+1:]...)
			s.stats["deliver"]++
			s.broadcast(p.to, s.nodes[p.to].deliver(p.m))
		case c < 67 && len(s.queue) > 0: // drop
			k := r.Intn(len(s.queue))
			s.queue = append(s.queue[:k], s.queue[k+1:]...)
			s.stats["drop"]++
		case c < 73 && len(s.seen) > 0: // duplicate / replay something old to someone
			m := s.seen[r.Intn(len(s.seen))]
			to := s.honest[r.Intn(len(s.honest))]
			s.stats["replay"]++
			s.broadcast(to, s.nodes[to].deliver(m))
		case c < 82: // timeout
			to := s.honest[r.Intn(len(s.honest))]
			s.stats["timeout"]++
			s.broadcast(to, s.nodes[to].timeout())
		case c < 94 && len(forgers) > 0: // Byzantine injection with selective delivery
			id := forgers[r.Intn(len(forgers))]
			m := s.forge(id)
			s.seen = append(s.seen, m)
			for _, to := range s.honest {
				if r.Chance(2, 3) {
					s.queue = append(s.queue, pending{m: m, to: to})
				}
			}
		default:
			if s.level == "inst" {
				to := s.honest[r.Intn(len(s.honest))]
				s.stats["compact"]++
				s.nodes[to].compact()
			}
		}
	}
}

// recoverPhase runs the explicit timely continuation: Byzantine operators go silent, everything the
// correct operators broadcast is delivered to all of them in FIFO order, and whenever the network is
// quiet every undecided correct operator times out.  Returns the number of timeout phases used, or -1
// when not everybody decided within maxPhases.  (Exploration: one particular continuation failing to
// decide does not refute the existential claim of C07; it is counted, not reported as a violation.)
func (s *sim) recoverPhase(maxPhases int) int {
	// Messages are delayed, not lost: the continuation first delivers everything a correct operator has
	// broadcast so far (in order, to every correct operator); whatever the adversary had in flight is gone.
	s.queue = nil
	for _, m := range s.honestSent {
		for _, id := range s.honest {
			s.queue = append(s.queue, pending{m: m, to: id})
		}
	}
	allDecided := func() bool {
		for _, id := range s.honest {
			st := s.nodes[id].state()
			if st == nil || !st.Decided {
				return false
			}
		}
		return true
	}
	maxRound := func() uint64 {
		m := uint64(0)
		for _, id := range s.honest {
			if st := s.nodes[id].state(); st != nil && uint64(st.Round) > m && uint64(st.Round) < 1<<32 {
				m = uint64(st.Round)
			}
		}
		return m
	}
	start := maxRound()
	for guard2 := 0; guard2 < 200; guard2++ {
		for guard := 0; len(s.queue) > 0 && guard < 5000; guard++ {
			// The continuation chooses the order: the leader's proposal justification uses the FullData of
			// the round-change that completes the quorum, so round-changes carrying a prepared value are
			// delivered after the others (everything else stays FIFO).
			k, best := 0, 3
			for i, p := range s.queue {
				pr := 0
				if p.m.Message.MsgType == specqbft.RoundChangeMsgType {
					pr = 1
					if p.m.Message.RoundChangePrepared() {
						pr = 2
					}
				}
				if pr < best {
					k, best = i, pr
					if pr == 0 {
						break
					}
				}
			}
			p := s.queue[k]
			s.queue = append(s.queue[:k:k], s.queue[k+1:]...)
			s.broadcast(p.to, s.nodes[p.to].deliver(p.m))
		}
		if os.Getenv("HX_DEBUG") != "" {
			fmt.Fprintf(os.Stderr, "recover: iter=%d queue=%d allDecided=%v maxRound=%d start=%d\n", guard2, len(s.queue), allDecided(), maxRound(), start)
		}
		if allDecided() {
			if maxRound() < start { // UponDecided may rewind the round to the certificate's round
				return 0
			}
			return int(maxRound() - start)
		}
		if maxRound() >= start+uint64(maxPhases) {
			break
		}
		// timers: the operators in the lowest round expire first; when all undecided operators share a
		// round, they all expire
		lo := uint64(1 << 62)
		for _, id := range s.honest {
			if st := s.nodes[id].state(); st != nil && !st.Decided && uint64(st.Round) < lo {
				lo = uint64(st.Round)
			}
		}
		for _, id := range s.honest {
			if st := s.nodes[id].state(); st != nil && !st.Decided && uint64(st.Round) == lo {
				s.broadcast(id, s.nodes[id].timeout())
			}
		}
	}
	return -1
}

func newWorld(size int) *world {
	var ks *testingutils.TestKeySet
	if size == 7 {
		ks = testingutils.Testing7SharesSet()
	} else {
		ks = testingutils.Testing4SharesSet()
		size = 4
	}
	return &world{ks: ks, committee: ks.Committee(), roots: newRootTable(), n: size}
}

func netMode(out *hx.Out, seed uint64, n int, size int, level string, nbyz int, mutAny bool, steps int) {
	w := newWorld(size)
	for c := 0; c < n; c++ {
		oneRun(out, w, seed, uint64(c), level, nbyz, mutAny, steps)
	}
}

func oneRun(out *hx.Out, w *world, seed, c uint64, level string, nbyz int, mutAny bool, steps int) {
	size := w.n
	{
		r := hx.NewRand(seed, "qbft-"+level, c)
		f := (size - 1) / 3
		k := nbyz
		if k < 0 {
			k = r.Intn(f + 1)
		}
		s := &sim{w: w, r: r, nodes: map[spectypes.OperatorID]*node{}, byz: map[spectypes.OperatorID]bool{},
			height: specqbft.Height(r.Intn(2 * size)), level: level, mutAny: mutAny, stats: map[string]int{}}
		for len(s.byz) < k {
			s.byz[spectypes.OperatorID(1+r.Intn(size))] = true
		}
		for id := 1; id <= size; id++ {
			if !s.byz[spectypes.OperatorID(id)] {
				s.honest = append(s.honest, spectypes.OperatorID(id))
				s.nodes[spectypes.OperatorID(id)] = w.newNode(spectypes.OperatorID(id), s.height, level)
			}
		}
		st := steps
		if st <= 0 {
			st = 40 + r.Intn(160)
		}
		s.run(st)
		if recoverMode {
			f := (size - 1) / 3
			used := s.recoverPhase(f + 3)
			if used < 0 {
				out.Count("recover-not-decided-within-f+3")
				if strictRecover {
					s.nodes[s.honest[0]].violf("c07", "the timely continuation (all honest broadcasts re-delivered, prepared round changes last, lowest-round timers first) did not make every correct operator decide within f+3 further rounds")
				}
				s.nodes[s.honest[0]].lines = append(s.nodes[s.honest[0]].lines, "# c07 exploration: the FIFO timely continuation did not decide everywhere within f+3 timeout phases")
			} else {
				out.Count(fmt.Sprintf("recover-decided-after-%d-phases", used))
			}
		}
		// agreement monitor over the whole run (C01)
		var agree []string
		var first *node
		for _, id := range s.honest {
			nd := s.nodes[id]
			if !nd.hasDec {
				continue
			}
			if first == nil {
				first = nd
			} else if !bytes.Equal(first.decVal, nd.decVal) {
				agree = append(agree, fmt.Sprintf("c01 operators %d and %d reported different decisions %s and %s backward-rewind-at=%v",
					first.id, nd.id, valueID(first.decVal), valueID(nd.decVal), s.rewoundNodes()))
			}
		}
		maxRound := uint64(0)
		decs := 0
		for _, id := range s.honest {
			nd := s.nodes[id]
			if st := nd.state(); st != nil && uint64(st.Round) > maxRound && uint64(st.Round) < 1<<32 {
				maxRound = uint64(st.Round)
			}
			if nd.hasDec {
				decs++
			}
		}
		for k, v := range s.stats {
			out.Dist["sched-"+k] += v
		}
		out.Count(fmt.Sprintf("runs-maxround-%d", min64(maxRound, 6)))
		out.Count(fmt.Sprintf("runs-decided-%d-of-%d", decs, len(s.honest)))
		for _, id := range s.honest {
			nd := s.nodes[id]
			out.Case("net seed=%d run=%d size=%d level=%s nbyz=%d mut=%d steps=%d recover=%d strict=%d netfail=%d byz=%v node=%d height=%d maxround=%d decided=%d",
				seed, c, size, level, nbyz, b2i(mutAny), steps, b2i(recoverMode), b2i(strictRecover), b2i(netFail), keys(s.byz), id, uint64(s.height), maxRound, decs)
			for _, l := range nd.lines {
				writeLine(out, l)
			}
			for _, v := range nd.viol {
				out.ViolF("%s", v)
			}
			if id == s.honest[0] {
				for _, v := range agree {
					out.ViolF("%s", v)
				}
			}
			out.End()
		}
	}
}

// scenarioF6 replays finding F6 (DESIGN 5.1) on the real controllers: operator 1 is Byzantine and the
// leader of round 1 at height 0; it equivocates between values D and S.
func scenarioF6(out *hx.Out) {
	w := newWorld(4)
	s := &sim{w: w, r: hx.NewRand(6, "f6", 0), nodes: map[spectypes.OperatorID]*node{}, byz: map[spectypes.OperatorID]bool{1: true},
		height: 0, level: "ctrl", stats: map[string]int{}}
	for _, id := range []spectypes.OperatorID{2, 3, 4} {
		s.honest = append(s.honest, id)
		s.nodes[id] = w.newNode(id, 0, "ctrl")
	}
	n2, n3, n4 := s.nodes[2], s.nodes[3], s.nodes[4]
	D, S := valueBytes(1), valueBytes(2)
	rootD, rootS := sha256.Sum256(D), sha256.Sum256(S)
	n2.start(5)
	n3.start(5)
	n4.start(5)
	propD := s.sign(1, s.base(specqbft.ProposalMsgType, 1, rootD), D)
	propS := s.sign(1, s.base(specqbft.ProposalMsgType, 1, rootS), S)
	prepD1 := s.sign(1, s.base(specqbft.PrepareMsgType, 1, rootD), nil)
	prepS1 := s.sign(1, s.base(specqbft.PrepareMsgType, 1, rootS), nil)
	comD1 := s.sign(1, s.base(specqbft.CommitMsgType, 1, rootD), nil)
	comS1 := s.sign(1, s.base(specqbft.CommitMsgType, 1, rootS), nil)
	one := func(ms []*specqbft.SignedMessage) *specqbft.SignedMessage {
		if len(ms) == 0 {
			return nil
		}
		return ms[len(ms)-1]
	}
	// (1) equivocating proposals; operators 2 and 3 prepare and commit D; operator 3 decides D
	prep2 := one(n2.deliver(propD))
	prep3 := one(n3.deliver(propD))
	prep4 := one(n4.deliver(propS))
	n2.deliver(prepD1)
	n2.deliver(prep2)
	com2 := one(n2.deliver(prep3)) // prepare quorum {1,2,3} at operator 2 -> commit D
	n3.deliver(prepD1)
	n3.deliver(prep2)
	com3 := one(n3.deliver(prep3))
	n3.deliver(comD1)
	n3.deliver(com2)
	dec3 := one(n3.deliver(com3)) // commit quorum {1,2,3}: operator 3 reports D and broadcasts the decided message
	// (2) operator 2 times out of round 1 before seeing the commit quorum
	n2.timeout()
	// (3) operator 2 receives the decided message: round rewound to 1, decided, runner compacts
	if dec3 != nil {
		n2.deliver(dec3)
	}
	// (4) the leader's other round-1 proposal is accepted by operator 2
	prepS2 := one(n2.deliver(propS))
	// (5) prepare quorum {1,2,4} for S at operators 4 and 2, commit quorum {1,2,4} at operator 4
	n4.deliver(prepS1)
	n4.deliver(prep4)
	var com4 *specqbft.SignedMessage
	if prepS2 != nil {
		com4 = one(n4.deliver(prepS2))
		n2.deliver(prepS1)
		n2.deliver(prep4)
		comS2 := one(n2.deliver(prepS2))
		n4.deliver(comS1)
		if comS2 != nil {
			n4.deliver(comS2)
		}
		if com4 != nil {
			n4.deliver(com4)
		}
	}
	var agree []string
	var first *node
	for _, id := range s.honest {
		nd := s.nodes[id]
		if !nd.hasDec {
			continue
		}
		if first == nil {
			first = nd
		} else if !bytes.Equal(first.decVal, nd.decVal) {
			agree = append(agree, fmt.Sprintf("c01 operators %d and %d reported different decisions %s and %s backward-rewind-at=%v",
				first.id, nd.id, valueID(first.decVal), valueID(nd.decVal), s.rewoundNodes()))
		}
	}
	for _, id := range s.honest {
		nd := s.nodes[id]
		out.Case("scenario=f6 size=4 level=ctrl byz=[1] node=%d height=0", id)
		for _, l := range nd.lines {
			writeLine(out, l)
		}
		if id == s.honest[0] {
			for _, v := range agree {
				out.ViolF("%s", v)
			}
		}
		out.End()
	}
}

// decidedMode feeds certificates and forged decided messages to a real controller with a running
// instance (C02): honest aggregate + one mutation from the property's forgery grammar.
func decidedMode(out *hx.Out, seed uint64, n int, size int) {
	for c := 0; c < n; c++ {
		decidedOne(out, seed, uint64(c), size)
	}
}

func decidedOne(out *hx.Out, seed, c uint64, size int) {
	w := newWorld(size)
	f := (size - 1) / 3
	q := 2*f + 1
	{
		r := hx.NewRand(seed, "qbft-decided", c)
		height := specqbft.Height(r.Intn(8))
		s := &sim{w: w, r: r, nodes: map[spectypes.OperatorID]*node{}, byz: map[spectypes.OperatorID]bool{}, height: height, level: "ctrl", stats: map[string]int{}}
		id := spectypes.OperatorID(1 + r.Intn(size))
		nd := w.newNode(id, height, "ctrl")
		nd.start(s.pickValue() / 5 * 5)
		// sometimes let the instance make progress first
		if r.Chance(1, 2) {
			v := valueBytes(uint64(1 + r.Intn(3)))
			ld := specqbft.RoundRobinProposer(&specqbft.State{Share: nd.share, Height: height}, 1)
			nd.deliver(s.sign(ld, s.base(specqbft.ProposalMsgType, 1, sha256.Sum256(v)), v))
		}
		for k := 0; k < 1+r.Intn(3); k++ {
			v := valueBytes(uint64(1 + r.Intn(3)))
			root := sha256.Sum256(v)
			round := uint64(1 + r.Intn(3))
			nsig := hx.Pick(r, q, q, q+1, size, q-1, 1)
			perm := r.Intn(size)
			var ids []spectypes.OperatorID
			var sks []*bls.SecretKey
			for i := 0; i < nsig && i < size; i++ {
				oid := spectypes.OperatorID((perm+i)%size + 1)
				ids = append(ids, oid)
				sks = append(sks, w.ks.Shares[oid])
			}
			msg := s.base(specqbft.CommitMsgType, round, root)
			d := testingutils.MultiSignQBFTMsg(sks, ids, msg)
			d.FullData = v
			kind := r.Intn(12)
			switch kind {
			case 0: // duplicate signer
				d.Signers = append(d.Signers[:len(d.Signers)-1], d.Signers[0])
			case 1: // signer id 0
				d.Signers[r.Intn(len(d.Signers))] = 0
			case 2: // non-committee id
				d.Signers[r.Intn(len(d.Signers))] = spectypes.OperatorID(size + 1 + r.Intn(3))
			case 3: // signature aggregated from a different subset than listed
				other := spectypes.OperatorID((perm+nsig)%size + 1)
				d.Signers[0] = other
			case 4: // value does not match root: another value, or the value stripped (it is not covered by the signature)
				d.FullData = hx.Pick(r, valueBytes(uint64(20+r.Intn(5))), nil, []byte{})
			case 5: // wrong height
				d.Message.Height = height + specqbft.Height(1+r.Intn(3))
			case 6: // wrong identifier
				d.Message.Identifier = []byte{9, 9, 9, 9}
			case 7: // not a commit
				d.Message.MsgType = specqbft.PrepareMsgType
			case 8: // corrupted signature
				d.Signature = append([]byte{}, d.Signature...)
				d.Signature[5] ^= 4
			case 9: // really signed by fewer than a quorum; the signer list padded with ids that are in no committee
				j := 1 + r.Intn(q-1)
				if j > len(ids) {
					j = len(ids)
				}
				d = testingutils.MultiSignQBFTMsg(sks[:j], ids[:j], msg)
				d.FullData = v
				for k := 1; len(d.Signers) < nsig || len(d.Signers) < q; k++ {
					d.Signers = append(d.Signers, spectypes.OperatorID(size+k))
				}
			}
			out.Count(fmt.Sprintf("decided-kind-%d-signers-%d-of-%d", kind, nsig, q))
			nd.deliver(d)
		}
		out.Case("decided seed=%d case=%d size=%d node=%d height=%d", seed, c, size, id, uint64(height))
		for _, l := range nd.lines {
			writeLine(out, l)
		}
		out.End()
	}
}

// ---- exhaustive short histories --------------------------------------------------------------------------
//
// Every sequence of L symbols from a fixed alphabet (pre-signed messages of operators 1-3 incl. an
// equivocating leader, justified and unjustified round-2 proposals, prepared and unprepared round
// changes, timeout, compaction) is fed to a fresh instance of operator 4 (height 0, leader of round 1
// = operator 1) next to the reference instance and replayed on the model.

type symbol struct {
	name string
	msg  *specqbft.SignedMessage // nil: timeout / compact
}

func exhAlphabet(w *world) []symbol {
	s := &sim{w: w, r: hx.NewRand(1, "exh", 0), byz: map[spectypes.OperatorID]bool{}, height: 0, stats: map[string]int{}}
	A, B := valueBytes(1), valueBytes(2)
	rA, rB := sha256.Sum256(A), sha256.Sum256(B)
	var syms []symbol
	add := func(name string, m *specqbft.SignedMessage) { syms = append(syms, symbol{name, m}) }
	add("timeout", nil)
	add("compact", nil)
	add("prop1A", s.sign(1, s.base(specqbft.ProposalMsgType, 1, rA), A))
	add("prop1B", s.sign(1, s.base(specqbft.ProposalMsgType, 1, rB), B))
	add("prop1A-notleader", s.sign(2, s.base(specqbft.ProposalMsgType, 1, rA), A))
	add("prop2A-unjustified", s.sign(2, s.base(specqbft.ProposalMsgType, 2, rA), A))
	var rcs2 []*specqbft.SignedMessage
	for _, id := range []spectypes.OperatorID{1, 2, 3} {
		rc := s.sign(id, s.base(specqbft.RoundChangeMsgType, 2, [32]byte{}), nil)
		rcs2 = append(rcs2, rc)
		add(fmt.Sprintf("rc2-%d", id), rc)
	}
	p2 := s.base(specqbft.ProposalMsgType, 2, rA)
	p2.RoundChangeJustification, _ = specqbft.MarshalJustifications(rcs2)
	add("prop2A-justified", s.sign(2, p2, A))
	var preps1A []*specqbft.SignedMessage
	for _, id := range []spectypes.OperatorID{1, 2, 3} {
		for _, rd := range []uint64{1, 2} {
			for vi, root := range [][32]byte{rA, rB} {
				pm := s.sign(id, s.base(specqbft.PrepareMsgType, rd, root), nil)
				add(fmt.Sprintf("prep%d%c-%d", rd, 'A'+vi, id), pm)
				if rd == 1 && vi == 0 {
					preps1A = append(preps1A, pm)
				}
				add(fmt.Sprintf("com%d%c-%d", rd, 'A'+vi, id), s.sign(id, s.base(specqbft.CommitMsgType, rd, root), nil))
			}
		}
	}
	for _, id := range []spectypes.OperatorID{1, 2} {
		m := s.base(specqbft.RoundChangeMsgType, 2, rA)
		m.DataRound = 1
		m.RoundChangeJustification, _ = specqbft.MarshalJustifications(preps1A)
		add(fmt.Sprintf("rc2-prepared1A-%d", id), s.sign(id, m, A))
		add(fmt.Sprintf("rc3-%d", id), s.sign(id, s.base(specqbft.RoundChangeMsgType, 3, [32]byte{}), nil))
	}
	// a proposal for round 2 that re-proposes the prepared value with its prepare quorum
	var rcsP []*specqbft.SignedMessage
	for _, sy := range syms {
		if strings.HasPrefix(sy.name, "rc2-prepared1A-") {
			rcsP = append(rcsP, sy.msg)
		}
	}
	rcsP = append(rcsP, rcs2[2])
	p2p := s.base(specqbft.ProposalMsgType, 2, rA)
	p2p.RoundChangeJustification, _ = specqbft.MarshalJustifications(rcsP)
	p2p.PrepareJustification, _ = specqbft.MarshalJustifications(preps1A)
	add("prop2A-reproposal", s.sign(2, p2p, A))
	// a decided-shaped aggregate (the instance treats it as a multi-signer commit)
	add("decided1A", testingutils.MultiSignQBFTMsg([]*bls.SecretKey{w.ks.Shares[1], w.ks.Shares[2], w.ks.Shares[3]},
		[]spectypes.OperatorID{1, 2, 3}, s.base(specqbft.CommitMsgType, 1, rA)))
	return syms
}

func exhCase(out *hx.Out, w *world, syms []symbol, seq []int) {
	names := make([]string, len(seq))
	for i, k := range seq {
		names[i] = strconv.Itoa(k)
	}
	out.Case("exh size=4 seq=%s", strings.Join(names, ","))
	nd := w.newNode(4, 0, "inst")
	nd.start(3)
	for _, k := range seq {
		sy := syms[k]
		switch {
		case sy.msg != nil:
			nd.deliver(sy.msg)
		case sy.name == "timeout":
			nd.timeout()
		default:
			nd.compact()
		}
	}
	for _, l := range nd.lines {
		writeLine(out, l)
	}
	out.End()
}

func exhaustiveMode(out *hx.Out, length, shard, of int) {
	w := newWorld(4)
	syms := exhAlphabet(w)
	out.Note("alphabet of %d symbols, length %d, shard %d of %d", len(syms), length, shard, of)
	seq := make([]int, length)
	idx := 0
	var rec func(d int)
	rec = func(d int) {
		if d == length {
			if idx%of == shard {
				exhCase(out, w, syms, seq)
			}
			idx++
			return
		}
		for k := range syms {
			seq[d] = k
			rec(d + 1)
		}
	}
	for l := 1; l <= length; l++ {
		length0 := length
		length = l
		seq = make([]int, l)
		rec(0)
		length = length0
	}
}

func min64(a, b uint64) uint64 {
	if a < b {
		return a
	}
	return b
}

func keys(m map[spectypes.OperatorID]bool) []int {
	var k []int
	for id := range m {
		k = append(k, int(id))
	}
	sort.Ints(k)
	return k
}

func writeLine(out *hx.Out, l string) {
	switch {
	case strings.HasPrefix(l, "OBS "):
		out.Obs("%s", l[4:])
	case strings.HasPrefix(l, "MON viol "):
		out.ViolF("%s", l[9:])
	case strings.HasPrefix(l, "# "):
		out.Note("%s", l[2:])
	default:
		i := strings.IndexByte(l, ' ')
		if i < 0 {
			out.Op(l, "")
		} else {
			out.Op(l[:i], "%s", l[i+1:])
		}
	}
}

// ---- replay ---------------------------------------------------------------------------------------------

// Replay cannot rebuild signed messages from abstract trees; replay files therefore carry, for
// each case, the generator parameters in the CASE line, and the whole run is regenerated.
func replay(out *hx.Out, path string) {
	fh, err := os.Open(path)
	if err != nil {
		fmt.Fprintln(os.Stderr, err)
		os.Exit(2)
	}
	defer fh.Close()
	sc := bufio.NewScanner(fh)
	sc.Buffer(make([]byte, 1<<20), 1<<26)
	done := map[string]bool{}
	for sc.Scan() {
		l := sc.Text()
		if !strings.HasPrefix(l, "CASE ") {
			continue
		}
		if strings.HasPrefix(l, "CASE") && strings.Contains(l, " decided seed=") {
			var sd, cs uint64
			sz := 4
			for _, f := range strings.Fields(l) {
				kv := strings.SplitN(f, "=", 2)
				if len(kv) == 2 {
					switch kv[0] {
					case "seed":
						sd, _ = strconv.ParseUint(kv[1], 10, 64)
					case "case":
						cs, _ = strconv.ParseUint(kv[1], 10, 64)
					case "size":
						sz, _ = strconv.Atoi(kv[1])
					}
				}
			}
			key := fmt.Sprintf("decided/%d/%d/%d", sd, cs, sz)
			if !done[key] {
				done[key] = true
				replayDecided(out, sd, cs, sz)
			}
			continue
		}
		if strings.HasPrefix(l, "CASE") && strings.Contains(l, " exh size=4 seq=") {
			i := strings.Index(l, "seq=")
			var seq []int
			for _, t := range strings.Split(strings.Fields(l[i+4:])[0], ",") {
				k, _ := strconv.Atoi(t)
				seq = append(seq, k)
			}
			w := newWorld(4)
			exhCase(out, w, exhAlphabet(w), seq)
			continue
		}
		if strings.Contains(l, " attack seed=") {
			var sd, cs uint64
			only := ""
			for _, f := range strings.Fields(l) {
				kv := strings.SplitN(f, "=", 2)
				if len(kv) == 2 {
					switch kv[0] {
					case "seed":
						sd, _ = strconv.ParseUint(kv[1], 10, 64)
					case "case":
						cs, _ = strconv.ParseUint(kv[1], 10, 64)
					case "only":
						if kv[1] != "-" {
							only = kv[1]
						}
					}
				}
			}
			key := fmt.Sprintf("attack/%d/%d/%s", sd, cs, only)
			if !done[key] {
				done[key] = true
				attackOne(out, sd, cs, only)
			}
			continue
		}
		if strings.Contains(l, "scenario=f6") {
			if !done["f6"] {
				done["f6"] = true
				scenarioF6(out)
			}
			continue
		}
		var seed, run uint64
		size, level, nbyz, mut, steps := 4, "inst", -1, false, 0
		for _, f := range strings.Fields(l) {
			kv := strings.SplitN(f, "=", 2)
			if len(kv) != 2 {
				continue
			}
			switch kv[0] {
			case "seed":
				seed, _ = strconv.ParseUint(kv[1], 10, 64)
			case "run":
				run, _ = strconv.ParseUint(kv[1], 10, 64)
			case "size":
				size, _ = strconv.Atoi(kv[1])
			case "level":
				level = kv[1]
			case "nbyz":
				nbyz, _ = strconv.Atoi(kv[1])
			case "mut":
				mut = kv[1] == "1"
			case "steps":
				steps, _ = strconv.Atoi(kv[1])
			case "recover":
				recoverMode = kv[1] == "1"
			case "strict":
				strictRecover = kv[1] == "1"
			}
		}
		key := fmt.Sprintf("%d/%d/%d/%s/%d/%v/%d", seed, run, size, level, nbyz, mut, steps)
		if done[key] {
			continue
		}
		done[key] = true
		replayRun(out, seed, run, size, level, nbyz, mut, steps)
	}
}

func replayDecided(out *hx.Out, seed, c uint64, size int) {
	tmp := hx.NewOut()
	_ = tmp
	decidedOne(out, seed, c, size)
}

func replayRun(out *hx.Out, seed, run uint64, size int, level string, nbyz int, mut bool, steps int) {
	oneRun(out, newWorld(size), seed, run, level, nbyz, mut, steps)
}

func main() {
	if err := bls.Init(bls.BLS12_381); err != nil {
		panic(err)
	}
	_ = bls.SetETHmode(bls.EthModeDraft07)
	if len(os.Args) < 2 {
		fmt.Fprintln(os.Stderr, "usage: hx-qbft net|replay ...")
		os.Exit(2)
	}
	mode := os.Args[1]
	fs := flag.NewFlagSet(mode, flag.ExitOnError)
	seed := fs.Uint64("seed", 1, "seed")
	n := fs.Int("n", 20, "runs")
	size := fs.Int("size", 4, "committee size 4 or 7")
	level := fs.String("level", "inst", "inst | ctrl")
	nbyz := fs.Int("byz", -1, "number of Byzantine operators (-1: random 0..f)")
	mut := fs.Bool("mut", false, "forge with any operator's key (single-instance conformance)")
	steps := fs.Int("steps", 0, "scheduler steps per run (0: random 40..200)")
	only := fs.String("only", "", "attack: only this script (equivocate | forged-rc | early-prop | solo)")
	exhLen := fs.Int("len", 2, "exh: maximal history length")
	shard := fs.Int("shard", 0, "exh: this shard")
	shards := fs.Int("of", 1, "exh: number of shards")
	fs.BoolVar(&strictRecover, "strict", false, "count a failing timely continuation as a c07 violation (used only when searching for a failing input after a correspondence break)")
	fs.BoolVar(&netFail, "netfail", false, "every third timeout of an operator finds the network down (monitor-only runs: the model has no publish failures)")
	fs.BoolVar(&recoverMode, "recover", false, "after the adversarial prefix run the timely continuation (C07 exploration)")
	_ = fs.Parse(os.Args[2:])
	out := hx.NewOut()
	defer out.Close()
	switch mode {
	case "net":
		netMode(out, *seed, *n, *size, *level, *nbyz, *mut, *steps)
	case "attack":
		attackMode(out, *seed, *n, *only)
	case "f6":
		scenarioF6(out)
	case "decided":
		decidedMode(out, *seed, *n, *size)
	case "exh":
		exhaustiveMode(out, *exhLen, *shard, *shards)
	case "replay":
		replay(out, fs.Arg(0))
	default:
		fmt.Fprintln(os.Stderr, "unknown mode", mode)
		os.Exit(2)
	}
}
