package main

import (
	"fmt"

	"verifharness/hx"
)

// ---- assignments ---------------------------------------------------------------------------------------

// genAssignment: duties for epoch `key` (attester / proposer) or period `key` (sync committee).
// Validators 1..6; the tag changes at every fetch so that a stale duty is distinguishable.
func genAssignment(r *hx.Rand, c config, key uint64, wild bool, serial *uint64) answer {
	a := answer{kind: 'o'}
	switch c.kind {
	case 'A':
		nv := 1 + r.Intn(4)
		for v := 1; v <= nv; v++ {
			if r.Chance(1, 6) {
				continue
			}
			slot := key*c.spe + uint64(r.Intn(int(c.spe)))
			if wild && r.Chance(1, 10) {
				slot = key*c.spe + uint64(r.Intn(int(3*c.spe))) - c.spe // outside the epoch
			}
			*serial++
			a.l = append(a.l, duty{slot: slot, vidx: uint64(v), tag: *serial, inc: true})
		}
	case 'P':
		for p := uint64(0); p < c.spe; p++ {
			if r.Chance(1, 3) {
				*serial++
				a.l = append(a.l, duty{slot: key*c.spe + p, vidx: uint64(1 + r.Intn(5)), tag: *serial})
			}
		}
	case 'S':
		for v := 1; v <= 4; v++ {
			if r.Chance(1, 2) {
				*serial++
				a.l = append(a.l, duty{vidx: uint64(v), tag: *serial})
			}
		}
	}
	// inCommittee is a function of the validator within one answer (it comes from the controller)
	inc := map[uint64]bool{}
	for i := range a.l {
		v := a.l[i].vidx
		if _, ok := inc[v]; !ok {
			inc[v] = c.kind == 'A' || !r.Chance(1, 4)
		}
		a.l[i].inc = inc[v]
	}
	if wild && len(a.l) > 0 && r.Chance(1, 8) { // a second duty for an existing key
		d := a.l[r.Intn(len(a.l))]
		*serial++
		d.tag = *serial
		a.l = append(a.l, d)
	}
	return a
}

// genAnswers: the beacon node's answers at a tick: for the tick's own epoch / period and for the next.
func genAnswers(r *hx.Rand, c config, slot uint64, failP int, wild bool, serial *uint64) (answer, answer) {
	key := c.keyOfSlot(slot)
	one := func(k uint64) answer {
		switch {
		case r.Chance(failP, 100):
			return answer{kind: 'f'}
		case r.Chance(1, 40):
			return answer{kind: 'n'}
		}
		return genAssignment(r, c, k, wild, serial)
	}
	return one(key), one(key + 1)
}

// ---- random schedules --------------------------------------------------------------------------------

func genConfig(r *hx.Rand, kind byte) config {
	return config{kind: kind, spe: hx.Pick(r, uint64(4), 6, 8, 8, 32), epp: hx.Pick(r, uint64(3), 4, 4, 5)}
}

// genCase builds one schedule.  stream: honest (consecutive ticks, event slots = last or next tick),
// boundary (honest, events concentrated around epoch / period boundaries), wild (gaps, stale and
// future event slots, clock drift, malformed assignments).
func genCase(r *hx.Rand, kind byte, stream string) (config, []op) {
	c := genConfig(r, kind)
	wild := stream == "wild"
	var serial uint64
	failP := hx.Pick(r, 0, 0, 10, 30)
	nEpochs := 2 + r.Intn(3)
	if c.spe == 32 {
		nEpochs = 2
	}
	// start somewhere; for the sync committee make sure a period boundary is crossed
	start := uint64(r.Intn(int(2 * c.spe)))
	if kind == 'S' || r.Chance(1, 3) {
		start = (c.epp-1)*c.spe - uint64(r.Intn(int(c.spe))) + uint64(r.Intn(int(c.spe/2)))
		nEpochs = 2 + r.Intn(2)
	}
	end := start + uint64(nEpochs)*c.spe + uint64(r.Intn(int(c.spe)))
	var ops []op
	initNow := start
	if wild && r.Chance(1, 5) {
		initNow = start + uint64(r.Intn(int(3*c.spe)))
	}
	var ia answer
	{
		a1, _ := genAnswers(r, c, initNow, failP, wild, &serial)
		ia = a1
	}
	ops = append(ops, op{kind: "INIT", now: initNow, a1: ia})
	evP := hx.Pick(r, 5, 15, 40)
	event := func(t uint64, beforeFirst bool) {
		slot := t
		if r.Chance(1, 2) {
			slot = t + 1
		}
		if beforeFirst {
			slot = t + 1
		}
		if wild && r.Chance(1, 3) {
			slot = t + uint64(r.Intn(int(2*c.spe))) - c.spe/2
			if int64(slot) < 0 {
				slot = 0
			}
		}
		switch r.Intn(5) {
		case 0, 1:
			ops = append(ops, op{kind: "REORG", slot: slot, cur: true})
		case 2:
			ops = append(ops, op{kind: "REORG", slot: slot, prev: true})
		case 3:
			ops = append(ops, op{kind: "IDX", now: slot})
		case 4:
			if r.Chance(1, 4) {
				ops = append(ops, op{kind: "REORG", slot: slot, prev: r.Chance(1, 2), cur: r.Chance(1, 2)})
			} else {
				ops = append(ops, op{kind: "IDX", now: slot})
			}
		}
	}
	nearBoundary := func(t uint64) bool {
		p := c.pos(t)
		return p >= c.spe-2 || p <= 1 || p == c.spe/2-2 || p == c.spe/2-1
	}
	if r.Chance(1, 4) {
		event(start-1, true)
	}
	for t := start; t < end; t++ {
		if wild && r.Chance(1, 12) { // the ticker skips slots
			t += uint64(1 + r.Intn(int(c.spe)))
		}
		now := t
		switch {
		case wild && r.Chance(1, 6):
			now = t + uint64(r.Intn(int(2*c.spe+3))) - 2
			if int64(now) < 0 {
				now = 0
			}
		case r.Chance(1, 12) && t > 0:
			now = t - 1 // the handler's clock is one slot behind the ticker ("misaligned")
		case r.Chance(1, 40):
			now = t + 1
		}
		a1, a2 := genAnswers(r, c, t, failP, wild, &serial)
		ops = append(ops, op{kind: "TICK", slot: t, now: now, a1: a1, a2: a2})
		p := evP
		if stream == "boundary" {
			p = 3
			if nearBoundary(t) {
				p = 60
			}
		}
		for r.Chance(p, 100) {
			event(t, false)
			p /= 2
		}
	}
	return c, ops
}

func gen(out *hx.Out, seed uint64, n int, ks []byte, stream string) {
	streams := []string{"honest", "boundary", "wild"}
	if stream != "*" && stream != "" {
		streams = []string{stream}
	}
	for i := 0; i < n; i++ {
		kind := ks[i%len(ks)]
		st := streams[(i/len(ks))%len(streams)]
		r := hx.NewRand(seed, "duties-"+st+"-"+string(kind), uint64(i))
		c, ops := genCase(r, kind, st)
		out.Count("stream-" + st)
		runCase(out, fmt.Sprintf("gen seed=%d case=%d stream=%s", seed, i, st), c, ops)
	}
}

// ---- exhaustive: every sequence of <= 2 events at every point of a window around a boundary ------------

func exhaustive(out *hx.Out, ks []byte) {
	type ev struct {
		kind      string
		prev, cur bool
		next      bool // carries the slot of the next tick instead of the last one
	}
	alphabet := []ev{
		{kind: "REORG", cur: true}, {kind: "REORG", prev: true}, {kind: "IDX"},
		{kind: "REORG", cur: true, next: true}, {kind: "REORG", prev: true, next: true}, {kind: "IDX", next: true},
	}
	var seqs [][]ev
	seqs = append(seqs, nil)
	for _, a := range alphabet {
		seqs = append(seqs, []ev{a})
	}
	for _, a := range alphabet[:3] {
		for _, b := range alphabet[:3] {
			seqs = append(seqs, []ev{a, b})
		}
	}
	for _, kind := range ks {
		c := config{kind: kind, spe: 4, epp: 3}
		if kind == 'A' {
			c.spe = 8
		}
		// window: from the slot at which the next epoch / period gets fetched to the second slot of the
		// new epoch / period
		var boundary uint64 = 2 * c.spe
		if kind == 'S' {
			boundary = c.epp * c.spe
		}
		first := boundary - c.spe/2 - 2
		last := boundary + 2
		for _, failing := range []int{0, 1, 2} { // 0: no failure, 1: fetches in the tick after the events fail once, 2: fail until the boundary
			for at := first; at < last; at++ {
				for si, seq := range seqs {
					var serial uint64
					mk := func(k uint64) answer {
						a := answer{kind: 'o'}
						switch kind {
						case 'A':
							for p := uint64(0); p < c.spe; p += 2 {
								serial++
								a.l = append(a.l, duty{slot: k*c.spe + p, vidx: 1 + p%3, tag: serial, inc: true})
							}
						case 'P':
							for p := uint64(0); p < c.spe; p++ {
								serial++
								v := 1 + p%2
								if p == 2 {
									v = 3 // a validator of another operator's committee
								}
								a.l = append(a.l, duty{slot: k*c.spe + p, vidx: v, tag: serial, inc: v != 3})
							}
						default:
							serial++
							a.l = []duty{{vidx: 1, tag: serial, inc: true}, {vidx: 2, tag: serial + 100, inc: true}}
						}
						return a
					}
					start := first - 1
					ops := []op{{kind: "INIT", now: start, a1: mk(c.keyOfSlot(start))}}
					for t := start; t <= last+1; t++ {
						k := c.keyOfSlot(t)
						a1, a2 := mk(k), mk(k+1)
						if (failing == 1 && t == at+1) || (failing == 2 && t > at && t < boundary) {
							a1, a2 = answer{kind: 'f'}, answer{kind: 'f'}
						}
						ops = append(ops, op{kind: "TICK", slot: t, now: t, a1: a1, a2: a2})
						if t == at {
							for _, e := range seq {
								s := t
								if e.next {
									s = t + 1
								}
								if e.kind == "IDX" {
									ops = append(ops, op{kind: "IDX", now: s})
								} else {
									ops = append(ops, op{kind: "REORG", slot: s, prev: e.prev, cur: e.cur})
								}
							}
						}
					}
					runCase(out, fmt.Sprintf("exhaustive kind=%c at=%d seq=%d failing=%d", kind, at, si, failing), c, ops)
				}
			}
		}
	}
}
