// hx-duties drives the real duty handlers of /repo/operator/duties (C16).
//
//	hx-duties gen -seed S -n N [-kind A|P|S|*] [-stream honest|wild|boundary|*]
//	hx-duties exhaustive [-kind A|P|S|*]     all short event sequences around an epoch / period boundary
//	hx-duties replay FILE                    re-run the operation lines of a corpus / replay file
//
// Operation lines (one case = CFG, INIT, then events):
//
//	CFG <A|P|S> <slotsPerEpoch> <epochsPerSyncPeriod>
//	INIT <now> <answer>                      HandleInitialDuties with EstimatedCurrentSlot = now
//	TICK <slot> <now> <answer> <answer>      slot ticker fires; answers of the beacon node for a fetch of the
//	                                         tick's own epoch / period and for a fetch of the next one
//	REORG <slot> <previous 0|1> <current 0|1>
//	IDX <now>                                indices-change notification, EstimatedCurrentSlot = now
//	answer := none | fail | ok <k> (<slot> <validator> <tag> <inCommittee 0|1>){k}
//
// Observations: `fetch <epoch> none|fail|ok` (validator-controller / beacon-node call of a fetch
// attempt) and `exec <role> <slot> <validator> <tag>` (ExecuteDuties callback).
package main

import (
	"bufio"
	"flag"
	"fmt"
	"os"
	"strconv"
	"strings"

	"verifharness/hx"
)

// runCase feeds a whole case to a fresh handler, prints op / OBS / MON lines.
func runCase(out *hx.Out, title string, cfg config, ops []op) {
	out.Case("%s", title)
	out.Op("CFG", "%c %d %d", cfg.kind, cfg.spe, cfg.epp)
	out.Count("kind-" + string(cfg.kind))
	if len(ops) == 0 || ops[0].kind != "INIT" {
		out.Note("case without INIT: nothing run")
		out.End()
		return
	}
	mon := newMonitor(cfg)
	var s *sut
	for i, o := range ops {
		var obs []obsv
		o.a1, o.a2 = normalise(cfg, o.a1), normalise(cfg, o.a2)
		out.Op(o.kind, "%s", o.args())
		if i == 0 {
			s, obs = startSut(cfg, o)
		} else if o.kind == "INIT" {
			out.Note("second INIT ignored")
			continue
		} else {
			obs = s.apply(o)
		}
		for _, b := range obs {
			out.Obs("%s", b)
		}
		for _, v := range mon.step(o, obs) {
			out.ViolF("%s", v)
		}
		for _, b := range s.gateMisses(obs) {
			out.Count("gate-miss")
			out.ViolF("c10gate proposer duty of slot %d (validator index %d) was handed to the runners, but the duty store - the one the message validator looks proposer duties up in - no longer holds it: every consensus message of this duty is rejected (no duty)", b.slot, b.vidx)
		}
	}
	s.close()
	for k, v := range mon.counts {
		for i := 0; i < v; i++ {
			out.Count(k)
		}
	}
	out.End()
}

// normalise: inCommittee is a property of the validator (it is what the validator controller reports),
// so within one answer all duties of a validator carry the same flag; attester duties are always
// in-committee.  Applied before an operation is printed, so printed operations are always consistent.
func normalise(c config, a answer) answer {
	if a.kind != 'o' {
		return answer{kind: a.kind}
	}
	inc := map[uint64]bool{}
	for _, d := range a.l {
		inc[d.vidx] = inc[d.vidx] || d.inc || c.kind == 'A'
	}
	out := answer{kind: 'o'}
	for _, d := range a.l {
		d.inc = inc[d.vidx]
		if c.kind == 'S' {
			d.slot = 0
		}
		out.l = append(out.l, d)
	}
	return out
}

// ---- parsing (replay) ------------------------------------------------------------------------------------

func u(s string) uint64 { v, _ := strconv.ParseUint(s, 10, 64); return v }

func parseAnswer(w []string) (answer, []string) {
	if len(w) == 0 {
		return answer{kind: 'f'}, w
	}
	switch w[0] {
	case "none":
		return answer{kind: 'n'}, w[1:]
	case "ok":
		if len(w) < 2 {
			return answer{kind: 'o'}, nil
		}
		k := int(u(w[1]))
		w = w[2:]
		a := answer{kind: 'o'}
		for i := 0; i < k && len(w) >= 4; i++ {
			a.l = append(a.l, duty{slot: u(w[0]), vidx: u(w[1]), tag: u(w[2]), inc: w[3] == "1"})
			w = w[4:]
		}
		return a, w
	}
	return answer{kind: 'f'}, w[1:]
}

func parseOp(w []string) (op, bool) {
	o := op{kind: w[0]}
	switch w[0] {
	case "INIT":
		if len(w) < 2 {
			return o, false
		}
		o.now = u(w[1])
		o.a1, _ = parseAnswer(w[2:])
	case "TICK":
		if len(w) < 3 {
			return o, false
		}
		o.slot, o.now = u(w[1]), u(w[2])
		var rest []string
		o.a1, rest = parseAnswer(w[3:])
		o.a2, _ = parseAnswer(rest)
	case "REORG":
		if len(w) < 4 {
			return o, false
		}
		o.slot, o.prev, o.cur = u(w[1]), w[2] == "1", w[3] == "1"
	case "IDX":
		if len(w) < 2 {
			return o, false
		}
		o.now = u(w[1])
	default:
		return o, false
	}
	return o, true
}

func replay(out *hx.Out, path string) {
	fh, err := os.Open(path)
	if err != nil {
		fmt.Fprintln(os.Stderr, err)
		os.Exit(2)
	}
	defer fh.Close()
	sc := bufio.NewScanner(fh)
	sc.Buffer(make([]byte, 1<<20), 1<<24)
	var cfg config
	var ops []op
	title := ""
	have := false
	flush := func() {
		if have {
			if cfg.kind == 0 {
				cfg = config{kind: 'A', spe: 32, epp: 256}
			}
			runCase(out, title, cfg, ops)
		}
		have, ops, cfg = false, nil, config{}
	}
	for sc.Scan() {
		w := strings.Fields(sc.Text())
		if len(w) == 0 {
			continue
		}
		switch w[0] {
		case "CASE":
			flush()
			have = true
			title = "replay " + strings.Join(w[2:], " ")
		case "END":
			flush()
		case "CFG":
			if len(w) >= 4 && len(w[1]) == 1 && strings.Contains("APS", w[1]) && u(w[2]) >= 4 && u(w[3]) >= 3 {
				cfg = config{kind: w[1][0], spe: u(w[2]), epp: u(w[3])}
			}
		case "INIT", "TICK", "REORG", "IDX":
			if o, ok := parseOp(w); ok {
				ops = append(ops, o)
			}
		}
	}
	flush()
}

func kinds(sel string) []byte {
	if sel == "*" || sel == "" {
		return []byte{'A', 'P', 'S'}
	}
	return []byte{sel[0]}
}

func main() {
	if len(os.Args) < 2 {
		fmt.Fprintln(os.Stderr, "usage: hx-duties gen|exhaustive|replay ...")
		os.Exit(2)
	}
	mode := os.Args[1]
	fs := flag.NewFlagSet(mode, flag.ExitOnError)
	seed := fs.Uint64("seed", 1, "seed")
	n := fs.Int("n", 100, "cases")
	kind := fs.String("kind", "*", "handler: A, P, S or *")
	stream := fs.String("stream", "*", "honest, wild, boundary or *")
	_ = fs.Parse(os.Args[2:])
	if err := selfCheckNetwork(); err != nil {
		fmt.Fprintln(os.Stderr, err)
		os.Exit(3)
	}
	out := hx.NewOut()
	defer out.Close()
	switch mode {
	case "gen":
		gen(out, *seed, *n, kinds(*kind), *stream)
	case "exhaustive":
		exhaustive(out, kinds(*kind))
	case "replay":
		replay(out, fs.Arg(0))
	default:
		fmt.Fprintln(os.Stderr, "unknown mode", mode)
		os.Exit(2)
	}
}
