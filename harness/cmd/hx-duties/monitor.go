package main

// The property monitor: C16 stated directly on the observables of the real handler (fetch attempts
// and ExecuteDuties calls) and the generated schedule; it does not use the model.
//
//	(a)  no (role, slot, validator) is dispatched twice                                   [all schedules]
//	(b1) a dispatch happens while a TICK is processed and the duty's slot is the tick's slot   [all]
//	(b2) ... and the handler's current slot is inside the window of the duty type             [all]
//	(b3) ... and the duty is in the most recently fetched assignment of its epoch / period    [honest]
//	(c)  at a tick whose current slot is inside the window, if the last fetch attempt of the tick's
//	     epoch / period before the dispatch point succeeded, every in-committee duty of that assignment
//	     due at the tick's slot is dispatched (in every role of the handler)                  [honest]
//	(c') proposer: the same for the latest SUCCESSFUL attempt when later attempts failed and no reorg
//	     arrived since (a failed re-fetch after a validator-set change does not cancel what was fetched)
//
// honest = the hypothesis of theorems C16_*_exactly_once (coq/Scheduler/Spec.v, honest_from): ticks are
// consecutive slots, the first one not before the start slot; every reorg / indices event between tick t
// and tick t+1 carries slot t or t+1 (any slot before the first tick); assignments have one duty per
// (slot, validator) (per validator for the sync committee).  In addition the monitor stops checking
// (b3)/(c) of a sync committee case once the handler's clock is beyond the tick's period, because the
// period of a fetch can then not be recovered from the epoch passed to the beacon node.

import "fmt"

type attempt struct {
	key uint64
	res byte
	l   []duty
	at  int // event index
}

type evrec struct {
	kind string
	slot uint64
	at   int
}

type monitor struct {
	cfg      config
	honest   bool
	why      string
	lastTick uint64
	haveTick bool
	initNow  uint64
	trace    []attempt
	events   []evrec
	seen     map[[3]uint64]bool
	n        int
	counts   map[string]int
}

func newMonitor(cfg config) *monitor {
	return &monitor{cfg: cfg, honest: true, seen: map[[3]uint64]bool{}, counts: map[string]int{}}
}

func (m *monitor) dishonest(why string) {
	if m.honest {
		m.honest = false
		m.why = why
	}
}

func (m *monitor) roles() []byte {
	switch m.cfg.kind {
	case 'A':
		return []byte{'A', 'G'}
	case 'P':
		return []byte{'P'}
	}
	return []byte{'S', 'C'}
}

func (m *monitor) window(now, slot uint64) bool {
	if now+1 == slot {
		return true
	}
	if m.cfg.kind == 'A' {
		return now >= slot && now-slot <= m.cfg.spe
	}
	return now == slot
}

func (m *monitor) dutyKey(d duty) [2]uint64 {
	if m.cfg.kind == 'S' {
		return [2]uint64{0, d.vidx}
	}
	return [2]uint64{d.slot, d.vidx}
}

func (m *monitor) uniqueKeys(a answer) bool {
	seen := map[[2]uint64]bool{}
	for _, d := range a.l {
		k := m.dutyKey(d)
		if seen[k] {
			return false
		}
		seen[k] = true
	}
	return true
}

func (m *monitor) lastAttempt(tr []attempt, key uint64) *attempt {
	for i := len(tr) - 1; i >= 0; i-- {
		if tr[i].key == key {
			return &tr[i]
		}
	}
	return nil
}

func (m *monitor) latestOk(tr []attempt, key uint64) *attempt {
	for i := len(tr) - 1; i >= 0; i-- {
		if tr[i].key == key && tr[i].res == 'o' {
			return &tr[i]
		}
	}
	return nil
}

// due: in-committee duties of the assignment that the tick at `slot` has to dispatch.
func (m *monitor) due(l []duty, slot uint64) []duty {
	var out []duty
	for _, d := range l {
		if (m.cfg.kind == 'A' || d.inc) && (m.cfg.kind == 'S' || d.slot == slot) {
			out = append(out, d)
		}
	}
	return out
}

// keyOfAttempt: epoch for attester / proposer.  The sync committee handler passes
// max(first epoch of the period, current epoch) to the beacon node; the period is recovered from it.
func (m *monitor) keyOfAttempt(o op, ep uint64) uint64 {
	if m.cfg.kind != 'S' {
		return ep
	}
	c := m.cfg
	ref := o.slot
	if o.kind == "INIT" {
		ref = o.now
	}
	p := c.period(c.epoch(ref))
	if c.period(c.epoch(o.now)) > p {
		m.dishonest("current slot beyond the tick's sync period")
	}
	return c.period(ep)
}

func (m *monitor) step(o op, obs []obsv) (viol []string) {
	c := m.cfg
	m.n++
	at := m.n
	// ---- honesty of the schedule (hypothesis of the (b3)/(c) theorems)
	switch o.kind {
	case "INIT":
		m.initNow = o.now
	case "TICK":
		if m.haveTick && o.slot != m.lastTick+1 {
			m.dishonest("tick gap")
		}
		if !m.haveTick && m.cfg.kind != 'A' && o.slot < m.initNow {
			m.dishonest("first tick before the start slot")
		}
	case "REORG":
		if m.haveTick && o.slot != m.lastTick && o.slot != m.lastTick+1 {
			m.dishonest("reorg slot")
		}
		m.events = append(m.events, evrec{"REORG", o.slot, at})
	case "IDX":
		if m.haveTick && o.now != m.lastTick && o.now != m.lastTick+1 {
			m.dishonest("indices slot")
		}
		m.events = append(m.events, evrec{"IDX", o.now, at})
	}
	for _, a := range []answer{o.a1, o.a2} {
		if a.kind == 'o' && !m.uniqueKeys(a) {
			m.dishonest("assignment with two duties for one key")
		}
	}
	if o.kind != "TICK" && o.kind != "INIT" {
		for _, b := range obs {
			viol = append(viol, fmt.Sprintf("b1: %s while processing %s", b, o.kind))
		}
		return
	}
	// ---- walk the observations of the tick
	tickKey := c.keyOfSlot(o.slot)
	if o.kind == "INIT" {
		tickKey = c.keyOfSlot(o.now)
	}
	firstExec := -1
	var execs []obsv
	var pre []attempt // attempts of this tick before its first dispatch
	var all []attempt
	for i, b := range obs {
		if b.fetch {
			t := attempt{key: m.keyOfAttempt(o, b.ep), res: b.res, at: at}
			a := o.a2 // the oracle's answer is selected by the epoch asked for, as in sut.go
			if t.key == tickKey {
				a = o.a1
			}
			t.l = a.l
			all = append(all, t)
			if firstExec < 0 {
				pre = append(pre, t)
			}
			m.trace = append(m.trace, t)
			continue
		}
		if firstExec < 0 {
			firstExec = i
		}
		execs = append(execs, b)
		if o.kind == "INIT" {
			viol = append(viol, fmt.Sprintf("b1: %s during initial duties", b))
			continue
		}
		id := [3]uint64{uint64(b.role), b.slot, b.vidx}
		if m.seen[id] {
			viol = append(viol, fmt.Sprintf("a: %s dispatched twice", b))
		}
		m.seen[id] = true
		m.counts["exec"]++
		if b.slot != o.slot {
			viol = append(viol, fmt.Sprintf("b1: %s dispatched at the tick of slot %d", b, o.slot))
		}
		if !m.window(o.now, b.slot) {
			viol = append(viol, fmt.Sprintf("b2: %s dispatched with current slot %d, outside the window", b, o.now))
		}
		if m.honest {
			ok := false
			if la := m.latestOk(m.trace, c.keyOfSlot(b.slot)); la != nil {
				for _, d := range m.due(la.l, b.slot) {
					if d.vidx == b.vidx && d.tag == b.tag {
						ok = true
					}
				}
			}
			if !ok {
				viol = append(viol, fmt.Sprintf("b3: %s is not in the most recently fetched assignment of its epoch/period", b))
			}
		}
	}
	if o.kind == "INIT" {
		return
	}
	defer func() { m.haveTick, m.lastTick = true, o.slot }()
	if !m.honest {
		m.counts["tick-dishonest"]++
		return
	}
	m.counts["tick-honest"]++
	if !m.window(o.now, o.slot) {
		return
	}
	// ---- (c): the dispatch point is after `pre` when something was dispatched; when nothing was,
	// the handler gets the benefit of the doubt: any prefix of the tick's fetches may precede it.
	key := c.keyOfSlot(o.slot)
	before := m.trace[:len(m.trace)-len(all)]
	missing := func(preN int) (string, bool) {
		tr := append(append([]attempt{}, before...), all[:preN]...)
		la := m.lastAttempt(tr, key)
		if la != nil && la.res != 'o' && m.cfg.kind == 'P' {
			// (c') A proposer assignment that was fetched successfully stays due when a later re-fetch of the
			// same epoch fails, as long as no reorg has invalidated it in between (the failed attempts were
			// caused by validator-set changes only): "exactly once whenever the assignment for that epoch had
			// been fetched successfully before that tick".
			if lo := m.latestOk(tr, key); lo != nil {
				reorg := false
				for _, e := range m.events {
					if e.kind == "REORG" && e.at > lo.at {
						reorg = true
					}
				}
				if !reorg {
					la = lo
				}
			}
		}
		if la == nil || la.res != 'o' {
			return "", false
		}
		for _, d := range m.due(la.l, o.slot) {
			m.counts["due"]++
			for _, r := range m.roles() {
				found := false
				for _, e := range execs {
					if e.role == r && e.slot == o.slot && e.vidx == d.vidx && e.tag == d.tag {
						found = true
					}
				}
				if !found {
					return fmt.Sprintf("c: duty %c slot %d validator %d tag %d of the assignment fetched at event %d was not dispatched at its tick%s",
						r, o.slot, d.vidx, d.tag, la.at, m.signature(la, o)), true
				}
			}
		}
		return "", false
	}
	if firstExec >= 0 {
		if s, bad := missing(len(pre)); bad {
			viol = append(viol, s)
		}
		return
	}
	first := ""
	for n := 0; n <= len(all); n++ {
		s, bad := missing(n)
		if !bad {
			return
		}
		if first == "" {
			first = s
		}
	}
	viol = append(viol, first)
	return
}

// signature of finding F7 (epoch-boundary loss): the assignment was fetched, a reorg / indices event
// carrying a slot of the PREVIOUS epoch (period) arrived afterwards in the window in which the handler
// resets the next epoch (period), and the tick that loses the duty is in the new epoch (period) with no
// fetch attempt of it since.
func (m *monitor) signature(la *attempt, o op) string {
	c := m.cfg
	for _, e := range m.events {
		if e.at <= la.at {
			continue
		}
		if c.kind == 'S' {
			if c.period(c.epoch(e.slot))+1 == c.period(c.epoch(o.slot)) {
				return " sig=F7"
			}
		} else if c.epoch(e.slot)+1 == c.epoch(o.slot) && c.pos(e.slot) > c.spe/2-2 {
			return " sig=F7"
		}
	}
	return ""
}
