package main

// The system under test: ONE real duty handler of /repo/operator/duties (attester, proposer or sync
// committee) running its real HandleDuties loop, fed through the verif hook with an injected
// ticker, reorg channel, indices channel, beacon node, validator controller and beacon network.

import (
	"context"
	"encoding/binary"
	"errors"
	"fmt"
	"sort"
	"time"

	eth2client "github.com/attestantio/go-eth2-client"
	eth2apiv1 "github.com/attestantio/go-eth2-client/api/v1"
	"github.com/attestantio/go-eth2-client/spec/phase0"
	spectypes "github.com/bloxapp/ssv-spec/types"
	"go.uber.org/zap"

	"github.com/bloxapp/ssv/networkconfig"
	"github.com/bloxapp/ssv/operator/duties"
	"github.com/bloxapp/ssv/operator/duties/dutystore"
	"github.com/bloxapp/ssv/protocol/v2/blockchain/beacon"
	ssvtypes "github.com/bloxapp/ssv/protocol/v2/types"
)

// ---- abstract data ---------------------------------------------------------------------------------

type duty struct {
	slot, vidx, tag uint64
	inc             bool
}

// answer of the environment to one fetch attempt: 'n' the validator controller reports no active
// indices (no beacon call is made), 'f' the beacon node call fails, 'o' it returns the list.
type answer struct {
	kind byte
	l    []duty
}

func (a answer) String() string {
	switch a.kind {
	case 'n':
		return "none"
	case 'f':
		return "fail"
	}
	s := fmt.Sprintf("ok %d", len(a.l))
	for _, d := range a.l {
		inc := 0
		if d.inc {
			inc = 1
		}
		s += fmt.Sprintf(" %d %d %d %d", d.slot, d.vidx, d.tag, inc)
	}
	return s
}

type config struct {
	kind     byte // 'A' attester, 'P' proposer, 'S' sync committee
	spe, epp uint64
}

func (c config) epoch(slot uint64) uint64 { return slot / c.spe }
func (c config) pos(slot uint64) uint64   { return slot % c.spe }
func (c config) period(ep uint64) uint64  { return ep / c.epp }
func (c config) keyOfSlot(s uint64) uint64 { // epoch (attester, proposer) or period (sync committee)
	if c.kind == 'S' {
		return c.period(c.epoch(s))
	}
	return c.epoch(s)
}

type op struct {
	kind      string // INIT TICK REORG IDX
	slot, now uint64
	prev, cur bool
	a1, a2    answer
}

func b2i(b bool) int {
	if b {
		return 1
	}
	return 0
}

func (o op) args() string {
	switch o.kind {
	case "INIT":
		return fmt.Sprintf("%d %s", o.now, o.a1)
	case "TICK":
		return fmt.Sprintf("%d %d %s %s", o.slot, o.now, o.a1, o.a2)
	case "REORG":
		return fmt.Sprintf("%d %d %d", o.slot, b2i(o.prev), b2i(o.cur))
	case "IDX":
		return fmt.Sprintf("%d", o.now)
	}
	return ""
}

// observation: a fetch attempt (epoch passed to the beacon node / validator controller, outcome) or
// one executed duty.
type obsv struct {
	fetch bool
	ep    uint64
	res   byte // 'n' 'f' 'o'
	role  byte // A attester, G aggregator, P proposer, S sync committee, C contribution
	slot  uint64
	vidx  uint64
	tag   uint64
}

func (o obsv) String() string {
	if o.fetch {
		return fmt.Sprintf("fetch %d %s", o.ep, map[byte]string{'n': "none", 'f': "fail", 'o': "ok"}[o.res])
	}
	return fmt.Sprintf("exec %c %d %d %d", o.role, o.slot, o.vidx, o.tag)
}

// ---- beacon network with configurable epoch / period lengths ------------------------------------------
// Same formulas as beacon.Network (protocol/v2/blockchain/beacon/network.go), which hard-codes
// 32 slots per epoch and 256 epochs per period; selfCheckNetwork compares the two on those values.

type fakeNet struct {
	spe, epp uint64
	now      *uint64
}

func (n fakeNet) ForkVersion() [4]byte                    { return [4]byte{} }
func (n fakeNet) MinGenesisTime() uint64                  { return 0 }
func (n fakeNet) SlotDurationSec() time.Duration          { return 12 * time.Second }
func (n fakeNet) SlotsPerEpoch() uint64                   { return n.spe }
func (n fakeNet) EstimatedCurrentSlot() phase0.Slot       { return phase0.Slot(*n.now) }
func (n fakeNet) EstimatedSlotAtTime(int64) phase0.Slot   { return phase0.Slot(*n.now) }
func (n fakeNet) EstimatedTimeAtSlot(s phase0.Slot) int64 { return int64(s) * 12 }
func (n fakeNet) EstimatedCurrentEpoch() phase0.Epoch {
	return n.EstimatedEpochAtSlot(n.EstimatedCurrentSlot())
}
func (n fakeNet) EstimatedEpochAtSlot(s phase0.Slot) phase0.Epoch {
	return phase0.Epoch(s / phase0.Slot(n.SlotsPerEpoch()))
}
func (n fakeNet) FirstSlotAtEpoch(e phase0.Epoch) phase0.Slot { return phase0.Slot(uint64(e) * n.spe) }
func (n fakeNet) EpochStartTime(e phase0.Epoch) time.Time {
	return n.GetSlotStartTime(n.FirstSlotAtEpoch(e))
}

// far in the future: the fetch deadline contexts derived from it never expire during a case
func (n fakeNet) GetSlotStartTime(phase0.Slot) time.Time { return time.Now().Add(time.Hour) }
func (n fakeNet) GetSlotEndTime(phase0.Slot) time.Time   { return time.Now().Add(time.Hour) }
func (n fakeNet) IsFirstSlotOfEpoch(s phase0.Slot) bool  { return uint64(s)%n.SlotsPerEpoch() == 0 }
func (n fakeNet) GetEpochFirstSlot(e phase0.Epoch) phase0.Slot {
	return phase0.Slot(uint64(e) * n.SlotsPerEpoch())
}
func (n fakeNet) EpochsPerSyncCommitteePeriod() uint64 { return n.epp }
func (n fakeNet) EstimatedSyncCommitteePeriodAtEpoch(e phase0.Epoch) uint64 {
	return uint64(e) / n.EpochsPerSyncCommitteePeriod()
}
func (n fakeNet) FirstEpochOfSyncPeriod(p uint64) phase0.Epoch {
	return phase0.Epoch(p * n.EpochsPerSyncCommitteePeriod())
}
func (n fakeNet) LastSlotOfSyncPeriod(p uint64) phase0.Slot {
	lastEpoch := n.FirstEpochOfSyncPeriod(p+1) - 1
	return n.GetEpochFirstSlot(lastEpoch+1) - 2
}
func (n fakeNet) GetNetwork() beacon.Network                { return beacon.Network{} }
func (n fakeNet) GetBeaconNetwork() spectypes.BeaconNetwork { return spectypes.BeaconTestNetwork }

// selfCheckNetwork: with 32 / 256 the fake network must agree with the repository's beacon.Network.
func selfCheckNetwork() error {
	now := uint64(0)
	f := fakeNet{spe: 32, epp: 256, now: &now}
	r := beacon.NewNetwork(spectypes.BeaconTestNetwork)
	if r.SlotsPerEpoch() != 32 || r.EpochsPerSyncCommitteePeriod() != 256 {
		return fmt.Errorf("beacon.Network constants changed")
	}
	for _, s := range []uint64{0, 1, 31, 32, 63, 8190, 8191, 8192, 16383, 16384, 1234567} {
		e := f.EstimatedEpochAtSlot(phase0.Slot(s))
		p := f.EstimatedSyncCommitteePeriodAtEpoch(e)
		if e != r.EstimatedEpochAtSlot(phase0.Slot(s)) || p != r.EstimatedSyncCommitteePeriodAtEpoch(e) ||
			f.FirstEpochOfSyncPeriod(p) != r.FirstEpochOfSyncPeriod(p) ||
			f.LastSlotOfSyncPeriod(p) != r.LastSlotOfSyncPeriod(p) ||
			f.GetEpochFirstSlot(e) != r.GetEpochFirstSlot(e) {
			return fmt.Errorf("fake beacon network differs from beacon.Network at slot %d", s)
		}
	}
	return nil
}

// ---- ticker ----------------------------------------------------------------------------------------------

type fakeTicker struct {
	ch   chan time.Time
	slot phase0.Slot
}

func (t *fakeTicker) Next() <-chan time.Time { return t.ch }
func (t *fakeTicker) Slot() phase0.Slot      { return t.slot }

// ---- environment: validator controller + beacon node -------------------------------------------------

// The beacon node is an oracle of the schedule: a tick carries the answer for a fetch of the tick's own
// epoch / period (acur) and the answer for a fetch of any other one, i.e. the next (anext).  The answer
// is selected by the epoch the handler asks for, at the first validator-controller call of
// fetchAndProcessDuties (CommitteeActiveIndices for the attester handler, AllActiveIndices for the
// proposer and sync committee handlers).
type env struct {
	cfg         config
	tickKey     uint64
	acur, anext answer
	sel         answer // answer of the running attempt
	log         []obsv
}

const dummyIndex = 1 << 40 // an active validator that never gets a duty: keeps index lists non-empty

func (e *env) pick(epoch uint64) answer {
	key := epoch
	if e.cfg.kind == 'S' {
		key = e.cfg.period(epoch)
	}
	if key == e.tickKey {
		return e.acur
	}
	return e.anext
}

func (e *env) begin(epoch phase0.Epoch) answer {
	e.sel = e.pick(uint64(epoch))
	if e.sel.kind == 'n' {
		e.log = append(e.log, obsv{fetch: true, ep: uint64(epoch), res: 'n'})
	}
	return e.sel
}

func (e *env) current() answer { return e.sel }

func indices(a answer, onlyCommittee bool) []phase0.ValidatorIndex {
	if a.kind == 'n' {
		return nil
	}
	out := []phase0.ValidatorIndex{dummyIndex}
	seen := map[uint64]bool{}
	for _, d := range a.l {
		if (d.inc || !onlyCommittee) && !seen[d.vidx] {
			seen[d.vidx] = true
			out = append(out, phase0.ValidatorIndex(d.vidx))
		}
	}
	return out
}

// ValidatorController
func (e *env) CommitteeActiveIndices(epoch phase0.Epoch) []phase0.ValidatorIndex {
	if e.cfg.kind == 'A' {
		return indices(e.begin(epoch), false)
	}
	return indices(e.current(), true)
}

func (e *env) AllActiveIndices(epoch phase0.Epoch, afterInit bool) []phase0.ValidatorIndex {
	return indices(e.begin(epoch), false)
}

func (e *env) GetOperatorShares() []*ssvtypes.SSVShare { return nil }

func pubkey(tag uint64) (pk phase0.BLSPubKey) {
	binary.LittleEndian.PutUint64(pk[:8], tag)
	return
}

func (e *env) outcome(epoch phase0.Epoch) (answer, error) {
	a := e.current()
	if a.kind == 'f' {
		e.log = append(e.log, obsv{fetch: true, ep: uint64(epoch), res: 'f'})
		return a, errors.New("scripted beacon node failure")
	}
	e.log = append(e.log, obsv{fetch: true, ep: uint64(epoch), res: 'o'})
	return a, nil
}

// BeaconNode
func (e *env) AttesterDuties(_ context.Context, epoch phase0.Epoch, _ []phase0.ValidatorIndex) ([]*eth2apiv1.AttesterDuty, error) {
	a, err := e.outcome(epoch)
	if err != nil {
		return nil, err
	}
	var out []*eth2apiv1.AttesterDuty
	for _, d := range a.l {
		out = append(out, &eth2apiv1.AttesterDuty{PubKey: pubkey(d.tag), Slot: phase0.Slot(d.slot),
			ValidatorIndex: phase0.ValidatorIndex(d.vidx), CommitteeIndex: phase0.CommitteeIndex(d.tag),
			CommitteeLength: 128, CommitteesAtSlot: 4})
	}
	return out, nil
}

func (e *env) ProposerDuties(_ context.Context, epoch phase0.Epoch, _ []phase0.ValidatorIndex) ([]*eth2apiv1.ProposerDuty, error) {
	a, err := e.outcome(epoch)
	if err != nil {
		return nil, err
	}
	var out []*eth2apiv1.ProposerDuty
	for _, d := range a.l {
		out = append(out, &eth2apiv1.ProposerDuty{PubKey: pubkey(d.tag), Slot: phase0.Slot(d.slot),
			ValidatorIndex: phase0.ValidatorIndex(d.vidx)})
	}
	return out, nil
}

func (e *env) SyncCommitteeDuties(_ context.Context, epoch phase0.Epoch, _ []phase0.ValidatorIndex) ([]*eth2apiv1.SyncCommitteeDuty, error) {
	a, err := e.outcome(epoch)
	if err != nil {
		return nil, err
	}
	var out []*eth2apiv1.SyncCommitteeDuty
	for _, d := range a.l {
		out = append(out, &eth2apiv1.SyncCommitteeDuty{PubKey: pubkey(d.tag),
			ValidatorIndex:                phase0.ValidatorIndex(d.vidx),
			ValidatorSyncCommitteeIndices: []phase0.CommitteeIndex{phase0.CommitteeIndex(d.tag % 512)}})
	}
	return out, nil
}

func (e *env) Events(context.Context, []string, eth2client.EventHandlerFunc) error { return nil }
func (e *env) SubmitBeaconCommitteeSubscriptions(context.Context, []*eth2apiv1.BeaconCommitteeSubscription) error {
	return nil
}
func (e *env) SubmitSyncCommitteeSubscriptions(context.Context, []*eth2apiv1.SyncCommitteeSubscription) error {
	return nil
}

// ExecuteDutiesFunc: called synchronously by the handler's goroutine.
func (e *env) execute(_ *zap.Logger, ds []*spectypes.Duty) {
	var batch []obsv
	for _, d := range ds {
		var role byte = '?'
		switch d.Type {
		case spectypes.BNRoleAttester:
			role = 'A'
		case spectypes.BNRoleAggregator:
			role = 'G'
		case spectypes.BNRoleProposer:
			role = 'P'
		case spectypes.BNRoleSyncCommittee:
			role = 'S'
		case spectypes.BNRoleSyncCommitteeContribution:
			role = 'C'
		}
		batch = append(batch, obsv{role: role, slot: uint64(d.Slot), vidx: uint64(d.ValidatorIndex),
			tag: binary.LittleEndian.Uint64(d.PubKey[:8])})
	}
	e.log = append(e.log, batch...)
}

// sortExecRuns sorts every maximal run of consecutive exec observations (map iteration order of the
// duty store is not an observable).
func sortExecRuns(l []obsv) {
	i := 0
	for i < len(l) {
		if l[i].fetch {
			i++
			continue
		}
		j := i
		for j < len(l) && !l[j].fetch {
			j++
		}
		run := l[i:j]
		sort.SliceStable(run, func(a, b int) bool {
			x, y := run[a], run[b]
			if x.slot != y.slot {
				return x.slot < y.slot
			}
			if x.vidx != y.vidx {
				return x.vidx < y.vidx
			}
			if x.role != y.role {
				return x.role < y.role
			}
			return x.tag < y.tag
		})
		i = j
	}
}

// ---- one running handler -------------------------------------------------------------------------------

type sut struct {
	cfg    config
	env    *env
	now    uint64
	ticker *fakeTicker
	reorg  chan duties.ReorgEvent
	idx    chan struct{}
	ack    chan struct{}
	stop   func()
	store  *dutystore.Store // the store the handler fills; the node hands the same store to the message validator
}

// gateMisses: the message validator rejects every consensus message of a proposer duty it cannot find in the
// duty store (validateBeaconDuty: Proposer.ValidatorDuty(epoch, slot, index) == nil -> ErrNoDuty).  Returns the
// proposer duties among obs (executed while the last event was processed) that the store no longer holds now,
// i.e. while the duty is running.
func (s *sut) gateMisses(obs []obsv) (out []obsv) {
	for i, b := range obs {
		if b.fetch || b.role != 'P' {
			continue
		}
		epoch := phase0.Epoch(b.slot / s.cfg.spe)
		// a fetch of the duty's epoch AFTER the hand-over (indices change, reorg): the store then holds the beacon
		// node's newer answer, and whether that still names the duty is the beacon node's business, not the code's
		refetched := false
		for _, later := range obs[i+1:] {
			if later.fetch && later.ep == uint64(epoch) {
				refetched = true
			}
		}
		if refetched {
			continue
		}
		if s.store.Proposer.ValidatorDuty(epoch, phase0.Slot(b.slot), phase0.ValidatorIndex(b.vidx)) == nil {
			out = append(out, b)
		}
	}
	return out
}

// start runs HandleInitialDuties (INIT op) and then the handler loop; returns the observations of
// the initial fetch.
func startSut(cfg config, o op) (*sut, []obsv) {
	s := &sut{cfg: cfg, now: o.now}
	s.env = &env{cfg: cfg, tickKey: cfg.keyOfSlot(o.now), acur: o.a1, anext: answer{kind: 'f'}, sel: answer{kind: 'f'}}
	s.ticker = &fakeTicker{ch: make(chan time.Time)}
	s.reorg = make(chan duties.ReorgEvent)
	s.idx = make(chan struct{})
	s.ack = make(chan struct{})
	kind := map[byte]duties.VerifHandlerKind{'A': duties.VerifAttester, 'P': duties.VerifProposer, 'S': duties.VerifSyncCommittee}[cfg.kind]
	net := networkconfig.NetworkConfig{Name: "verif", Beacon: fakeNet{spe: cfg.spe, epp: cfg.epp, now: &s.now}}
	s.stop, s.store = duties.VerifRunHandlerStore(kind, s.env, net, s.env, s.env.execute, s.ticker, s.reorg, s.idx,
		func() { s.ack <- struct{}{} })
	<-s.ack // the loop is at its select for the first time: initial duties are done
	return s, s.take()
}

func (s *sut) take() []obsv {
	l := s.env.log
	s.env.log = nil
	sortExecRuns(l)
	return l
}

// apply feeds one event and returns what the handler did while processing it.  The channel send
// completes when the handler's select receives the event; the following receive on ack completes when
// the handler has finished processing it and evaluates its select again.  Both are rendezvous on
// unbuffered channels, so there is no timing assumption.
func (s *sut) apply(o op) []obsv {
	s.env.acur, s.env.anext, s.env.sel = answer{kind: 'f'}, answer{kind: 'f'}, answer{kind: 'f'}
	switch o.kind {
	case "TICK":
		s.now = o.now
		s.env.tickKey, s.env.acur, s.env.anext = s.cfg.keyOfSlot(o.slot), o.a1, o.a2
		s.ticker.slot = phase0.Slot(o.slot)
		s.ticker.ch <- time.Time{}
	case "REORG":
		s.reorg <- duties.ReorgEvent{Slot: phase0.Slot(o.slot), Previous: o.prev, Current: o.cur}
	case "IDX":
		s.now = o.now
		s.idx <- struct{}{}
	default:
		panic("bad op " + o.kind)
	}
	<-s.ack
	return s.take()
}

func (s *sut) close() { s.stop() }
