// gen-valconsts reads the message-validation sources of the repository (and the pinned ssv-spec in
// the module cache) with go/parser and writes coq/Gen/ValidationConsts.v: numeric constants, the
// per-role tables of maxRound / lateMessage, the per-type limits of maxMessageCounts and the error
// table of errors.go (constructor, text, reject flag).  Control flow is not translated.
//
//	gen-valconsts <repo> <out.v>
//
// The generator refuses (exit 1) when something it reads stops having the expected literal shape.
package main

import (
	"fmt"
	"go/ast"
	"go/constant"
	"go/parser"
	"go/token"
	"os"
	"path/filepath"
	"regexp"
	"sort"
	"strings"
)

func die(format string, a ...any) {
	fmt.Fprintf(os.Stderr, "gen-valconsts: "+format+"\n", a...)
	os.Exit(1)
}

type file struct {
	fset *token.FileSet
	f    *ast.File
	path string
}

func parse(path string) *file {
	fset := token.NewFileSet()
	f, err := parser.ParseFile(fset, path, nil, 0)
	if err != nil {
		die("parse %s: %v", path, err)
	}
	return &file{fset, f, path}
}

// env: evaluated constants, by name (package-qualified names for the few imports that matter).
type env map[string]constant.Value

func baseEnv() env {
	e := env{}
	e["time.Nanosecond"] = constant.MakeInt64(1)
	e["time.Microsecond"] = constant.MakeInt64(1000)
	e["time.Millisecond"] = constant.MakeInt64(1000000)
	e["time.Second"] = constant.MakeInt64(1000000000)
	e["time.Minute"] = constant.MakeInt64(60000000000)
	e["time.Hour"] = constant.MakeInt64(3600000000000)
	return e
}

func (e env) eval(x ast.Expr, iota int64) (constant.Value, bool) {
	switch v := x.(type) {
	case *ast.BasicLit:
		c := constant.MakeFromLiteral(v.Value, v.Kind, 0)
		return c, c.Kind() != constant.Unknown
	case *ast.ParenExpr:
		return e.eval(v.X, iota)
	case *ast.Ident:
		if v.Name == "iota" {
			return constant.MakeInt64(iota), true
		}
		c, ok := e[v.Name]
		return c, ok
	case *ast.SelectorExpr:
		if id, ok := v.X.(*ast.Ident); ok {
			c, ok := e[id.Name+"."+v.Sel.Name]
			return c, ok
		}
	case *ast.CallExpr: // conversion T(x)
		if len(v.Args) == 1 {
			return e.eval(v.Args[0], iota)
		}
	case *ast.UnaryExpr:
		a, ok := e.eval(v.X, iota)
		if !ok {
			return nil, false
		}
		return constant.UnaryOp(v.Op, a, 0), true
	case *ast.BinaryExpr:
		a, ok1 := e.eval(v.X, iota)
		b, ok2 := e.eval(v.Y, iota)
		if !ok1 || !ok2 {
			return nil, false
		}
		op := v.Op
		if op == token.QUO && a.Kind() == constant.Int && b.Kind() == constant.Int {
			op = token.QUO_ASSIGN // integer division
		}
		if op == token.SHL || op == token.SHR {
			s, _ := constant.Uint64Val(b)
			return constant.Shift(a, op, uint(s)), true
		}
		return constant.BinaryOp(a, op, b), true
	}
	return nil, false
}

// addConsts evaluates every const declaration of the file (also those nested in function bodies);
// names are stored unqualified and, when prefix != "", also as prefix.name.
func (e env) addConsts(f *file, prefix string) {
	for pass := 0; pass < 4; pass++ { // declarations may refer to later ones
		e.addConstsOnce(f, prefix)
	}
}

func (e env) addConstsOnce(f *file, prefix string) {
	ast.Inspect(f.f, func(n ast.Node) bool {
		gd, ok := n.(*ast.GenDecl)
		if !ok || gd.Tok != token.CONST {
			return true
		}
		var last []ast.Expr
		for i, s := range gd.Specs {
			vs := s.(*ast.ValueSpec)
			vals := vs.Values
			if len(vals) == 0 {
				vals = last
			} else {
				last = vals
			}
			for j, name := range vs.Names {
				if j >= len(vals) {
					continue
				}
				if c, ok := e.eval(vals[j], int64(i)); ok {
					e[name.Name] = c
					if prefix != "" {
						e[prefix+"."+name.Name] = c
					}
				}
			}
		}
		return true
	})
}

func (e env) need(name string) string {
	c, ok := e[name]
	if !ok {
		die("constant %s not found or not a literal expression", name)
	}
	if c.Kind() != constant.Int {
		die("constant %s is not an integer: %v", name, c)
	}
	return c.ExactString()
}

func funcDecl(f *file, name string) *ast.FuncDecl {
	for _, d := range f.f.Decls {
		if fd, ok := d.(*ast.FuncDecl); ok && fd.Name.Name == name {
			return fd
		}
	}
	die("function %s not found in %s", name, f.path)
	return nil
}

// roleSwitch returns, for the first `switch role`-like statement of the function whose case
// expressions are all spectypes.BNRole* selectors, the case clauses.
func roleSwitch(fd *ast.FuncDecl) []*ast.CaseClause {
	var out []*ast.CaseClause
	ast.Inspect(fd.Body, func(n ast.Node) bool {
		sw, ok := n.(*ast.SwitchStmt)
		if !ok || out != nil {
			return true
		}
		for _, s := range sw.Body.List {
			out = append(out, s.(*ast.CaseClause))
		}
		return false
	})
	if out == nil {
		die("no switch in %s", fd.Name.Name)
	}
	return out
}

func main() {
	if len(os.Args) != 3 {
		die("usage: gen-valconsts <repo> <out.v>")
	}
	repo, out := os.Args[1], os.Args[2]

	// pinned spec version from the repository's go.mod
	gomod, err := os.ReadFile(filepath.Join(repo, "go.mod"))
	if err != nil {
		die("%v", err)
	}
	m := regexp.MustCompile(`github.com/bloxapp/ssv-spec (v[^\s]+)`).FindSubmatch(gomod)
	if m == nil {
		die("ssv-spec version not found in go.mod")
	}
	modcache := os.Getenv("GOMODCACHE")
	if modcache == "" {
		home, _ := os.UserHomeDir()
		modcache = filepath.Join(home, "go", "pkg", "mod")
	}
	spec := filepath.Join(modcache, "github.com", "bloxapp", "ssv-spec@"+string(m[1]))

	e := baseEnv()
	e.addConsts(parse(filepath.Join(spec, "qbft", "types.go")), "specqbft")
	e.addConsts(parse(filepath.Join(spec, "qbft", "messages.go")), "specqbft")
	e.addConsts(parse(filepath.Join(spec, "types", "beacon_types.go")), "spectypes")
	e.addConsts(parse(filepath.Join(spec, "types", "messages.go")), "spectypes")
	e.addConsts(parse(filepath.Join(spec, "types", "partial_sig_message.go")), "spectypes")
	e.addConsts(parse(filepath.Join(repo, "protocol/v2/message/msg.go")), "ssvmessage")
	e.addConsts(parse(filepath.Join(repo, "protocol/v2/qbft/roundtimer/timer.go")), "roundtimer")
	commons := env{}
	for k, v := range baseEnv() {
		commons[k] = v
	}
	commons.addConsts(parse(filepath.Join(repo, "network/commons/common.go")), "")
	val := parse(filepath.Join(repo, "message/validation/validation.go"))
	e.addConsts(val, "")
	cons := parse(filepath.Join(repo, "message/validation/consensus_validation.go"))
	counts := parse(filepath.Join(repo, "message/validation/message_counts.go"))
	errs := parse(filepath.Join(repo, "message/validation/errors.go"))

	var b strings.Builder
	w := func(format string, a ...any) { fmt.Fprintf(&b, format+"\n", a...) }
	w("(* GENERATED on every check run by harness/cmd/gen-valconsts from the repository sources")
	w("   (message/validation, network/commons, roundtimer) and ssv-spec %s.  Do not edit. *)", string(m[1]))
	w("From Coq Require Import NArith ZArith List.")
	w("Import ListNotations.")
	w("")
	defN := func(coq, name string, en env) { w("Definition %s : N := %s%%N.", coq, en.need(name)) }
	defZ := func(coq, name string, en env) { w("Definition %s : Z := %s%%Z.", coq, en.need(name)) }

	w("(* message/validation/validation.go *)")
	defZ("lateMessageMargin_ns", "lateMessageMargin", e)
	defZ("clockErrorTolerance_ns", "clockErrorTolerance", e)
	defN("maxMessageSize", "maxMessageSize", e)
	defN("maxConsensusMsgSize", "maxConsensusMsgSize", e)
	defN("maxPartialSignatureMsgSize", "maxPartialSignatureMsgSize", e)
	defN("maxEncodedMsgSize", "maxEncodedMsgSize", e)
	defN("allowedRoundsInFuture", "allowedRoundsInFuture", e)
	defN("lateSlotAllowance", "lateSlotAllowance", e)
	defN("signatureSize", "signatureSize", e)
	defZ("maxDutiesPerEpoch", "maxDutiesPerEpoch", e)
	w("(* protocol/v2/qbft/roundtimer/timer.go, ssv-spec qbft/types.go *)")
	defN("quickTimeoutThreshold", "roundtimer.QuickTimeoutThreshold", e)
	defZ("quickTimeout_ns", "roundtimer.QuickTimeout", e)
	defZ("slowTimeout_ns", "roundtimer.SlowTimeout", e)
	defN("firstRound", "specqbft.FirstRound", e)
	defN("firstHeight", "specqbft.FirstHeight", e)
	w("(* network/commons/common.go *)")
	defN("subnetsCount", "subnetsCount", commons)
	defN("rsaSignatureSize", "signatureSize", commons)
	defN("operatorIDSize", "operatorIDSize", commons)
	defN("messageOffset", "messageOffset", commons)
	w("(* message types and roles (ssv-spec types, protocol/v2/message) *)")
	defN("ssvConsensusMsgType", "spectypes.SSVConsensusMsgType", e)
	defN("ssvPartialSignatureMsgType", "spectypes.SSVPartialSignatureMsgType", e)
	defN("dkgMsgType", "spectypes.DKGMsgType", e)
	defN("ssvEventMsgType", "ssvmessage.SSVEventMsgType", e)
	for _, n := range []string{"ProposalMsgType", "PrepareMsgType", "CommitMsgType", "RoundChangeMsgType"} {
		defN("qbft"+n, "specqbft."+n, e)
	}
	roles := []string{"BNRoleAttester", "BNRoleAggregator", "BNRoleProposer", "BNRoleSyncCommittee",
		"BNRoleSyncCommitteeContribution", "BNRoleValidatorRegistration", "BNRoleVoluntaryExit"}
	for _, n := range roles {
		defN(strings.Replace(n, "BNRole", "role", 1), "spectypes."+n, e)
	}
	ptypes := []string{"PostConsensusPartialSig", "RandaoPartialSig", "SelectionProofPartialSig", "ContributionProofs",
		"ValidatorRegistrationPartialSig", "VoluntaryExitPartialSig"}
	for _, n := range ptypes {
		defN("pt"+n, "spectypes."+n, e)
	}

	roleVal := func(x ast.Expr, where string) string {
		c, ok := e.eval(x, 0)
		if !ok || c.Kind() != constant.Int {
			die("%s: case expression is not a role constant", where)
		}
		return c.ExactString()
	}

	// maxRound: switch role { case ...: return <literal> ... default: panic }
	w("(* consensus_validation.go maxRound: role -> maximal round; roles not listed reach `default: panic` *)")
	var mr []string
	sawDefaultPanic := false
	for _, cc := range roleSwitch(funcDecl(cons, "maxRound")) {
		if cc.List == nil {
			if es, ok := cc.Body[0].(*ast.ExprStmt); ok {
				if call, ok := es.X.(*ast.CallExpr); ok {
					if id, ok := call.Fun.(*ast.Ident); ok && id.Name == "panic" {
						sawDefaultPanic = true
						continue
					}
				}
			}
			die("maxRound: default arm is not a panic any more")
		}
		ret, ok := cc.Body[0].(*ast.ReturnStmt)
		if !ok || len(ret.Results) != 1 {
			die("maxRound: arm does not return a value")
		}
		c, ok := e.eval(ret.Results[0], 0)
		if !ok {
			die("maxRound: arm does not return a literal")
		}
		for _, x := range cc.List {
			mr = append(mr, fmt.Sprintf("(%s%%N, %s%%N)", roleVal(x, "maxRound"), c.ExactString()))
		}
	}
	w("Definition max_round_table : list (N * N) := [%s].", strings.Join(mr, "; "))
	w("Definition max_round_default_panics : bool := %v.", sawDefaultPanic)

	// lateMessage: switch role { case ...: ttl = <expr> | return 0 }
	w("(* validation.go lateMessage: role -> Some ttl (slots) | None (never late); roles not listed keep ttl = 0 *)")
	var tt []string
	for _, cc := range roleSwitch(funcDecl(val, "lateMessage")) {
		if cc.List == nil {
			die("lateMessage: unexpected default arm")
		}
		var v string
		switch s := cc.Body[0].(type) {
		case *ast.AssignStmt:
			c, ok := e.eval(s.Rhs[0], 0)
			if !ok {
				die("lateMessage: ttl is not a constant expression")
			}
			v = fmt.Sprintf("Some %s%%N", c.ExactString())
		case *ast.ReturnStmt:
			c, ok := e.eval(s.Results[0], 0)
			if !ok || c.ExactString() != "0" {
				die("lateMessage: return arm is not `return 0`")
			}
			v = "None"
		default:
			die("lateMessage: unexpected statement")
		}
		for _, x := range cc.List {
			tt = append(tt, fmt.Sprintf("(%s%%N, %s)", roleVal(x, "lateMessage"), v))
		}
	}
	w("Definition ttl_table : list (N * option N) := [%s].", strings.Join(tt, "; "))

	// maxMessageCounts composite literal
	w("(* message_counts.go maxMessageCounts: per-type limits; Decided is maxDecidedCount(committee size) *)")
	var lit *ast.CompositeLit
	ast.Inspect(funcDecl(counts, "maxMessageCounts").Body, func(n ast.Node) bool {
		if cl, ok := n.(*ast.CompositeLit); ok && lit == nil {
			lit = cl
		}
		return true
	})
	if lit == nil {
		die("maxMessageCounts: no composite literal")
	}
	seen := map[string]bool{}
	for _, el := range lit.Elts {
		kv := el.(*ast.KeyValueExpr)
		k := kv.Key.(*ast.Ident).Name
		seen[k] = true
		if k == "Decided" {
			if id, ok := kv.Value.(*ast.Ident); !ok || id.Name != "maxDecided" {
				die("maxMessageCounts: Decided is no longer maxDecided")
			}
			continue
		}
		c, ok := e.eval(kv.Value, 0)
		if !ok {
			die("maxMessageCounts: %s is not a literal", k)
		}
		w("Definition limit%s : Z := %s%%Z.", k, c.ExactString())
	}
	for _, k := range []string{"PreConsensus", "Proposal", "Prepare", "Commit", "Decided", "RoundChange", "PostConsensus"} {
		if !seen[k] {
			die("maxMessageCounts: field %s missing", k)
		}
	}

	// error table
	type errEnt struct {
		name, text string
		reject     bool
	}
	var table []errEnt
	for _, d := range errs.f.Decls {
		gd, ok := d.(*ast.GenDecl)
		if !ok || gd.Tok != token.VAR {
			continue
		}
		for _, s := range gd.Specs {
			vs := s.(*ast.ValueSpec)
			for i, name := range vs.Names {
				if !strings.HasPrefix(name.Name, "Err") || i >= len(vs.Values) {
					continue
				}
				cl, ok := vs.Values[i].(*ast.CompositeLit)
				if !ok {
					die("errors.go: %s is not a composite literal", name.Name)
				}
				ent := errEnt{name: name.Name}
				for _, el := range cl.Elts {
					kv, ok := el.(*ast.KeyValueExpr)
					if !ok {
						die("errors.go: %s has a positional field", name.Name)
					}
					switch kv.Key.(*ast.Ident).Name {
					case "text":
						c, ok := e.eval(kv.Value, 0)
						if !ok || c.Kind() != constant.String {
							die("errors.go: %s text is not a string literal", name.Name)
						}
						ent.text = constant.StringVal(c)
					case "reject":
						id, ok := kv.Value.(*ast.Ident)
						if !ok || (id.Name != "true" && id.Name != "false") {
							die("errors.go: %s reject is not a boolean literal", name.Name)
						}
						ent.reject = id.Name == "true"
					}
				}
				table = append(table, ent)
			}
		}
	}
	if len(table) == 0 {
		die("errors.go: empty error table")
	}
	w("(* errors.go: the error table *)")
	w("Inductive verr : Set :=")
	for _, t := range table {
		w("| %s", t.name)
	}
	w(".")
	w("Definition err_reject (e : verr) : bool :=\n  match e with")
	for _, t := range table {
		w("  | %s => %v", t.name, t.reject)
	}
	w("  end.")
	w("(* texts as character codes (the extracted model must not define a type called string) *)")
	w("Definition err_text (e : verr) : list N :=\n  match e with")
	for _, t := range table {
		if strings.Contains(t.text, "*)") {
			die("errors.go: text of %s contains a comment terminator", t.name)
		}
		codes := make([]string, 0, len(t.text))
		for _, c := range []byte(t.text) {
			codes = append(codes, fmt.Sprintf("%d", c))
		}
		w("  | %s => [%s]%%N (* %s *)", t.name, strings.Join(codes, "; "), t.text)
	}
	w("  end.")
	names := make([]string, len(table))
	for i, t := range table {
		names[i] = t.name
	}
	w("Definition all_errs : list verr := [%s].", strings.Join(names, "; "))
	sorted := append([]string{}, names...)
	sort.Strings(sorted)
	_ = sorted

	if err := os.MkdirAll(filepath.Dir(out), 0o755); err != nil {
		die("%v", err)
	}
	old, _ := os.ReadFile(out)
	if string(old) != b.String() { // keep the timestamp when nothing changed: no needless Coq rebuild
		if err := os.WriteFile(out, []byte(b.String()), 0o644); err != nil {
			die("%v", err)
		}
	}
}
