// hx-queue drives the real protocol/v2/ssv/queue implementation (C14).
//
//	hx-queue gen -seed S -n N        random operation sequences (structured, mixed filters)
//	hx-queue exhaustive              all push sequences of <= 4 messages from a 6-message alphabet x pop scripts
//	hx-queue prior                   Prior(a,b) on every pair of message classes x prioritizer states
//	hx-queue concurrent -seed S -n N concurrent pushers + one consumer: multiset law only (MON lines)
//	hx-queue consumer -seed S -n N   the real Validator.ConsumeQueue with a stub duty runner (order of hand-over)
//	hx-queue replay FILE             re-run the operation lines of a corpus / replay file
//
// Output: CASE / op / OBS / MON lines (see harness/hx).
package main

import (
	"bufio"
	"context"
	"flag"
	"fmt"
	"os"
	"sort"
	"strconv"
	"strings"
	"sync"
	"time"

	"github.com/attestantio/go-eth2-client/spec/phase0"
	specqbft "github.com/bloxapp/ssv-spec/qbft"
	spectypes "github.com/bloxapp/ssv-spec/types"

	"github.com/bloxapp/ssv/protocol/v2/ssv/queue"
	ssvtypes "github.com/bloxapp/ssv/protocol/v2/types"

	"verifharness/hx"
)

// ---- abstract messages ---------------------------------------------------------------------------

type body struct {
	kind       byte // 'E','C','P','O'
	a, b, c, d uint64
}

func (b body) String() string {
	switch b.kind {
	case 'E':
		return fmt.Sprintf("E %d", b.a)
	case 'C':
		return fmt.Sprintf("C %d %d %d %d", b.a, b.b, b.c, b.d)
	case 'P':
		return fmt.Sprintf("P %d %d", b.a, b.b)
	}
	return "O"
}

func (b body) build() *queue.DecodedSSVMessage {
	m := &queue.DecodedSSVMessage{SSVMessage: &spectypes.SSVMessage{}}
	switch b.kind {
	case 'E':
		m.Body = &ssvtypes.EventMsg{Type: ssvtypes.EventType(b.a)}
	case 'C':
		signers := make([]spectypes.OperatorID, b.d)
		for i := range signers {
			signers[i] = spectypes.OperatorID(i + 1)
		}
		m.Body = &specqbft.SignedMessage{
			Signers: signers,
			Message: specqbft.Message{Height: specqbft.Height(b.a), Round: specqbft.Round(b.b), MsgType: specqbft.MessageType(b.c)},
		}
	case 'P':
		m.Body = &spectypes.SignedPartialSignatureMessage{
			Message: spectypes.PartialSignatureMessages{Slot: phase0.Slot(b.a), Type: spectypes.PartialSigMsgType(b.b)},
		}
	default:
		m.Body = nil
	}
	return m
}

type pstate struct {
	run        bool
	h, r, s, q uint64
}

func (p pstate) String() string {
	run := 0
	if p.run {
		run = 1
	}
	return fmt.Sprintf("%d %d %d %d %d", run, p.h, p.r, p.s, p.q)
}

func (p pstate) build() queue.MessagePrioritizer {
	return queue.NewMessagePrioritizer(&queue.State{
		HasRunningInstance: p.run, Height: specqbft.Height(p.h), Round: specqbft.Round(p.r),
		Slot: phase0.Slot(p.s), Quorum: p.q,
	})
}

type filt struct {
	kind string // any none ids exec hold
	ids  []uint64
	h, r uint64
}

func (f filt) String() string {
	switch f.kind {
	case "ids":
		s := fmt.Sprintf("ids %d", len(f.ids))
		for _, i := range f.ids {
			s += fmt.Sprintf(" %d", i)
		}
		return s
	case "hold":
		return fmt.Sprintf("hold %d %d", f.h, f.r)
	}
	return f.kind
}

// ---- the implementation under test plus the property monitor -------------------------------------

type sut struct {
	out    *hx.Out
	q      queue.Queue
	ids    map[*queue.DecodedSSVMessage]uint64
	shadow map[uint64]*queue.DecodedSSVMessage // queued according to the monitor
	bodies map[uint64]body                     // what each id is, as the driver built it
}

// before: the DOCUMENTED coarse priority order, decided by the driver from what it built (not by the queue's own
// prioritizer): a duty start before everything else, a timeout before every non-event, and among consensus
// messages the current height before other heights.  true = x must be returned before m.
func before(p pstate, x, m body) bool {
	isExec := func(b body) bool { return b.kind == 'E' && ssvtypes.EventType(b.a) == ssvtypes.ExecuteDuty }
	isTimeout := func(b body) bool { return b.kind == 'E' && ssvtypes.EventType(b.a) == ssvtypes.Timeout }
	switch {
	case isExec(x) && !isExec(m):
		return true
	case isTimeout(x) && m.kind != 'E':
		return true
	case x.kind == 'C' && m.kind == 'C' && x.a == p.h && m.a != p.h:
		return true
	}
	return false
}

func newSut(out *hx.Out, capacity int) *sut {
	out.Op("NEW", "%d", capacity)
	return &sut{out: out, q: queue.New(capacity), ids: map[*queue.DecodedSSVMessage]uint64{}, shadow: map[uint64]*queue.DecodedSSVMessage{}, bodies: map[uint64]body{}}
}

func (s *sut) filter(f filt) queue.Filter {
	switch f.kind {
	case "any":
		return queue.FilterAny
	case "none":
		return func(*queue.DecodedSSVMessage) bool { return false }
	case "ids":
		set := map[uint64]bool{}
		for _, i := range f.ids {
			set[i] = true
		}
		return func(m *queue.DecodedSSVMessage) bool { return set[s.ids[m]] }
	case "exec": // the filter of Validator.ConsumeQueue while no duty is running
		return func(m *queue.DecodedSSVMessage) bool {
			e, ok := m.Body.(*ssvtypes.EventMsg)
			if !ok {
				return false
			}
			return e.Type == ssvtypes.ExecuteDuty
		}
	case "hold": // the filter of Validator.ConsumeQueue while no proposal is accepted
		return func(m *queue.DecodedSSVMessage) bool {
			sm, ok := m.Body.(*specqbft.SignedMessage)
			if !ok {
				return true
			}
			if sm.Message.Height != specqbft.Height(f.h) || sm.Message.Round != specqbft.Round(f.r) {
				return true
			}
			return sm.Message.MsgType != specqbft.PrepareMsgType && sm.Message.MsgType != specqbft.CommitMsgType
		}
	}
	panic("filter " + f.kind)
}

func (s *sut) push(id uint64, b body) {
	m := b.build()
	s.ids[m] = id
	s.bodies[id] = b
	s.out.Op("PUSH", "%d %s", id, b)
	ok := s.q.TryPush(m)
	if ok {
		s.shadow[id] = m
	}
	okn := 0
	if ok {
		okn = 1
	}
	s.out.Obs("push %d %d", okn, s.q.Len())
	s.checkLen()
}

func (s *sut) checkLen() {
	if s.q.Len() != len(s.shadow) {
		s.out.ViolF("Len()=%d but %d messages were pushed and not popped", s.q.Len(), len(s.shadow))
	}
}

func (s *sut) afterPop(m *queue.DecodedSSVMessage, p pstate, f filt, maximal bool) {
	fl := s.filter(f)
	if m == nil {
		s.out.Obs("pop - %d", s.q.Len())
		for id, x := range s.shadow {
			if fl(x) {
				s.out.ViolF("pop returned nil although message %d is queued and admissible", id)
				break
			}
		}
	} else {
		id := s.ids[m]
		s.out.Obs("pop %d %d", id, s.q.Len())
		if _, ok := s.shadow[id]; !ok {
			s.out.ViolF("pop returned message %d which is not queued (duplicate or phantom)", id)
		}
		if !fl(m) {
			s.out.ViolF("pop returned message %d which its filter does not admit", id)
		}
		delete(s.shadow, id)
		if maximal {
			pr := p.build()
			for xid, x := range s.shadow {
				if fl(x) && !pr.Prior(m, x) {
					s.out.ViolF("pop returned %d although admissible %d is strictly prior", id, xid)
					break
				}
			}
			// the same against the documented order, without asking the queue's prioritizer
			for xid, x := range s.shadow {
				if fl(x) && before(p, s.bodies[xid], s.bodies[id]) {
					s.out.ViolF("pop returned %d (%s) although admissible %d (%s) comes first in the documented order (state height %d)",
						id, s.bodies[id], xid, s.bodies[xid], p.h)
					break
				}
			}
		}
	}
	s.checkLen() // a discarded message shows up here
}

func (s *sut) tryPop(p pstate, f filt) {
	s.out.Op("TRYPOP", "%s %s", p, f)
	m := s.q.TryPop(p.build(), s.filter(f))
	s.afterPop(m, p, f, true)
}

func (s *sut) popDone(rd bool, p pstate, f filt) {
	rdn := 0
	if rd {
		rdn = 1
		queue.VerifSetLastRead(s.q, time.Time{})
	} else {
		queue.VerifSetLastRead(s.q, time.Now().Add(time.Hour))
	}
	s.out.Op("POPDONE", "%d %s %s", rdn, p, f)
	ctx, cancel := context.WithCancel(context.Background())
	cancel()
	m := s.q.Pop(ctx, p.build(), s.filter(f))
	s.afterPop(m, p, f, rd)
}

// ---- generators ------------------------------------------------------------------------------------

func genBody(r *hx.Rand, p pstate) body {
	near := func(x uint64) uint64 {
		switch r.Intn(6) {
		case 0:
			if x > 0 {
				return x - 1
			}
			return x
		case 1:
			return x + 1
		case 2:
			return hx.Pick(r, uint64(0), 1<<63, ^uint64(0))
		}
		return x
	}
	switch r.Intn(10) {
	case 0:
		return body{kind: 'E', a: 1}
	case 1:
		return body{kind: 'E', a: 0}
	case 2:
		return hx.Pick(r, body{kind: 'E', a: 2}, body{kind: 'O'})
	case 3, 4:
		return body{kind: 'P', a: near(p.s), b: uint64(r.Intn(4))}
	}
	return body{kind: 'C', a: near(p.h), b: near(p.r), c: uint64(hx.Pick(r, 0, 1, 2, 2, 3, 4)), d: uint64(hx.Pick(r, 1, 1, int(p.q), int(p.q)+1))}
}

func genPstate(r *hx.Rand) pstate {
	return pstate{run: r.Chance(1, 2), h: uint64(hx.Pick(r, 0, 1, 5, 100)), r: uint64(hx.Pick(r, 1, 2, 3)), s: uint64(hx.Pick(r, 0, 5, 100)), q: uint64(hx.Pick(r, 3, 5))}
}

func genFilter(r *hx.Rand, s *sut, p pstate) filt {
	switch r.Intn(8) {
	case 0:
		return filt{kind: "none"}
	case 1, 2:
		return filt{kind: "exec"}
	case 3:
		return filt{kind: "hold", h: p.h, r: p.r}
	case 4, 5:
		var ids []uint64
		for id := range s.shadow {
			if r.Chance(1, 2) {
				ids = append(ids, id)
			}
		}
		sort.Slice(ids, func(i, j int) bool { return ids[i] < ids[j] })
		return filt{kind: "ids", ids: ids}
	}
	return filt{kind: "any"}
}

func gen(out *hx.Out, seed uint64, n int) {
	for c := 0; c < n; c++ {
		r := hx.NewRand(seed, "queue", uint64(c))
		out.Case("gen seed=%d case=%d", seed, c)
		s := newSut(out, hx.Pick(r, 1, 2, 4, 8, 32))
		p := genPstate(r)
		nops := 5 + r.Intn(40)
		var id uint64
		for i := 0; i < nops; i++ {
			if r.Chance(1, 10) {
				p = genPstate(r)
			}
			switch {
			case r.Chance(5, 10):
				id++
				s.push(id, genBody(r, p))
			case r.Chance(7, 10):
				s.tryPop(p, genFilter(r, s, p))
			default:
				s.popDone(r.Chance(1, 2), p, genFilter(r, s, p))
			}
		}
		// drain: everything still queued must come out under FilterAny
		for i := len(s.shadow); i > 0; i-- {
			s.tryPop(p, filt{kind: "any"})
		}
		s.tryPop(p, filt{kind: "any"})
		out.End()
	}
}

var alphabet = []body{
	{kind: 'E', a: 1}, {kind: 'E', a: 0}, {kind: 'C', a: 5, b: 1, c: 0, d: 1}, {kind: 'C', a: 5, b: 1, c: 1, d: 1},
	{kind: 'C', a: 4, b: 1, c: 2, d: 4}, {kind: 'P', a: 5, b: 0},
}

// exhaustive: every sequence of 1..4 alphabet messages, then one of the pop scripts.
func exhaustive(out *hx.Out) {
	p := pstate{run: true, h: 5, r: 1, s: 5, q: 3}
	scripts := [][]filt{
		{{kind: "none"}, {kind: "any"}},
		{{kind: "exec"}, {kind: "exec"}, {kind: "any"}},
		{{kind: "hold", h: 5, r: 1}, {kind: "hold", h: 5, r: 1}, {kind: "any"}},
		{{kind: "ids", ids: []uint64{2}}, {kind: "ids", ids: []uint64{1, 3}}, {kind: "any"}},
	}
	var rec func(seq []int)
	rec = func(seq []int) {
		if len(seq) > 0 {
			for si, sc := range scripts {
				for mode := 0; mode < 2; mode++ {
					out.Case("exhaustive seq=%v script=%d mode=%d", seq, si, mode)
					s := newSut(out, 8)
					for i, a := range seq {
						s.push(uint64(i+1), alphabet[a])
					}
					for _, f := range sc {
						if mode == 0 {
							s.tryPop(p, f)
						} else {
							s.popDone(false, p, f)
						}
					}
					for i := 0; i <= len(seq); i++ {
						s.tryPop(p, filt{kind: "any"})
					}
					out.End()
				}
			}
		}
		if len(seq) == 4 {
			return
		}
		for a := range alphabet {
			rec(append(append([]int{}, seq...), a))
		}
	}
	rec(nil)
}

// prior: the real Prior on every pair of message classes, for the differ to compare with the model.
func prior(out *hx.Out) {
	states := []pstate{{run: true, h: 5, r: 2, s: 5, q: 3}, {run: false, h: 5, r: 2, s: 5, q: 3}, {run: true, h: 0, r: 1, s: 0, q: 5}}
	for _, p := range states {
		var classes []body
		classes = append(classes, body{kind: 'E', a: 0}, body{kind: 'E', a: 1}, body{kind: 'E', a: 2}, body{kind: 'O'})
		for _, h := range []uint64{p.h, p.h + 1, p.h - 1, ^uint64(0)} {
			if h == p.h-1 && p.h == 0 {
				continue
			}
			for _, ty := range []uint64{0, 1} {
				classes = append(classes, body{kind: 'P', a: h, b: ty})
			}
			for _, rd := range []uint64{p.r, p.r + 1, p.r - 1} {
				for _, ty := range []uint64{0, 1, 2, 3, 4} {
					for _, ns := range []uint64{1, p.q, p.q + 1} {
						classes = append(classes, body{kind: 'C', a: h, b: rd, c: ty, d: ns})
					}
				}
			}
		}
		out.Case("prior state=%s classes=%d", p, len(classes))
		pr := p.build()
		for _, a := range classes {
			ma := a.build()
			for _, b := range classes {
				out.Op("PRIOR", "%s %s %s", p, a, b)
				v := 0
				if pr.Prior(ma, b.build()) {
					v = 1
				}
				out.Obs("prior %d", v)
			}
		}
		out.End()
	}
}

// concurrent: 4 pushers, one consumer with a live context; only the multiset law is checked.
func concurrent(out *hx.Out, seed uint64, n int) {
	for c := 0; c < n; c++ {
		r := hx.NewRand(seed, "queue-conc", uint64(c))
		out.Case("concurrent seed=%d case=%d", seed, c)
		out.Count("CONCURRENT")
		q := queue.New(hx.Pick(r, 1, 4, 32))
		p := genPstate(r)
		const pushers, per = 4, 50
		msgs := make([][]*queue.DecodedSSVMessage, pushers)
		ids := map[*queue.DecodedSSVMessage]int{}
		for i := range msgs {
			for j := 0; j < per; j++ {
				m := genBody(r, p).build()
				ids[m] = i*per + j
				msgs[i] = append(msgs[i], m)
			}
		}
		var wg sync.WaitGroup
		for i := range msgs {
			wg.Add(1)
			go func(ms []*queue.DecodedSSVMessage) {
				defer wg.Done()
				for _, m := range ms {
					q.Push(m)
				}
			}(msgs[i])
		}
		got := map[int]int{}
		ctx, cancel := context.WithTimeout(context.Background(), 20*time.Second)
		for k := 0; k < pushers*per; k++ {
			m := q.Pop(ctx, p.build(), queue.FilterAny)
			if m == nil {
				out.ViolF("concurrent: Pop returned nil after %d of %d messages", k, pushers*per)
				break
			}
			got[ids[m]]++
		}
		cancel()
		wg.Wait()
		for id := 0; id < pushers*per; id++ {
			if got[id] != 1 {
				out.ViolF("concurrent: message %d popped %d times", id, got[id])
				break
			}
		}
		if q.Len() != 0 {
			out.ViolF("concurrent: Len()=%d after everything was popped", q.Len())
		}
		out.End()
	}
}

// ---- replay ----------------------------------------------------------------------------------------

func u(s string) uint64 { v, _ := strconv.ParseUint(s, 10, 64); return v }

func parseBody(w []string) (body, []string) {
	switch w[0] {
	case "E":
		return body{kind: 'E', a: u(w[1])}, w[2:]
	case "C":
		return body{kind: 'C', a: u(w[1]), b: u(w[2]), c: u(w[3]), d: u(w[4])}, w[5:]
	case "P":
		return body{kind: 'P', a: u(w[1]), b: u(w[2])}, w[3:]
	}
	return body{kind: 'O'}, w[1:]
}

func parsePstate(w []string) (pstate, []string) {
	return pstate{run: w[0] == "1", h: u(w[1]), r: u(w[2]), s: u(w[3]), q: u(w[4])}, w[5:]
}

func parseFilter(w []string) filt {
	switch w[0] {
	case "ids":
		n := int(u(w[1]))
		f := filt{kind: "ids"}
		for i := 0; i < n; i++ {
			f.ids = append(f.ids, u(w[2+i]))
		}
		return f
	case "hold":
		return filt{kind: "hold", h: u(w[1]), r: u(w[2])}
	}
	return filt{kind: w[0]}
}

func replay(out *hx.Out, path string) {
	fh, err := os.Open(path)
	if err != nil {
		fmt.Fprintln(os.Stderr, err)
		os.Exit(2)
	}
	defer fh.Close()
	var s *sut
	skip := false // a consumer case is regenerated from its seed: the hand-over order comes from ConsumeQueue
	sc := bufio.NewScanner(fh)
	for sc.Scan() {
		w := strings.Fields(sc.Text())
		if len(w) == 0 {
			continue
		}
		if skip && w[0] != "CASE" {
			continue
		}
		switch w[0] {
		case "CASE":
			skip = false
			if i := strings.Index(sc.Text(), "consumer seed="); i >= 0 {
				var sd uint64
				var cs int
				for _, f := range w {
					if strings.HasPrefix(f, "seed=") {
						sd = u(f[5:])
					}
					if strings.HasPrefix(f, "case=") {
						cs = int(u(f[5:]))
					}
				}
				consumerOne(out, sd, cs)
				skip = true
				continue
			}
			out.Case("replay %s", strings.Join(w[2:], " "))
		case "END":
			out.End()
		case "NEW":
			s = newSut(out, int(u(w[1])))
		case "PUSH":
			b, _ := parseBody(w[2:])
			s.push(u(w[1]), b)
		case "TRYPOP":
			p, rest := parsePstate(w[1:])
			s.tryPop(p, parseFilter(rest))
		case "POPDONE":
			p, rest := parsePstate(w[2:])
			s.popDone(w[1] == "1", p, parseFilter(rest))
		}
	}
}

func main() {
	if len(os.Args) < 2 {
		fmt.Fprintln(os.Stderr, "usage: hx-queue gen|exhaustive|prior|concurrent|replay ...")
		os.Exit(2)
	}
	mode := os.Args[1]
	fs := flag.NewFlagSet(mode, flag.ExitOnError)
	seed := fs.Uint64("seed", 1, "seed")
	n := fs.Int("n", 100, "cases")
	_ = fs.Parse(os.Args[2:])
	out := hx.NewOut()
	defer out.Close()
	switch mode {
	case "gen":
		gen(out, *seed, *n)
	case "exhaustive":
		exhaustive(out)
	case "prior":
		prior(out)
	case "concurrent":
		concurrent(out, *seed, *n)
	case "consumer":
		consumer(out, *seed, *n)
	case "wait":
		waiting(out, *seed, *n)
	case "replay":
		replay(out, fs.Arg(0))
	default:
		fmt.Fprintln(os.Stderr, "unknown mode", mode)
		os.Exit(2)
	}
}

// waiting: a blocking Pop that has to WAIT for its message (monitor only; the model's pop has a finished context).
// The inbox was read a moment ago (TryPop), a burst of messages is pushed, then Pop is called with a live context
// and must not look into the inbox first (lastRead in the future): it receives the burst message by message.
// "A pop returns a message whenever an admissible one is queued": if the burst holds an admissible message, Pop
// returns one (an admissible one) well before its deadline, whatever stands in front of it; nothing is lost.
func waiting(out *hx.Out, seed uint64, n int) {
	for c := 0; c < n; c++ {
		r := hx.NewRand(seed, "queue-wait", uint64(c))
		out.Case("wait seed=%d case=%d", seed, c)
		s := newSut(out, 32)
		p := genPstate(r)
		s.tryPop(p, filt{kind: "any"})
		k := 1 + r.Intn(4)
		for i := 0; i < k; i++ {
			s.push(uint64(i+1), genBody(r, p))
		}
		f := genFilter(r, s, p)
		fl := s.filter(f)
		admissible := 0
		for _, m := range s.shadow {
			if fl(m) {
				admissible++
			}
		}
		queue.VerifSetLastRead(s.q, time.Now().Add(time.Hour))
		s.out.Op("POPWAIT", "%s %s", p, f)
		// with an admissible message in the burst the pop must return at once; the context (1 s) is only the net
		// under a pop that got stuck, and a pop that returns when the context ends was stuck as well
		deadline := 20 * time.Millisecond
		if admissible > 0 {
			deadline = time.Second
		}
		ctx, cancel := context.WithTimeout(context.Background(), deadline)
		t0 := time.Now()
		m := s.q.Pop(ctx, p.build(), fl)
		took := time.Since(t0)
		cancel()
		out.Count(fmt.Sprintf("wait-admissible-%d-of-%d", admissible, k))
		if admissible > 0 && took > 800*time.Millisecond {
			s.out.ViolF("a waiting pop was released only by the end of its context (after %v) although %d of the %d messages pushed before it are admissible: with a live context it would still be waiting", took.Round(time.Millisecond), admissible, k)
		}
		switch {
		case m == nil && admissible > 0:
			s.out.ViolF("a waiting pop returned nothing within %v although %d of the %d messages pushed before it are admissible", took.Round(time.Millisecond), admissible, k)
		case m != nil:
			id := s.ids[m]
			if !fl(m) {
				s.out.ViolF("a waiting pop returned message %d which its filter does not admit", id)
			}
			if _, ok := s.shadow[id]; !ok {
				s.out.ViolF("a waiting pop returned message %d which is not queued", id)
			}
			delete(s.shadow, id)
		}
		// whatever was not returned is still there: drain and count
		queue.VerifSetLastRead(s.q, time.Time{})
		left := 0
		for s.q.TryPop(p.build(), queue.FilterAny) != nil {
			left++
		}
		if left != len(s.shadow) {
			s.out.ViolF("after a waiting pop %d messages can be drained, %d were pushed and not returned", left, len(s.shadow))
		}
		out.End()
	}
}

func phaseSlot(x uint64) phase0.Slot { return phase0.Slot(x) }
