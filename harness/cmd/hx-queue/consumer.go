package main

// Mode `consumer` (C14, second mechanism): the real Validator.ConsumeQueue over the real queue with a stub duty
// runner.  A case fixes the runner's state (no duty / duty without instance / running instance with or without an
// accepted proposal / decided instance; height, round, quorum), pushes messages and lets the consumer hand them
// over.  The hand-over order must be what repeated pops with the state's prioritizer and the consumer's filter
// give: each hand-over is written as a TRYPOP line with the state and filter the consumer has to use, so that the
// model replays it, and the monitor checks admissibility and maximality as for direct pops.

import (
	"context"
	"fmt"
	"time"

	specqbft "github.com/bloxapp/ssv-spec/qbft"
	spectypes "github.com/bloxapp/ssv-spec/types"
	"go.uber.org/zap"

	"github.com/bloxapp/ssv/protocol/v2/qbft/controller"
	"github.com/bloxapp/ssv/protocol/v2/qbft/instance"
	"github.com/bloxapp/ssv/protocol/v2/ssv/queue"
	"github.com/bloxapp/ssv/protocol/v2/ssv/runner"
	"github.com/bloxapp/ssv/protocol/v2/ssv/validator"
	ssvtypes "github.com/bloxapp/ssv/protocol/v2/types"

	"verifharness/hx"
)

type stubRunner struct {
	runner.Runner
	base *runner.BaseRunner
	duty bool
}

func (r *stubRunner) HasRunningDuty() bool              { return r.duty }
func (r *stubRunner) GetBaseRunner() *runner.BaseRunner { return r.base }

func consumer(out *hx.Out, seed uint64, n int) {
	for c := 0; c < n; c++ {
		consumerOne(out, seed, c)
	}
}

func consumerOne(out *hx.Out, seed uint64, c int) {
	role := spectypes.BNRoleAttester
	msgID := spectypes.NewMsgID(ssvtypes.GetDefaultDomain(), make([]byte, 48), role)
	{
		r := hx.NewRand(seed, "queue-consumer", uint64(c))
		h := uint64(hx.Pick(r, 0, 1, 5, 100))
		rd := uint64(hx.Pick(r, 1, 2, 3))
		slot := uint64(hx.Pick(r, 0, 5, 100))
		quorum := uint64(hx.Pick(r, 3, 5))
		duty := r.Chance(4, 5)
		hasInst := r.Chance(4, 5)
		decided := r.Chance(1, 5)
		accepted := r.Chance(1, 2)
		out.Case("consumer seed=%d case=%d duty=%v inst=%v decided=%v accepted=%v", seed, c, duty, hasInst, decided, accepted)
		s := newSut(out, 64)

		base := &runner.BaseRunner{State: &runner.State{}, QBFTController: &controller.Controller{Height: specqbft.Height(h)}, BeaconRoleType: role}
		if hasInst {
			st := &specqbft.State{Height: specqbft.Height(h), Round: specqbft.Round(rd), Decided: decided}
			if accepted {
				st.ProposalAcceptedForCurrentRound = &specqbft.SignedMessage{}
			}
			base.State.RunningInstance = &instance.Instance{State: st}
		}
		// what the consumer has to derive from that
		p := pstate{run: duty && hasInst && !decided, h: h, r: 1, s: slot, q: quorum}
		if duty && hasInst {
			p.r = rd
		}
		f := filt{kind: "any"}
		if !duty {
			f = filt{kind: "exec"}
		} else if hasInst && !accepted {
			f = filt{kind: "hold", h: p.h, r: p.r}
		}
		// push
		gp := pstate{run: p.run, h: h, r: rd, s: slot, q: quorum}
		k := 2 + r.Intn(7)
		for id := uint64(1); id <= uint64(k); id++ {
			s.push(id, genBody(r, gp))
		}
		fl := s.filter(f)
		admissible := 0
		for _, m := range s.shadow {
			if fl(m) {
				admissible++
			}
		}
		ctx, cancel := context.WithCancel(context.Background())
		v := validator.VerifNewConsumerValidator(ctx, role, &stubRunner{base: base, duty: duty}, s.q,
			&queue.State{Slot: phaseSlot(slot)}, quorum)
		// the handler blocks until the driver has looked at the queue, so that Len() is what the pop left
		handed := make(chan *queue.DecodedSSVMessage)
		ack := make(chan struct{})
		done := make(chan error, 1)
		go func() {
			done <- v.ConsumeQueue(zap.NewNop(), msgID, func(_ *zap.Logger, m *queue.DecodedSSVMessage) error {
				handed <- m
				<-ack
				return nil
			})
		}()
		for i := 0; i < admissible; i++ {
			select {
			case m := <-handed:
				s.out.Op("TRYPOP", "%s %s", p, f)
				s.afterPop(m, p, f, true)
				ack <- struct{}{}
			case <-time.After(10 * time.Second):
				s.out.ViolF("the consumer did not hand over an admissible message within 10 s (%d of %d handed over)", i, admissible)
				i = admissible
			}
		}
		// nothing admissible is left: the consumer must stay silent
		select {
		case m := <-handed:
			s.out.ViolF("the consumer handed over message %d which its filter does not admit", s.ids[m])
			close(ack)
		case <-time.After(30 * time.Millisecond):
		}
		cancel()
		select {
		case <-done:
		case <-time.After(10 * time.Second):
			s.out.ViolF("ConsumeQueue did not return after its context was cancelled")
		}
		s.out.Op("TRYPOP", "%s %s", p, f)
		s.afterPop(nil, p, f, true)
		out.Count(fmt.Sprintf("consumer-filter-%s", f.kind))
		out.End()
	}
}
