// hx-ekm drives the real ekm.ethKeyManagerSigner (and, through it, eth2-key-manager's SimpleSigner
// and NormalProtection) over an in-memory badger database (C04).
//
//	hx-ekm gen -seed S -n N         random life-cycle histories of two key shares (add / remove /
//	                                reactivate / sign / check / tick / restart / crash points / read
//	                                failures / corrupted records), 3/4 inside the property's quantifier
//	hx-ekm scripted                 fixed boundary histories (epoch 0, remove + re-add, crash at every write)
//	hx-ekm concurrent -seed S -n N  8 goroutines x sign requests on one share: monitor only
//	hx-ekm replay FILE              re-run the operation lines of a corpus / replay file
//
// Output: CASE / op / OBS / MON lines (see harness/hx).
//
// Time: the node's beacon clock is a settable slot counter (beacon.BeaconNetwork is an interface).
// The third-party far-future guard reads the real wall clock of the Prater network (epoch ~450000
// in 2026); the driver keeps every "near" epoch <= horizonEpoch = 400000 and every "far" epoch
// >= 2^40, so the guard's verdict does not depend on when the check runs.
package main

import (
	"bufio"
	"encoding/hex"
	"flag"
	"fmt"
	"os"
	"strconv"
	"strings"
	"sync"
	"sync/atomic"
	"time"

	"github.com/attestantio/go-eth2-client/spec/phase0"
	"github.com/bloxapp/eth2-key-manager/core"
	spectypes "github.com/bloxapp/ssv-spec/types"
	"github.com/bloxapp/ssv-spec/types/testingutils"
	"github.com/herumi/bls-eth-go-binary/bls"
	"go.uber.org/zap"

	"github.com/bloxapp/ssv/ekm"
	"github.com/bloxapp/ssv/networkconfig"
	"github.com/bloxapp/ssv/protocol/v2/blockchain/beacon"
	"github.com/bloxapp/ssv/storage/basedb"
	"github.com/bloxapp/ssv/storage/kv"
	"github.com/bloxapp/ssv/utils/threshold"

	"verifharness/hx"
)

const (
	horizonEpoch = uint64(400000)
	farBase      = uint64(1) << 40
	attPrefix    = "signer_data-highest_att-"
	propPrefix   = "signer_data-highest_prop-"
)

var shareKeys = []string{
	"3548db63ab5701878daf25fa877638dc7809778815b9d9ecd5369da33ca9e64f",
	"66dd37ae71b35c81022cdde98370e881cff896b689fa9136917f45afce43fd3b",
}

// ---- settable beacon clock -----------------------------------------------------------------------

type clockNet struct {
	beacon.Network
	slot *atomic.Uint64
}

func (c clockNet) EstimatedCurrentSlot() phase0.Slot { return phase0.Slot(c.slot.Load()) }
func (c clockNet) EstimatedCurrentEpoch() phase0.Epoch {
	return c.EstimatedEpochAtSlot(c.EstimatedCurrentSlot())
}

// ---- database wrapper: crash points and read failures --------------------------------------------

type crashSentinel struct{}

type faultDB struct {
	basedb.Database
	mu        sync.Mutex
	cut       int // -1: off; k: die when k writes of the current call have been applied
	applied   int
	failRead  bool
	failWrite bool // every write of the current call is refused with an error (nothing stored)
	refused   int  // writes refused during the current call
}

var errWriteRefused = fmt.Errorf("injected write failure")

func (f *faultDB) refuse() bool {
	f.mu.Lock()
	defer f.mu.Unlock()
	if f.failWrite {
		f.refused++
		return true
	}
	return false
}

func (f *faultDB) before() {
	f.mu.Lock()
	defer f.mu.Unlock()
	if f.cut >= 0 && f.applied >= f.cut {
		panic(crashSentinel{})
	}
}

func (f *faultDB) after() {
	f.mu.Lock()
	defer f.mu.Unlock()
	f.applied++
	if f.cut >= 0 && f.applied >= f.cut {
		panic(crashSentinel{})
	}
}

func (f *faultDB) Set(prefix, key, value []byte) error {
	if f.refuse() {
		return errWriteRefused
	}
	f.before()
	if err := f.Database.Set(prefix, key, value); err != nil {
		return err
	}
	f.after()
	return nil
}

func (f *faultDB) Delete(prefix, key []byte) error {
	if f.refuse() {
		return errWriteRefused
	}
	f.before()
	if err := f.Database.Delete(prefix, key); err != nil {
		return err
	}
	f.after()
	return nil
}

func (f *faultDB) SetMany(prefix []byte, n int, next func(int) (basedb.Obj, error)) error {
	if f.refuse() {
		return errWriteRefused
	}
	f.before()
	if err := f.Database.SetMany(prefix, n, next); err != nil {
		return err
	}
	f.after()
	return nil
}

func (f *faultDB) Get(prefix, key []byte) (basedb.Obj, bool, error) {
	f.mu.Lock()
	fr := f.failRead
	f.mu.Unlock()
	if fr && (strings.Contains(string(prefix), attPrefix) || strings.Contains(string(prefix), propPrefix)) {
		return basedb.Obj{}, false, fmt.Errorf("injected read failure")
	}
	return f.Database.Get(prefix, key)
}

func (f *faultDB) Using(rw basedb.ReadWriter) basedb.ReadWriter {
	if rw == nil {
		return f
	}
	return rw
}

func (f *faultDB) UsingReader(r basedb.Reader) basedb.Reader {
	if r == nil {
		return f
	}
	return r
}

// ---- the implementation under test plus the property monitor -------------------------------------

type env struct {
	cut   int // -1 = none
	rfail bool
	wfail bool // the database refuses the writes of this call (sign / reactivate only)
}

func (e env) String() string {
	c := "-"
	if e.cut >= 0 {
		c = strconv.Itoa(e.cut)
	}
	r := 0
	if e.rfail {
		r = 1
	}
	wf := 0
	if e.wfail {
		wf = 1
	}
	return fmt.Sprintf("%s %d %d", c, r, wf)
}

type sig struct {
	att  bool
	a, b uint64 // att: source, target; block: slot
}

func conflict(x, y sig) bool {
	if x.att != y.att {
		return false
	}
	if !x.att {
		return x.a == y.a
	}
	return x.b == y.b || (x.a < y.a && y.b < x.b) || (y.a < x.a && x.b < y.b)
}

func (s sig) String() string {
	if s.att {
		return fmt.Sprintf("att(%d,%d)", s.a, s.b)
	}
	return fmt.Sprintf("block(%d)", s.a)
}

type world struct {
	out     *hx.Out
	logger  *zap.Logger
	db      *faultDB
	slot    *atomic.Uint64
	netcfg  networkconfig.NetworkConfig
	km      spectypes.KeyManager
	sks     []*bls.SecretKey
	pks     [][]byte
	rel     [][]sig // released signatures per share, oldest first (the monitor's only state)
	inQuant bool    // every request so far is inside the property's quantifier
}

var (
	sks []*bls.SecretKey
	pks [][]byte
)

func initKeys() {
	threshold.Init()
	for _, h := range shareKeys {
		sk := &bls.SecretKey{}
		if err := sk.SetHexString(h); err != nil {
			panic(err)
		}
		sks = append(sks, sk)
		pks = append(pks, sk.GetPublicKey().Serialize())
	}
	// the far-future guard must let every epoch <= horizonEpoch + 8 through, whenever this runs
	n := core.PraterNetwork
	maxEpoch := uint64(n.EstimatedEpochAtSlot(n.EstimatedSlotAtTime(time.Now().Unix())))
	if maxEpoch < horizonEpoch+100 || maxEpoch >= farBase {
		fmt.Fprintf(os.Stderr, "wall clock epoch %d is outside (%d, 2^40): the far-future guard would interfere\n", maxEpoch, horizonEpoch+100)
		os.Exit(2)
	}
}

func newWorld(out *hx.Out, clock uint64) *world {
	logger := zap.NewNop()
	inner, err := kv.NewInMemory(logger, basedb.Options{})
	if err != nil {
		panic(err)
	}
	w := &world{out: out, logger: logger, db: &faultDB{Database: inner, cut: -1}, slot: &atomic.Uint64{},
		sks: sks, pks: pks, rel: make([][]sig, len(sks)), inQuant: true}
	w.slot.Store(clock)
	w.netcfg = networkconfig.NetworkConfig{
		Beacon: clockNet{Network: beacon.NewNetwork(spectypes.PraterNetwork), slot: w.slot},
		Domain: networkconfig.TestNetwork.Domain,
	}
	out.Op("NEW", "%d %d", clock, horizonEpoch)
	w.restartSigner()
	return w
}

func (w *world) close() { _ = w.db.Database.Close() }

func (w *world) restartSigner() {
	km, err := ekm.NewETHKeyManagerSigner(w.logger, w.db, w.netcfg, false, "")
	if err != nil {
		panic(fmt.Sprintf("NewETHKeyManagerSigner: %v", err))
	}
	w.km = km
}

func (w *world) epoch() uint64 { return w.slot.Load() / 32 }

// classify maps an error of the implementation to the model's error classes.
func classify(err error) string {
	if err == nil {
		return "ok"
	}
	s := err.Error()
	switch {
	case strings.Contains(s, "account not found"):
		return "noacct"
	case strings.Contains(s, "too far into the future"):
		return "far"
	case strings.Contains(s, "injected write failure"):
		return "writeerr"
	case strings.Contains(s, "could not retrieve highest attestation"), strings.Contains(s, "could not retrieve highest proposal"):
		return "readerr"
	case strings.Contains(s, "is not found, can't determine"):
		return "norecord"
	case strings.Contains(s, "data is nil, can't determine"):
		return "nilrecord"
	case strings.Contains(s, "slashable attestation ("), strings.Contains(s, "slashable proposal ("):
		return "slashable"
	case strings.Contains(s, "proposal slot can not be 0"), strings.Contains(s, "slot could not be 0"):
		return "zeroslot"
	}
	return "other:" + strings.ReplaceAll(s, " ", "_")
}

// guarded runs one call of the implementation under a crash point / read failure.  Returns the
// outcome class; "crash" means the process died inside the call (the signer object is then
// discarded and a new one is built over the same database).
func (w *world) guarded(e env, f func() (released bool, err error)) (res string) {
	w.db.mu.Lock()
	w.db.cut, w.db.applied, w.db.failRead = e.cut, 0, e.rfail
	w.db.failWrite, w.db.refused = e.wfail, 0
	w.db.mu.Unlock()
	crashed := false
	func() {
		defer func() {
			if r := recover(); r != nil {
				if _, ok := r.(crashSentinel); ok {
					crashed = true
					return
				}
				res = fmt.Sprintf("panic:%v", r)
			}
		}()
		rel, err := f()
		switch {
		case err != nil:
			res = "refuse:" + classify(err)
		case rel:
			res = "rel"
		default:
			res = "done"
		}
	}()
	w.db.mu.Lock()
	w.db.cut, w.db.failRead, w.db.failWrite = -1, false, false
	w.db.mu.Unlock()
	if crashed {
		w.restartSigner()
		return "crash"
	}
	return res
}

// persisted prints, for every share, the records a freshly started node would find.
func (w *world) persisted() string {
	var b strings.Builder
	st := ekm.NewSignerStorage(w.db.Database, w.netcfg.Beacon, w.logger)
	wallet, werr := st.OpenWallet()
	for k, pk := range w.pks {
		att := "-"
		data, found, err := w.km.(ekm.StorageProvider).RetrieveHighestAttestation(pk)
		switch {
		case err != nil:
			att = "bad"
		case found && data == nil:
			att = "nil"
		case found:
			att = fmt.Sprintf("%d,%d", uint64(data.Source.Epoch), uint64(data.Target.Epoch))
		}
		prop := "-"
		p, pfound, perr := w.km.(ekm.StorageProvider).RetrieveHighestProposal(pk)
		switch {
		case perr != nil:
			prop = "bad"
		case pfound:
			prop = fmt.Sprintf("%d", uint64(p))
		}
		acct := 0
		if werr == nil {
			if _, err := wallet.AccountByPublicKey(hex.EncodeToString(pk)); err == nil {
				acct = 1
			}
		}
		fmt.Fprintf(&b, " s%d=%s/%s/%d", k, att, prop, acct)
	}
	return b.String()
}

func (w *world) obs(res string) { w.out.Obs("%s%s", res, w.persisted()) }

func (w *world) monitor(k int, g sig) {
	for _, old := range w.rel[k] {
		if conflict(old, g) {
			if w.inQuant {
				w.out.ViolF("share %d released %s although it had released %s before (slashable pair)", k, g, old)
			} else {
				w.out.Note("outside the quantifier: share %d released %s after %s", k, g, old)
				w.out.Count("outside-quantifier-slashable-pair")
			}
			break
		}
	}
	w.rel[k] = append(w.rel[k], g)
}

// unreadable states the second clause of the property directly on the database: the protection
// record of share k is missing, has a zero-length value, or has a value of the wrong size.
func (w *world) unreadable(k int, att bool) (bool, string) {
	prefix, want := propPrefix, 8
	if att {
		prefix, want = attPrefix, 128 // fixed SSZ size of phase0.AttestationData
	}
	obj, found, err := w.db.Database.Get([]byte(string(spectypes.PraterNetwork)+prefix), w.pks[k])
	switch {
	case err != nil:
		return true, "unreadable (" + err.Error() + ")"
	case !found:
		return true, "missing"
	case len(obj.Value) == 0:
		return true, "zero-length"
	case len(obj.Value) != want:
		return true, fmt.Sprintf("%d bytes instead of %d", len(obj.Value), want)
	}
	return false, ""
}

func (w *world) tick(d uint64) {
	w.out.Op("TICK", "%d", d)
	w.slot.Add(d)
}

func (w *world) restart() {
	w.out.Op("RESTART", "")
	w.restartSigner()
	w.obs("done")
}

func (w *world) add(k int, e env) {
	w.out.Op("ADD", "%d %s", k, e)
	w.obs(w.guarded(e, func() (bool, error) { return false, w.km.AddShare(w.sks[k]) }))
}

func (w *world) remove(k int, e env) {
	w.out.Op("REMOVE", "%d %s", k, e)
	w.obs(w.guarded(e, func() (bool, error) { return false, w.km.RemoveShare(hex.EncodeToString(w.pks[k])) }))
}

func (w *world) react(k int, e env) {
	w.out.Op("REACT", "%d %s", k, e)
	w.obs(w.guarded(e, func() (bool, error) {
		return false, w.km.(ekm.StorageProvider).BumpSlashingProtection(w.pks[k])
	}))
}

func attData(s, t uint64) *phase0.AttestationData {
	return &phase0.AttestationData{
		Slot: phase0.Slot(t * 32), Index: 1, BeaconBlockRoot: phase0.Root{1, 2, 3},
		Source: &phase0.Checkpoint{Epoch: phase0.Epoch(s)}, Target: &phase0.Checkpoint{Epoch: phase0.Epoch(t)},
	}
}

func (w *world) signAttRaw(k int, s, t uint64) error {
	sg, root, err := w.km.SignBeaconObject(attData(s, t), phase0.Domain{}, w.pks[k], spectypes.DomainAttester)
	if err == nil && (len(sg) == 0 || root == [32]byte{}) {
		return fmt.Errorf("empty signature without error")
	}
	return err
}

func (w *world) signBlkRaw(k int, sl uint64) error {
	blk := *testingutils.TestingBeaconBlockCapella
	blk.Slot = phase0.Slot(sl)
	sg, root, err := w.km.SignBeaconObject(&blk, phase0.Domain{}, w.pks[k], spectypes.DomainProposer)
	if err == nil && (len(sg) == 0 || root == [32]byte{}) {
		return fmt.Errorf("empty signature without error")
	}
	return err
}

func (w *world) signAtt(k int, s, t uint64, e env) {
	w.out.Op("SIGNATT", "%d %d %d %s", k, s, t, e)
	if !(s < t && t <= w.epoch()) {
		w.inQuant = false
	}
	bad, why := w.unreadable(k, true)
	if e.rfail {
		bad, why = true, "failing reads"
	}
	res := w.guarded(e, func() (bool, error) { return true, w.signAttRaw(k, s, t) })
	w.obs(res)
	if res == "rel" {
		if bad {
			w.out.ViolF("share %d released att(%d,%d) although its highest-attestation record was %s", k, s, t, why)
		}
		if w.db.refused > 0 {
			w.out.ViolF("share %d released att(%d,%d) although the write of its highest-attestation record was refused", k, s, t)
		}
		w.monitor(k, sig{att: true, a: s, b: t})
	}
}

func (w *world) signBlk(k int, sl uint64, e env) {
	w.out.Op("SIGNBLK", "%d %d %s", k, sl, e)
	if sl > w.slot.Load() {
		w.inQuant = false
	}
	bad, why := w.unreadable(k, false)
	if e.rfail {
		bad, why = true, "failing reads"
	}
	res := w.guarded(e, func() (bool, error) { return true, w.signBlkRaw(k, sl) })
	w.obs(res)
	if res == "rel" {
		if bad {
			w.out.ViolF("share %d released block(%d) although its highest-proposal record was %s", k, sl, why)
		}
		if w.db.refused > 0 {
			w.out.ViolF("share %d released block(%d) although the write of its highest-proposal record was refused", k, sl)
		}
		w.monitor(k, sig{a: sl})
	}
}

func (w *world) checkAtt(k int, s, t uint64, e env) {
	w.out.Op("CHKATT", "%d %d %d %s", k, s, t, e)
	e.cut = -1
	w.obs(w.guarded(e, func() (bool, error) {
		return false, w.km.(spectypes.BeaconSigner).IsAttestationSlashable(w.pks[k], attData(s, t))
	}))
}

func (w *world) checkBlk(k int, sl uint64, e env) {
	w.out.Op("CHKBLK", "%d %d %s", k, sl, e)
	e.cut = -1
	w.obs(w.guarded(e, func() (bool, error) {
		return false, w.km.(spectypes.BeaconSigner).IsBeaconBlockSlashable(w.pks[k], phase0.Slot(sl))
	}))
}

// corrupt overwrites a protection record in the database, behind the signer's back.
// kinds: attgarbage (undecodable value), attempty, propempty (zero-length values).
func (w *world) corrupt(k int, kind string) {
	w.out.Op("CORRUPT", "%d %s", k, kind)
	net := string(spectypes.PraterNetwork)
	var err error
	switch kind {
	case "attgarbage":
		err = w.db.Database.Set([]byte(net+attPrefix), w.pks[k], []byte{1, 2, 3})
	case "attempty":
		err = w.db.Database.Set([]byte(net+attPrefix), w.pks[k], []byte{})
	case "propempty":
		err = w.db.Database.Set([]byte(net+propPrefix), w.pks[k], []byte{})
		w.inQuant = false // see C04_empty_proposal_record_*: the record then reads as slot 0
	default:
		panic("corrupt " + kind)
	}
	if err != nil {
		panic(err)
	}
	w.obs("done")
}

// ---- generators ------------------------------------------------------------------------------------

func genEnv(r *hx.Rand, faults bool) env {
	e := env{cut: -1}
	if !faults {
		return e
	}
	if r.Chance(1, 8) {
		e.cut = r.Intn(5)
	}
	if r.Chance(1, 25) {
		e.rfail = true
	}
	return e
}

// genEnvW: for the calls whose only state is the database (sign, reactivate) the database may also
// refuse the call's writes.
func genEnvW(r *hx.Rand, faults bool) env {
	e := genEnv(r, faults)
	if faults && e.cut < 0 && r.Chance(1, 12) {
		e.wfail = true
	}
	return e
}

func sub(a, b uint64) uint64 {
	if a < b {
		return 0
	}
	return a - b
}

// recordOf reads the implementation's current record to aim requests at the boundaries.
func (w *world) recordOf(k int) (hs, ht, hp uint64) {
	if d, found, err := w.km.(ekm.StorageProvider).RetrieveHighestAttestation(w.pks[k]); err == nil && found && d != nil {
		hs, ht = uint64(d.Source.Epoch), uint64(d.Target.Epoch)
	}
	if p, found, err := w.km.(ekm.StorageProvider).RetrieveHighestProposal(w.pks[k]); err == nil && found {
		hp = uint64(p)
	}
	return
}

func (w *world) genAtt(r *hx.Rand, k int, valid bool) (uint64, uint64, bool) {
	E := w.epoch()
	hs, ht, _ := w.recordOf(k)
	var t uint64
	switch r.Intn(8) {
	case 0:
		t = ht
	case 1, 2:
		t = ht + 1
	case 3:
		t = sub(E, 1)
	case 4, 5:
		t = E
	case 6:
		t = sub(E, uint64(r.Intn(4)))
	default:
		t = ht + uint64(r.Intn(3))
	}
	var s uint64
	switch r.Intn(7) {
	case 0:
		s = sub(hs, 1)
	case 1, 2:
		s = hs
	case 3:
		s = hs + 1
	case 4:
		s = sub(t, 1)
	case 5:
		s = sub(t, uint64(1+r.Intn(3)))
	default:
		s = sub(E, uint64(1+r.Intn(4)))
	}
	if valid {
		if t > E || t == 0 {
			t = E
		}
		if s >= t {
			s = sub(t, 1)
		}
		return s, t, s < t // at epoch 0 no request is inside the quantifier
	}
	switch r.Intn(6) {
	case 0:
		t = E + 1
	case 1:
		t = E + 1 + uint64(r.Intn(2))
		s = sub(t, 1)
	case 2:
		s = t + uint64(r.Intn(3)) // source >= target
	case 3:
		t = hx.Pick(r, farBase, farBase+7, ^uint64(0))
	case 4:
		s = hx.Pick(r, farBase, ^uint64(0), ^uint64(0)-1)
	}
	return s, t, true
}

func (w *world) genSlot(r *hx.Rand, k int, valid bool) uint64 {
	c := w.slot.Load()
	_, _, hp := w.recordOf(k)
	var sl uint64
	switch r.Intn(7) {
	case 0:
		sl = hp
	case 1, 2:
		sl = hp + 1
	case 3, 4:
		sl = c
	case 5:
		sl = sub(c, uint64(r.Intn(40)))
	default:
		sl = hp + uint64(r.Intn(4))
	}
	if valid {
		if sl > c {
			sl = c
		}
		return sl
	}
	switch r.Intn(4) {
	case 0:
		sl = c + 1 + uint64(r.Intn(3))
	case 1:
		sl = 0
	case 2:
		sl = hx.Pick(r, farBase*32, ^uint64(0))
	}
	return sl
}

func gen(out *hx.Out, seed uint64, n int) {
	for c := 0; c < n; c++ {
		r := hx.NewRand(seed, "ekm", uint64(c))
		valid := !r.Chance(1, 4)
		faults := r.Chance(2, 3)
		var clock uint64
		switch r.Intn(6) {
		case 0:
			clock = uint64(r.Intn(3)) // epoch 0, incl. slot 0
		case 1:
			clock = uint64(r.Intn(100))
		case 2:
			clock = (horizonEpoch-1000)*32 - uint64(r.Intn(100000))
		default:
			clock = 32*uint64(2+r.Intn(5000)) + uint64(r.Intn(32))
		}
		stream := "valid"
		if !valid {
			stream = "malformed"
		}
		out.Case("gen seed=%d case=%d stream=%s faults=%v", seed, c, stream, faults)
		out.Count("stream-" + stream)
		w := newWorld(out, clock)
		if r.Chance(5, 6) {
			w.add(0, env{cut: -1})
		}
		if r.Chance(1, 2) {
			w.add(1, env{cut: -1})
		}
		nops := 20 + r.Intn(25)
		for i := 0; i < nops; i++ {
			k := 0
			if r.Chance(1, 4) {
				k = 1
			}
			switch x := r.Intn(100); {
			case x < 24:
				d := uint64(hx.Pick(r, 1, 3, 31, 32, 32, 33, 64, 70, 200))
				if (w.slot.Load()+d)/32+8 < horizonEpoch {
					w.tick(d)
				}
			case x < 54:
				if s, t, ok := w.genAtt(r, k, valid); ok {
					w.signAtt(k, s, t, genEnvW(r, faults))
				} else {
					w.tick(32)
				}
			case x < 70:
				w.signBlk(k, w.genSlot(r, k, valid), genEnvW(r, faults))
			case x < 79:
				w.add(k, genEnv(r, faults))
			case x < 83:
				w.remove(k, genEnv(r, faults))
				if r.Chance(2, 3) {
					if r.Chance(1, 2) {
						w.tick(uint64(hx.Pick(r, 1, 32, 40)))
					}
					w.add(k, genEnv(r, faults))
				}
			case x < 87:
				w.react(k, genEnvW(r, faults))
			case x < 91:
				w.restart()
			case x < 94:
				if s, t, ok := w.genAtt(r, k, valid); ok {
					w.checkAtt(k, s, t, env{cut: -1, rfail: faults && r.Chance(1, 10)})
				}
			case x < 96:
				w.checkBlk(k, w.genSlot(r, k, valid), env{cut: -1, rfail: faults && r.Chance(1, 10)})
			case x < 98:
				if faults {
					// a zero-length proposal record is exercised by corpus/C04 only (one finding, one replay)
					w.corrupt(k, hx.Pick(r, "attgarbage", "attempty"))
				}
			default:
				// remove + re-add in the same epoch: the shape the clock bound exists for
				w.remove(k, env{cut: -1})
				w.add(k, env{cut: -1})
			}
		}
		if w.inQuant {
			out.Count("history-inside-quantifier")
		} else {
			out.Count("history-outside-quantifier")
		}
		w.close()
		out.End()
	}
}

// scripted: boundary histories that a random generator reaches rarely.
func scripted(out *hx.Out) {
	none := env{cut: -1}
	// every crash point of add / remove / reactivate / sign, each followed by the same probe
	for _, clock := range []uint64{0, 1, 31, 32, 33, 100 * 32, 100*32 + 31} {
		for cut := 0; cut <= 5; cut++ {
			for variant := 0; variant < 4; variant++ {
				out.Case("scripted crash clock=%d cut=%d variant=%d", clock, cut, variant)
				w := newWorld(out, clock)
				e := env{cut: cut}
				switch variant {
				case 0:
					w.add(0, e)
					w.add(0, none)
				case 1:
					w.add(0, none)
					w.tick(64)
					w.signAtt(0, w.epoch()-1, w.epoch(), none)
					w.signBlk(0, w.slot.Load(), none)
					w.remove(0, e)
					w.add(0, none)
				case 2:
					w.add(0, none)
					w.tick(64)
					w.signAtt(0, w.epoch()-1, w.epoch(), e)
					w.signAtt(0, w.epoch()-1, w.epoch(), none)
					w.signBlk(0, w.slot.Load(), e)
					w.signBlk(0, w.slot.Load(), none)
				case 3:
					w.react(0, e)
					w.add(0, none)
				}
				w.tick(32)
				w.signAtt(0, w.epoch()-1, w.epoch(), none)
				w.signBlk(0, w.slot.Load(), none)
				w.tick(32)
				w.restart()
				w.signAtt(0, w.epoch()-2, w.epoch(), none)
				w.signAtt(0, w.epoch()-1, w.epoch(), none)
				w.signBlk(0, w.slot.Load()-1, none)
				w.signBlk(0, w.slot.Load(), none)
				w.close()
				out.End()
			}
		}
	}
	// remove + re-add / reactivate at every distance from the last signature
	for _, gapSlots := range []uint64{0, 1, 31, 32, 64} {
		for _, readd := range []string{"remove-add", "react", "remove-restart-add"} {
			out.Case("scripted readd gap=%d how=%s", gapSlots, readd)
			w := newWorld(out, 10*32+5)
			w.add(0, none)
			w.tick(32)
			E := w.epoch()
			w.signAtt(0, E-1, E, none)
			w.signBlk(0, w.slot.Load(), none)
			w.tick(gapSlots)
			switch readd {
			case "remove-add":
				w.remove(0, none)
				w.signAtt(0, E-1, E, none)
				w.add(0, none)
			case "react":
				w.react(0, none)
			default:
				w.remove(0, none)
				w.restart()
				w.add(0, none)
			}
			for _, t := range []uint64{E - 1, E, E + 1} {
				if t <= w.epoch() {
					w.signAtt(0, E-2, t, none)
					w.signAtt(0, t-1, t, none)
				}
			}
			for _, d := range []uint64{0, 1, gapSlots} {
				if 10*32+5+32+d <= w.slot.Load() {
					w.signBlk(0, 10*32+5+32+d, none)
				}
			}
			w.close()
			out.End()
		}
	}
}

// concurrent: sign requests from several goroutines at a fixed clock; only the monitor applies
// (the order of the requests is the scheduler's).
//
//	mode "same":  8 goroutines, all requests for ONE share, attestations and blocks mixed - the
//	              shape named by the property.  eth2-key-manager v1.4.0 takes its per-account lock
//	              while holding the lock-table mutex (SimpleSigner.lock) and needs that mutex again
//	              to unlock: two requests of the same kind for the same account lock the signer up
//	              for good.  That is a liveness defect, not a C04 violation (a signer that stops
//	              releases nothing); the run reports it as a note/counter and checks what was
//	              released before.
//	mode "split": 8 goroutines, each the only source of one (share, kind) pair or of read-only
//	              checks, so the lock-up cannot occur and the storage / wallet locks are exercised.
func concurrent(out *hx.Out, seed uint64, n int) {
	for c := 0; c < n; c++ {
		r := hx.NewRand(seed, "ekm-conc", uint64(c))
		mode := "split"
		if c%4 == 3 {
			mode = "same"
		}
		out.Case("concurrent seed=%d case=%d mode=%s", seed, c, mode)
		out.Count("CONCURRENT-" + mode)
		clock := 32*uint64(50+r.Intn(1000)) + uint64(r.Intn(32))
		w := newWorld(out, clock)
		w.add(0, env{cut: -1})
		w.add(1, env{cut: -1})
		w.tick(96)
		E, S := w.epoch(), w.slot.Load()
		const workers, per = 8, 24
		type req struct {
			share    int
			att, chk bool
			a, b     uint64
		}
		reqs := make([][]req, workers)
		for i := range reqs {
			for j := 0; j < per; j++ {
				q := req{}
				switch mode {
				case "same":
					q.att = r.Chance(2, 3)
				default:
					q.share, q.att, q.chk = i%2, (i/2)%2 == 0, i >= 4
				}
				if q.att {
					t := E - uint64(r.Intn(3))
					q.a, q.b = t-1-uint64(r.Intn(3)), t
				} else {
					q.a = S - uint64(r.Intn(6))
				}
				reqs[i] = append(reqs[i], q)
			}
		}
		out.Op("CONC", "%s %d %d %d", mode, workers, per, clock+96)
		var mu sync.Mutex
		got := make([][]sig, 2)
		var finished atomic.Int64
		var wg sync.WaitGroup
		for i := range reqs {
			wg.Add(1)
			go func(rs []req) {
				defer wg.Done()
				for _, q := range rs {
					var err error
					switch {
					case q.chk && q.att:
						_ = w.km.(spectypes.BeaconSigner).IsAttestationSlashable(w.pks[q.share], attData(q.a, q.b))
						err = fmt.Errorf("check only")
					case q.chk:
						_ = w.km.(spectypes.BeaconSigner).IsBeaconBlockSlashable(w.pks[q.share], phase0.Slot(q.a))
						err = fmt.Errorf("check only")
					case q.att:
						err = w.signAttRaw(q.share, q.a, q.b)
					default:
						err = w.signBlkRaw(q.share, q.a)
					}
					if err == nil {
						mu.Lock()
						got[q.share] = append(got[q.share], sig{att: q.att, a: q.a, b: q.b})
						mu.Unlock()
					}
					finished.Add(1)
				}
			}(reqs[i])
		}
		done := make(chan struct{})
		go func() { wg.Wait(); close(done) }()
		locked := false
		last, idle := int64(-1), 0
	wait:
		for {
			select {
			case <-done:
				break wait
			case <-time.After(250 * time.Millisecond):
				if f := finished.Load(); f == last {
					idle++
				} else {
					last, idle = f, 0
				}
				if idle >= 6 { // no request finished for 1.5 s
					locked = true
					break wait
				}
			}
		}
		if locked {
			out.Note("signer locked up after %d of %d requests (two same-kind requests for one account: SimpleSigner.lock/unlock)", finished.Load(), workers*per)
			out.Count("concurrent-lockup-" + mode)
		}
		mu.Lock()
		nrel := 0
		for k := range got {
			for _, g := range got[k] {
				w.monitor(k, g)
				nrel++
			}
		}
		mu.Unlock()
		out.Note("released %d signatures, %d of %d requests finished", nrel, finished.Load(), workers*per)
		if nrel > 0 {
			out.Count("concurrent-case-with-releases")
		}
		if !locked {
			w.close()
		} // else: goroutines of the locked-up signer still hold the database; left to the process exit
		out.End()
	}
}

// ---- replay ----------------------------------------------------------------------------------------

func u(s string) uint64 { v, _ := strconv.ParseUint(s, 10, 64); return v }

func parseEnv(w []string) env {
	e := env{cut: -1}
	if len(w) > 0 && w[0] != "-" {
		e.cut = int(u(w[0]))
	}
	if len(w) > 1 && w[1] == "1" {
		e.rfail = true
	}
	if len(w) > 2 && w[2] == "1" {
		e.wfail = true
	}
	return e
}

func replay(out *hx.Out, path string) {
	fh, err := os.Open(path)
	if err != nil {
		fmt.Fprintln(os.Stderr, err)
		os.Exit(2)
	}
	defer fh.Close()
	var w *world
	sc := bufio.NewScanner(fh)
	sc.Buffer(make([]byte, 1<<20), 1<<20)
	for sc.Scan() {
		f := strings.Fields(sc.Text())
		if len(f) == 0 {
			continue
		}
		switch f[0] {
		case "CASE":
			out.Case("replay %s", strings.Join(f[2:], " "))
			w = nil
		case "END":
			if w != nil {
				w.close()
				w = nil
			}
			out.End()
		case "NEW":
			w = newWorld(out, u(f[1]))
		case "OBS", "MON", "#", "DIST", "SUMMARY":
		default:
			if w == nil {
				w = newWorld(out, 10*32)
			}
			switch f[0] {
			case "TICK":
				w.tick(u(f[1]))
			case "RESTART":
				w.restart()
			case "ADD":
				w.add(int(u(f[1])), parseEnv(f[2:]))
			case "REMOVE":
				w.remove(int(u(f[1])), parseEnv(f[2:]))
			case "REACT":
				w.react(int(u(f[1])), parseEnv(f[2:]))
			case "SIGNATT":
				w.signAtt(int(u(f[1])), u(f[2]), u(f[3]), parseEnv(f[4:]))
			case "SIGNBLK":
				w.signBlk(int(u(f[1])), u(f[2]), parseEnv(f[3:]))
			case "CHKATT":
				w.checkAtt(int(u(f[1])), u(f[2]), u(f[3]), parseEnv(f[4:]))
			case "CHKBLK":
				w.checkBlk(int(u(f[1])), u(f[2]), parseEnv(f[3:]))
			case "CORRUPT":
				w.corrupt(int(u(f[1])), f[2])
			}
		}
	}
}

func main() {
	if len(os.Args) < 2 {
		fmt.Fprintln(os.Stderr, "usage: hx-ekm gen|scripted|concurrent|replay ...")
		os.Exit(2)
	}
	initKeys()
	out := hx.NewOut()
	defer out.Close()
	fs := flag.NewFlagSet(os.Args[1], flag.ExitOnError)
	seed := fs.Uint64("seed", 1, "")
	n := fs.Int("n", 100, "")
	switch os.Args[1] {
	case "gen":
		_ = fs.Parse(os.Args[2:])
		gen(out, *seed, *n)
	case "scripted":
		scripted(out)
	case "concurrent":
		_ = fs.Parse(os.Args[2:])
		concurrent(out, *seed, *n)
	case "replay":
		replay(out, os.Args[2])
	default:
		fmt.Fprintln(os.Stderr, "unknown mode")
		os.Exit(2)
	}
}
