// hx-topics drives the real topic / envelope / subnet-bitmap code (C18).
//
//	hx-topics keys     -seed S -n N   random 48-byte keys: commons functions, the real p2pNetwork
//	                                  Broadcast/Subscribe/Peers/Unsubscribe in front of a recording topics
//	                                  controller, the real message validator on what Broadcast published
//	hx-topics edge                    edge keys (first five bytes at the boundaries), short/long keys
//	hx-topics envelope -seed S -n N   Encode/DecodeSignedSSVMessage, payload sizes 0..4096, odd signature sizes
//	hx-topics subnets  -seed S -n N   records.Subnets String/FromString, well-formed and malformed
//	hx-topics strings  -seed S -n N   ValidatorSubnet / GetTopicBaseName / the validator's topic check on arbitrary strings
//	hx-topics replay FILE             re-run the operation lines of a corpus / replay file
//
// What is real and what is replicated:
//   - commons.* and records.Subnets are called directly;
//   - the publisher's and subscriber's topic choice is observed at the real call sites: a p2pNetwork
//     built by p2pv1.VerifNewWithTopicsController (hook network/p2p/verif_hooks.go) whose topics
//     controller is the recorder below; the recorder turns the base name into the wire name with
//     commons.GetTopicFullName exactly like topicsCtrl.Subscribe/Broadcast (controller.go:142,159) do;
//   - the validator's topic check is the one inside validateP2PMessage, reached through the exported
//     MessageValidator.ValidatePubsubMessage; a metrics reporter passed with WithMetrics sees
//     SSVMessageType (called right after the topic check passed) or MessageRejected("topic not found");
//   - the index UpdateSubnets advertises is the replicated line commons.ValidatorSubnet(hex(pk))
//     (p2p.go:255): UpdateSubnets is an endless ticker loop over discovery and cannot be run here.
package main

import (
	"github.com/attestantio/go-eth2-client/spec/phase0"
	"github.com/bloxapp/ssv/protocol/v2/blockchain/beacon"

	"bufio"
	"bytes"
	"context"
	"encoding/hex"
	"flag"
	"fmt"
	"os"
	"strconv"
	"strings"
	"time"

	specqbft "github.com/bloxapp/ssv-spec/qbft"
	spectypes "github.com/bloxapp/ssv-spec/types"
	pubsub "github.com/libp2p/go-libp2p-pubsub"
	pspb "github.com/libp2p/go-libp2p-pubsub/pb"
	"github.com/libp2p/go-libp2p/core/peer"
	"go.uber.org/zap"

	"github.com/bloxapp/ssv/message/validation"
	"github.com/bloxapp/ssv/monitoring/metricsreporter"
	"github.com/bloxapp/ssv/network"
	"github.com/bloxapp/ssv/network/commons"
	p2pv1 "github.com/bloxapp/ssv/network/p2p"
	"github.com/bloxapp/ssv/network/records"
	"github.com/bloxapp/ssv/networkconfig"
	operatordatastore "github.com/bloxapp/ssv/operator/datastore"
	"github.com/bloxapp/ssv/operator/keys"
	registrystorage "github.com/bloxapp/ssv/registry/storage"

	"verifharness/hx"
)

// ---- text helpers (the OCaml runner prints the same way) --------------------------------------------

func hx2(b []byte) string {
	if len(b) == 0 {
		return "-"
	}
	return hex.EncodeToString(b)
}

func unhex(s string) []byte {
	if s == "-" {
		return nil
	}
	b, err := hex.DecodeString(s)
	if err != nil {
		panic("bad hex in op line: " + s)
	}
	return b
}

func quote(s string) string {
	if len(s) == 0 {
		return "-"
	}
	var sb strings.Builder
	for i := 0; i < len(s); i++ {
		c := s[i]
		if c > 32 && c < 127 && c != '%' && c != ',' {
			sb.WriteByte(c)
		} else {
			fmt.Fprintf(&sb, "%%%02X", c)
		}
	}
	return sb.String()
}

func quotes(ss []string) string {
	if len(ss) == 0 {
		return "-"
	}
	q := make([]string, len(ss))
	for i, s := range ss {
		q[i] = quote(s)
	}
	return strings.Join(q, ",")
}

func bools(bs []bool) string {
	if len(bs) == 0 {
		return "-"
	}
	q := make([]string, len(bs))
	for i, b := range bs {
		q[i] = "0"
		if b {
			q[i] = "1"
		}
	}
	return strings.Join(q, ",")
}

func sameList(a, b []string) bool {
	if len(a) != len(b) {
		return false
	}
	for i := range a {
		if a[i] != b[i] {
			return false
		}
	}
	return true
}

// ---- the recording topics controller -----------------------------------------------------------------

type call struct {
	kind string // sub unsub peers pub
	base string // the name the network handed over
	wire string // what the real controller would use on the wire
	data []byte
}

type recorder struct{ calls []call }

func (r *recorder) add(kind, name string, data []byte) {
	r.calls = append(r.calls, call{kind: kind, base: name, wire: commons.GetTopicFullName(name), data: data})
}
func (r *recorder) Subscribe(_ *zap.Logger, name string) error { r.add("sub", name, nil); return nil }
func (r *recorder) Unsubscribe(_ *zap.Logger, name string, _ bool) error {
	r.add("unsub", name, nil)
	return nil
}
func (r *recorder) Peers(name string) ([]peer.ID, error) { r.add("peers", name, nil); return nil, nil }
func (r *recorder) Topics() []string                     { return nil }
func (r *recorder) Broadcast(name string, data []byte, _ time.Duration) error {
	r.add("pub", name, append([]byte{}, data...))
	return nil
}
func (r *recorder) Close() error { return nil }

func (r *recorder) take(kind string) (bases []string, calls []call) {
	for _, c := range r.calls {
		if c.kind == kind {
			bases = append(bases, c.base)
			calls = append(calls, c)
		}
	}
	return
}

// a signer that returns a chosen 256-byte string (RSA itself is not the subject here)
type fixedSigner struct{ sig []byte }

func (s *fixedSigner) Sign([]byte) ([]byte, error)    { return s.sig, nil }
func (s *fixedSigner) Public() keys.OperatorPublicKey { return nil }

// metrics reporter that tells where validation stopped
type recMetrics struct {
	metricsreporter.MetricsReporter
	passedTopic bool
	outcome     string
	reason      string
}

func (m *recMetrics) reset()                                               { m.passedTopic, m.outcome, m.reason = false, "", "" }
func (m *recMetrics) SSVMessageType(spectypes.MsgType)                     { m.passedTopic = true }
func (m *recMetrics) MessageAccepted(spectypes.BeaconRole, specqbft.Round) { m.outcome = "accept" }
func (m *recMetrics) MessageIgnored(reason string, _ spectypes.BeaconRole, _ specqbft.Round) {
	m.outcome, m.reason = "ignore", reason
}
func (m *recMetrics) MessageRejected(reason string, _ spectypes.BeaconRole, _ specqbft.Round) {
	m.outcome, m.reason = "reject", reason
}

// ---- the system under test ---------------------------------------------------------------------------

type side struct { // one network configuration + validator per envelope mode
	rec       *recorder
	cfg       networkconfig.NetworkConfig
	signer    *fixedSigner
	ods       operatordatastore.OperatorDataStore
	metrics   *recMetrics
	validator validation.MessageValidator
}

// restartHangs: the start / stop / start scenario left a spinning goroutine behind; it is not repeated.
var restartHangs bool

type sut struct {
	out *hx.Out
	// 0: long before the permissionless activation epoch (bare message), 1: long after (envelope),
	// 2: the clock is IN the activation epoch (still bare), 3: in the epoch after it (the first with envelopes)
	sides [4]*side
	all   map[string]bool
}

// frozenNet is a beacon network whose clock stands still in one epoch, for the publisher
// (EstimatedCurrentEpoch) and for the validator (EstimatedSlotAtTime of the reception time) alike.
type frozenNet struct {
	beacon.BeaconNetwork
	epoch phase0.Epoch
}

func (f frozenNet) EstimatedCurrentEpoch() phase0.Epoch { return f.epoch }
func (f frozenNet) EstimatedCurrentSlot() phase0.Slot {
	return f.BeaconNetwork.FirstSlotAtEpoch(f.epoch) + 3
}
func (f frozenNet) EstimatedSlotAtTime(int64) phase0.Slot {
	return f.BeaconNetwork.FirstSlotAtEpoch(f.epoch) + 3
}

// newSide: kind 0 never wraps, 1 always wraps, 2 / 3 stand at the fork boundary.
func newSide(kind int) *side {
	cfg := networkconfig.TestNetwork
	switch kind {
	case 1:
		cfg.PermissionlessActivationEpoch = 0
	case 0:
		cfg.PermissionlessActivationEpoch = ^cfg.PermissionlessActivationEpoch // never
	case 2:
		cfg.Beacon = frozenNet{BeaconNetwork: cfg.Beacon, epoch: cfg.PermissionlessActivationEpoch}
	case 3:
		cfg.Beacon = frozenNet{BeaconNetwork: cfg.Beacon, epoch: cfg.PermissionlessActivationEpoch + 1}
	}
	s := &side{rec: &recorder{}, signer: &fixedSigner{sig: make([]byte, 256)}}
	s.ods = operatordatastore.New(&registrystorage.OperatorData{ID: 1})
	s.cfg = cfg
	s.metrics = &recMetrics{MetricsReporter: metricsreporter.NewNop()}
	s.validator = validation.NewMessageValidator(cfg, validation.WithMetrics(s.metrics))
	return s
}

// freshNet builds a new p2pNetwork in front of the recorder.  One per key: the map of active
// validators inside p2pNetwork (cornelk/hashmap v1.0.8) stops working after about a hundred
// Subscribe/Unsubscribe cycles (GetOrInsert spins forever), which is not what this check is about.
func (sd *side) freshNet() network.P2PNetwork {
	sd.rec.calls = nil
	return p2pv1.VerifNewWithTopicsController(zap.NewNop(), &p2pv1.Config{
		Ctx: context.Background(), Network: sd.cfg, OperatorSigner: sd.signer, OperatorDataStore: sd.ods,
		RequestTimeout: time.Second,
	}, sd.rec)
}

func newSut(out *hx.Out) *sut {
	s := &sut{out: out, all: map[string]bool{}}
	for k := range s.sides {
		s.sides[k] = newSide(k)
	}
	for _, t := range commons.Topics() {
		s.all[t] = true
	}
	return s
}

// guard turns a panic of the code under test into an observation and a monitor report.
func (s *sut) guard(what string) {
	if r := recover(); r != nil {
		s.out.Obs("panic %s", what)
		s.out.ViolF("%s panicked: %v", what, r)
	}
}

// validate sends data on the wire topic through the real validator; true = the topic check passed.
func (s *sut) validate(sd *side, wire string, data []byte) (passed bool, reason string) {
	sd.metrics.reset()
	topic := wire
	pmsg := &pubsub.Message{Message: &pspb.Message{Data: data, Topic: &topic}}
	sd.validator.ValidatePubsubMessage(context.Background(), "", pmsg)
	return sd.metrics.passedTopic, sd.metrics.reason
}

// message of validator pk as the node would broadcast it; the choices are a function of the key so
// that a replayed op line does the same thing
func buildMsg(pk []byte) (*spectypes.SSVMessage, int, uint64, []byte) {
	r := hx.NewRand(18, hex.EncodeToString(pk), 0)
	role := hx.Pick(r, spectypes.BNRoleAttester, spectypes.BNRoleAggregator, spectypes.BNRoleProposer,
		spectypes.BNRoleSyncCommittee, spectypes.BNRoleSyncCommitteeContribution)
	mt := hx.Pick(r, spectypes.SSVConsensusMsgType, spectypes.SSVPartialSignatureMsgType)
	msg := &spectypes.SSVMessage{MsgType: mt, MsgID: spectypes.NewMsgID(networkconfig.TestNetwork.Domain, pk, role), Data: []byte{}}
	opid := hx.Pick(r, uint64(1), 2, 13, 1<<32, ^uint64(0), r.Uint64())
	return msg, r.Intn(4), opid, r.Bytes(256)
}

func (s *sut) commonsPart(pk []byte) (subnet int, ids, full, base []string) {
	subnet = commons.ValidatorSubnet(hex.EncodeToString(pk))
	ids = commons.ValidatorTopicID(pk)
	for _, id := range ids {
		f := commons.GetTopicFullName(id)
		full = append(full, f)
		base = append(base, commons.GetTopicBaseName(f))
	}
	return
}

// keyAny: everything that takes a raw key of any length.
func (s *sut) keyAny(pk []byte) {
	s.out.Op("KEYANY", "%s", hx2(pk))
	defer s.guard("KEYANY")
	subnet, ids, full, base := s.commonsPart(pk)
	sd := s.sides[0]
	net := sd.freshNet()
	_ = net.Subscribe(pk)
	_, _ = net.Peers(pk)
	_ = net.Unsubscribe(zap.NewNop(), pk)
	sub, _ := sd.rec.take("sub")
	uns, _ := sd.rec.take("unsub")
	prs, _ := sd.rec.take("peers")
	adv := commons.ValidatorSubnet(hex.EncodeToString(pk)) // p2p.go:255, replicated
	s.out.Obs("keyany subnet=%d ids=%s full=%s base=%s sub=%s unsub=%s peers=%s adv=%d",
		subnet, quotes(ids), quotes(full), quotes(base), quotes(sub), quotes(uns), quotes(prs), adv)
	s.monitorKey(pk, subnet, ids, base, nil, sub, uns, prs, nil, false)
}

// key: a 48-byte key through every call site.
func (s *sut) key(pk []byte) {
	if len(pk) != 48 {
		s.keyAny(pk)
		return
	}
	s.out.Op("KEY", "%s", hx2(pk))
	defer s.guard("KEY")
	subnet, ids, full, base := s.commonsPart(pk)
	msg, mode, opid, sig := buildMsg(pk)
	sd := s.sides[mode]
	sd.signer.sig = sig
	sd.ods.SetOperatorData(&registrystorage.OperatorData{ID: opid})
	net := sd.freshNet()
	if err := net.Broadcast(msg); err != nil {
		s.out.ViolF("Broadcast failed: %v", err)
	}
	_ = net.Subscribe(pk)
	_, _ = net.Peers(pk)
	_ = net.Unsubscribe(zap.NewNop(), pk)
	pub, pubCalls := sd.rec.take("pub")
	sub, _ := sd.rec.take("sub")
	uns, _ := sd.rec.take("unsub")
	prs, _ := sd.rec.take("peers")
	var accepts []bool
	for _, c := range pubCalls {
		ok, reason := s.validate(sd, c.wire, c.data)
		accepts = append(accepts, ok)
		if ok && reason != validation.ErrEmptyData.Text() {
			s.out.Note("after the topic check validation stopped with %q", reason)
		}
		if !ok && reason != validation.ErrTopicNotFound.Text() {
			s.out.ViolF("what Broadcast published on %s did not reach the validator's topic check: %s", c.wire, reason)
		}
		if mode == 1 || mode == 3 { // the envelope at the real call site
			enc, _ := commons.EncodeNetworkMsg(msg)
			m, o, sg, err := commons.DecodeSignedSSVMessage(c.data)
			if err != nil || !bytes.Equal(m, enc) || o != opid || !bytes.Equal(sg, sig) {
				s.out.ViolF("envelope published by Broadcast does not unwrap to (message, operator id %d, signature): err=%v id=%d", opid, err, o)
			}
		}
	}
	// The validator restarted on a node that has joined subnets of its own (SubscribeRandoms / SubscribeAll mark
	// them in the advertised bitmap): start, stop, start again.  Whatever the bitmap says, after the last start
	// the validator's topic must be subscribed at the topics controller.
	if mode%2 == 0 && !restartHangs {
		net2 := sd.freshNet()
		if mode == 0 {
			_ = net2.SubscribeRandoms(zap.NewNop(), 1+int(opid%128))
		} else {
			_ = net2.SubscribeAll(zap.NewNop())
		}
		done := make(chan struct{})
		go func() {
			defer close(done)
			_ = net2.Subscribe(pk)
			_ = net2.Unsubscribe(zap.NewNop(), pk)
			_ = net2.Subscribe(pk)
		}()
		select {
		case <-done:
		case <-time.After(20 * time.Second):
			// the goroutine cannot be cancelled (it spins); do not start another one in this process
			restartHangs = true
			s.out.ViolF("start / stop / start of validator %s: the second start (p2pNetwork.Subscribe after Unsubscribe of the same key) did not return within 20 s; its topic %v is never subscribed again", hx2(pk), full)
		}
		joined := map[string]bool{}
		for _, c := range sd.rec.calls {
			switch c.kind {
			case "sub":
				joined[c.wire] = true
			case "unsub":
				delete(joined, c.wire)
			}
		}
		for _, f := range full {
			if !joined[f] && !restartHangs {
				s.out.ViolF("after start / stop / start of the validator on a node with joined subnets its topic %s is not subscribed", f)
			}
		}
		sd.rec.calls = nil
		s.out.Count("restart-on-joined-subnets")
	}
	adv := commons.ValidatorSubnet(hex.EncodeToString(pk)) // p2p.go:255, replicated
	s.out.Obs("key subnet=%d ids=%s full=%s base=%s pub=%s sub=%s unsub=%s peers=%s accepts=%s adv=%d",
		subnet, quotes(ids), quotes(full), quotes(base), quotes(pub), quotes(sub), quotes(uns), quotes(prs), bools(accepts), adv)
	s.out.Count(fmt.Sprintf("envelope-mode-%d", mode))
	s.monitorKey(pk, subnet, ids, base, pub, sub, uns, prs, accepts, true)
}

// monitorKey states the property on the observations of one key, without the model.
func (s *sut) monitorKey(pk []byte, subnet int, ids, base, pub, sub, uns, prs []string, accepts []bool, full bool) {
	if full {
		if len(pub) != 1 {
			s.out.ViolF("Broadcast published on %d topics", len(pub))
		}
		if !sameList(pub, sub) {
			s.out.ViolF("publisher uses topic %v, subscriber %v", pub, sub)
		}
		for i, a := range accepts {
			if !a {
				s.out.ViolF("validator refuses the message on the topic it was published on (%s)", pub[i])
			}
		}
	}
	if !sameList(sub, uns) || !sameList(sub, prs) {
		s.out.ViolF("subscribe %v, unsubscribe %v, peers %v differ", sub, uns, prs)
	}
	if !sameList(sub, ids) {
		s.out.ViolF("subscriber uses %v, ValidatorTopicID gives %v", sub, ids)
	}
	if !sameList(base, ids) {
		s.out.ViolF("GetTopicBaseName(GetTopicFullName(x)) = %v for x = %v", base, ids)
	}
	if len(pk) >= 5 {
		if subnet < 0 || subnet >= commons.Subnets() {
			s.out.ViolF("subnet %d outside [0,%d)", subnet, commons.Subnets())
		}
		for _, t := range sub {
			if !s.all[commons.GetTopicFullName(t)] {
				s.out.ViolF("topic %s is not one of commons.Topics()", t)
			}
		}
	} else {
		for _, t := range sub {
			if t != commons.UnknownSubnet {
				s.out.ViolF("short key subscribed to %s", t)
			}
		}
	}
}

// accept: the validator's topic check for the message of pk (48 bytes) arriving on an arbitrary topic.
func (s *sut) accept(pk []byte, topic string) {
	s.out.Op("ACCEPT", "%s %s", hx2(pk), hx2([]byte(topic)))
	defer s.guard("ACCEPT")
	msg, mode, opid, sig := buildMsg(pk)
	sd := s.sides[mode]
	data, _ := commons.EncodeNetworkMsg(msg)
	if mode == 1 || mode == 3 {
		data = commons.EncodeSignedSSVMessage(data, opid, sig)
	}
	ok, reason := s.validate(sd, topic, data)
	if !ok && reason != validation.ErrTopicNotFound.Text() {
		s.out.ViolF("validation stopped before the topic check: %s", reason)
	}
	s.out.Obs("accept %s", bools([]bool{ok}))
	// monitor: among wire names the validator accepts exactly the published one
	ids := commons.ValidatorTopicID(pk)
	for _, t := range commons.Topics() {
		if t == topic {
			want := len(ids) == 1 && commons.GetTopicFullName(ids[0]) == topic
			if ok != want {
				s.out.ViolF("validator accept=%v on %s, the key's topic is %v", ok, topic, ids)
			}
		}
	}
}

func (s *sut) subnetHex(str string) {
	s.out.Op("SUBNETHEX", "%s", hx2([]byte(str)))
	defer s.guard("SUBNETHEX")
	v := commons.ValidatorSubnet(str)
	s.out.Obs("subnet %d", v)
	if v < -1 || v >= commons.Subnets() {
		s.out.ViolF("ValidatorSubnet(%q) = %d", str, v)
	}
}

func (s *sut) base(str string) {
	s.out.Op("BASE", "%s", hx2([]byte(str)))
	defer s.guard("BASE")
	s.out.Obs("base %s", quote(commons.GetTopicBaseName(str)))
}

func (s *sut) printDec(enc []byte) (msg []byte, op uint64, sig []byte, err error) {
	msg, op, sig, err = commons.DecodeSignedSSVMessage(enc)
	if err != nil {
		s.out.Obs("dec err")
	} else {
		s.out.Obs("dec ok %d %s %s", op, hx2(sig), hx2(msg))
	}
	return
}

func (s *sut) enc(op uint64, sig, msg []byte) {
	s.out.Op("ENC", "%d %s %s", op, hx2(sig), hx2(msg))
	defer s.guard("ENC")
	e := commons.EncodeSignedSSVMessage(msg, op, sig)
	s.out.Obs("enc %s", hx2(e))
	m, o, sg, err := s.printDec(e)
	if len(sig) == 256 {
		if err != nil || !bytes.Equal(m, msg) || o != op || !bytes.Equal(sg, sig) {
			s.out.ViolF("unwrap(wrap(msg[%d], %d, sig)) returned err=%v msg[%d] id=%d sigEqual=%v", len(msg), op, err, len(m), o, bytes.Equal(sg, sig))
		}
	}
}

func (s *sut) dec(e []byte) {
	s.out.Op("DEC", "%s", hx2(e))
	defer s.guard("DEC")
	m, o, sg, err := s.printDec(e)
	if err != nil {
		if len(e) >= 256+8 {
			s.out.ViolF("decode refused %d bytes", len(e))
		}
		return
	}
	if len(e) < 256+8 {
		s.out.ViolF("decode accepted %d bytes", len(e))
	} else if !bytes.Equal(commons.EncodeSignedSSVMessage(m, o, sg), e) {
		s.out.ViolF("wrap(unwrap(x)) != x for %d bytes", len(e))
	}
}

func (s *sut) printFrom(str string) (records.Subnets, error) {
	back, err := records.Subnets{}.FromString(str)
	if err != nil {
		s.out.Obs("from err")
	} else {
		s.out.Obs("from ok %s", hx2(back))
	}
	return back, err
}

func (s *sut) toStr(v []byte) {
	s.out.Op("TOSTR", "%s", hx2(v))
	defer s.guard("TOSTR")
	str := records.Subnets(v).String()
	s.out.Obs("str %s", quote(str))
	back, err := s.printFrom(str)
	if len(v) == commons.Subnets() {
		bad := err != nil || len(back) != len(v)
		for i := 0; !bad && i < len(v); i++ {
			if (v[i] > 0) != (back[i] > 0) || back[i] > 1 {
				bad = true
			}
		}
		if bad {
			s.out.ViolF("subnet vector does not survive String/FromString (err=%v, %d entries back)", err, len(back))
		}
	}
}

func (s *sut) fromStr(str string) {
	s.out.Op("FROMSTR", "%s", hx2([]byte(str)))
	defer s.guard("FROMSTR")
	_, _ = s.printFrom(str)
}

// ---- generators --------------------------------------------------------------------------------------

func be5(v uint64) []byte {
	return []byte{byte(v >> 32), byte(v >> 24), byte(v >> 16), byte(v >> 8), byte(v)}
}

var edgePrefixes = []uint64{0, 1, 126, 127, 128, 129, 255, 256, 1<<32 - 1, 1 << 32, 1<<32 + 127, 1 << 39, 1<<39 + 128,
	1<<40 - 129, 1<<40 - 128, 1<<40 - 1, 0x7fffffffff, 0x8000000000, 0x00ffffffff, 0xff00000000, 0x0123456789, 0xabcdefabcd}

// otherTopics: wire names the key's message must not be accepted on, and a few odd strings.
func (s *sut) followUps(r *hx.Rand, pk []byte) {
	ids := commons.ValidatorTopicID(pk)
	sn := commons.ValidatorSubnet(hex.EncodeToString(pk))
	n := commons.Subnets()
	cands := []string{
		commons.GetTopicFullName(commons.SubnetTopicID((sn + 1) % n)),
		commons.GetTopicFullName(commons.SubnetTopicID((sn + n - 1) % n)),
		commons.GetTopicFullName(commons.SubnetTopicID(r.Intn(n))),
		commons.GetTopicFullName(commons.UnknownSubnet),
		ids[0],                                 // the base name without prefix
		commons.GetTopicFullName(ids[0]) + "0", // one more digit
		commons.GetTopicFullName(commons.GetTopicFullName(ids[0])),
		"0" + commons.GetTopicFullName(ids[0]),
		commons.GetTopicFullName("0" + ids[0]),
		commons.GetTopicFullName(ids[0]),
	}
	s.accept(pk, cands[r.Intn(len(cands))])
	s.accept(pk, cands[r.Intn(len(cands))])
}

func genKeys(out *hx.Out, seed uint64, n int) {
	s := newSut(out)
	for c := 0; c < n; c++ {
		r := hx.NewRand(seed, "topics-keys", uint64(c))
		out.Case("keys seed=%d case=%d", seed, c)
		pk := r.Bytes(48)
		switch r.Intn(10) {
		case 0: // boundary prefix, random tail
			copy(pk, be5(edgePrefixes[r.Intn(len(edgePrefixes))]))
		case 1: // residue chosen, high bits random
			copy(pk, be5((r.Uint64()&(1<<40-1))&^127|uint64(r.Intn(128))))
		case 2: // keys differing only beyond byte 5 / only in byte 5
			copy(pk, be5(uint64(r.Intn(256))))
		}
		s.key(pk)
		s.followUps(r, pk)
		out.End()
	}
}

func edge(out *hx.Out) {
	s := newSut(out)
	r := hx.NewRand(1, "topics-edge", 0)
	for _, p := range edgePrefixes {
		for _, fill := range []byte{0x00, 0xff, 0x5a} {
			out.Case("edge prefix=%#x fill=%#x", p, fill)
			pk := bytes.Repeat([]byte{fill}, 48)
			copy(pk, be5(p))
			s.key(pk)
			s.followUps(r, pk)
			out.End()
		}
	}
	// every residue once
	for i := 0; i < commons.Subnets(); i++ {
		out.Case("edge residue=%d", i)
		pk := bytes.Repeat([]byte{0x11}, 48)
		copy(pk, be5(uint64(0x1234567800)|uint64(i)))
		s.key(pk)
		s.followUps(r, pk)
		out.End()
	}
	// malformed lengths
	for _, l := range []int{0, 1, 2, 3, 4, 5, 6, 7, 31, 32, 47, 49, 64, 96} {
		for _, fill := range []byte{0x00, 0xff, 0x80} {
			out.Case("edge length=%d fill=%#x", l, fill)
			s.keyAny(bytes.Repeat([]byte{fill}, l))
			out.End()
		}
	}
}

func genEnvelope(out *hx.Out, seed uint64, n int) {
	s := newSut(out)
	for c := 0; c < n; c++ {
		r := hx.NewRand(seed, "topics-envelope", uint64(c))
		out.Case("envelope seed=%d case=%d", seed, c)
		size := 0
		switch r.Intn(6) {
		case 0:
			size = hx.Pick(r, 0, 1, 7, 8, 9, 255, 256, 257, 263, 264, 265, 4095, 4096)
		case 1:
			size = r.Intn(4097)
		default:
			size = r.Intn(300)
		}
		op := hx.Pick(r, uint64(0), 1, 255, 256, 1<<32-1, 1<<32, 1<<63, ^uint64(0), r.Uint64(), r.Uint64())
		siglen := 256
		if r.Chance(1, 6) {
			siglen = hx.Pick(r, 0, 1, 255, 257, 263, 264, 265, 300, 700)
			out.Count("ENC-odd-signature-size")
		}
		s.enc(op, r.Bytes(siglen), r.Bytes(size))
		// decoding arbitrary input around the minimum size
		dl := hx.Pick(r, 0, 1, 8, 255, 256, 262, 263, 264, 265, 272, 300, r.Intn(600))
		s.dec(r.Bytes(dl))
		out.End()
	}
}

func genSubnets(out *hx.Out, seed uint64, n int) {
	s := newSut(out)
	for c := 0; c < n; c++ {
		r := hx.NewRand(seed, "topics-subnets", uint64(c))
		out.Case("subnets seed=%d case=%d", seed, c)
		l := commons.Subnets()
		if r.Chance(1, 8) {
			l = hx.Pick(r, 0, 1, 7, 8, 9, 127, 129, 136, 200, 256)
			out.Count("TOSTR-odd-length")
		}
		v := make([]byte, l)
		switch r.Intn(6) {
		case 0: // all zero
		case 1:
			for i := range v {
				v[i] = 1
			}
		case 2:
			if l > 0 {
				v[r.Intn(l)] = 1
			}
		case 3: // values other than 0/1
			for i := range v {
				if r.Chance(1, 3) {
					v[i] = byte(hx.Pick(r, 1, 2, 128, 255))
				}
			}
		default:
			for i := range v {
				v[i] = byte(r.Intn(2))
			}
		}
		s.toStr(v)
		// strings as they come from a config file / peer record
		good := hex.EncodeToString(r.Bytes(16))
		strs := []string{good, "0x" + good, strings.ToUpper(good), good[:31], good[:30], good + "ab", "", "0x", "0", "0x0",
			good[:10] + "0x" + good[10:], good[:9] + "0x" + good[9:], good[:7] + "g" + good[8:], good[:8] + " " + good[9:],
			records.ZeroSubnets, records.AllSubnets, "0x0x" + good, string(r.Bytes(8)), good[:12] + "\xe9" + good[13:], "+f" + good[2:]}
		s.fromStr(strs[r.Intn(len(strs))])
		out.End()
	}
}

func genStrings(out *hx.Out, seed uint64, n int) {
	s := newSut(out)
	for c := 0; c < n; c++ {
		r := hx.NewRand(seed, "topics-strings", uint64(c))
		out.Case("strings seed=%d case=%d", seed, c)
		h := hex.EncodeToString(r.Bytes(48))
		hs := []string{h, strings.ToUpper(h), h[:10], h[:9], h[:11], "", "0x" + h, h[:4] + "g" + h[5:], h[:9] + "G" + h[10:], h[:10] + "zz",
			"+" + h, "-" + h, h[:3] + "_" + h[4:], " " + h, "ffffffffff", "FFFFFFFFFF", "0000000000", "000000007f", "0000000080", string(r.Bytes(12))}
		s.subnetHex(hs[r.Intn(len(hs))])
		id := strconv.Itoa(r.Intn(commons.Subnets()))
		bs := []string{"ssv.v2." + id, id, "ssv.v2.ssv.v2." + id, "x" + "ssv.v2." + id, "ssv.v2", "ssv.v2.", "", "ssv.v1." + id, "ssv.v2.unknown",
			id + "ssv.v2.", "ssv.v2" + id, "SSV.V2." + id, "ssv.v2.." + id, "sssv.v2." + id, "ssv.vssv.v2.2." + id, string(r.Bytes(10))}
		s.base(bs[r.Intn(len(bs))])
		pk := r.Bytes(48)
		own := commons.ValidatorTopicID(pk)[0]
		ts := []string{"ssv.v2." + own, own, "ssv.v2.ssv.v2." + own, own + "ssv.v2.", "ssv.v2.0" + own, "ssv.v2." + own + " ", "", "ssv.v2.",
			"ssv.v2." + id, "x.ssv.v2." + own, "ssv.v2.unknown", "ssv.v3." + own}
		s.accept(pk, ts[r.Intn(len(ts))])
		out.End()
	}
}

// ---- replay ------------------------------------------------------------------------------------------

func replay(out *hx.Out, path string) {
	fh, err := os.Open(path)
	if err != nil {
		fmt.Fprintln(os.Stderr, err)
		os.Exit(2)
	}
	defer fh.Close()
	s := newSut(out)
	sc := bufio.NewScanner(fh)
	sc.Buffer(make([]byte, 1<<20), 1<<26)
	for sc.Scan() {
		w := strings.Fields(sc.Text())
		if len(w) == 0 {
			continue
		}
		switch w[0] {
		case "CASE":
			out.Case("replay %s", strings.Join(w[2:], " "))
		case "END":
			out.End()
		case "KEY":
			s.key(unhex(w[1]))
		case "KEYANY":
			s.keyAny(unhex(w[1]))
		case "SUBNETHEX":
			s.subnetHex(string(unhex(w[1])))
		case "ACCEPT":
			s.accept(unhex(w[1]), string(unhex(w[2])))
		case "BASE":
			s.base(string(unhex(w[1])))
		case "ENC":
			op, _ := strconv.ParseUint(w[1], 10, 64)
			s.enc(op, unhex(w[2]), unhex(w[3]))
		case "DEC":
			s.dec(unhex(w[1]))
		case "TOSTR":
			s.toStr(unhex(w[1]))
		case "FROMSTR":
			s.fromStr(string(unhex(w[1])))
		}
	}
}

func main() {
	if len(os.Args) < 2 {
		fmt.Fprintln(os.Stderr, "usage: hx-topics keys|edge|envelope|subnets|strings|replay ...")
		os.Exit(2)
	}
	mode := os.Args[1]
	fs := flag.NewFlagSet(mode, flag.ExitOnError)
	seed := fs.Uint64("seed", 1, "seed")
	n := fs.Int("n", 100, "cases")
	_ = fs.Parse(os.Args[2:])
	out := hx.NewOut()
	defer out.Close()
	switch mode {
	case "keys":
		genKeys(out, *seed, *n)
	case "edge":
		edge(out)
	case "envelope":
		genEnvelope(out, *seed, *n)
	case "subnets":
		genSubnets(out, *seed, *n)
	case "strings":
		genStrings(out, *seed, *n)
	case "replay":
		replay(out, fs.Arg(0))
	default:
		fmt.Fprintln(os.Stderr, "unknown mode", mode)
		os.Exit(2)
	}
}
